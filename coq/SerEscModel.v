(* SerEscModel.v — C04: what the XML serializer writes for a text node / attribute value / CDATA
   section is read back by the model XML reader (XmlParseDefs.v) as the original string.
   Lemmas only; the definitions are in GenSer / SerUtfDefs / SerEscDefs / XmlParseDefs.
   The generated tables are consumed through finite sweeps proved by vm_compute and lifted with
   forallb_forall: a changed table entry re-checks and, if wrong, breaks the proof. *)
From Coq Require Import NArith List Bool Lia ZifyBool ZifyNat ZifyN.
Require Import XV.SerDefs XV.XmlParseDefs.
Import ListNotations.
Local Open Scope N_scope.

(* ---- well-formed input text: Chars of the version, surrogates only in pairs --------------------- *)
Fixpoint wf_text (v11 : bool) (s : list N) : bool :=
  match s with
  | [] => true
  | c :: r => if x_high c then match r with lo :: r' => x_low lo && wf_text v11 r' | [] => false end
              else if x_low c then false else xml_char v11 c && wf_text v11 r
  end.

Lemma wf_text_ind' (v11 : bool) (P : list N -> Prop) :
  P [] ->
  (forall hi lo r, x_high hi = true -> x_low lo = true -> wf_text v11 r = true -> P r ->
                   P (hi :: lo :: r)) ->
  (forall c r, x_high c = false -> x_low c = false -> xml_char v11 c = true ->
               wf_text v11 r = true -> P r -> P (c :: r)) ->
  forall s, wf_text v11 s = true -> P s.
Proof.
  intros H0 Hp Hc s.
  assert (G : forall n s, (length s <= n)%nat -> wf_text v11 s = true -> P s).
  { induction n as [|n IH]; intros [|c r] Hl Hw; try exact H0; cbn [length] in Hl; try lia.
    cbn [wf_text] in Hw. destruct (x_high c) eqn:Eh.
    - destruct r as [|lo r']; [discriminate|]. apply andb_true_iff in Hw. destruct Hw as [Hlo Hw].
      apply Hp; auto. apply IH; auto. cbn [length] in Hl. lia.
    - destruct (x_low c) eqn:El; [discriminate|]. apply andb_true_iff in Hw. destruct Hw as [Hx Hw].
      apply Hc; auto. apply IH; auto. lia. }
  intros Hw. apply (G (length s)); auto.
Qed.

(* ---- small tools --------------------------------------------------------------------------------- *)
Fixpoint leqb (a b : list N) : bool :=
  match a, b with
  | [], [] => true
  | x :: a', y :: b' => (x =? y) && leqb a' b'
  | _, _ => false
  end.

Lemma leqb_eq : forall a b, leqb a b = true -> a = b.
Proof.
  induction a as [|x a IH]; intros [|y b] H; cbn [leqb] in H; try discriminate; auto.
  apply andb_true_iff in H. destruct H as [H1 H2]. apply N.eqb_eq in H1. subst. f_equal. auto.
Qed.

Definition upto (n : N) : list N := map N.of_nat (seq 0 (S (N.to_nat n))).

Lemma upto_in : forall n c, c <= n -> In c (upto n).
Proof.
  intros n c H. unfold upto. apply in_map_iff. exists (N.to_nat c). split.
  - apply N2Nat.id.
  - apply in_seq. lia.
Qed.

Lemma sweep : forall (P : N -> bool) n, forallb P (upto n) = true -> forall c, c <= n -> P c = true.
Proof. intros P n H c Hc. rewrite forallb_forall in H. apply H. apply upto_in. exact Hc. Qed.

Lemma payload_app : forall a b,
  payload (a ++ b) =
  match payload a with
  | Ok x => match payload b with Ok y => Ok (x ++ y) | Oob => Oob | Thrown c => Thrown c end
  | Oob => Oob
  | Thrown c => Thrown c
  end.
Proof.
  induction a as [|it a IH]; intros b.
  - cbn [app payload]. destruct (payload b); reflexivity.
  - destruct it; cbn [app payload]; rewrite ?IH;
      destruct (payload a); destruct (payload b); try reflexivity; rewrite app_assoc; reflexivity.
Qed.

Lemma payload_u16_unit : forall c, payload (u16_unit c) = Ok [c].
Proof. reflexivity. Qed.

Lemma payload_u16_block : forall xs, payload (u16_block xs) = Ok xs.
Proof.
  intros xs. unfold u16_block. destruct (kbuf_utf16 <? len xs); cbn [payload]; rewrite app_nil_r; reflexivity.
Qed.

(* ---- decimal numbers ------------------------------------------------------------------------------ *)
Definition dval (l : list N) : N := fold_right (fun d a => a * 10 + (d - 48)) 0 l.

Lemma digits_rev_spec : forall fuel n, n < 10 ^ N.of_nat (S fuel) ->
  dval (digits_rev (S fuel) n) = n /\ forallb is_digit (digits_rev (S fuel) n) = true /\
  digits_rev (S fuel) n <> [].
Proof.
  induction fuel as [|f IH]; intros n Hn.
  - change (10 ^ N.of_nat 1) with 10 in Hn. cbn [digits_rev].
    destruct (n <? 10) eqn:E; [|lia]. cbn [dval fold_right forallb]. unfold is_digit, x_in.
    repeat split; try lia. discriminate.
  - remember (S f) as f1. cbn [digits_rev]. destruct (n <? 10) eqn:E.
    + cbn [dval fold_right forallb]. unfold is_digit, x_in. repeat split; try lia. discriminate.
    + assert (Hd : n / 10 < 10 ^ N.of_nat f1).
      { apply N.div_lt_upper_bound; [lia|]. rewrite <- N.pow_succ_r'.
        replace (N.succ (N.of_nat f1)) with (N.of_nat (S f1)) by lia. exact Hn. }
      subst f1. destruct (IH _ Hd) as (H1 & H2 & H3). cbn [dval fold_right forallb].
      fold (dval (digits_rev (S f) (n / 10))). rewrite H1, H2.
      assert (Hm : n mod 10 < 10) by (apply N.mod_lt; lia).
      pose proof (N.div_mod n 10 ltac:(lia)) as Hdm.
      unfold is_digit, x_in. repeat split; try lia. discriminate.
Qed.

Lemma parse_digits_app : forall ds acc rest, forallb is_digit ds = true ->
  parse_digits acc (ds ++ rest) = parse_digits (fold_left (fun a d => a * 10 + (d - 48)) ds acc) rest.
Proof.
  induction ds as [|d ds IH]; intros acc rest H; [reflexivity|].
  cbn [forallb] in H. apply andb_true_iff in H. destruct H as [H1 H2].
  cbn [app parse_digits fold_left]. rewrite H1. apply IH. exact H2.
Qed.

Lemma decimal_spec : forall n, n < 10 ^ 20 ->
  forallb is_digit (decimal n) = true /\ decimal n <> [] /\
  forall rest, parse_digits 0 (decimal n ++ 59 :: rest) = (n, 59 :: rest).
Proof.
  intros n Hn. destruct (digits_rev_spec 19 n Hn) as (H1 & H2 & H3). unfold decimal.
  assert (Hf : forallb is_digit (rev (digits_rev 20 n)) = true).
  { apply forallb_forall. intros x Hx. apply in_rev in Hx. rewrite forallb_forall in H2. auto. }
  split; [exact Hf|]. split.
  - intros E. apply H3. rewrite <- (rev_involutive (digits_rev 20 n)), E. reflexivity.
  - intros rest. rewrite parse_digits_app by exact Hf. rewrite <- fold_left_rev_right, rev_involutive.
    fold (dval (digits_rev 20 n)). rewrite H1. reflexivity.
Qed.

(* ---- the reader on one escaped character ----------------------------------------------------------- *)
(* units that the escaping never writes literally *)
Definition okunit (v11 : bool) (b : N) : bool :=
  negb (b =? 13) && negb (b =? 62) && negb (v11 && ((b =? 133) || (b =? 8232))).

Lemma eol_norm_id : forall v11 bs, forallb (okunit v11) bs = true -> eol_norm v11 bs = bs.
Proof.
  induction bs as [|c r IH]; intros H; [reflexivity|].
  cbn [forallb] in H. apply andb_true_iff in H. destruct H as [H1 H2].
  cbn [eol_norm]. unfold okunit in H1.
  destruct (c =? 13) eqn:E1; [cbn in H1; lia|].
  destruct (v11 && ((c =? 133) || (c =? 8232))) eqn:E2; [rewrite andb_false_r in H1; discriminate|].
  rewrite IH; auto.
Qed.

Lemma no_close : forall v11 l, forallb (okunit v11) l = true -> starts_with [93; 93; 62] l = None.
Proof.
  intros v11 l H. destruct l as [|a [|b [|c l]]]; cbn [starts_with]; try reflexivity;
    try (destruct (93 =? a); reflexivity).
  - destruct (93 =? a); [|reflexivity]. destruct (93 =? b); reflexivity.
  - destruct (93 =? a); [|reflexivity]. destruct (93 =? b); [|reflexivity].
    destruct (62 =? c) eqn:E; [|reflexivity]. cbn [forallb] in H. unfold okunit in H. lia.
Qed.

Lemma digits_ok : forall v11 ds, forallb is_digit ds = true -> forallb (okunit v11) ds = true.
Proof.
  intros v11 ds H. apply forallb_forall. intros x Hx. rewrite forallb_forall in H. specialize (H x Hx).
  unfold is_digit, x_in in H. unfold okunit. destruct v11; lia.
Qed.

Definition lit_content (v11 : bool) (c : N) : bool :=
  negb (c =? 38) && negb (c =? 60) && okunit v11 c && negb (x_high c) && negb (x_low c)
  && literal_ok v11 c.

Definition lit_attr (v11 : bool) (c : N) : bool :=
  lit_content v11 c && negb (c =? 34) && negb (c =? 9) && negb (c =? 10).

Definition is_ent (c : N) : bool := (c =? 60) || (c =? 62) || (c =? 38) || (c =? 34).
Definition ent_of (c : N) : list N :=
  if c =? 60 then [38; 108; 116; 59]
  else if c =? 62 then [38; 103; 116; 59]
  else if c =? 38 then [38; 97; 109; 112; 59]
  else [38; 113; 117; 111; 116; 59].

(* the three ways a character is written *)
Definition shape (lit : bool -> N -> bool) (v11 : bool) (c : N) (e : list N) : bool :=
  (leqb e [c] && lit v11 c) || (is_ent c && leqb e (ent_of c))
  || (leqb e (charref c) && xml_char v11 c && (c <? 65536)).

Lemma shape_cases : forall lit v11 c e, shape lit v11 c e = true ->
  (e = [c] /\ lit v11 c = true) \/ (is_ent c = true /\ e = ent_of c) \/
  (e = charref c /\ xml_char v11 c = true /\ c < 65536).
Proof.
  intros lit v11 c e H. unfold shape in H. apply orb_true_iff in H. destruct H as [H|H].
  - apply orb_true_iff in H. destruct H as [H|H]; apply andb_true_iff in H; destruct H as [H1 H2].
    + left. split; [apply leqb_eq; exact H1 | exact H2].
    + right. left. split; [exact H1 | apply leqb_eq; exact H2].
  - apply andb_true_iff in H. destruct H as [H H3]. apply andb_true_iff in H. destruct H as [H1 H2].
    right. right. split; [apply leqb_eq; exact H1|]. split; [exact H2 | lia].
Qed.

Lemma xml_char_bound : forall v11 c, xml_char v11 c = true -> c < 10 ^ 20.
Proof.
  intros v11 c H. assert (c <= 1114111). { unfold xml_char, x_in in H. destruct v11; lia. }
  assert (1114111 < 10 ^ 20) by reflexivity. lia.
Qed.

(* a decimal character reference of a Char below 65536, after '&' *)
Lemma parse_ref_charref : forall v11 c rest, xml_char v11 c = true ->
  parse_ref v11 (35 :: decimal c ++ 59 :: rest) = Some (units_of_cp c, rest).
Proof.
  intros v11 c rest Hx. destruct (decimal_spec c (xml_char_bound _ _ Hx)) as (Hd & Hne & Hp).
  specialize (Hp rest). unfold parse_ref. change (35 =? 35) with true. cbv iota.
  destruct (decimal c) as [|d ds] eqn:E; [congruence|]. cbn [app] in *.
  cbn [forallb] in Hd. apply andb_true_iff in Hd. destruct Hd as [Hd1 Hd2].
  assert (E120 : (d =? 120) = false). { unfold is_digit, x_in in Hd1. lia. }
  rewrite E120, Hd1, Hp. unfold finish_ref. rewrite Hx. reflexivity.
Qed.

Lemma shape_okunits : forall lit v11 c e,
  (forall c, lit v11 c = true -> okunit v11 c = true) ->
  shape lit v11 c e = true -> forallb (okunit v11) e = true.
Proof.
  intros lit v11 c e Hl H. apply shape_cases in H. destruct H as [[-> H]|[[H ->]|[-> [H1 H2]]]].
  - cbn [forallb]. rewrite (Hl _ H). reflexivity.
  - unfold ent_of. destruct (c =? 60); [destruct v11; reflexivity|].
    destruct (c =? 62); [destruct v11; reflexivity|]. destruct (c =? 38); destruct v11; reflexivity.
  - destruct (decimal_spec c (xml_char_bound _ _ H1)) as (Hd & _ & _). unfold charref.
    cbn [forallb]. rewrite forallb_app. rewrite (digits_ok v11 _ Hd).
    destruct v11; reflexivity.
Qed.

Lemma lit_content_ok : forall v11 c, lit_content v11 c = true -> okunit v11 c = true.
Proof. intros v11 c H. unfold lit_content in H. lia. Qed.
Lemma lit_attr_ok : forall v11 c, lit_attr v11 c = true -> okunit v11 c = true.
Proof. intros v11 c H. unfold lit_attr, lit_content in H. lia. Qed.

Lemma scan_content_shape : forall v11 c e rest f,
  shape lit_content v11 c e = true -> forallb (okunit v11) rest = true ->
  scan_content v11 (S f) false (e ++ rest) = option_map (app [c]) (scan_content v11 f false rest).
Proof.
  intros v11 c e rest f H Hr. pose proof (shape_okunits _ _ _ _ (lit_content_ok v11) H) as Hok.
  apply shape_cases in H. destruct H as [[-> H]|[[H ->]|[-> [H1 H2]]]].
  - assert (Hc : starts_with [93; 93; 62] (c :: rest) = None).
    { apply (no_close v11). cbn [forallb app] in *. rewrite Hr. rewrite andb_true_r in Hok. rewrite Hok. reflexivity. }
    cbn [app scan_content]. rewrite Hc. unfold lit_content in H.
    destruct (c =? 38) eqn:E1; [cbn in H; discriminate|].
    destruct (c =? 60) eqn:E2; [cbn in H; discriminate|].
    destruct (x_high c) eqn:E3; [rewrite ?andb_false_r in H; cbn in H; discriminate|].
    destruct (x_low c) eqn:E4; [rewrite ?andb_false_r in H; cbn in H; discriminate|].
    destruct (literal_ok v11 c) eqn:E5; [|rewrite ?andb_false_r in H; discriminate].
    destruct (scan_content v11 f false rest); reflexivity.
  - unfold is_ent in H. unfold ent_of.
    destruct (c =? 60) eqn:E1; [apply N.eqb_eq in E1; subst c; cbn; destruct (scan_content v11 f false rest); reflexivity|].
    destruct (c =? 62) eqn:E2; [apply N.eqb_eq in E2; subst c; cbn; destruct (scan_content v11 f false rest); reflexivity|].
    destruct (c =? 38) eqn:E3; [apply N.eqb_eq in E3; subst c; cbn; destruct (scan_content v11 f false rest); reflexivity|].
    destruct (c =? 34) eqn:E4; [apply N.eqb_eq in E4; subst c; cbn; destruct (scan_content v11 f false rest); reflexivity|].
    discriminate.
  - unfold charref. cbn [app scan_content]. change (38 =? 38) with true. cbv iota.
    rewrite <- app_assoc. cbn [app]. rewrite parse_ref_charref by exact H1.
    unfold units_of_cp. destruct (c <? 65536) eqn:E; [|lia]. reflexivity.
Qed.

Lemma scan_attr_shape : forall v11 c e rest f,
  shape lit_attr v11 c e = true ->
  scan_attr v11 (S f) (e ++ rest) = option_map (app [c]) (scan_attr v11 f rest).
Proof.
  intros v11 c e rest f H.
  apply shape_cases in H. destruct H as [[-> H]|[[H ->]|[-> [H1 H2]]]].
  - cbn [app scan_attr]. unfold lit_attr, lit_content in H.
    destruct (c =? 38) eqn:E1; [cbn in H; discriminate|].
    destruct (c =? 60) eqn:E2; [cbn in H; discriminate|].
    destruct (c =? 34) eqn:E6; [rewrite ?andb_false_r in H; cbn in H; discriminate|].
    destruct (c =? 9) eqn:E7; [rewrite ?andb_false_r in H; cbn in H; discriminate|].
    destruct (c =? 10) eqn:E8; [rewrite ?andb_false_r in H; cbn in H; discriminate|].
    destruct (c =? 13) eqn:E9; [unfold okunit in H; lia|].
    destruct (x_high c) eqn:E3; [cbn in H; rewrite ?andb_false_r in H; cbn in H; discriminate|].
    destruct (x_low c) eqn:E4; [cbn in H; rewrite ?andb_false_r in H; cbn in H; discriminate|].
    destruct (literal_ok v11 c) eqn:E5; [|cbn in H; rewrite ?andb_false_r in H; discriminate].
    cbn [orb]. cbv iota. destruct (scan_attr v11 f rest); reflexivity.
  - unfold is_ent in H. unfold ent_of.
    destruct (c =? 60) eqn:E1; [apply N.eqb_eq in E1; subst c; cbn; destruct (scan_attr v11 f rest); reflexivity|].
    destruct (c =? 62) eqn:E2; [apply N.eqb_eq in E2; subst c; cbn; destruct (scan_attr v11 f rest); reflexivity|].
    destruct (c =? 38) eqn:E3; [apply N.eqb_eq in E3; subst c; cbn; destruct (scan_attr v11 f rest); reflexivity|].
    destruct (c =? 34) eqn:E4; [apply N.eqb_eq in E4; subst c; cbn; destruct (scan_attr v11 f rest); reflexivity|].
    discriminate.
  - unfold charref. cbn [app scan_attr]. change (38 =? 38) with true. cbv iota.
    rewrite <- app_assoc. cbn [app]. rewrite parse_ref_charref by exact H1.
    unfold units_of_cp. destruct (c <? 65536) eqn:E; [|lia]. reflexivity.
Qed.

(* a surrogate pair, literally *)
Lemma scan_content_pair : forall v11 hi lo rest f, x_high hi = true -> x_low lo = true ->
  scan_content v11 (S f) false (hi :: lo :: rest) =
  option_map (fun t => hi :: lo :: t) (scan_content v11 f false rest).
Proof.
  intros v11 hi lo rest f Hh Hl. cbn [scan_content starts_with]. rewrite Hh, Hl.
  unfold x_high, x_in in Hh.
  destruct (hi =? 38) eqn:E1; [lia|]. destruct (hi =? 60) eqn:E2; [lia|].
  destruct (93 =? hi) eqn:E3; [lia|]. reflexivity.
Qed.

Lemma scan_attr_pair : forall v11 hi lo rest f, x_high hi = true -> x_low lo = true ->
  scan_attr v11 (S f) (hi :: lo :: rest) = option_map (fun t => hi :: lo :: t) (scan_attr v11 f rest).
Proof.
  intros v11 hi lo rest f Hh Hl. cbn [scan_attr]. rewrite Hh, Hl.
  unfold x_high, x_in in Hh.
  destruct (hi =? 38) eqn:E1; [lia|]. destruct (hi =? 60) eqn:E2; [lia|].
  destruct (hi =? 34) eqn:E3; [lia|]. destruct (hi =? 9) eqn:E4; [lia|].
  destruct (hi =? 10) eqn:E5; [lia|]. destruct (hi =? 13) eqn:E6; [lia|]. reflexivity.
Qed.

(* ---- the UTF-16 writer: one step of the escaping loops ------------------------------------------ *)
Definition cs (v11 : bool) (c : N) : list item := fst (content_step fam_utf16 v11 c []).
Definition ats (v11 : bool) (c : N) : list item := fst (attr_step fam_utf16 v11 c []).

Lemma content_step_16 : forall v11 c r, content_step fam_utf16 v11 c r = (cs v11 c, false).
Proof.
  intros v11 c r. unfold cs, content_step, normalized_big. cbn [f_at fam_utf16].
  destruct (p_range v11 c); [destruct (v11 && (c =? 8232)); reflexivity|].
  destruct (negb (p_content v11 c)); reflexivity.
Qed.

Lemma attr_step_16 : forall v11 c r, attr_step fam_utf16 v11 c r = (ats v11 c, false).
Proof.
  intros v11 c r. unfold ats, attr_step, normalized_big. cbn [f_at fam_utf16].
  destruct (p_range v11 c); [destruct (v11 && (c =? 8232)); reflexivity|].
  destruct (negb (p_attribute v11 c)); reflexivity.
Qed.

Lemma write_content_cons : forall v11 c r,
  write_content fam_utf16 v11 (c :: r) = cs v11 c ++ write_content fam_utf16 v11 r.
Proof. intros. unfold write_content. cbn [char_loop]. rewrite content_step_16. reflexivity. Qed.

Lemma write_attr_cons : forall v11 c r,
  write_attr_string fam_utf16 v11 (c :: r) = ats v11 c ++ write_attr_string fam_utf16 v11 r.
Proof. intros. unfold write_attr_string. cbn [char_loop]. rewrite attr_step_16. reflexivity. Qed.

(* sweeps over the generated tables *)
Definition res_shape (lit : bool -> N -> bool) (v11 : bool) (c : N) (r : res (list N)) : bool :=
  match r with Ok e => shape lit v11 c e | _ => false end.

Definition chk_content (v11 : bool) (c : N) : bool :=
  p_range v11 c || negb (xml_char v11 c) || res_shape lit_content v11 c (payload (cs v11 c)).
Definition chk_attr (v11 : bool) (c : N) : bool :=
  p_range v11 c || negb (xml_char v11 c) || res_shape lit_attr v11 c (payload (ats v11 c)).

Lemma sweep_content : forall v11, forallb (chk_content v11) (upto (sp_last v11)) = true.
Proof. intros [|]; vm_compute; reflexivity. Qed.
Lemma sweep_attr : forall v11, forallb (chk_attr v11) (upto (sp_last v11)) = true.
Proof. intros [|]; vm_compute; reflexivity. Qed.

Lemma lsep_content : res_shape lit_content true 8232 (payload (cs true 8232)) = true.
Proof. vm_compute. reflexivity. Qed.
Lemma lsep_attr : res_shape lit_attr true 8232 (payload (ats true 8232)) = true.
Proof. vm_compute. reflexivity. Qed.

(* above the table: literally, except U+2028 in 1.1 *)
Lemma cs_high : forall v11 c, p_range v11 c = true -> (v11 && (c =? 8232)) = false ->
  payload (cs v11 c) = Ok [c].
Proof.
  intros v11 c H1 H2. unfold cs, content_step, normalized_big. rewrite H1, H2. reflexivity.
Qed.
Lemma ats_high : forall v11 c, p_range v11 c = true -> (v11 && (c =? 8232)) = false ->
  payload (ats v11 c) = Ok [c].
Proof.
  intros v11 c H1 H2. unfold ats, attr_step, normalized_big. rewrite H1, H2. reflexivity.
Qed.

Lemma high_lit : forall v11 c, p_range v11 c = true -> (v11 && (c =? 8232)) = false ->
  x_high c = false -> x_low c = false -> xml_char v11 c = true -> lit_attr v11 c = true.
Proof.
  intros v11 c H1 H2 H3 H4 H5.
  unfold lit_attr, lit_content, okunit, literal_ok, restricted_char, xml_char, x_high, x_low, x_in,
    p_range, sp_last, last_special_1_0, last_special_1_1 in *.
  destruct v11; lia.
Qed.

Lemma lit_attr_content : forall v11 c, lit_attr v11 c = true -> lit_content v11 c = true.
Proof. intros v11 c H. unfold lit_attr in H. lia. Qed.

Lemma cs_shape : forall v11 c, x_high c = false -> x_low c = false -> xml_char v11 c = true ->
  exists e, payload (cs v11 c) = Ok e /\ shape lit_content v11 c e = true.
Proof.
  intros v11 c Hh Hl Hx. destruct (p_range v11 c) eqn:Er.
  - destruct (v11 && (c =? 8232)) eqn:E8.
    + assert (v11 = true /\ c = 8232) as [-> ->] by lia.
      pose proof lsep_content as H. destruct (payload (cs true 8232)) as [e| |]; try discriminate.
      exists e. split; [reflexivity | exact H].
    + exists [c]. split; [apply cs_high; assumption|]. unfold shape.
      rewrite (lit_attr_content _ _ (high_lit _ _ Er E8 Hh Hl Hx)). cbn [leqb]. rewrite N.eqb_refl. reflexivity.
  - assert (Hle : c <= sp_last v11) by (unfold p_range in Er; lia).
    pose proof (sweep _ _ (sweep_content v11) c Hle) as H. unfold chk_content in H.
    rewrite Er, Hx in H. cbn [negb orb] in H.
    destruct (payload (cs v11 c)) as [e| |]; try discriminate. exists e. split; [reflexivity | exact H].
Qed.

Lemma ats_shape : forall v11 c, x_high c = false -> x_low c = false -> xml_char v11 c = true ->
  exists e, payload (ats v11 c) = Ok e /\ shape lit_attr v11 c e = true.
Proof.
  intros v11 c Hh Hl Hx. destruct (p_range v11 c) eqn:Er.
  - destruct (v11 && (c =? 8232)) eqn:E8.
    + assert (v11 = true /\ c = 8232) as [-> ->] by lia.
      pose proof lsep_attr as H. destruct (payload (ats true 8232)) as [e| |]; try discriminate.
      exists e. split; [reflexivity | exact H].
    + exists [c]. split; [apply ats_high; assumption|]. unfold shape.
      rewrite (high_lit _ _ Er E8 Hh Hl Hx). cbn [leqb]. rewrite N.eqb_refl. reflexivity.
  - assert (Hle : c <= sp_last v11) by (unfold p_range in Er; lia).
    pose proof (sweep _ _ (sweep_attr v11) c Hle) as H. unfold chk_attr in H.
    rewrite Er, Hx in H. cbn [negb orb] in H.
    destruct (payload (ats v11 c)) as [e| |]; try discriminate. exists e. split; [reflexivity | exact H].
Qed.

Lemma sur_high : forall v11 c, x_high c = true \/ x_low c = true ->
  p_range v11 c = true /\ (v11 && (c =? 8232)) = false /\ okunit v11 c = true.
Proof.
  intros v11 c H.
  unfold x_high, x_low, x_in, okunit, p_range, sp_last, last_special_1_0, last_special_1_1 in *.
  destruct v11; lia.
Qed.

(* ---- 1. text nodes ------------------------------------------------------------------------------------ *)
Lemma content_main : forall v11 s, wf_text v11 s = true ->
  exists bs, payload (write_content fam_utf16 v11 s) = Ok bs /\ forallb (okunit v11) bs = true /\
             forall f, (length bs < f)%nat -> scan_content v11 f false bs = Some s.
Proof.
  intros v11. apply wf_text_ind'.
  - exists []. repeat split; try reflexivity. intros [|f] Hf; [cbn in Hf; lia | reflexivity].
  - intros hi lo r Hh Hl Hw (bs & Hp & Hok & Hs).
    destruct (sur_high v11 hi (or_introl Hh)) as (A1 & A2 & A3).
    destruct (sur_high v11 lo (or_intror Hl)) as (B1 & B2 & B3).
    exists (hi :: lo :: bs). rewrite !write_content_cons, !payload_app.
    rewrite (cs_high _ _ A1 A2), (cs_high _ _ B1 B2), Hp. repeat split.
    + cbn [forallb]. rewrite A3, B3, Hok. reflexivity.
    + intros [|f] Hf; cbn [length] in Hf; [clear -Hf; lia|]. rewrite scan_content_pair by assumption.
      rewrite Hs by (clear -Hf; lia). reflexivity.
  - intros c r Hh Hl Hx Hw (bs & Hp & Hok & Hs).
    destruct (cs_shape v11 c Hh Hl Hx) as (e & He & Hsh).
    exists (e ++ bs). rewrite write_content_cons, payload_app, He, Hp. repeat split.
    + rewrite forallb_app, Hok, (shape_okunits _ _ _ _ (lit_content_ok v11) Hsh). reflexivity.
    + intros [|f] Hf; [clear -Hf; lia|]. rewrite (scan_content_shape _ _ _ _ _ Hsh Hok).
      rewrite Hs; [reflexivity|]. rewrite app_length in Hf.
      assert (length e <> 0)%nat.
      { apply shape_cases in Hsh. destruct Hsh as [[-> _]|[[_ ->]|[-> _]]]; try discriminate.
        unfold ent_of. destruct (c =? 60), (c =? 62), (c =? 38); discriminate. }
      lia.
Qed.

Theorem content_roundtrip : forall v11 s, wf_text v11 s = true ->
  exists bs, payload (write_content fam_utf16 v11 s) = Ok bs /\ parse_content v11 bs = Some s.
Proof.
  intros v11 s Hw. destruct (content_main v11 s Hw) as (bs & Hp & Hok & Hs).
  exists bs. split; [exact Hp|]. unfold parse_content. rewrite (eol_norm_id _ _ Hok). apply Hs. lia.
Qed.

(* ---- 2. attribute values ------------------------------------------------------------------------------ *)
Lemma attr_main : forall v11 s, wf_text v11 s = true ->
  exists bs, payload (write_attr_string fam_utf16 v11 s) = Ok bs /\ forallb (okunit v11) bs = true /\
             forall f, (length bs < f)%nat -> scan_attr v11 f bs = Some s.
Proof.
  intros v11. apply wf_text_ind'.
  - exists []. repeat split; try reflexivity. intros [|f] Hf; [cbn in Hf; lia | reflexivity].
  - intros hi lo r Hh Hl Hw (bs & Hp & Hok & Hs).
    destruct (sur_high v11 hi (or_introl Hh)) as (A1 & A2 & A3).
    destruct (sur_high v11 lo (or_intror Hl)) as (B1 & B2 & B3).
    exists (hi :: lo :: bs). rewrite !write_attr_cons, !payload_app.
    rewrite (ats_high _ _ A1 A2), (ats_high _ _ B1 B2), Hp. repeat split.
    + cbn [forallb]. rewrite A3, B3, Hok. reflexivity.
    + intros [|f] Hf; cbn [length] in Hf; [clear -Hf; lia|]. rewrite scan_attr_pair by assumption.
      rewrite Hs by (clear -Hf; lia). reflexivity.
  - intros c r Hh Hl Hx Hw (bs & Hp & Hok & Hs).
    destruct (ats_shape v11 c Hh Hl Hx) as (e & He & Hsh).
    exists (e ++ bs). rewrite write_attr_cons, payload_app, He, Hp. repeat split.
    + rewrite forallb_app, Hok, (shape_okunits _ _ _ _ (lit_attr_ok v11) Hsh). reflexivity.
    + intros [|f] Hf; [clear -Hf; lia|]. rewrite (scan_attr_shape _ _ _ _ _ Hsh).
      rewrite Hs; [reflexivity|]. rewrite app_length in Hf.
      assert (length e <> 0)%nat.
      { apply shape_cases in Hsh. destruct Hsh as [[-> _]|[[_ ->]|[-> _]]]; try discriminate.
        unfold ent_of. destruct (c =? 60), (c =? 62), (c =? 38); discriminate. }
      lia.
Qed.

Theorem attr_roundtrip : forall v11 s, wf_text v11 s = true ->
  exists bs, payload (write_attr_string fam_utf16 v11 s) = Ok bs /\ parse_attr v11 bs = Some s.
Proof.
  intros v11 s Hw. destruct (attr_main v11 s Hw) as (bs & Hp & Hok & Hs).
  exists bs. split; [exact Hp|]. unfold parse_attr. rewrite (eol_norm_id _ _ Hok). apply Hs. lia.
Qed.

(* ---- 3. forbidden characters ---------------------------------------------------------------------- *)
Definition chk_forb (v11 : bool) (c : N) : bool :=
  match payload (cs v11 c) with
  | Ok _ => negb (p_forbidden v11 c)
  | Thrown k => k =? err_forbidden
  | Oob => false
  end.

Lemma sweep_forb : forall v11, forallb (chk_forb v11) (upto (sp_last v11)) = true.
Proof. intros [|]; vm_compute; reflexivity. Qed.

Lemma chk_forb_all : forall v11 c, chk_forb v11 c = true.
Proof.
  intros v11 c. destruct (p_range v11 c) eqn:Er.
  - unfold chk_forb. assert (Hf : p_forbidden v11 c = false).
    { unfold p_forbidden. unfold p_range in Er. rewrite Er. reflexivity. }
    rewrite Hf. destruct (v11 && (c =? 8232)) eqn:E8.
    + assert (v11 = true /\ c = 8232) as [-> ->] by lia. vm_compute. reflexivity.
    + rewrite (cs_high _ _ Er E8). reflexivity.
  - apply (sweep _ _ (sweep_forb v11)). unfold p_range in Er. lia.
Qed.

Theorem forbidden_char_fails : forall v11 s, (exists c, In c s /\ p_forbidden v11 c = true) ->
  payload (write_content fam_utf16 v11 s) = Thrown err_forbidden.
Proof.
  intros v11 s. induction s as [|a r IH]; intros (c & Hin & Hf); [destruct Hin|].
  rewrite write_content_cons, payload_app. pose proof (chk_forb_all v11 a) as Ha. unfold chk_forb in Ha.
  destruct (payload (cs v11 a)) as [e| |k]; try discriminate.
  - destruct Hin as [->|Hin]; [rewrite Hf in Ha; discriminate|].
    rewrite IH; [reflexivity|]. exists c. split; assumption.
  - apply N.eqb_eq in Ha. subst k. reflexivity.
Qed.

(* the only exception of the UTF-16 family in content is err_forbidden *)
Theorem content_no_other_exception : forall v11 s,
  match payload (write_content fam_utf16 v11 s) with
  | Ok _ => True | Thrown k => k = err_forbidden | Oob => False
  end.
Proof.
  intros v11 s. induction s as [|a r IH]; [exact I|].
  rewrite write_content_cons, payload_app. pose proof (chk_forb_all v11 a) as Ha. unfold chk_forb in Ha.
  destruct (payload (cs v11 a)) as [e| |k]; try discriminate.
  - destruct (payload (write_content fam_utf16 v11 r)); auto.
  - apply N.eqb_eq in Ha. exact Ha.
Qed.

Lemma sweep_forb_1_0 :
  forallb (fun c => eqb (p_forbidden false c) (negb (xml_char false c))) (upto 127) = true.
Proof. vm_compute. reflexivity. Qed.

Theorem forbidden_iff_not_char_1_0' : forall c, c < 128 -> p_forbidden false c = negb (xml_char false c).
Proof.
  intros c H. apply eqb_prop. apply (sweep (fun c => eqb (p_forbidden false c) (negb (xml_char false c))) 127 sweep_forb_1_0). lia.
Qed.

Theorem forbidden_iff_not_char_1_0 : forall c, c < 128 -> c <> 0 ->
  p_forbidden false c = negb (xml_char false c).
Proof. intros c H _. apply forbidden_iff_not_char_1_0'. exact H. Qed.

Lemma sweep_forb_1_1 : forallb (fun c => negb (p_forbidden true c)) (upto (sp_last true)) = true.
Proof. vm_compute. reflexivity. Qed.

Theorem no_forbidden_1_1 : forall c, p_forbidden true c = false.
Proof.
  intros c. destruct (sp_last true <? c) eqn:E.
  - unfold p_forbidden. rewrite E. reflexivity.
  - apply negb_true_iff. apply (sweep (fun c => negb (p_forbidden true c)) _ sweep_forb_1_1). lia.
Qed.
