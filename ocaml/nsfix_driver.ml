(* model side of the C14 correspondence.
   input line:  <id> <op>;<op>;...        (no blanks inside the program)
     atom  : x (xmlns) | m (xml) | X<n> (starts with xml) | U<n> | G<n> (ns<n>)
     pfx   : - | atom            qname : pfx,atom         ouri : - | <n>
     op    : T | E | A|qname|ouri|ouri|v | SA|<as A> (member of an attribute set) | M|qname|ouri|ouri|ouri|pdef
           | L|qname|pfx=uri+...|uri+...|qname=v+...       (empty list: _)
           | LO|<as L>  ...A ops of the attribute sets...  LA|pfx=uri+...|qname=v+...   (LRE with use-attribute-sets)
   output line: <id> <hazards joined by +, or -> <wellformed 0/1> <event> <event> ...
     event : S|qname|requri,reqatom|name=val=requri,reqatom&...   |  E  |  T *)
let atom_of s =
  match s with
  | "x" -> AXmlns | "m" -> AXml
  | _ ->
    let n = n_of_int (int_of_string (String.sub s 1 (String.length s - 1))) in
    (match s.[0] with 'X' -> AXmlish n | 'U' -> AUser n | 'G' -> AGen n | _ -> failwith ("atom " ^ s))
let pfx_of s = if s = "-" then None else Some (atom_of s)
let qname_of s = match String.split_on_char ',' s with [p; l] -> (pfx_of p, atom_of l) | _ -> failwith ("qname " ^ s)
let ouri_of s = if s = "-" then None else Some (n_of_int (int_of_string s))
let list_of s f = if s = "_" || s = "" then [] else List.map f (String.split_on_char '+' s)
let pair_of s = match String.split_on_char '=' s with [a; b] -> (a, b) | _ -> failwith ("pair " ^ s)
let op_of s =
  match String.split_on_char '|' s with
  | ["T"] -> OText
  | ["E"] -> OEnd
  | ["A"; q; ns; sns; v] -> OAttr (qname_of q, ouri_of ns, ouri_of sns, n_of_int (int_of_string v))
  | ["SA"; q; ns; sns; v] -> OSetAttr (qname_of q, ouri_of ns, ouri_of sns, n_of_int (int_of_string v))
  | ["M"; q; ns; sns; sdef; pdef] -> OElem (qname_of q, ouri_of ns, ouri_of sns, ouri_of sdef, n_of_int (int_of_string pdef))
  | ["L"; q; ins; ex; ats] ->
      OLre (qname_of q,
            list_of ins (fun x -> let (a, b) = pair_of x in (pfx_of a, n_of_int (int_of_string b))),
            list_of ex (fun x -> n_of_int (int_of_string x)),
            list_of ats (fun x -> let (a, b) = pair_of x in (qname_of a, n_of_int (int_of_string b))))
  | ["LO"; q; ins; ex; ats] ->
      OLreOpen (qname_of q,
            list_of ins (fun x -> let (a, b) = pair_of x in (pfx_of a, n_of_int (int_of_string b))),
            list_of ex (fun x -> n_of_int (int_of_string x)),
            list_of ats (fun x -> let (a, b) = pair_of x in (qname_of a, n_of_int (int_of_string b))))
  | ["LA"; ins; ats] ->
      OLreAttrs (list_of ins (fun x -> let (a, b) = pair_of x in (pfx_of a, n_of_int (int_of_string b))),
            list_of ats (fun x -> let (a, b) = pair_of x in (qname_of a, n_of_int (int_of_string b))))
  | _ -> failwith ("op " ^ s)
let s_atom = function
  | AXmlns -> "x" | AXml -> "m" | AXmlish n -> "X" ^ string_of_int (int_of_n n)
  | AUser n -> "U" ^ string_of_int (int_of_n n) | AGen n -> "G" ^ string_of_int (int_of_n n)
let s_pfx = function None -> "-" | Some a -> s_atom a
let s_qname (p, l) = s_pfx p ^ "," ^ s_atom l
let s_ename (u, l) = string_of_int (int_of_n u) ^ "," ^ s_atom l
let s_hz = function
  | HK17 -> "K17" | HDeclAttr -> "DeclAttr" | HElemEmptyNs -> "ElemEmptyNs" | HLateLiteral -> "LateLiteral" | HUnsupported -> "Unsupported"
let s_event = function
  | EStart (q, req, attrs) ->
      "S|" ^ s_qname q ^ "|" ^ s_ename req ^ "|" ^
      (if attrs = [] then "_" else String.concat "&" (List.map (fun a ->
         s_qname a.a_name ^ "=" ^ string_of_int (int_of_n a.a_val) ^ "=" ^ s_ename a.a_req) attrs))
  | EEnd -> "E"
  | EText -> "T"
let () =
  let ic = if Array.length Sys.argv > 1 then open_in Sys.argv.(1) else stdin in
  iter_lines ic (fun line ->
    match split_ws line with
    | id :: prog :: _ ->
        (try
          let ops = List.map op_of (String.split_on_char ';' prog) in
          let s = run ops in
          let evs = events s in
          let hs = List.rev s.hz in
          Printf.printf "%s %s %s %s\n" id
            (if hs = [] then "-" else String.concat "+" (List.map s_hz hs))
            (if wellformed evs then "1" else "0")
            (String.concat " " (List.map s_event evs))
        with Failure m -> Printf.printf "%s error %s\n" id m)
    | _ -> ())
