(* MemMapModel.v — XalanMap ledger model: the head node of the free-entries list exists whenever the map has
   any entry (live or free), in every reachable state; hence ~XalanMap never calls the manager's allocate. *)
From Coq Require Import List Arith Bool Lia.
Require Import XV.GenCont XV.GenMem XV.MemDefs XV.MemModel XV.MemMapDefs.
Import ListNotations.

Definition mheads_ok (x : xmap) : Prop :=
  (mentries x <> [] \/ mfrees x <> []) -> mfhead x <> None.

(* the part of the state the invariant talks about *)
Definition mlists (x : xmap) := (mentries x, mfrees x, mfhead x).

Lemma mheads_ok_lists : forall x y, mlists y = mlists x -> mheads_ok x -> mheads_ok y.
Proof. intros x y E H. unfold mheads_ok, mlists in *. inversion E. rewrite H1, H2, H3. exact H. Qed.

Lemma rehash_lists : forall x h h1 x1 ok, rehash x h = (h1, x1, ok) -> mlists x1 = mlists x.
Proof.
  intros x h h1 x1 ok H. unfold rehash in H.
  destruct (vec_insert_end TAG_BUCKET (vempty (mmgr x)) (msize x * map_grow_num / map_grow_den) h) as [[h2 t] [|]];
    [|inversion H; reflexivity].
  destruct (rehash_fill _ _ _ h2) as [[h3 bs] [|]]; inversion H; reflexivity.
Qed.

Lemma get_ehead_some : forall m hd h h1 fh ok, get_ehead m hd h = (h1, fh, ok) ->
  (ok = true -> fh <> None) /\ (hd <> None -> fh = hd /\ h1 = h /\ ok = true) /\ (ok = false -> fh = hd).
Proof.
  intros m hd h h1 fh ok H. unfold get_ehead in H. destruct hd as [x|].
  - inversion H; subst. repeat split; auto; discriminate.
  - destruct (alloc m TAG_MNODE 1 h) as [h2 [id|]]; inversion H; subst; repeat split; auto; try discriminate;
      try (intros X; exfalso; apply X; reflexivity); try (exfalso; match goal with X : None <> None |- _ => apply X; reflexivity end).
Qed.

Lemma create_entry_heads : forall ge x k h h1 x1 ok, mheads_ok x -> create_entry ge x k h = (h1, x1, ok) -> mheads_ok x1.
Proof.
  intros ge x k h h1 x1 ok W H. unfold create_entry in H.
  (* 1. bucket table *)
  destruct (if vsize (mtab x) =? 0 then _ else _) as [[ha xa] oka] eqn:E1.
  assert (La : mlists xa = mlists x).
  { destruct (vsize (mtab x) =? 0); [|inversion E1; reflexivity].
    destruct (vec_insert_end TAG_BUCKET (mtab x) (mminb x) h) as [[hb t] [|]]; inversion E1; reflexivity. }
  destruct oka; cbn [negb] in H; [|inversion H; subst; eapply mheads_ok_lists; eauto].
  (* 2. rehash *)
  destruct (if vsize (mtab xa) <? _ then _ else _) as [[hb xb] okb] eqn:E2.
  assert (Lb : mlists xb = mlists x).
  { destruct (vsize (mtab xa) <? msize xa * map_default_lf_num / map_default_lf_den).
    - apply rehash_lists in E2. congruence.
    - inversion E2; subst; exact La. }
  destruct okb; cbn [negb] in H; [|inversion H; subst; eapply mheads_ok_lists; eauto].
  assert (Wb : mheads_ok xb) by (eapply mheads_ok_lists; eauto).
  clear E1 E2 La Lb W. cbn in H.
  unfold mheads_ok in *. destruct xb as [m sz eh fh es fs tab bks ec thr minb]. cbn in *.
  assert (FH : fs <> [] -> fh <> None) by (intros X; apply Wb; right; exact X).
  assert (FE : es <> [] -> fh <> None) by (intros X; apply Wb; left; exact X).
  clear Wb.
  destruct fs as [|f0 fr0]; cbn in H;
  repeat (match type of H with
          | context [alloc ?a ?b ?c ?d] => destruct (alloc a b c d) as [? [?|]] eqn:?
          | context [get_ehead ?a ?b ?c] =>
              let G := fresh "G" in
              destruct (get_ehead a b c) as [[? ?] [|]] eqn:G; pose proof (get_ehead_some _ _ _ _ _ _ G)
          | context [bucket_push ?a ?b ?c] => destruct (bucket_push a b c) as [[? ?] [|]]
          end; cbn in H);
  inversion H; subst; cbn in *; intros;
  try (apply FH; discriminate);
  intuition (try congruence; try discriminate).
Qed.

Lemma with_ehead_heads : forall x h h1 x1 ok, with_ehead x h = (h1, x1, ok) -> mlists x1 = mlists x.
Proof.
  intros x h h1 x1 ok H. unfold with_ehead in H.
  destruct (get_ehead (mmgr x) (mehead x) h) as [[h2 eh] o]. inversion H; reflexivity.
Qed.

Lemma map_insert_heads : forall ge x k h h1 x1 ok, mheads_ok x -> map_insert ge x k h = (h1, x1, ok) -> mheads_ok x1.
Proof.
  intros ge x k h h1 x1 ok W H. unfold map_insert in H.
  destruct (with_ehead x h) as [[h2 x2] o] eqn:E. apply with_ehead_heads in E.
  assert (W2 : mheads_ok x2) by (eapply mheads_ok_lists; eauto).
  destruct o; [|inversion H; subst; exact W2].
  destruct (map_find x2 k); [inversion H; subst; exact W2|].
  eapply create_entry_heads; eauto.
Qed.

Lemma remove_entry_heads : forall x nd, mheads_ok x -> mheads_ok (remove_entry x nd).
Proof.
  intros x nd W. unfold remove_entry. destruct (find (fun e => enode e =? nd) (mentries x)) as [e|] eqn:F; auto.
  unfold mheads_ok in *. cbn. intros _. apply W. left. intro X. rewrite X in F. discriminate.
Qed.

Lemma remove_entries_heads : forall fuel x, mheads_ok x -> mheads_ok (remove_entries fuel x).
Proof.
  induction fuel as [|f IH]; intros x W; cbn; auto.
  destruct (msize x =? 0); auto. destruct (mentries x) as [|e r] eqn:E; auto.
  apply IH. apply remove_entry_heads. exact W.
Qed.

Lemma remove_entries_fhead : forall fuel x, mfhead (remove_entries fuel x) = mfhead x /\ mmgr (remove_entries fuel x) = mmgr x.
Proof.
  induction fuel as [|f IH]; intros x; cbn; auto.
  destruct (msize x =? 0); auto. destruct (mentries x) as [|e r] eqn:E; auto.
  destruct (IH (remove_entry x (enode e))) as [A B]. rewrite A, B. unfold remove_entry.
  destruct (find _ (mentries x)); auto.
Qed.

Lemma map_erase_heads : forall x k h h1 x1 ok, mheads_ok x -> map_erase x k h = (h1, x1, ok) -> mheads_ok x1.
Proof.
  intros x k h h1 x1 ok W H. unfold map_erase in H.
  destruct (with_ehead x h) as [[h2 x2] o] eqn:E. apply with_ehead_heads in E.
  assert (W2 : mheads_ok x2) by (eapply mheads_ok_lists; eauto).
  destruct o; [|inversion H; subst; exact W2].
  destruct (map_find x2 k) as [nd|]; [|inversion H; subst; exact W2].
  pose proof (remove_entry_heads x2 nd W2) as W3.
  match type of H with (if ?c then _ else _) = _ => destruct c end.
  - match type of H with (match ?e with _ => _ end) = _ => destruct e as [[h3 bs] [|]] end;
      inversion H; subst; (eapply mheads_ok_lists; [|exact W3]); reflexivity.
  - inversion H; subst. eapply mheads_ok_lists; [|exact W3]. reflexivity.
Qed.

Lemma map_clear_heads : forall x, mheads_ok x -> mheads_ok (map_clear x).
Proof.
  intros x W. unfold map_clear. cbn.
  eapply mheads_ok_lists; [|apply (remove_entries_heads (length (mentries x)) x W)]. reflexivity.
Qed.

Lemma copy_fill_heads : forall ge es x h h1 x1 ok, mheads_ok x -> copy_fill ge es x h = (h1, x1, ok) -> mheads_ok x1.
Proof.
  intros ge. induction es as [|e r IH]; intros x h h1 x1 ok W H; cbn in H.
  - inversion H; subst; auto.
  - destruct (map_insert ge x (ekey e) h) as [[h2 x2] o] eqn:E.
    pose proof (map_insert_heads _ _ _ _ _ _ _ W E) as W2.
    destruct o; [eapply IH; eauto | inversion H; subst; exact W2].
Qed.

Lemma map_copy_heads : forall ge gc rhs m h h1 rhs1 r, mheads_ok rhs -> map_copy ge gc rhs m h = (h1, rhs1, r) ->
  mheads_ok rhs1 /\ match r with Some t => mheads_ok t | None => True end.
Proof.
  intros ge gc rhs m h h1 rhs1 r W H. unfold map_copy in H.
  destruct (vec_insert_end TAG_BUCKET (vempty m) _ h) as [[h2 t] [|]]; [|inversion H; subst; auto].
  destruct (with_ehead rhs h2) as [[h3 rhs2] o] eqn:E. apply with_ehead_heads in E.
  assert (W2 : mheads_ok rhs2) by (eapply mheads_ok_lists; eauto).
  destruct o; [|inversion H; subst; auto].
  match type of H with (match ?e with _ => _ end) = _ => destruct e as [[h4 x1] o1] eqn:CF end.
  apply copy_fill_heads in CF; [|unfold mheads_ok; cbn; intros [X|X]; contradiction].
  destruct o1; inversion H; subst; auto.
Qed.


Lemma buckets_dtor_next : forall bs h, next (buckets_dtor bs h) = next h /\ fuse (buckets_dtor bs h) = fuse h.
Proof.
  unfold buckets_dtor. induction bs as [|b r IH]; intros h; cbn; auto.
  destruct (IH (vec_dtor (bvec b) h)) as [A B]. destruct (vdtor_no_alloc (bvec b) h) as [C D]. split; congruence.
Qed.

Lemma members_dtor_next : forall x h, next (members_dtor x h) = next h /\ fuse (members_dtor x h) = fuse h.
Proof.
  intros x h. unfold members_dtor.
  destruct (buckets_dtor_next (mbuckets x) h) as [A B].
  destruct (vdtor_no_alloc (mtab x) (buckets_dtor (mbuckets x) h)) as [C D].
  set (h1 := vec_dtor (mtab x) (buckets_dtor (mbuckets x) h)) in *.
  assert (E1 : next h1 = next h /\ fuse h1 = fuse h) by (split; congruence).
  set (h2 := match mfhead x with Some hd => free (mmgr x) hd (free_all (mmgr x) (map enode (mfrees x)) h1) | None => h1 end).
  assert (E2 : next h2 = next h /\ fuse h2 = fuse h).
  { unfold h2. destruct (mfhead x); auto. cbn.
    destruct (free_all_next (mmgr x) (map enode (mfrees x)) h1) as [P Q]. split; [rewrite P|rewrite Q]; apply E1. }
  destruct (mehead x); auto. cbn.
  destruct (free_all_next (mmgr x) (map enode (mentries x)) h2) as [P Q]. split; [rewrite P|rewrite Q]; apply E2.
Qed.

(* ~XalanMap (with the K8 repair): never calls allocate, always completes *)
Lemma map_dtor_no_alloc : forall x h h1 ok, mheads_ok x -> map_dtor x h = (h1, ok) ->
  ok = true /\ next h1 = next h /\ fuse h1 = fuse h.
Proof.
  intros x h h1 ok W H. unfold map_dtor in H. cbn in H.
  pose proof (remove_entries_heads (length (mentries x)) x W) as W1.
  set (x1 := remove_entries (length (mentries x)) x) in *.
  destruct (negb (vsize (mtab x1) =? 0) && negb (length (mfrees x1) =? 0)) eqn:EN.
  - apply andb_prop in EN. destruct EN as [_ EN]. apply negb_true_iff in EN. apply Nat.eqb_neq in EN.
    assert (FH : mfhead x1 <> None).
    { apply W1. right. intro X. rewrite X in EN. apply EN. reflexivity. }
    unfold get_ehead in H. destruct (mfhead x1) as [hd|] eqn:E; [|contradiction].
    inversion H; subst; clear H. split; auto.
    match goal with |- next (members_dtor ?y ?hh) = _ /\ _ => destruct (members_dtor_next y hh) as [A B] end.
    destruct (free_all_next (mmgr x1) (map evalue (mfrees x1)) h) as [C D]. split; congruence.
  - inversion H; subst. split; auto. apply members_dtor_next.
Qed.

Lemma map_assign_heads : forall ge gc x rhs h h1 x1 rhs1 ok, mheads_ok x -> mheads_ok rhs ->
  map_assign ge gc x rhs h = (h1, x1, rhs1, ok) -> mheads_ok x1 /\ mheads_ok rhs1 /\ (fuse h = fuse h \/ True).
Proof.
  intros ge gc x rhs h h1 x1 rhs1 ok W Wr H. unfold map_assign in H.
  destruct (map_copy ge gc rhs (mmgr x) h) as [[h2 rhs2] [t|]] eqn:MC;
    destruct (map_copy_heads _ _ _ _ _ _ _ _ Wr MC) as [W2 Wt].
  - match type of H with (let '(_, _) := ?e in _) = _ => destruct e as [h3 o] end.
    inversion H; subst. split; [|split; auto]. eapply mheads_ok_lists; [|exact Wt]. reflexivity.
  - inversion H; subst. auto.
Qed.

Definition mheads2 (w : xmap * xmap) : Prop := mheads_ok (fst w) /\ mheads_ok (snd w).

Lemma mheads2_upd : forall i w x1, mheads2 w -> mheads_ok x1 -> mheads2 (upd i w x1).
Proof. intros i [a b] x1 [A B] X. destruct i; split; cbn; auto. Qed.

Lemma mheads2_sel : forall i w, mheads2 w -> mheads_ok (sel i w).
Proof. intros i [a b] [A B]. destruct i; cbn; auto. Qed.

Lemma mstep_heads : forall ge gc op w h h1 w1 ok, mheads2 w -> mstep ge gc op w h = (h1, w1, ok) -> mheads2 w1.
Proof.
  intros ge gc op w h h1 w1 ok W H. destruct op; cbn [mstep] in H.
  - destruct (map_insert ge (sel i w) k h) as [[h2 x2] o] eqn:E. inversion H; subst.
    apply mheads2_upd; auto. eapply map_insert_heads; eauto. apply mheads2_sel; auto.
  - destruct (map_erase (sel i w) k h) as [[h2 x2] o] eqn:E. inversion H; subst.
    apply mheads2_upd; auto. eapply map_erase_heads; eauto. apply mheads2_sel; auto.
  - inversion H; subst. apply mheads2_upd; auto. apply map_clear_heads. apply mheads2_sel; auto.
  - destruct (map_assign ge gc (sel i w) (sel (negb i) w) h) as [[[h2 x2] r2] o] eqn:E. inversion H; subst.
    eapply map_assign_heads in E; try (apply mheads2_sel; auto).
    destruct E as [A [B _]]. apply mheads2_upd; auto. apply mheads2_upd; auto.
  - destruct w as [a b]. destruct W as [A B]. cbn in H. inversion H; subst. split; cbn.
    + eapply mheads_ok_lists; [|exact B]. reflexivity.
    + eapply mheads_ok_lists; [|exact A]. reflexivity.
Qed.

Lemma mrun_heads : forall ge gc ops w h w1 h1, mheads2 w -> run _ _ (mstep ge gc) ops w h = (w1, h1) -> mheads2 w1.
Proof.
  intros ge gc. induction ops as [|op r IH]; intros w h w1 h1 W H; cbn in H.
  - inversion H; subst; auto.
  - destruct (mstep ge gc op w h) as [[h2 w2] ok] eqn:E. eapply IH; [|exact H]. eapply mstep_heads; eauto.
Qed.

Lemma mheads20 : forall minb thr, mheads2 (map0 0 minb thr, map0 1 minb thr).
Proof. intros; split; unfold mheads_ok; cbn; intros [X|X]; contradiction. Qed.
