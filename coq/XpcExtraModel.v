(* XpcExtraModel.v — corollaries of the round trip, and what the compiler checks on names, dots and digits in the two
   variants of each of the three repairs (fixes/C02c). *)
From Coq Require Import List NArith Bool Arith Lia.
Import ListNotations.
Require Import XV.XpAst XV.GenXpc XV.XpcLexDefs XV.XpcParseDefs XV.XpcPrintDefs XV.XpcPrintFacts XV.XpcPrintModel.

(* two different canonical trees never print to the same token queue: the token grammar is unambiguous on them *)
Lemma print_injective_m : forall e1 e2, canon e1 = true -> canon e2 = true ->
  S (idepth e1) <= gen_xpc_max_nesting -> S (idepth e2) <= gen_xpc_max_nesting -> pr e1 = pr e2 -> e1 = e2.
Proof.
  intros e1 e2 C1 C2 D1 D2 E.
  pose proof (parse_print_m flags_here (fun _ => None) e1 C1 D1) as P1.
  pose proof (parse_print_m flags_here (fun _ => None) e2 C2 D2) as P2.
  rewrite E in P1. rewrite P1 in P2. inversion P2. reflexivity.
Qed.

(* what NodeTest() applies to an unprefixed name: its first character; in the repaired variant also isValidNCName *)
Lemma nodetest_name_guard_m : forall fl ns ts q n r,
  p_nodetest fl ns ts = Ok (TName q (Some n), r) ->
  is_nodetest_tok n = true /\ (fx_name fl = true -> valid_ncname n = true).
Proof.
  intros fl ns ts q n r H. unfold p_nodetest in H.
  destruct (look_c ts ch_lparen 1).
  - destruct (ntype_of_name (cur_tok ts)) as [k|]; [|discriminate].
    destruct (expect ch_lparen (tl ts)) as [ts1| |]; try discriminate.
    destruct k; repeat match type of H with
                       | (match ?X with _ => _ end) = _ => destruct X; try discriminate
                       | (if ?X then _ else _) = _ => destruct X; try discriminate
                       end.
  - match type of H with (match ?X with _ => _ end) = _ => destruct X as [[q0 ts1]| |] end; try discriminate.
    destruct (N.eqb (tokc ts1) ch_asterisk); [discriminate|].
    destruct (is_nodetest_tok (cur_tok ts1)) eqn:E; [|discriminate].
    destruct (fx_name fl && negb (valid_ncname (cur_tok ts1)))%bool eqn:E2; [discriminate|].
    inversion H; subst. split; [exact E|]. intros F. rewrite F in E2. cbn [andb] in E2.
    apply negb_false_iff in E2. exact E2.
Qed.

(* ---- repaired tokenizer: '.' and '..' are tokens of their own ---------------------------------------------------- *)
Lemma step_idle_dot : forall fl nx prev acc, fx_dot fl = true ->
  match nx with Some d => num_digit fl d = false | None => True end ->
  step_idle fl ch_fullstop nx prev acc = Ok (acc, MDot).
Proof.
  intros fl nx prev acc H Hn. unfold step_idle.
  change (N.eqb ch_fullstop ch_quote || N.eqb ch_fullstop ch_apos)%bool with false.
  change (is_tok_ws ch_fullstop) with false.
  change (N.eqb ch_fullstop ch_hyphen || is_delim ch_fullstop)%bool with false.
  change (N.eqb ch_fullstop ch_colon) with false. cbv iota.
  rewrite H, N.eqb_refl. destruct nx as [d|]; [rewrite Hn|]; reflexivity.
Qed.

Lemma dot_token_m : forall fl ns s prev acc, fx_dot fl = true ->
  match s with [] => True | c :: _ => num_digit fl c = false /\ c <> ch_fullstop end ->
  lex fl ns (ch_fullstop :: s) prev acc MIdle = lex fl ns s (ch_fullstop :: prev) ([ch_fullstop] :: acc) MIdle.
Proof.
  intros fl ns s prev acc H Hs. destruct s as [|c r].
  - cbn [lex hd_error lex_step]. rewrite step_idle_dot; auto.
  - destruct Hs as [Hd Hc]. cbn [lex hd_error]. cbn [lex_step]. rewrite step_idle_dot; auto.
    cbn [lex_step]. apply N.eqb_neq in Hc. rewrite Hc. reflexivity.
Qed.

Lemma num_digit_dot : forall fl, num_digit fl ch_fullstop = false.
Proof. intros [f1 f2 f3]. destruct f3; reflexivity. Qed.

Lemma dotdot_token_m : forall fl ns s prev acc, fx_dot fl = true ->
  lex fl ns (ch_fullstop :: ch_fullstop :: s) prev acc MIdle =
  lex fl ns s (ch_fullstop :: ch_fullstop :: prev) ([ch_fullstop; ch_fullstop] :: acc) MIdle.
Proof.
  intros fl ns s prev acc H. cbn [lex hd_error]. cbn [lex_step]. rewrite step_idle_dot; auto; try apply num_digit_dot.
Qed.

(* ---- repaired number test: a number token starts with an ASCII digit, or '.' and an ASCII digit --------------------- *)
Lemma number_ascii_m : forall fl ts, fx_digit fl = true -> primary_kind fl ts = PkNumber -> num_tok_ok (cur_tok ts) = true.
Proof.
  intros fl ts H K. unfold primary_kind in K. cbv zeta in K.
  destruct (N.eqb (tokc ts) ch_apos || N.eqb (tokc ts) ch_quote)%bool; [discriminate|].
  destruct (N.eqb (tokc ts) ch_dollar); [discriminate|].
  destruct (N.eqb (tokc ts) ch_lparen); [discriminate|].
  match type of K with (if ?X then _ else _) = _ => destruct X eqn:E end.
  2:{ destruct (look_c ts ch_lparen 1 || look_c ts ch_colon 1 && look_c ts ch_lparen 3)%bool; discriminate. }
  unfold num_digit in E. rewrite H in E.
  destruct ts as [|[|c t] r]; cbn [tokc cur_tok] in *; try (cbn in E; discriminate).
  cbn [num_tok_ok]. rewrite orb_comm. destruct t as [|c1 t1]; [rewrite andb_false_r in *|]; exact E.
Qed.
