(* Properties_C02t.v — C02, whole expressions: the interpreter model of XpDefs.v computes the relational
   denotational semantics [den] of XpSpecDenDefs.v (written from XPath 1.0 sections 2, 3, 4) for EVERY
   expression of XpAst.v, in every admissible context: node tests = section 2.3, steps and paths with
   the declarative node test and with definedness, soundness, completeness, determinism, and the
   compositional equation of [den].  Carved out by name: the namespace axis (K21; [expr_wf] forbids
   it), strings as UTF-16 code units (K6), extension functions (no value here; XpxDefs.v).
   Only [exact] of lemmas proved in XpSpec*Model.v, each followed by Print Assumptions. *)
From Coq Require Import ZArith NArith List Bool Arith.
Require Import XV.NumDefs XV.XpAst XV.DomDefs XV.XpDefs XV.XpModel XV.XpSpecDefs XV.XpSpecAxesModel XV.XpSpecBuildModel
               XV.XpSpecMainModel XV.XpSpecEvalModel XV.XpSpecDenDefs XV.XpSpecNodeTestModel XV.XpSpecFunModel
               XV.XpSpecRelModel XV.XpSpecExtModel XV.XpSpecDenModel XV.XpSpecDeclModel.
Import ListNotations.

(** * node tests as coded = section 2.3 (principal node type, expanded names, node-type tests) *)
Theorem node_tests_are_section_2_3 : forall (c : ctx) (ax : axis) (t : ntest) (n : nat),
  wfd (cx_doc c) -> n < length (cx_doc c) -> ax <> AxNamespace ->
  match t with TName NsAny _ => False | _ => True end ->
  (test_node c ax t n = true <-> node_test_denotes (cx_doc c) (cx_strip c) ax t n).
Proof. exact test_node_correct. Qed.
Print Assumptions node_tests_are_section_2_3.

(** * a step / a list of steps, with the declarative node test and with definedness: the walk succeeds
      exactly when every predicate has a value at every node it is asked at, and then lists the
      denotation *)
Theorem step_correct_declarative : forall (ev : ctx -> expr -> res value) (c : ctx) (pv : expr -> nat -> nat -> nat -> res value),
  (forall pe l i n, NoDup l -> nth_error l i = Some n -> ev (with_node c n l) pe = pv pe n (S i) (length l)) ->
  (forall t x k m, pv (ENumLit t) x k m = Ok (VNum (string_to_number t))) ->
  (Z.of_nat (length (cx_doc c)) < 2 ^ 53)%Z -> wfd (cx_doc c) ->
  forall ax t ps n l0 rv, n < length (cx_doc c) -> step_wf (ax, t, ps) ->
  axis_nodes c ax t n = Ok (l0, rv) ->
  let tstP := node_test_denotes (cx_doc c) (cx_strip c) in
  let pvR := fun pe x k m v => pv pe x k m = Ok v in
  ((exists l1, apply_preds ev c l0 ps = Ok l1) <-> step_definedR (cx_doc c) tstP pvR (ax, t, ps) n) /\
  (forall l1, apply_preds ev c l0 ps = Ok l1 ->
     rv = axis_reverse ax /\ axis_ordered ax l1 /\ forall x, In x l1 <-> step_denR (cx_doc c) tstP pvR (ax, t, ps) n x).
Proof. exact step_decl. Qed.
Print Assumptions step_correct_declarative.

Theorem path_correct_declarative : forall (ev : ctx -> expr -> res value) (c : ctx) (pv : expr -> nat -> nat -> nat -> res value),
  (forall pe l i n, NoDup l -> nth_error l i = Some n -> ev (with_node c n l) pe = pv pe n (S i) (length l)) ->
  (forall t x k m, pv (ENumLit t) x k m = Ok (VNum (string_to_number t))) ->
  (Z.of_nat (length (cx_doc c)) < 2 ^ 53)%Z -> wfd (cx_doc c) ->
  forall steps sfuel sub rv, steps <> [] -> steps_wf steps ->
  (forall n, In n sub -> n < length (cx_doc c)) -> length steps < sfuel ->
  let tstP := node_test_denotes (cx_doc c) (cx_strip c) in
  let pvR := fun pe x k m v => pv pe x k m = Ok v in
  ((exists r, steps_from ev c sfuel sub rv steps = Ok r) <->
   forall n, In n sub -> path_definedR (cx_doc c) tstP pvR steps n) /\
  (forall r, steps_from ev c sfuel sub rv steps = Ok r ->
     ordered r /\ forall x, In x r <-> exists n, In n sub /\ path_denR (cx_doc c) tstP pvR steps n x).
Proof. exact steps_decl. Qed.
Print Assumptions path_correct_declarative.

(** * the core function library as coded = the functions applied to the values of the arguments *)
Theorem function_library_is_section_4 : forall (ev : ctx -> expr -> res value) (c : ctx),
  (forall t, ev c (ENumLit t) = Ok (VNum (string_to_number t))) ->
  forall name args v,
  call_function ev c name args = Ok v <->
  exists vals, Forall2 (fun a va => ev c a = Ok va) args vals /\ fun_den c name vals v.
Proof. exact call_function_den. Qed.
Print Assumptions function_library_is_section_4.

Theorem function_library_deterministic : forall c name vals v1 v2,
  fun_den c name vals v1 -> fun_den c name vals v2 -> v1 = v2.
Proof. exact fun_den_deterministic. Qed.
Print Assumptions function_library_deterministic.

(** * one level of the interpreter = one level of the semantics (every expression form) *)
Theorem interpreter_level_is_semantics_level : forall f c e v,
  1 <= f -> expr_size e < S f -> ctx_ok c -> expr_wf e ->
  (eval (S f) c e = Ok v <-> expr_den (fun c x w => eval f c x = Ok w) c e v).
Proof. exact eval_level. Qed.
Print Assumptions interpreter_level_is_semantics_level.

(* the semantics depends on the values of the direct sub-expressions only *)
Theorem semantics_extensional : forall (R1 R2 : ctx -> expr -> value -> Prop) c e, ctx_ok c ->
  (forall c' x w, ctx_ok c' -> In x (subexprs e) -> (R1 c' x w <-> R2 c' x w)) ->
  forall v, expr_den R1 c e v <-> expr_den R2 c e v.
Proof. exact expr_den_ext. Qed.
Print Assumptions semantics_extensional.

(** * the headline: evaluation returns exactly the value the semantics defines *)
Theorem eval_sound : forall f c e v, ctx_ok c -> expr_wf e -> expr_size e < f -> eval f c e = Ok v -> den c e v.
Proof. exact XpSpecDenModel.eval_sound. Qed.
Print Assumptions eval_sound.

Theorem eval_complete : forall c e v, ctx_ok c -> expr_wf e -> den c e v ->
  forall f, expr_size e < f -> eval f c e = Ok v.
Proof. exact XpSpecDenModel.eval_complete. Qed.
Print Assumptions eval_complete.

Theorem eval_top_is_the_semantics : forall c e v, ctx_ok c -> expr_wf e -> (eval_top c e = Ok v <-> den c e v).
Proof. exact eval_top_is_den. Qed.
Print Assumptions eval_top_is_the_semantics.

Theorem den_deterministic : forall c e v1 v2, ctx_ok c -> expr_wf e -> den c e v1 -> den c e v2 -> v1 = v2.
Proof. exact XpSpecDenModel.den_deterministic. Qed.
Print Assumptions den_deterministic.

(* [den] is the compositional semantics: it satisfies the defining equation of every expression form
   (the depth bound in its definition is immaterial) *)
Theorem den_compositional : forall c e v, ctx_ok c -> (den c e v <-> expr_den den c e v).
Proof. exact XpSpecDenModel.den_compositional. Qed.
Print Assumptions den_compositional.

Theorem den_depth_immaterial : forall k1 k2 c e v, expr_size e < k1 -> expr_size e < k2 -> ctx_ok c ->
  (denF k1 c e v <-> denF k2 c e v).
Proof. exact den_stable. Qed.
Print Assumptions den_depth_immaterial.

Theorem den_node_sets_canonical : forall c e v, ctx_ok c -> expr_wf e -> den c e v -> value_ok (cx_doc c) v.
Proof. exact den_value_ok. Qed.
Print Assumptions den_node_sets_canonical.

(** * errors and or / and, precisely: a true left operand decides `or` (a false one decides `and`) whatever
      the right operand is, even if it has no value; the left operand must have a value; the right one
      must have a value when the left does not decide *)
Theorem or_and_operands_and_errors : forall c a b, ctx_ok c ->
  (forall va, den c a va -> to_boolean va = true -> den c (EOr a b) (VBool true)) /\
  (forall va, den c a va -> to_boolean va = false -> den c (EAnd a b) (VBool false)) /\
  (forall v, den c (EOr a b) v -> exists va, den c a va) /\
  (forall v va, expr_wf a -> den c (EOr a b) v -> den c a va -> to_boolean va = false -> exists vb, den c b vb).
Proof. exact or_and_operands. Qed.
Print Assumptions or_and_operands_and_errors.

(** * the hypotheses are satisfiable *)
Example admissible_context_example : ctx_ok demo_ctx.
Proof. exact demo_ctx_ok. Qed.

Example generated_documents_give_admissible_contexts : forall top n l strip,
  n < length (build_doc top) -> (Z.of_nat (length (build_doc top)) < 2 ^ 53)%Z ->
  ctx_ok (mkCtx (build_doc top) n l [] strip).
Proof. exact built_ctx_ok. Qed.

Example wellformed_expression_example : expr_wf demo_expr.
Proof. exact demo_expr_wf. Qed.

Example den_example : den demo_ctx demo_expr (VBool true).
Proof. exact demo_den. Qed.
