(* Properties_C15.v — key() returns exactly the nodes its xsl:key declaration defines.
   Statements closed by [exact]; the model is coq/KeyDefs.v (KeyTable.cpp, FunctionKey.cpp,
   StylesheetRoot::getNodeSetByKey, Stylesheet::postConstruction as coded). *)
From Coq Require Import List NArith Bool Arith Lia Sorted.
Require Import XV.GenKey XV.KeyDefs XV.KeyWalk XV.KeyModel XV.KeyHist.
Import ListNotations.

(* the odd "execute once, then once per attribute" loop of the constructor processes the node,
   then each of its attributes in order *)
Theorem visit_node_then_attributes : forall t p,
  visit t p = NSelf p :: map (NAttr p) (seq 0 (nattrs t p)).
Proof. exact visit_eq. Qed.
Print Assumptions visit_node_then_attributes.

(* the non-recursive pre-order walk (first child / next sibling / parent pointers) visits the
   nodes of the document - the document node, every element, text, comment, PI and every
   attribute of every element - exactly once, in document order, for every tree; fuel = number
   of nodes suffices (out-of-fuel excluded) *)
Theorem walk_visits_each_node_once : forall t fuel, size t <= fuel ->
  walk fuel t [] [] = Some (doc_nodes t) /\ NoDup (doc_nodes t) /\ ssorted (idx t) (doc_nodes t) /\
  (forall n, In n (doc_nodes t) <-> valid_node t n = true).
Proof.
  intros t fuel H. split. exact (walk_size t fuel H). split. exact (doc_nodes_nodup t).
  split. exact (doc_nodes_sorted t). exact (doc_nodes_valid t).
Qed.
Print Assumptions walk_visits_each_node_once.

(* the constructor, which fills the table while walking, computes the fold of the per-node
   processing over the document-order node list *)
Theorem table_built_during_walk : forall t decls,
  table_of t decls = Some (build (idx t) decls (doc_nodes t)).
Proof. exact table_of_eq. Qed.
Print Assumptions table_built_during_walk.

(* KeyTable::getNodeSetByKey on the constructed table = the nodes of the document, in document
   order, matched by some declaration of that name with v among the values of its use
   expression *)
Theorem key_table_spec : forall t decls m name v,
  table_of t decls = Some m -> declared decls name = true ->
  table_lookup m decls name v = Nodes (key_spec decls t name v).
Proof.
  intros t decls m name v Ht Hd. rewrite table_of_eq in Ht. injection Ht as <-.
  rewrite table_lookup_get by exact Hd. f_equal. apply table_get.
Qed.
Print Assumptions key_table_spec.

Theorem key_result_ordered_duplicate_free : forall decls t name v,
  ssorted (idx t) (key_spec decls t name v) /\ NoDup (key_spec decls t name v) /\
  (forall n, In n (key_spec decls t name v) <-> In n (doc_nodes t) /\ key_pred decls name v n = true).
Proof. exact key_spec_props. Qed.
Print Assumptions key_result_ordered_duplicate_free.

(* a different but complete visiting order (even with repetitions) builds the same entries:
   the per-value lists are kept in index order by the insertion *)
Theorem table_walk_order_irrelevant : forall t decls vs name v,
  (forall x, In x vs <-> In x (doc_nodes t)) ->
  get (build (idx t) decls vs) name v = key_spec decls t name v.
Proof. exact table_get_any_order. Qed.
Print Assumptions table_walk_order_irrelevant.

(* several declarations with one name (also across imported stylesheets, whose declarations
   are appended): the union *)
Theorem same_name_declarations_union : forall d1 d2 t name v n,
  In n (key_spec (d1 ++ d2) t name v) <-> In n (key_spec d1 t name v) \/ In n (key_spec d2 t name v).
Proof. exact key_spec_app. Qed.
Print Assumptions same_name_declarations_union.

Theorem declaration_order_irrelevant : forall ds1 ds2 t name v,
  (forall d, In d ds1 <-> In d ds2) -> key_spec ds1 t name v = key_spec ds2 t name v.
Proof. exact key_spec_decl_order. Qed.
Print Assumptions declaration_order_irrelevant.

(* Stylesheet::postConstruction: the merged declaration list holds exactly the declarations of
   the stylesheets of the import tree; with the two theorems above the answers are the union
   over all of them, whatever the import structure *)
Theorem merged_declarations : forall s g,
  In g (merged s) <-> exists s', in_import_tree s s' /\ In g (own_of s').
Proof. exact merged_in. Qed.
Print Assumptions merged_declarations.

(* key() with an undeclared name and a string argument is an error (never a wrong node-set) *)
Theorem undeclared_key_is_error : forall W decls c d name s, cinv W decls c ->
  gdeclared decls name = false -> snd (function_key W decls c d name (AStr s)) = UnknownKey.
Proof.
  intros W decls c d name s Hc H. destruct (function_key_res W decls c d name (AStr s) Hc) as [E _].
  rewrite E. apply undeclared_error. exact H.
Qed.
Print Assumptions undeclared_key_is_error.

(* history independence, unconditionally: for every sequence of key() calls over any documents,
   names and arguments (errors and the defect class below included) each answer is the answer
   the same call gives on a fresh execution context.  Invariant: every cache entry for document
   d is the table of d. *)
Theorem key_history_independent : forall W decls ps,
  run_history W decls [] ps =
  map (fun pr : probe => snd (function_key W decls [] (fst (fst pr)) (snd (fst pr)) (snd pr))) ps.
Proof.
  intros W decls ps. rewrite history_pure by apply cinv_nil. apply map_ext. intro pr.
  destruct (function_key_res W decls [] (fst (fst pr)) (snd (fst pr)) (snd pr) (cinv_nil W decls)) as [E _].
  symmetry. exact E.
Qed.
Print Assumptions key_history_independent.

Theorem cache_invariant_preserved : forall W decls c d name arg, cinv W decls c ->
  cinv W decls (fst (function_key W decls c d name arg)).
Proof. intros W decls c d name arg Hc. exact (proj2 (function_key_res W decls c d name arg Hc)). Qed.
Print Assumptions cache_invariant_preserved.

(* string argument: the full statement *)
Theorem key_string_arg_spec : forall W decls c d name s, cinv W decls c -> gdeclared decls name = true ->
  snd (function_key W decls c d name (AStr s)) = Nodes (key_spec (map (view d) decls) (wdoc W d) name s).
Proof.
  intros W decls c d name s Hc H. destruct (function_key_res W decls c d name (AStr s) Hc) as [E _].
  rewrite E. exact (key_pure_spec W decls d name (AStr s) H eq_refl).
Qed.
Print Assumptions key_string_arg_spec.

(* node-set argument: union over the string-values, in document order, duplicate-free -
   provided the node-set has at most one node or no node with an empty string-value *)
Theorem key_nodeset_arg_spec_partial : forall W decls c d name vs, cinv W decls c ->
  gdeclared decls name = true -> nodeset_arg_ok (ANodes vs) = true ->
  snd (function_key W decls c d name (ANodes vs)) = Nodes (key_spec_set (map (view d) decls) (wdoc W d) name vs).
Proof.
  intros W decls c d name vs Hc H G. destruct (function_key_res W decls c d name (ANodes vs) Hc) as [E _].
  rewrite E. exact (key_pure_spec W decls d name (ANodes vs) H G).
Qed.
Print Assumptions key_nodeset_arg_spec_partial.

(* every history of guarded probes answers the specification *)
Theorem key_history_spec_partial : forall W decls ps,
  Forall (fun pr : probe => gdeclared decls (snd (fst pr)) = true /\ nodeset_arg_ok (snd pr) = true) ps ->
  run_history W decls [] ps =
  map (fun pr : probe => key_fn_spec W decls (fst (fst pr)) (snd (fst pr)) (snd pr)) ps.
Proof. exact history_spec. Qed.
Print Assumptions key_history_spec_partial.

(* ---------- witnesses ---------- *)
Definition a_ : N := 97%N.
Definition b_ : N := 98%N.

(* <r><x k=".." j=".."/><y/>text</r> as document 0, <r><x/></r> as document 1 *)
Definition doc0 : tree := T KDoc 0 [T KElem 0 [T KElem 2 []; T KElem 0 []; T KText 0 []]].
Definition doc1 : tree := T KDoc 0 [T KElem 0 [T KElem 0 []]].

Definition x0 : node := NSelf [0; 0].
Definition y0 : node := NSelf [1; 0].
Definition x0k : node := NAttr [0; 0] 0.
Definition txt0 : node := NSelf [2; 0].

(* key k: x -> {"a","a",""} (a node-set with a repeated value), the attribute -> "b";
   a second declaration of k: y -> "a", text -> "" (and the x of document 1 -> "a");   key q: everything in any document -> "b" *)
Definition dk1 : gdecl := GDecl [a_]
  (fun d n => Nat.eqb d 0 && (node_eqb n x0 || node_eqb n x0k))
  (fun d n => if node_eqb n x0 then UNodes [[a_]; [a_]; []] else UStr [b_]).
Definition dk2 : gdecl := GDecl [a_]
  (fun d n => if Nat.eqb d 0 then node_eqb n y0 || node_eqb n txt0 else node_eqb n (NSelf [0; 0]))
  (fun d n => if Nat.eqb d 0 then (if node_eqb n y0 then UStr [a_] else UStr []) else UStr [a_]).
Definition dq : gdecl := GDecl [b_] (fun _ _ => true) (fun _ _ => UStr [b_]).

Definition sheet0 : sheet := Sheet [dk1] [Sheet [dq] [Sheet [dk2] []]].

Example walk_example :
  walk (size doc0) doc0 [] [] =
  Some [NSelf []; NSelf [0]; x0; x0k; NAttr [0; 0] 1; y0; txt0].
Proof. vm_compute. reflexivity. Qed.

(* hypotheses of the theorems are satisfiable and the answers non-trivial: lookups over two
   documents in mixed order; a node with a repeated value appears once; attribute and text
   nodes are returned; declarations of an import are used; the second document has its own
   table *)
Example history_example :
  run_history [doc0; doc1] (merged sheet0) []
    [ (1, [b_], AStr [b_]); (0, [a_], AStr [a_]); (0, [a_], ANodes [[b_]; [a_]]);
      (1, [a_], AStr [a_]); (0, [a_], AStr []); (0, [a_], AStr [a_]); (0, [a_], ANodes [[]]) ] =
    [ Nodes [NSelf []; NSelf [0]; NSelf [0; 0]];
      Nodes [x0; y0];
      Nodes [x0; x0k; y0];
      Nodes [NSelf [0; 0]];       (* the x of document 1, from its own table *)
      Nodes [x0; txt0];
      Nodes [x0; y0];
      Nodes [x0; txt0] ].
Proof. vm_compute. reflexivity. Qed.

Example guards_satisfiable :
  gdeclared (merged sheet0) [a_] = true /\ nodeset_arg_ok (ANodes [[b_]; [a_]]) = true /\
  nodeset_arg_ok (ANodes [[]]) = true /\
  (skip_empty_refs = true -> nodeset_arg_ok (ANodes [[b_]; []]) = false).
Proof. vm_compute. auto. Qed.

(* Until commit 2389026 FunctionKey.cpp skipped empty string-values when the node-set argument had
   more than one node (former finding K-C15-1).  GenKey.skip_empty_refs is regenerated from
   FunctionKey.cpp on every run and says whether the source has that test: if it comes back the
   full statement is refuted by this witness (and the live theorems below stop checking). *)
Theorem key_nodeset_arg_spec_refuted : skip_empty_refs = true ->
  exists W decls d name vs, gdeclared decls name = true /\
    snd (function_key W decls [] d name (ANodes vs)) <>
    Nodes (key_spec_set (map (view d) decls) (wdoc W d) name vs).
Proof.
  intro H. exists [doc0; doc1], (merged sheet0), 0, [a_], [[b_]; []]. split. reflexivity.
  revert H. vm_compute. intros H E. first [discriminate E | discriminate H].
Qed.
Print Assumptions key_nodeset_arg_spec_refuted.

(* without the test the full statement holds *)
Theorem key_nodeset_arg_spec_when_unguarded : skip_empty_refs = false ->
  forall W decls c d name vs, cinv W decls c -> gdeclared decls name = true ->
  snd (function_key W decls c d name (ANodes vs)) = Nodes (key_spec_set (map (view d) decls) (wdoc W d) name vs).
Proof.
  intros Hs W decls c d name vs Hc H. apply key_nodeset_arg_spec_partial; auto.
  unfold nodeset_arg_ok. rewrite Hs. apply orb_true_iff. right.
  induction vs as [|v r IH]; simpl; auto.
Qed.
Print Assumptions key_nodeset_arg_spec_when_unguarded.

(* the live statements for the source as it is (GenKey.skip_empty_refs = false by computation):
   node-set argument = ordered, duplicate-free union over ALL string-values, no guard *)
Theorem key_nodeset_arg_spec : forall W decls c d name vs, cinv W decls c -> gdeclared decls name = true ->
  snd (function_key W decls c d name (ANodes vs)) = Nodes (key_spec_set (map (view d) decls) (wdoc W d) name vs).
Proof. exact (key_nodeset_arg_spec_when_unguarded eq_refl). Qed.
Print Assumptions key_nodeset_arg_spec.

(* every history of probes with declared names answers the specification *)
Theorem key_history_spec : forall W decls ps,
  Forall (fun pr : probe => gdeclared decls (snd (fst pr)) = true) ps ->
  run_history W decls [] ps =
  map (fun pr : probe => key_fn_spec W decls (fst (fst pr)) (snd (fst pr)) (snd pr)) ps.
Proof.
  intros W decls ps H. apply key_history_spec_partial. eapply Forall_impl; [|exact H].
  intros pr Hp. split. exact Hp. destruct (snd pr) as [s|vs]. reflexivity.
  unfold nodeset_arg_ok. apply orb_true_iff. right.
  induction vs as [|v r IH]; simpl; auto.
Qed.
Print Assumptions key_history_spec.

(* the former counterexample now answers the specification *)
Example former_witness_values :
  snd (function_key [doc0; doc1] (merged sheet0) [] 0 [a_] (ANodes [[b_]; []])) = Nodes [x0; x0k; txt0] /\
  key_spec_set (map (view 0) (merged sheet0)) doc0 [a_] [[b_]; []] = [x0; x0k; txt0].
Proof. vm_compute. auto. Qed.
