(* Properties_C04.v — placeholder while the lemma files are being built *)
From Coq Require Import NArith List Bool.
Require Import XV.SerDefs XV.XmlParseDefs.
Import ListNotations.
Local Open Scope N_scope.

Example header_example :
  serialize EncUtf8 false [49;46;48] [85;84;70;45;56] [EStart [97] []; EEnd [97]]
  = Ok [60;63;120;109;108;32;118;101;114;115;105;111;110;61;34;49;46;48;34;32;101;110;99;111;100;105;110;103;61;34;85;84;70;45;56;34;63;62;60;97;47;62].
Proof. vm_compute. reflexivity. Qed.
Print Assumptions header_example.
