(* model side of the C16 correspondence.
   line: <id> <nkeys> <n> then per key four AVT tokens (lang data-type order case-order:
         "-" absent, "s:<u16 token>" simple, "p:<u16 token>" with {} parts), then per key n
         values "<hex bits of number(expr)>/<u16 token of string(expr)>".
   out : <id> <node>:<position>/<last>,...;pure=<node>,...      or   <id> error
   line: <id> N <hex bits> <hex bits>   out: <id> Lt|Eq|Gt   (num_compare alone) *)
let avt_of_token (t : string) : avt =
  if t = "-" then AvtAbsent
  else
    let v = u16_of_token (String.sub t 2 (String.length t - 2)) in
    if t.[0] = 's' then AvtSimple v else AvtParts v

let rec take k l = if k = 0 then ([], l) else
  match l with [] -> failwith "short line" | x :: r -> let (a, b) = take (k - 1) r in (x :: a, b)

let () =
  let ic = if Array.length Sys.argv > 1 then open_in Sys.argv.(1) else stdin in
  iter_lines ic (fun line ->
    match split_ws line with
    | id :: "N" :: a :: b :: _ ->
        (* the numeric comparison alone, on two bit patterns *)
        Printf.printf "%s %s\n" id (match num_compare (z_of_hex a) (z_of_hex b) with Lt -> "Lt" | Eq -> "Eq" | Gt -> "Gt")
    | id :: nk :: n :: rest ->
        let nk = int_of_string nk and n = int_of_string n in
        let rec elems k l = if k = 0 then ([], l) else
          match l with
          | a :: b :: c :: d :: r ->
              let (es, r') = elems (k - 1) r in
              ({ se_lang = avt_of_token a; se_dtype = avt_of_token b; se_order = avt_of_token c; se_case = avt_of_token d } :: es, r')
          | _ -> failwith "short line" in
        let (es, rest) = elems nk rest in
        let rec tabs k l = if k = 0 then ([], []) else
          let (vs, r) = take n l in
          let split v = match String.index_opt v '/' with
            | Some i -> (z_of_hex (String.sub v 0 i), u16_of_token (String.sub v (i + 1) (String.length v - i - 1)))
            | None -> failwith "bad value" in
          let pairs = List.map split vs in
          let (nt, st) = tabs (k - 1) r in
          (List.map fst pairs :: nt, List.map snd pairs :: st) in
        let (ntab, stab) = tabs nk rest in
        let nodes = List.init n n_of_int in
        (match run_sort es ntab stab nodes, run_sort_pure es ntab stab nodes with
         | Some r, Some p ->
             Printf.printf "%s %s;pure=%s\n" id
               (String.concat "," (List.map (fun ((nd, pos), last) ->
                    Printf.sprintf "%d:%d/%d" (int_of_n nd) (int_of_nat pos) (int_of_nat last)) r))
               (String.concat "," (List.map (fun nd -> string_of_int (int_of_n nd)) p))
         | _, _ -> Printf.printf "%s error\n" id)
    | _ -> ())
