(* Extraction of the C17 model for the correspondence driver. ExtrOcamlBasic only. *)
Require Import ExtrOcamlBasic.
Require Import XV.GenNum7 XV.Num7FmtDefs XV.Num7CountDefs.
Extraction "extracted/num7_model.ml" format_number_list run_doc spec_doc roman_decode alpha_decode decimal_decode.
