(* KeyModel.v — the key table holds, per (name, value), exactly the nodes the declarations
   define, in document order; lookups through the per-document cache are history independent *)
From Coq Require Import List NArith Bool Arith Lia Sorted Permutation.
Require Import XV.KeyDefs XV.KeyWalk.
Import ListNotations.

(* ---------- finite maps ---------- *)
Lemma find_upd_same : forall (A : Type) k (f : A -> A) d m,
  find k (upd k f d m) = Some (f (match find k m with Some a => a | None => d end)).
Proof.
  intros A k f d. induction m as [|[k' a] r IH]; simpl.
  - rewrite str_eqb_refl. reflexivity.
  - destruct (str_eqb k k') eqn:E; simpl; rewrite E; auto.
Qed.

Lemma find_upd_other : forall (A : Type) k k' (f : A -> A) d m, str_eqb k' k = false ->
  find k' (upd k f d m) = find k' m.
Proof.
  intros A k k' f d m H. induction m as [|[k2 a] r IH]; simpl.
  - rewrite H. reflexivity.
  - destruct (str_eqb k k2) eqn:E; simpl.
    + apply str_eqb_eq in E. subst k2. rewrite H. reflexivity.
    + destruct (str_eqb k' k2); auto.
Qed.

Definition get (m : kmap) (name v : str) : list node :=
  match find name m with
  | Some vm => match find v vm with Some l => l | None => [] end
  | None => []
  end.

Lemma get_add_value : forall ix name v n m name' v',
  get (add_value ix name v n m) name' v' =
  if str_eqb name' name && str_eqb v' v then addNodeInDocOrder ix n (get m name v)
  else get m name' v'.
Proof.
  intros ix name v n m name' v'. unfold get, add_value, kmap, vmap in *.
  destruct (str_eqb name' name) eqn:E1.
  - apply str_eqb_eq in E1. subst name'. rewrite find_upd_same.
    destruct (str_eqb v' v) eqn:E2; simpl.
    + apply str_eqb_eq in E2. subst v'. rewrite find_upd_same.
      destruct (find name m) as [vm|]; simpl; auto.
    + rewrite find_upd_other by exact E2. destruct (find name m) as [vm|]; simpl; auto.
  - simpl. rewrite find_upd_other by exact E1. reflexivity.
Qed.

Lemma table_lookup_get : forall m decls name v, declared decls name = true ->
  table_lookup m decls name v = Nodes (get m name v).
Proof.
  intros m decls name v H. unfold table_lookup, get. rewrite H.
  destruct (find name m) as [vm|]; auto. destruct (find v vm); auto.
Qed.

Lemma table_lookup_undeclared : forall ix decls vs name v, declared decls name = false ->
  find name (build ix decls vs) = None -> table_lookup (build ix decls vs) decls name v = UnknownKey.
Proof. intros. unfold table_lookup. rewrite H0, H. reflexivity. Qed.

(* ---------- ordered insertion ---------- *)
Section Ins.
  Variable ix : node -> nat.

  Lemma ins_in : forall n l x, In x (ins ix n l) -> x = n \/ In x l.
  Proof.
    intros n. induction l as [|y r IH]; intros x H; simpl in H.
    - destruct H as [H|[]]; auto.
    - destruct (ix n <? ix y). { destruct H as [H|H]; auto. }
      destruct (ix n =? ix y). { auto. }
      destruct H as [H|H]. right; left; exact H.
      destruct (IH _ H); auto. right; right; auto.
  Qed.

  Lemma in_ins : forall n l x, In x l -> In x (ins ix n l).
  Proof.
    intros n. induction l as [|y r IH]; intros x H; simpl. contradiction.
    destruct (ix n <? ix y). { right; exact H. }
    destruct (ix n =? ix y). { exact H. }
    destruct H as [H|H]. left; exact H. right; apply IH; exact H.
  Qed.

  Lemma ins_has : forall n l, (forall y, In y l -> ix y = ix n -> y = n) -> In n (ins ix n l).
  Proof.
    intros n. induction l as [|y r IH]; intros H; simpl. auto.
    destruct (ix n <? ix y). { left; reflexivity. }
    destruct (ix n =? ix y) eqn:E.
    - apply Nat.eqb_eq in E. left. apply H; simpl; auto.
    - right. apply IH. intros z Hz. apply H. right; exact Hz.
  Qed.

  Lemma ins_sorted : forall n l, ssorted ix l -> ssorted ix (ins ix n l).
  Proof.
    intros n. induction l as [|y r IH]; intros H; simpl.
    - constructor. constructor. constructor.
    - inversion H as [|? ? Hr Hy]; subst.
      destruct (ix n <? ix y) eqn:E1.
      + apply Nat.ltb_lt in E1. constructor. exact H. constructor. exact E1.
        eapply Forall_impl; [|exact Hy]. simpl. intros; lia.
      + destruct (ix n =? ix y) eqn:E2. exact H.
        apply Nat.ltb_ge in E1. apply Nat.eqb_neq in E2.
        constructor. apply IH; exact Hr.
        apply Forall_forall. intros z Hz. apply ins_in in Hz. destruct Hz as [Hz|Hz].
        subst; lia. rewrite Forall_forall in Hy. apply Hy; exact Hz.
  Qed.

  Lemma last_in : forall (l : list node) d, l <> [] -> In (last l d) l.
  Proof.
    induction l as [|x r IH]; intros d H. congruence.
    destruct r as [|y r']. left; reflexivity. right. apply IH. congruence.
  Qed.

  Lemma add_sorted : forall n l, ssorted ix l -> ssorted ix (addNodeInDocOrder ix n l).
  Proof.
    intros n l H. unfold addNodeInDocOrder. destruct l as [|y r].
    - constructor. constructor. constructor.
    - destruct (node_eqb (last (y :: r) n) n). exact H. apply ins_sorted; exact H.
  Qed.

  Lemma add_in_iff : forall n l, (forall y, In y l -> ix y = ix n -> y = n) ->
    forall x, In x (addNodeInDocOrder ix n l) <-> x = n \/ In x l.
  Proof.
    intros n l Hinj x. unfold addNodeInDocOrder. destruct l as [|y r].
    - simpl. intuition.
    - destruct (node_eqb (last (y :: r) n) n) eqn:E.
      + apply node_eqb_eq in E. split; auto. intros [H|H]; auto. subst x. rewrite <- E.
        apply last_in. congruence.
      + split. apply ins_in. intros [H|H]. subst. apply ins_has; exact Hinj. apply in_ins; exact H.
  Qed.

  (* two index-sorted lists with the same elements are equal *)
  Lemma sorted_unique : forall l1 l2, ssorted ix l1 -> ssorted ix l2 ->
    (forall x, In x l1 <-> In x l2) -> l1 = l2.
  Proof.
    induction l1 as [|x1 r1 IH]; intros l2 H1 H2 Hm.
    - destruct l2 as [|x2 r2]; auto. exfalso. apply (Hm x2). left; reflexivity.
    - destruct l2 as [|x2 r2]. { exfalso. apply (Hm x1). left; reflexivity. }
      inversion H1 as [|? ? Hr1 Hx1]; subst. inversion H2 as [|? ? Hr2 Hx2]; subst.
      rewrite Forall_forall in Hx1, Hx2.
      assert (E : x1 = x2).
      { assert (A : In x1 (x2 :: r2)) by (apply Hm; left; reflexivity).
        assert (B : In x2 (x1 :: r1)) by (apply Hm; left; reflexivity).
        destruct A as [A|A]; auto. destruct B as [B|B]; auto.
        apply Hx2 in A. apply Hx1 in B. lia. }
      subst x2. f_equal. apply IH; auto.
      intro x. split; intro Hx.
      + assert (A : In x (x1 :: r2)) by (apply Hm; right; exact Hx).
        destruct A as [A|A]; auto. subst x. apply Hx1 in Hx. lia.
      + assert (A : In x (x1 :: r1)) by (apply Hm; right; exact Hx).
        destruct A as [A|A]; auto. subst x. apply Hx2 in Hx. lia.
  Qed.

  Lemma filter_sorted : forall p l, ssorted ix l -> ssorted ix (filter p l).
  Proof.
    intros p. induction l as [|x r IH]; intros H; simpl. constructor.
    inversion H as [|? ? Hr Hx]; subst. destruct (p x).
    - constructor. apply IH; exact Hr.
      rewrite Forall_forall in *. intros z Hz. apply filter_In in Hz. apply Hx. tauto.
    - apply IH; exact Hr.
  Qed.
End Ins.

Definition inj_on (ix : node -> nat) (U : list node) : Prop :=
  forall a b, In a U -> In b U -> ix a = ix b -> a = b.

Lemma index_of_inj : forall l a b, In a l -> In b l -> index_of a l = index_of b l -> a = b.
Proof.
  induction l as [|x r IH]; intros a b Ha Hb H. contradiction.
  simpl in H. destruct (node_eqb a x) eqn:Ea, (node_eqb b x) eqn:Eb; try discriminate.
  - apply node_eqb_eq in Ea, Eb. congruence.
  - apply node_eqb_neq in Ea, Eb. destruct Ha as [Ha|Ha]; [congruence|]. destruct Hb as [Hb|Hb]; [congruence|].
    apply IH; auto.
Qed.

Lemma idx_inj : forall t, inj_on (idx t) (doc_nodes t).
Proof. intros t a b Ha Hb H. unfold idx in H. eapply index_of_inj; eauto. Qed.

(* ---------- the table invariant ---------- *)
Section Table.
  Variable ix : node -> nat.
  Variable U : list node.
  Hypothesis Uinj : inj_on ix U.

  Definition tinv (m : kmap) : Prop :=
    forall name v, ssorted ix (get m name v) /\ (forall x, In x (get m name v) -> In x U).

  Lemma tinv_nil : tinv [].
  Proof. intros name v. unfold get. simpl. split. constructor. intros x []. Qed.

  Lemma add_value_inv : forall m name v n, tinv m -> In n U ->
    tinv (add_value ix name v n m) /\
    forall name' v' x, In x (get (add_value ix name v n m) name' v') <->
                       In x (get m name' v') \/ (name' = name /\ v' = v /\ x = n).
  Proof.
    intros m name v n Hm Hn.
    assert (Hinj : forall y, In y (get m name v) -> ix y = ix n -> y = n).
    { intros y Hy E. apply Uinj; auto. apply (Hm name v); exact Hy. }
    assert (M : forall name' v' x, In x (get (add_value ix name v n m) name' v') <->
                       In x (get m name' v') \/ (name' = name /\ v' = v /\ x = n)).
    { intros name' v' x. rewrite get_add_value.
      destruct (str_eqb name' name) eqn:E1; simpl.
      - destruct (str_eqb v' v) eqn:E2.
        + apply str_eqb_eq in E1, E2. subst. rewrite (add_in_iff ix n _ Hinj). intuition.
        + split; auto. intros [H|[_ [H _]]]; auto. subst. rewrite str_eqb_refl in E2. discriminate.
      - split; auto. intros [H|[H _]]; auto. subst. rewrite str_eqb_refl in E1. discriminate. }
    split; [|exact M].
    intros name' v'. split.
    - rewrite get_add_value. destruct (str_eqb name' name && str_eqb v' v).
      apply add_sorted. apply Hm. apply Hm.
    - intros x Hx. apply M in Hx. destruct Hx as [Hx|[_ [_ Hx]]]. apply (Hm name' v'); exact Hx. subst; exact Hn.
  Qed.

  Lemma values_inv : forall name n vs m, tinv m -> In n U ->
    tinv (fold_left (fun m' v => add_value ix name v n m') vs m) /\
    forall name' v' x, In x (get (fold_left (fun m' v => add_value ix name v n m') vs m) name' v') <->
                       In x (get m name' v') \/ (name' = name /\ existsb (str_eqb v') vs = true /\ x = n).
  Proof.
    intros name n. induction vs as [|v r IH]; intros m Hm Hn; simpl.
    - split; auto. intros. split; auto. intros [H|[_ [H _]]]; auto. discriminate.
    - destruct (add_value_inv m name v n Hm Hn) as [H1 H2].
      destruct (IH _ H1 Hn) as [H3 H4]. split; auto.
      intros name' v' x. rewrite H4, H2. rewrite orb_true_iff. rewrite str_eqb_eq.
      intuition; subst; auto.
  Qed.

  Lemma pkd_inv : forall m d n, tinv m -> In n U ->
    tinv (processKeyDeclaration ix m d n) /\
    forall name' v' x, In x (get (processKeyDeclaration ix m d n) name' v') <->
                       In x (get m name' v') \/ (name' = dname d /\ has_value (duse d n) v' = true /\ x = n).
  Proof.
    intros m d n Hm Hn. unfold processKeyDeclaration, has_value. destruct (duse d n) as [s|vs].
    - destruct (add_value_inv m (dname d) s n Hm Hn) as [H1 H2]. split; auto.
      intros name' v' x. rewrite H2. rewrite str_eqb_eq. intuition; subst; auto.
    - apply values_inv; auto.
  Qed.

  Lemma process_node_inv : forall n decls m, tinv m -> In n U ->
    tinv (process_node ix decls m n) /\
    forall name' v' x, In x (get (process_node ix decls m n) name' v') <->
                       In x (get m name' v') \/ (x = n /\ key_pred decls name' v' n = true).
  Proof.
    intros n. unfold process_node. induction decls as [|d r IH]; intros m Hm Hn; simpl.
    - split; auto. intros. split; auto. intros [H|[_ H]]; auto. discriminate.
    - destruct (dmatch d n) eqn:Em.
      + destruct (pkd_inv m d n Hm Hn) as [H1 H2]. destruct (IH _ H1 Hn) as [H3 H4]. split; auto.
        intros name' v' x. rewrite H4, H2. rewrite orb_true_iff, !andb_true_iff, str_eqb_eq.
        intuition; subst; auto.
      + destruct (IH _ Hm Hn) as [H3 H4]. split; auto.
        intros name' v' x. rewrite H4. rewrite orb_true_iff, !andb_true_iff.
        intuition; subst; auto; try discriminate.
  Qed.

  Lemma nodes_inv : forall decls vs m, tinv m -> incl vs U ->
    tinv (fold_left (process_node ix decls) vs m) /\
    forall name' v' x, In x (get (fold_left (process_node ix decls) vs m) name' v') <->
                       In x (get m name' v') \/ (In x vs /\ key_pred decls name' v' x = true).
  Proof.
    intros decls. induction vs as [|n r IH]; intros m Hm Hi; simpl.
    - split; auto. intros. tauto.
    - assert (Hn : In n U) by (apply Hi; left; reflexivity).
      assert (Hr : incl r U) by (intros z Hz; apply Hi; right; exact Hz).
      destruct (process_node_inv n decls m Hm Hn) as [H1 H2]. destruct (IH _ H1 Hr) as [H3 H4].
      split; auto. intros name' v' x. rewrite H4, H2. intuition; subst; auto.
  Qed.

  (* whatever complete order the nodes are visited in, the table holds the filtered,
     index-sorted node list *)
  Lemma build_spec : forall decls vs D name v,
    incl vs U -> ssorted ix D -> (forall x, In x vs <-> In x D) ->
    get (build ix decls vs) name v = filter (key_pred decls name v) D.
  Proof.
    intros decls vs D name v Hi HD Hm. unfold build.
    destruct (nodes_inv decls vs [] tinv_nil Hi) as [H1 H2].
    apply (sorted_unique ix). apply H1. apply filter_sorted; exact HD.
    intro x. rewrite H2, filter_In, <- Hm. unfold get; simpl. tauto.
  Qed.

  (* nodelist.addNodesInDocOrder *)
  Lemma merge_char : forall nl acc, ssorted ix acc -> incl acc U -> incl nl U -> ssorted ix nl ->
    ssorted ix (merge_nodes ix acc nl) /\
    forall x, In x (merge_nodes ix acc nl) <-> In x acc \/ In x nl.
  Proof.
    intros nl acc Ha Hia Hin Hn. unfold merge_nodes.
    assert (G : forall nl acc, ssorted ix acc -> incl acc U -> incl nl U ->
       ssorted ix (fold_left (fun a n => addNodeInDocOrder ix n a) nl acc) /\
       forall x, In x (fold_left (fun a n => addNodeInDocOrder ix n a) nl acc) <-> In x acc \/ In x nl).
    { clear Ha Hia Hin Hn nl acc. induction nl as [|n r IH]; intros acc Ha Hia Hin; simpl.
      - split; auto. intro; tauto.
      - assert (Hinj : forall y, In y acc -> ix y = ix n -> y = n).
        { intros y Hy E. apply Uinj; auto. apply Hin; left; reflexivity. }
        destruct (IH (addNodeInDocOrder ix n acc)) as [H1 H2].
        + apply add_sorted; exact Ha.
        + intros z Hz. apply (add_in_iff ix n acc Hinj) in Hz. destruct Hz as [Hz|Hz].
          subst; apply Hin; left; reflexivity. apply Hia; exact Hz.
        + intros z Hz. apply Hin; right; exact Hz.
        + split; auto. intro x. rewrite H2. rewrite (add_in_iff ix n acc Hinj). intuition. }
    destruct acc as [|a r].
    - split; auto. intro x. simpl. tauto.
    - apply G; auto.
  Qed.

  Lemma merge_spec : forall D p1 p2, ssorted ix D -> incl D U ->
    merge_nodes ix (filter p1 D) (filter p2 D) = filter (fun n => p1 n || p2 n) D.
  Proof.
    intros D p1 p2 HD Hi.
    assert (I : forall p, incl (filter p D) U).
    { intros p z Hz. apply filter_In in Hz. apply Hi. tauto. }
    destruct (merge_char (filter p2 D) (filter p1 D)) as [H1 H2]; auto using filter_sorted.
    apply (sorted_unique ix); auto using filter_sorted.
    intro x. rewrite H2, !filter_In, orb_true_iff. tauto.
  Qed.
End Table.
