(* MemListModel.v — XalanList and ArenaAllocator parts of the ledger proofs (C19). *)
From Coq Require Import List Arith Bool Lia Permutation.
Require Import XV.GenCont XV.GenMem XV.MemDefs XV.MemModel.
Import ListNotations.

Definition pdec : forall x y : nat * mgr, {x = y} + {x <> y}.
Proof. decide equality; apply Nat.eq_dec. Defined.

(* decide a permutation between app / cons / rev combinations of the same atoms *)
Ltac perm_count dec :=
  apply (Permutation_count_occ dec); intro;
  repeat (progress (rewrite ?count_occ_app, ?count_occ_rev; cbn [count_occ]));
  repeat match goal with |- context [if ?d then _ else _] => destruct d end; cbn [count_occ]; try lia.
Ltac permn := perm_count Nat.eq_dec.
Ltac permp := unfold tagm; repeat rewrite ?map_app, ?map_rev, ?map_cons; cbn [map]; perm_count pdec.

Lemma insert_at_perm : forall (pos x : nat) l, Permutation (insert_at pos x l) (x :: l).
Proof.
  intros pos x l. unfold insert_at. rewrite <- (firstn_skipn pos l) at 3. permn.
Qed.

Lemma remove_at_perm : forall l pos (nd : nat), nth_error l pos = Some nd -> Permutation (nd :: remove_at pos l) l.
Proof.
  induction l as [|a r IH]; intros [|pos] nd H; cbn in H; try discriminate.
  - inversion H; subst. unfold remove_at. cbn. apply Permutation_refl.
  - unfold remove_at in *. cbn. specialize (IH pos nd H).
    eapply perm_trans; [apply perm_swap|]. constructor. exact IH.
Qed.

Lemma tagm_perm : forall m a b, Permutation a b -> Permutation (tagm m a) (tagm m b).
Proof. intros; unfold tagm; apply Permutation_map; auto. Qed.

(* ------------------------------------------------------------------------------------------- *)
(* XalanList *)

Definition hd_list (l : xlist) : list nat := match lhead l with Some hd => [hd] | None => [] end.
Definition ids_of (l : xlist) : list nat := hd_list l ++ lnodes l ++ lfree l.
Definition lowned (l : xlist) : list (nat * mgr) := tagm (lm l) (ids_of l).

(* a list that never allocated its sentinel has no nodes *)
Definition lwf (l : xlist) : Prop := lhead l = None -> lnodes l = [] /\ lfree l = [].

Lemma lwf_empty : forall m, lwf (lempty m).
Proof. intros m _. split; reflexivity. Qed.

(* same manager, same nodes and free nodes (the sentinel may have appeared) *)
Definition same_nodes (l l1 : xlist) : Prop := lm l1 = lm l /\ lnodes l1 = lnodes l /\ lfree l1 = lfree l.

Lemma same_nodes_refl : forall l, same_nodes l l.
Proof. intros l; unfold same_nodes; auto. Qed.

Lemma get_head_spec : forall tag l h h1 l1 ok F, linv (lowned l ++ F) h -> get_head tag l h = (h1, l1, ok) ->
  linv (lowned l1 ++ F) h1 /\ same_nodes l l1 /\
  (ok = true -> lhead l1 <> None) /\ (ok = false -> l1 = l /\ live h1 = live h) /\
  (lhead l <> None -> h1 = h /\ l1 = l /\ ok = true).
Proof.
  intros tag l h h1 l1 ok F I H. unfold get_head in H. unfold same_nodes.
  destruct (lhead l) as [hd|] eqn:E.
  - inversion H; subst. sp; auto; try discriminate; try congruence.
  - destruct (alloc (lm l) tag 1 h) as [h2 [id|]] eqn:A; inversion H; subst; clear H.
    + sp; cbn; auto; try discriminate; try congruence.
      pose proof (linv_alloc _ _ _ _ _ _ _ I A) as A'. eapply linv_perm; [|exact A'].
      unfold lowned, ids_of, hd_list. cbn. rewrite E. cbn. apply Permutation_refl.
    + sp; auto; try discriminate; try congruence.
      eapply linv_throw; eauto. apply alloc_none in A; tauto.
Qed.

Lemma construct_node_spec : forall tag l pos h h1 l1 ok F, linv (lowned l ++ F) h ->
  construct_node tag l pos h = (h1, l1, ok) ->
  linv (lowned l1 ++ F) h1 /\ lhead l1 = lhead l /\ lm l1 = lm l /\
  (ok = false -> l1 = l /\ live h1 = live h).
Proof.
  intros tag l pos h h1 l1 ok F I H. unfold construct_node in H.
  destruct (lfree l) as [|f r] eqn:E.
  - destruct (alloc (lm l) tag 1 h) as [h2 [id|]] eqn:A; inversion H; subst; clear H.
    + sp; cbn; auto; try discriminate.
      pose proof (linv_alloc _ _ _ _ _ _ _ I A) as A'. eapply linv_perm; [|exact A'].
      unfold lowned, ids_of, hd_list. cbn [lm lhead lnodes lfree]. rewrite E.
      change ((id, lm l) :: tagm (lm l) ((match lhead l with Some hd => [hd] | None => [] end) ++ lnodes l ++ []) ++ F)
        with (tagm (lm l) (id :: (match lhead l with Some hd => [hd] | None => [] end) ++ lnodes l ++ []) ++ F).
      apply Permutation_app_tail. apply tagm_perm.
      rewrite (insert_at_perm pos id (lnodes l)). permn.
    + sp; auto; try discriminate.
      eapply linv_throw; eauto. apply alloc_none in A; tauto.
  - inversion H; subst; clear H. sp; cbn; auto; try discriminate.
    eapply linv_perm; [|exact I]. unfold lowned, ids_of, hd_list. cbn [lm lhead lnodes lfree]. rewrite E.
    apply Permutation_app_tail. apply tagm_perm.
    rewrite (insert_at_perm pos f (lnodes l)). permn.
Qed.

Lemma lwf_of_head : forall l, lhead l <> None -> lwf l.
Proof. intros l H E. contradiction. Qed.

Definition lpost (l : xlist) (h h1 : heap) (l1 : xlist) (ok : bool) (F : list (nat * mgr)) : Prop :=
  linv (lowned l1 ++ F) h1 /\ lwf l1 /\ lm l1 = lm l /\
  (ok = false -> same_nodes l l1 /\ live h1 = live h \/ (exists hd, live h1 = (hd, lm l) :: live h /\ same_nodes l l1)).

Lemma list_insert_spec : forall tag l pos h h1 l1 ok F, lwf l -> linv (lowned l ++ F) h ->
  list_insert tag l pos h = (h1, l1, ok) -> lpost l h h1 l1 ok F.
Proof.
  intros tag l pos h h1 l1 ok F W I H. unfold list_insert in H.
  destruct (get_head tag l h) as [[h2 l2] ok2] eqn:G.
  pose proof (get_head_spec _ _ _ _ _ _ _ I G) as [I2 [SN [HD [TH _]]]].
  destruct ok2.
  - pose proof (construct_node_spec _ _ _ _ _ _ _ _ I2 H) as [I3 [H3 [M3 T3]]].
    specialize (HD eq_refl). unfold lpost. split; [exact I3|]. split; [apply lwf_of_head; congruence|].
    split; [destruct SN; congruence|]. intros ->. destruct (T3 eq_refl) as [-> L].
    unfold get_head in G. destruct (lhead l) eqn:E.
    + inversion G; subst. left. split; auto.
    + destruct (alloc (lm l) tag 1 h) as [h4 [id|]] eqn:A; inversion G; subst.
      right. exists id. apply alloc_some in A. destruct A as [_ [A _]]. split; [congruence|exact SN].
  - inversion H; subst. destruct (TH eq_refl) as [-> L]. unfold lpost; sp; auto; intros _; left; split; auto using same_nodes_refl.
Qed.

Lemma list_clear_spec : forall tag l h h1 l1 ok F, lwf l -> linv (lowned l ++ F) h ->
  list_clear tag l h = (h1, l1, ok) ->
  linv (lowned l1 ++ F) h1 /\ lwf l1 /\ lm l1 = lm l /\ ok = true /\ h1 = h.
Proof.
  intros tag l h h1 l1 ok F W I H. unfold list_clear in H.
  destruct (lhead l) as [hd|] eqn:E; cbn in H; inversion H; subst; clear H.
  - split; [|split; [apply lwf_of_head; cbn; congruence | auto]].
    eapply linv_perm; [|exact I]. unfold lowned, ids_of, hd_list. cbn [lm lhead lnodes lfree]. rewrite E.
    apply Permutation_app_tail. apply tagm_perm. permn.
  - auto.
Qed.

Lemma list_erase_spec : forall l pos, Permutation (lowned (list_erase l pos)) (lowned l) /\
  lhead (list_erase l pos) = lhead l /\ lm (list_erase l pos) = lm l.
Proof.
  intros l pos. unfold list_erase. destruct (nth_error (lnodes l) pos) as [nd|] eqn:E; [|auto].
  cbn. sp; auto. unfold lowned, ids_of, hd_list. cbn [lm lhead lnodes lfree]. apply tagm_perm.
  rewrite <- (remove_at_perm _ _ _ E) at 2. permn.
Qed.

Lemma list_dtor_spec : forall tag l h h1 ok F, lwf l -> linv (lowned l ++ F) h ->
  list_dtor tag l h = (h1, ok) -> ok = true /\ linv F h1 /\ next h1 = next h /\ fuse h1 = fuse h.
Proof.
  intros tag l h h1 ok F W I H. unfold list_dtor in H. cbn in H. inversion H; subst; clear H.
  split; auto. destruct (lhead l) as [hd|] eqn:E.
  - split.
    + apply linv_free. apply linv_free_all. apply linv_free_all.
      eapply linv_perm; [|exact I]. unfold lowned, ids_of, hd_list. rewrite E. permp.
    + cbn. destruct (free_all_next (lm l) (lfree l) (free_all (lm l) (lnodes l) h)) as [A B].
      destruct (free_all_next (lm l) (lnodes l) h) as [C D]. split; congruence.
  - destruct (W E) as [N Fr]. unfold lowned, ids_of, hd_list in I. rewrite E, N, Fr in I. cbn in I. auto.
Qed.

(* two lists *)
Definition linv2 (w : xlist * xlist) (h : heap) : Prop :=
  lwf (fst w) /\ lwf (snd w) /\ linv (lowned (fst w) ++ lowned (snd w)) h.

Lemma linv2_sel : forall i w h, linv2 w h ->
  lwf (sel i w) /\ lwf (sel (negb i) w) /\ linv (lowned (sel i w) ++ lowned (sel (negb i) w)) h.
Proof.
  intros i [a b] h [Wa [Wb I]]. destruct i; cbn in *; sp; auto.
  eapply linv_perm; [apply Permutation_app_comm | exact I].
Qed.

Lemma linv2_upd : forall i w h l1, lwf l1 -> lwf (sel (negb i) w) ->
  linv (lowned l1 ++ lowned (sel (negb i) w)) h -> linv2 (upd i w l1) h.
Proof.
  intros i [a b] h l1 W1 W2 I. unfold linv2. destruct i; cbn in *.
  - split; [exact W2 | split; [exact W1 | eapply linv_perm; [apply Permutation_app_comm | exact I]]].
  - split; [exact W1 | split; [exact W2 | exact I]].
Qed.

(* what an operation that threw may have changed: nothing but a lazily allocated sentinel *)
Definition only_heads (w w1 : xlist * xlist) : Prop :=
  same_nodes (fst w) (fst w1) /\ same_nodes (snd w) (snd w1).

Lemma only_heads_upd : forall i w l1, same_nodes (sel i w) l1 -> only_heads w (upd i w l1).
Proof.
  intros i [a b] l1 S. destruct i; cbn in *; split; cbn; auto using same_nodes_refl.
Qed.

Lemma lstep_inv : forall op w h h1 w1 ok, linv2 w h -> lstep op w h = (h1, w1, ok) ->
  linv2 w1 h1 /\ (ok = false -> only_heads w w1).
Proof.
  intros op w h h1 w1 ok V H.
  assert (INS : forall i pos h2 l2 ok2, list_insert TAG_LNODE (sel i w) pos h = (h2, l2, ok2) ->
            linv2 (upd i w l2) h2 /\ (ok2 = false -> only_heads w (upd i w l2))).
  { intros i pos h2 l2 ok2 E. destruct (linv2_sel i w h V) as [Wi [Wo Ii]].
    eapply list_insert_spec in E; eauto. destruct E as [I2 [W2 [M2 T2]]]. split.
    - apply linv2_upd; auto.
    - intros Eo. apply only_heads_upd. destruct (T2 Eo) as [[S _]|[hd [_ S]]]; exact S. }
  destruct op; cbn [lstep] in H.
  - destruct (list_insert TAG_LNODE (sel i w) (length (lnodes (sel i w))) h) as [[h2 l2] ok2] eqn:E.
    inversion H; subst. eapply INS; eauto.
  - destruct (list_insert TAG_LNODE (sel i w) 0 h) as [[h2 l2] ok2] eqn:E.
    inversion H; subst. eapply INS; eauto.
  - destruct (list_insert TAG_LNODE (sel i w) (Nat.min pos (length (lnodes (sel i w)))) h) as [[h2 l2] ok2] eqn:E.
    inversion H; subst. eapply INS; eauto.
  - inversion H; subst. split; [|discriminate].
    destruct (linv2_sel i w h1 V) as [Wi [Wo Ii]]. destruct (list_erase_spec (sel i w) pos) as [P [Hd M]].
    apply linv2_upd; auto.
    + intros E. rewrite Hd in E. destruct (Wi E) as [N Fr]. unfold list_erase. rewrite N. destruct pos; cbn; auto.
    + eapply linv_perm; [|exact Ii]. apply Permutation_app_tail. apply Permutation_sym. exact P.
  - destruct (list_clear TAG_LNODE (sel i w) h) as [[h2 l2] ok2] eqn:E. inversion H; subst.
    destruct (linv2_sel i w h V) as [Wi [Wo Ii]]. eapply list_clear_spec in E; eauto.
    destruct E as [I2 [W2 [M2 [-> ->]]]]. split; [apply linv2_upd; auto | discriminate].
  - cbn in H. inversion H; subst. split; [exact V | discriminate].
  - cbn in H. inversion H; subst. split; [|discriminate].
    destruct w as [a b]. destruct V as [Wa [Wb I]]. cbn in *.
    split; [exact Wb | split; [exact Wa | eapply linv_perm; [apply Permutation_app_comm | exact I]]].
Qed.

Lemma lrun_inv : forall ops w h w1 h1, linv2 w h -> run _ _ lstep ops w h = (w1, h1) -> linv2 w1 h1.
Proof.
  induction ops as [|op r IH]; intros w h w1 h1 V H; cbn in H.
  - inversion H; subst; auto.
  - destruct (lstep op w h) as [[h2 w2] ok] eqn:E. eapply IH; [|exact H].
    eapply lstep_inv in E; eauto. tauto.
Qed.

Lemma linv20 : forall f, linv2 lworld0 (heap0 f).
Proof.
  intro f. unfold linv2, linv, heap_ok, lwf. cbn. repeat split; try constructor; try (intros p []).
Qed.

Lemma ldestroy_spec : forall w h h1 ok, linv2 w h -> ldestroy w h = (h1, ok) ->
  ok = true /\ live h1 = [] /\ bad h1 = false /\ next h1 = next h /\ fuse h1 = fuse h.
Proof.
  intros [a b] h h1 ok [Wa [Wb I]] H. unfold ldestroy in H. cbn [fst snd] in *.
  destruct (list_dtor TAG_LNODE a h) as [h2 ok1] eqn:E1.
  destruct (list_dtor TAG_LNODE b h2) as [h3 ok2] eqn:E2. inversion H; subst; clear H.
  eapply list_dtor_spec in E1; eauto. destruct E1 as [-> [I2 [N2 F2]]].
  rewrite <- (app_nil_r (lowned b)) in I2.
  eapply list_dtor_spec in E2; eauto. destruct E2 as [-> [[_ [P B]] [N3 F3]]].
  sp; auto; try congruence. apply Permutation_nil. apply Permutation_sym. exact P.
Qed.

(* ------------------------------------------------------------------------------------------- *)
(* ArenaAllocator *)

Definition bowned (m : mgr) (b : ablock) : list (nat * mgr) := tagm m (bstruct b :: bstore b :: bobjs b).
Definition blocks_owned (m : mgr) (bs : list ablock) : list (nat * mgr) := concat (map (bowned m) bs).
Definition aowned (a : arena) : list (nat * mgr) := lowned (alist a) ++ blocks_owned (am a) (ablocks a).

Definition awf (a : arena) : Prop := lwf (alist a) /\ (lnodes (alist a) = [] -> ablocks a = []).
Definition ainv (a : arena) (h : heap) : Prop := awf a /\ linv (aowned a ++ aleak a) h.

Lemma blocks_owned_app : forall m x y, blocks_owned m (x ++ y) = blocks_owned m x ++ blocks_owned m y.
Proof. intros; unfold blocks_owned. rewrite map_app, concat_app. reflexivity. Qed.

Lemma add_obj_perm : forall m bs o, bs <> [] ->
  Permutation (blocks_owned m (add_obj bs o)) ((o, m) :: blocks_owned m bs).
Proof.
  intros m bs o NE. unfold add_obj. destruct (rev bs) as [|b r] eqn:E.
  - exfalso. apply NE. rewrite <- (rev_involutive bs), E. reflexivity.
  - assert (B : bs = rev r ++ [b]) by (rewrite <- (rev_involutive bs), E; reflexivity).
    rewrite B, !blocks_owned_app. unfold blocks_owned, bowned. cbn. rewrite !app_nil_r. permp.
Qed.

Lemma block_dtor_spec : forall m b h F, linv (bowned m b ++ F) h -> linv F (block_dtor m b h).
Proof.
  intros m b h F I. unfold block_dtor. cbn. apply linv_free. apply linv_free. apply linv_free_all.
  eapply linv_perm; [|exact I]. unfold bowned. permp.
Qed.

Lemma blocks_dtor_spec : forall m bs h F, linv (blocks_owned m bs ++ F) h ->
  linv F (fold_left (fun h b => block_dtor m b h) bs h).
Proof.
  intros m bs; induction bs as [|b r IH]; intros h F I; cbn in *; auto.
  apply IH. apply block_dtor_spec. unfold blocks_owned in *. cbn in I. rewrite <- app_assoc in I. exact I.
Qed.

Lemma block_dtor_next : forall m b h, next (block_dtor m b h) = next h /\ fuse (block_dtor m b h) = fuse h.
Proof.
  intros m b h. unfold block_dtor. cbn. apply free_all_next.
Qed.

Lemma blocks_dtor_next : forall m bs h, next (fold_left (fun h b => block_dtor m b h) bs h) = next h /\
  fuse (fold_left (fun h b => block_dtor m b h) bs h) = fuse h.
Proof.
  intros m bs; induction bs as [|b r IH]; intros h; cbn; auto.
  destruct (IH (block_dtor m b h)) as [A B]. destruct (block_dtor_next m b h) as [C D]. split; congruence.
Qed.

Lemma last_full_nonempty : forall a, last_full a = false -> ablocks a <> [].
Proof. intros a H E. unfold last_full in H. rewrite E in H. discriminate. Qed.

(* the logical contents of an arena: its objects, in order of creation *)
Definition aobjs (a : arena) : list nat := concat (map bobjs (ablocks a)).

(* what a refused allocation may leave behind: nothing, or the two blocks of one ArenaBlock *)
Definition leak_step (a a1 : arena) : Prop :=
  aleak a1 = aleak a \/ exists bs st, aleak a1 = (bs, am a) :: (st, am a) :: aleak a.

(* without a fuse nothing is refused and the fuse stays off *)
Lemma alloc_fuse_none : forall m t c h h1 r, fuse h = None -> alloc m t c h = (h1, r) -> r <> None /\ fuse h1 = None.
Proof.
  intros m t c h h1 r F A. destruct (alloc_nofuse m t c h F) as [hx [Ax Fx]]. rewrite Ax in A.
  inversion A; subst. split; [discriminate | exact Fx].
Qed.

Lemma get_head_nofuse : forall tag l h h1 l1 ok, fuse h = None -> get_head tag l h = (h1, l1, ok) ->
  ok = true /\ fuse h1 = None.
Proof.
  intros tag l h h1 l1 ok F G. unfold get_head in G. destruct (lhead l); [inversion G; subst; auto|].
  destruct (alloc (lm l) tag 1 h) as [h2 [id|]] eqn:A; destruct (alloc_fuse_none _ _ _ _ _ _ F A) as [N F2];
    inversion G; subst; auto; try contradiction; try (exfalso; apply N; reflexivity).
Qed.

Lemma construct_node_nofuse : forall tag l pos h h1 l1 ok, fuse h = None -> construct_node tag l pos h = (h1, l1, ok) ->
  ok = true /\ fuse h1 = None.
Proof.
  intros tag l pos h h1 l1 ok F G. unfold construct_node in G. destruct (lfree l); [|inversion G; subst; auto].
  destruct (alloc (lm l) tag 1 h) as [h2 [id|]] eqn:A; destruct (alloc_fuse_none _ _ _ _ _ _ F A) as [N F2];
    inversion G; subst; auto; try contradiction; try (exfalso; apply N; reflexivity).
Qed.

Lemma list_insert_nofuse : forall tag l pos h h1 l1 ok, fuse h = None -> list_insert tag l pos h = (h1, l1, ok) ->
  ok = true /\ fuse h1 = None.
Proof.
  intros tag l pos h h1 l1 ok F G. unfold list_insert in G.
  destruct (get_head tag l h) as [[h2 l2] ok2] eqn:E. destruct (get_head_nofuse _ _ _ _ _ _ F E) as [-> F2].
  eapply construct_node_nofuse; eauto.
Qed.

Lemma list_insert_nonempty : forall tag l pos h h1 l1, list_insert tag l pos h = (h1, l1, true) -> lnodes l1 <> [].
Proof.
  intros tag l pos h h1 l1 G. unfold list_insert in G.
  destruct (get_head tag l h) as [[h2 l2] ok2] eqn:E. destruct ok2; [|inversion G].
  unfold construct_node in G. destruct (lfree l2).
  - destruct (alloc (lm l2) tag 1 h2) as [h3 [id|]]; inversion G; subst; cbn.
    unfold insert_at. intro X. apply app_eq_nil in X. destruct X as [_ X]. discriminate.
  - inversion G; subst; cbn. unfold insert_at. intro X. apply app_eq_nil in X. destruct X as [_ X]. discriminate.
Qed.

Lemma arena_new_block_spec : forall g a h h1 a1 ok, ainv a h -> arena_new_block g a h = (h1, a1, ok) ->
  ainv a1 h1 /\ am a1 = am a /\ absize a1 = absize a /\ leak_step a a1 /\
  (ok = true -> aleak a1 = aleak a /\ ablocks a1 <> []) /\ (fuse h = None -> ok = true /\ fuse h1 = None) /\
  (g = true -> aleak a1 = aleak a) /\ aobjs a1 = aobjs a.
Proof.
  intros g a h h1 a1 ok [[Wl Wb] I] H. unfold arena_new_block in H. unfold leak_step.
  destruct (alloc (am a) TAG_ABLK 1 h) as [h2 [bs|]] eqn:A1.
  2:{ inversion H; subst. split; [split; [split; auto | eapply linv_throw; eauto]|].
      sp; auto; try discriminate. intros Fz. destruct (alloc_fuse_none _ _ _ _ _ _ Fz A1) as [N _]. contradiction. }
  pose proof (linv_alloc _ _ _ _ _ _ _ I A1) as I2.
  destruct (alloc (am a) TAG_ASTORE (absize a) h2) as [h3 [st|]] eqn:A2.
  2:{ inversion H; subst. split; [split; [split; auto | apply linv_free; eapply linv_throw; eauto]|].
      sp; auto; try discriminate. intros Fz. destruct (alloc_fuse_none _ _ _ _ _ _ Fz A1) as [_ F2].
      destruct (alloc_fuse_none _ _ _ _ _ _ F2 A2) as [N _]. contradiction. }
  pose proof (linv_alloc _ _ _ _ _ _ _ I2 A2) as I3.
  assert (I3' : linv (lowned (alist a) ++ ((st, am a) :: (bs, am a) :: blocks_owned (am a) (ablocks a) ++ aleak a)) h3).
  { eapply linv_perm; [|exact I3]. unfold aowned. permp. }
  destruct (list_insert TAG_ANODE (alist a) (length (lnodes (alist a))) h3) as [[h4 l2] ok2] eqn:LI.
  pose proof (list_insert_spec _ _ _ _ _ _ _ _ Wl I3' LI) as [I4 [W4 [M4 T4]]].
  assert (FZ : fuse h = None -> ok2 = true /\ fuse h4 = None).
  { intros Fz. destruct (alloc_fuse_none _ _ _ _ _ _ Fz A1) as [_ F2].
    destruct (alloc_fuse_none _ _ _ _ _ _ F2 A2) as [_ F3]. eapply list_insert_nofuse; eauto. }
  destruct ok2.
  - inversion H; subst; clear H. split.
    + split; [split; [exact W4|]|].
      * cbn. intros E. exfalso. eapply list_insert_nonempty; eauto.
      * unfold aowned. cbn [alist ablocks aleak am]. rewrite blocks_owned_app.
        eapply linv_perm; [|exact I4]. unfold am in *. cbn [alist ablocks aleak]. rewrite ?M4.
        unfold blocks_owned at 3. unfold bowned. cbn. permp.
    + sp; cbn; auto; try discriminate.
      * intros _. split; auto. destruct (ablocks a); discriminate.
      * unfold aobjs. cbn. rewrite map_app, concat_app. cbn. rewrite app_nil_r. reflexivity.
  - assert (NB : lnodes l2 = [] -> ablocks a = []).
    { intros E. apply Wb. destruct (T4 eq_refl) as [[[_ [N _]] _]|[hd [_ [_ [N _]]]]]; congruence. }
    destruct g; inversion H; subst; clear H.
    + (* repaired: the block is destroyed, storage first *)
      split.
      * split; [split; [exact W4 | exact NB]|].
        unfold aowned, am in *. cbn [alist ablocks aleak]. rewrite ?M4. apply linv_free. apply linv_free.
        eapply linv_perm; [|exact I4]. permp.
      * sp; cbn; auto; try discriminate; try (intros Fz; destruct (FZ Fz); discriminate).
    + split.
      * split; [split; [exact W4 | exact NB]|].
        unfold aowned. eapply linv_perm; [|exact I4]. unfold am in *. cbn [alist ablocks aleak]. rewrite ?M4. permp.
      * sp; cbn; auto; try discriminate; try (intros Fz; destruct (FZ Fz); discriminate).
        right. exists bs, st. unfold am. rewrite ?M4. reflexivity.
Qed.

Lemma arena_new_obj_spec : forall g a osz h h1 a1 ok, ainv a h -> arena_new_obj g a osz h = (h1, a1, ok) ->
  ainv a1 h1 /\ am a1 = am a /\ absize a1 = absize a /\ leak_step a a1 /\ (ok = true -> aleak a1 = aleak a) /\
  (fuse h = None -> ok = true /\ fuse h1 = None) /\
  (g = true -> aleak a1 = aleak a) /\ (ok = false -> aobjs a1 = aobjs a).
Proof.
  intros g a osz h h1 a1 ok V H. unfold arena_new_obj in H.
  assert (R : forall h5 a2 okr, (if last_full a then arena_new_block g a h else (h, a, true)) = (h5, a2, okr) ->
     ainv a2 h5 /\ am a2 = am a /\ absize a2 = absize a /\ leak_step a a2 /\
     (okr = true -> aleak a2 = aleak a /\ ablocks a2 <> []) /\ (fuse h = None -> okr = true /\ fuse h5 = None) /\
     (g = true -> aleak a2 = aleak a) /\ aobjs a2 = aobjs a).
  { intros h5 a2 okr E. destruct (last_full a) eqn:LF.
    - eapply arena_new_block_spec; eauto.
    - inversion E; subst. sp; auto; try discriminate. left; reflexivity. intros _. split; auto. apply last_full_nonempty; auto. }
  destruct (if last_full a then arena_new_block g a h else (h, a, true)) as [[h5 a2] okr] eqn:ER.
  destruct (R _ _ _ eq_refl) as [[[Wl2 Wb2] I5] [AM2 [BS2 [LK [OKL [FZ [GL NB]]]]]]].
  destruct okr.
  2:{ inversion H; subst. split; [split; [split; auto|auto]|].
      sp; auto; try discriminate; try (intros Fz; destruct (FZ Fz); discriminate). }
  destruct (OKL eq_refl) as [LK2 NE].
  destruct (alloc (am a2) TAG_BYTE osz h5) as [h6 [o|]] eqn:A3; inversion H; subst; clear H.
  - split.
    + split; [split; [exact Wl2 |]|].
      * cbn. intros E. exfalso. apply NE. apply Wb2. exact E.
      * pose proof (linv_alloc _ _ _ _ _ _ _ I5 A3) as A3'.
        eapply linv_perm; [|exact A3']. unfold aowned. cbn [alist ablocks aleak am].
        rewrite (add_obj_perm (lm (alist a2)) (ablocks a2) o NE). unfold am. permp.
    + sp; cbn; auto; try discriminate; try (unfold leak_step in *; cbn; exact LK);
        try (intros Fz; destruct (FZ Fz) as [_ F5]; destruct (alloc_fuse_none _ _ _ _ _ _ F5 A3) as [_ F6]; auto).
  - split.
    + split; [split; auto|]. eapply linv_throw; eauto.
    + sp; auto; try discriminate;
        try (intros Fz; destruct (FZ Fz) as [_ F5]; destruct (alloc_fuse_none _ _ _ _ _ _ F5 A3) as [N _]; exfalso; apply N; reflexivity).
Qed.
