<?xml version="1.0"?>
<xsl:stylesheet version="1.0" xmlns:xsl="http://www.w3.org/1999/XSL/Transform">
  <xsl:output method="xml" indent="no"/>
  <xsl:key name="cust" match="cust" use="@id"/>
  <xsl:key name="by-sku" match="item" use="@sku"/>
  <xsl:template match="/">
    <report>
      <xsl:for-each select="orders/order">
        <xsl:sort select="key('cust', @cust)/@name"/>
        <xsl:sort select="@total" data-type="number" order="descending"/>
        <o n="{position()}" who="{key('cust', @cust)/@name}"><xsl:number count="order"/>:<xsl:value-of select="@id"/></o>
      </xsl:for-each>
      <skus><xsl:value-of select="count(key('by-sku','a'))"/></skus>
    </report>
  </xsl:template>
</xsl:stylesheet>
