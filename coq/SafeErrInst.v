(* C03, part "errors": facts about the generated constants that the instantiations need. *)
From Coq Require Import Arith NArith Lia.
Require Import XV.SafeErrDefs XV.GenSafeErr.

(* the (null) entries the constructor and reset() leave on m_currentTemplateStack are below the limit *)
Lemma template_initial_le_limit : (template_stack_initial <= template_nesting_limit)%N.
Proof. unfold template_stack_initial, template_nesting_limit. lia. Qed.
