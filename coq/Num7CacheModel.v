(* C17, counting half: the counters table (CountersTable::countNode) returns, after any history of
   earlier calls, the length of the getPreviousNode chain of the target - for every getTargetNode /
   getPreviousNode whose steps move strictly backwards.  Proofs about the Cache section of Num7CountDefs. *)
From Coq Require Import List Arith Bool Lia.
Require Import XV.Num7CountDefs.
Import ListNotations.

Section CacheProofs.
  Variable X : Type.
  Variable eqb : X -> X -> bool.
  Variable after : X -> X -> bool.
  Variable target_of : X -> option X.
  Variable prev : X -> option X.
  Variable key : X -> nat.
  Variable fuel_of : X -> nat.
  Hypothesis Heq : forall a b, eqb a b = true <-> a = b.
  Hypothesis Hprev : forall x y, prev x = Some y -> key y < key x.
  Hypothesis Hfuel : forall n t, target_of n = Some t -> key t < fuel_of n.

  Definition chainf (x : X) : list X := chain X prev (S (key x)) x.

  Lemma chain_fuel : forall f1 f2 x, key x < f1 -> key x < f2 -> chain X prev f1 x = chain X prev f2 x.
  Proof.
    induction f1 as [|f1 IH]; intros f2 x H1 H2; [lia|].
    destruct f2 as [|f2]; [lia|]. cbn [chain]. f_equal.
    destruct (prev x) as [y|] eqn:E; [|reflexivity].
    apply Hprev in E. apply IH; lia.
  Qed.

  Lemma chainf_unfold : forall x, chainf x = x :: match prev x with Some y => chainf y | None => [] end.
  Proof.
    intros. unfold chainf at 1. cbn [chain]. f_equal.
    destruct (prev x) as [y|] eqn:E; [|reflexivity]. apply Hprev in E. apply chain_fuel; lia.
  Qed.

  Lemma chainf_pos : forall x, 1 <= length (chainf x).
  Proof. intros. rewrite chainf_unfold. cbn. lia. Qed.

  Definition good (l : list X) : Prop := exists x, l = rev (chainf x).
  Definition inv (tbl : table X) : Prop := Forall good tbl.

  (* Counter::getPreviouslyCounted answers 0 (miss) or the chain length of the node *)
  Lemma scan_chain : forall n x t, key x < n ->
    scan_counted X eqb after (chainf x) (length (chainf x)) t = 0 \/
    scan_counted X eqb after (chainf x) (length (chainf x)) t = length (chainf t).
  Proof.
    induction n as [|n IH]; intros x t Hk; [lia|].
    rewrite chainf_unfold. cbn [scan_counted length].
    destruct (eqb t x) eqn:E.
    - apply Heq in E. subst. right. rewrite (chainf_unfold x). reflexivity.
    - destruct (after x t); [left; reflexivity|].
      cbn [pred]. destruct (prev x) as [y|] eqn:Ep.
      + apply IH. apply Hprev in Ep. lia.
      + left. reflexivity.
  Qed.

  Lemma previously_counted_ok : forall l t, good l ->
    previously_counted X eqb after l t = 0 \/ previously_counted X eqb after l t = length (chainf t).
  Proof.
    intros l t [x Hx]. unfold previously_counted. subst l. rewrite rev_involutive, rev_length.
    apply (scan_chain (S (key x))). lia.
  Qed.

  Lemma lookup_ok : forall tbl t, inv tbl ->
    lookup X eqb after tbl t = 0 \/ lookup X eqb after tbl t = length (chainf t).
  Proof.
    induction tbl as [|l r IH]; intros t Hi; [left; reflexivity|].
    inversion Hi; subst. cbn [lookup].
    destruct (previously_counted_ok l t H1) as [E|E]; rewrite E.
    - cbn. apply IH. assumption.
    - destruct (0 <? length (chainf t)) eqn:Z; [right; reflexivity|]. apply Nat.ltb_ge in Z. pose proof (chainf_pos t). lia.
  Qed.

  Lemma extend_ok : forall tbl t nf tbl' n t0, inv tbl -> chainf t0 = nf ++ chainf t ->
    extend X eqb tbl t nf = Some (tbl', n) -> n = length (chainf t) /\ inv tbl'.
  Proof.
    induction tbl as [|l r IH]; intros t nf tbl' n t0 Hi Hc He; [discriminate|].
    inversion Hi as [|l0 r0 Hg Hr]; subst. cbn [extend] in He.
    destruct (rev l) as [|c rl] eqn:Er.
    - destruct (extend X eqb r t nf) as [[r' n']|] eqn:E; [|discriminate]. inversion He; subst.
      destruct (IH t nf r' n t0 Hr Hc E) as [A B]. split; [exact A|constructor; assumption].
    - destruct (eqb c t) eqn:Ec.
      + inversion He; subst. apply Heq in Ec. subst c.
        destruct Hg as [x Hx]. assert (Hx' : rev l = chainf x) by (rewrite Hx, rev_involutive; reflexivity).
        rewrite Er, chainf_unfold in Hx'. inversion Hx'; subst x.
        split; [rewrite Hx, rev_length; reflexivity|].
        constructor; [|assumption]. exists t0. rewrite Hc, rev_app_distr, <- Hx. reflexivity.
      + destruct (extend X eqb r t nf) as [[r' n']|] eqn:E; [|discriminate]. inversion He; subst.
        destruct (IH t nf r' n t0 Hr Hc E) as [A B]. split; [exact A|constructor; assumption].
  Qed.

  Lemma walk_ok : forall fuel tbl t count nf t0, inv tbl -> key t < fuel ->
    chainf t0 = nf ++ chainf t -> count = length nf ->
    exists tbl', walk X eqb prev fuel tbl t count nf = Some (tbl', length (chainf t0)) /\ inv tbl'.
  Proof.
    induction fuel as [|fuel IH]; intros tbl t count nf t0 Hi Hk Hc Hn; [lia|].
    cbn [walk].
    destruct (if count =? 0 then None else extend X eqb tbl t nf) as [[tbl' n]|] eqn:E.
    - destruct (count =? 0); [discriminate|].
      destruct (extend_ok tbl t nf tbl' n t0 Hi Hc E) as [A B].
      exists tbl'. split; [|exact B]. rewrite Hc, app_length, A, Hn. reflexivity.
    - clear E. destruct (prev t) as [t'|] eqn:Ep.
      + apply (IH tbl t' (S count) (nf ++ [t]) t0); auto.
        * apply Hprev in Ep. lia.
        * rewrite Hc, (chainf_unfold t), Ep, <- app_assoc. reflexivity.
        * rewrite app_length. cbn. lia.
      + exists (tbl ++ [rev (nf ++ [t])]). split.
        * rewrite Hc, (chainf_unfold t), Ep, app_length, Hn. cbn. do 2 f_equal. lia.
        * apply Forall_app. split; [exact Hi|]. constructor; [|constructor].
          exists t0. rewrite Hc, (chainf_unfold t), Ep. reflexivity.
  Qed.

  (* the cache-free count: the length of the getPreviousNode chain of the target *)
  Definition brute (n : X) : nat :=
    match target_of n with None => 0 | Some t => length (chainf t) end.

  Lemma count_node_ok : forall tbl n, inv tbl ->
    exists tbl', count_node X eqb after target_of prev (fuel_of n) tbl n = Some (tbl', brute n) /\ inv tbl'.
  Proof.
    intros tbl n Hi. unfold count_node, brute.
    destruct (target_of n) as [t|] eqn:Et; [|exists tbl; split; [reflexivity|exact Hi]].
    destruct (lookup_ok tbl t Hi) as [E|E]; rewrite E.
    - cbn [Nat.ltb Nat.leb]. apply (walk_ok (fuel_of n) tbl t 0 [] t Hi).
      + apply Hfuel. exact Et.
      + reflexivity.
      + reflexivity.
    - destruct (0 <? length (chainf t)) eqn:Z.
      + exists tbl. split; [reflexivity|exact Hi].
      + apply Nat.ltb_ge in Z. pose proof (chainf_pos t). lia.
  Qed.

  (* a history: nodes numbered earlier, in any order, with one table *)
  Fixpoint run_hist (tbl : table X) (h : list X) : option (table X) :=
    match h with
    | [] => Some tbl
    | n :: r => match count_node X eqb after target_of prev (fuel_of n) tbl n with
                | Some (tbl', _) => run_hist tbl' r
                | None => None
                end
    end.

  Lemma run_hist_inv : forall h tbl, inv tbl -> exists tbl', run_hist tbl h = Some tbl' /\ inv tbl'.
  Proof.
    induction h as [|n r IH]; intros tbl Hi; [exists tbl; split; [reflexivity|exact Hi]|].
    cbn [run_hist]. destruct (count_node_ok tbl n Hi) as [tbl1 [E I1]]. rewrite E. apply IH. exact I1.
  Qed.

  Theorem history_independent : forall (h : list X) (n : X),
    exists tbl tbl', run_hist [] h = Some tbl /\
                     count_node X eqb after target_of prev (fuel_of n) tbl n = Some (tbl', brute n).
  Proof.
    intros h n. destruct (run_hist_inv h [] (Forall_nil _)) as [tbl [E I]].
    destruct (count_node_ok tbl n I) as [tbl' [E' _]].
    exists tbl, tbl'. split; assumption.
  Qed.
End CacheProofs.
