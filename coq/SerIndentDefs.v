(* SerIndentDefs.v — C04: the indenting cells of XalanXMLSerializerFactory (doIndent = true) through the
   staging buffers.  The indent automaton (XalanIndentWriter as used by FormatterToXMLUnicode) is the
   one modelled for C08 in OutoptDefs.v; here its items are run through the buffered writer of any
   writer family, so that the 12 cells {UTF-8, UTF-16, other} x {1.0, 1.1} x {indent, no indent} are
   all compared byte-exactly with the library.  Definitions only. *)
From Coq Require Import NArith List Bool.
Require Import XV.SerDefs XV.OutoptDefs.
Import ListNotations.
Local Open Scope N_scope.

Definition indent_cfg (v11 : bool) (encoding : list N) (amount : N) : xcfg :=
  mkxcfg EncUtf8 v11 encoding (Some amount) true [] [] [].   (* x_enc is not used below: the family is given *)

Definition indent_items (F : fam) (v11 : bool) (encoding : list N) (amount : N) (es : list event) : list item :=
  let c := indent_cfg v11 encoding amount in
  header_items F c ++ flat_map (render_tok F c) (doc_tokens c es) ++ [IFlush].

Definition serialize_indent (F : fam) (v11 : bool) (encoding : list N) (amount : N) (es : list event)
  : res (list N) :=
  match run (f_kbuf F) (indent_items F v11 encoding amount es) (wr_init (f_kbuf F)) with
  | Ok w => Ok (all_units w)
  | Oob => Oob
  | Thrown c => Thrown c
  end.

Definition serialize_indent_fast (F : fam) (v11 : bool) (encoding : list N) (amount : N) (es : list event)
  : res (list N) :=
  match run (f_kbuf F) (indent_items F v11 encoding amount es) (wr_init (f_kbuf F)) with
  | Ok w => Ok (rev_append (out_rev w) (rev_append (buf_rev w) []))
  | Oob => Oob
  | Thrown c => Thrown c
  end.
