(* Extraction of the C16 model for the correspondence driver. ExtrOcamlBasic only. *)
Require Import ExtrOcamlBasic.
Require Import XV.SortDefs.
Extraction "extracted/sort_model.ml" run_sort run_sort_pure sort_attrs num_compare lex_compare.
