// Correspondence / oracle driver for C12 (node lists in document order).
//
// One case per line, fields separated by '|':
//   <id>|<mode>|<doc>|<doc>|...|O:<ops>
// mode: L  list operations on three MutableNodeRefList registers (0,1,2)
//       P  isNodeAfter on all pairs of non-document nodes of every document
//       X  XPath expressions (ops are "<ctx doc>.<ctx node>=<u16 token of the expression>")
// doc : <kind>:<shape>:<doc tokens>       kind n (XalanSourceTree), xi (Xerces wrapper, indexed), xn (not indexed)
//       shape = the tree the generator expects, "<number of attributes>(<children>)" per element-like node,
//       document node first, e.g. 0(2(0()1(0()))) ; the driver prints "shape" if the DOM it built differs.
//       doc tokens as in harness/xp.cpp:  (qname  @qname=u:..  )  t=u:..  c=u:..  p=target=u:..
// node identities are printed as <document number>.<pre-order number computed here by an independent walk>
// (document node 0, then element, its attributes in getAttributes() order, its children).
// list ops (space separated), r/s = register digit:
//   a<r>:<d>.<i>   addNodeInDocOrder      p<r>:<d>.<i>  addNode (push_back)
//   m<r>:<s>       r.addNodesInDocOrder(const MutableNodeRefList& s)     b<r>:<s>  the NodeRefListBase& overload
//   r<r> reverse   c<r> clear    f<r> honest producer: setDocumentOrder / setReverseDocumentOrder if that is true of r
//   n<r>:<i,j,..>  setNode(i,0) ... then clearNulls()
//   sD<r> sR<r> sU<r>  set the flag unconditionally
// Output: <id> <state after op 1>;<state after op 2>;...     state = <U|D|R>:<d.i,d.i,...> of the register the op wrote
//         P: <id> <bit string per document, row-major over pairs (i,j), i,j >= 1>;...  twice: DOMSupport then DOMServices
//         X: <id> <ids>;<ids>;...   (err for an exception; "<ids>!reinserted:<ids>" when inserting the delivered nodes one by
//            one with addNodeInDocOrder gives another sequence, i.e. the result is not in the library's own document order)
#include "common.hpp"
#include <map>
#include <memory>
#include <xercesc/framework/MemBufInputSource.hpp>
#include <xercesc/parsers/XercesDOMParser.hpp>
#include <xercesc/dom/DOMDocument.hpp>
#include <xercesc/sax/SAXException.hpp>
#include <xalanc/XalanDOM/XalanDocument.hpp>
#include <xalanc/XalanDOM/XalanElement.hpp>
#include <xalanc/XalanDOM/XalanNamedNodeMap.hpp>
#include <xalanc/XalanDOM/XalanDOMException.hpp>
#include <xalanc/PlatformSupport/XSLException.hpp>
#include <xalanc/PlatformSupport/PrefixResolver.hpp>
#include <xalanc/DOMSupport/DOMServices.hpp>
#include <xalanc/DOMSupport/DOMSupport.hpp>
#include <xalanc/XPath/XPath.hpp>
#include <xalanc/XPath/XObject.hpp>
#include <xalanc/XPath/XObjectFactoryDefault.hpp>
#include <xalanc/XPath/XPathProcessorImpl.hpp>
#include <xalanc/XPath/XPathConstructionContextDefault.hpp>
#include <xalanc/XPath/XPathExecutionContextDefault.hpp>
#include <xalanc/XPath/XPathEnvSupportDefault.hpp>
#include <xalanc/XPath/MutableNodeRefList.hpp>
#include <xalanc/XPath/NodeRefList.hpp>
#include <xalanc/XalanSourceTree/XalanSourceTreeDOMSupport.hpp>
#include <xalanc/XalanSourceTree/XalanSourceTreeParserLiaison.hpp>
#include <xalanc/XercesParserLiaison/XercesParserLiaison.hpp>
#include <xalanc/XercesParserLiaison/XercesDOMSupport.hpp>

using namespace xalanc;
using namespace verif;

static void esc(std::string& out, const std::string& tok)
{
    size_t i = 2;
    char buf[16];
    while (i < tok.size()) {
        size_t j = tok.find(',', i);
        if (j == std::string::npos) j = tok.size();
        unsigned c = (unsigned) std::strtoul(tok.substr(i, j - i).c_str(), 0, 16);
        if (c == '<') out += "&lt;";
        else if (c == '>') out += "&gt;";
        else if (c == '&') out += "&amp;";
        else if (c == '"') out += "&quot;";
        else if (c >= 0x20 && c < 0x7f) out += (char) c;
        else { std::snprintf(buf, sizeof buf, "&#x%x;", c); out += buf; }
        i = j + 1;
    }
}

static std::string xml_of_tokens(const std::string& field)
{
    std::vector<std::string> t = split(field);
    std::string out;
    std::vector<std::string> stack;
    bool open = false;
    for (size_t i = 0; i < t.size(); ++i) {
        const std::string& k = t[i];
        if (k[0] == '(') {
            if (open) out += ">";
            out += "<" + k.substr(1);
            stack.push_back(k.substr(1));
            open = true;
        } else if (k[0] == '@') {
            size_t e = k.find('=');
            out += " " + k.substr(1, e - 1) + "=\"";
            esc(out, k.substr(e + 1));
            out += "\"";
        } else if (k == ")") {
            if (open) { out += "/>"; open = false; }
            else out += "</" + stack.back() + ">";
            stack.pop_back();
        } else {
            if (open) { out += ">"; open = false; }
            if (k[0] == 't') esc(out, k.substr(2));
            else if (k[0] == 'c') { out += "<!--"; esc(out, k.substr(2)); out += "-->"; }
            else if (k[0] == 'p') {
                size_t e = k.find('=', 2);
                out += "<?" + k.substr(2, e - 2);
                std::string d; esc(d, k.substr(e + 1));
                if (!d.empty()) out += " " + d;
                out += "?>";
            }
        }
    }
    return out;
}

struct Doc {
    XalanDocument* doc;
    std::vector<XalanNode*> nodes;
    std::string shape;
    Doc() : doc(0) {}
    void walk(XalanNode* n)
    {
        nodes.push_back(n);
        size_t na = 0;
        if (n->getNodeType() == XalanNode::ELEMENT_NODE) {
            const XalanNamedNodeMap* a = n->getAttributes();
            if (a) { na = a->getLength(); for (XalanSize_t i = 0; i < a->getLength(); ++i) nodes.push_back(a->item(i)); }
        }
        char buf[24]; std::snprintf(buf, sizeof buf, "%zu(", na); shape += buf;
        for (XalanNode* c = n->getFirstChild(); c; c = c->getNextSibling()) walk(c);
        shape += ")";
    }
};

struct World {
    MemoryManager& mm;
    std::unique_ptr<XalanSourceTreeDOMSupport> ndom;
    std::unique_ptr<XalanSourceTreeParserLiaison> nliaison;
    std::unique_ptr<XercesParserLiaison> xliaison;
    std::unique_ptr<XercesDOMSupport> xdom;
    std::vector<xercesc::XercesDOMParser*> parsers;
    std::vector<Doc> docs;
    std::map<const XalanNode*, std::pair<size_t, size_t> > ids;
    bool native;
    World(MemoryManager& m) : mm(m), native(true) {}
    ~World() { nliaison.reset(); ndom.reset(); xdom.reset(); xliaison.reset(); for (size_t i = 0; i < parsers.size(); ++i) delete parsers[i]; }
    DOMSupport* support() { return native ? static_cast<DOMSupport*>(ndom.get()) : static_cast<DOMSupport*>(xdom.get()); }
    bool add(const std::string& field)   // kind:shape:tokens ; false on shape mismatch
    {
        size_t c1 = field.find(':'), c2 = field.find(':', c1 + 1);
        std::string kind = field.substr(0, c1), shape = field.substr(c1 + 1, c2 - c1 - 1), toks = field.substr(c2 + 1);
        std::string xml = xml_of_tokens(toks);
        Doc d;
        if (kind == "n") {
            native = true;
            if (!ndom) { ndom.reset(new XalanSourceTreeDOMSupport); nliaison.reset(new XalanSourceTreeParserLiaison(*ndom, mm)); ndom->setParserLiaison(nliaison.get()); }
            xercesc::MemBufInputSource src((const XMLByte*) xml.data(), xml.size(), "case");
            d.doc = nliaison->parseXMLStream(src);
        } else {
            native = false;
            if (!xliaison) { xliaison.reset(new XercesParserLiaison(mm)); xdom.reset(new XercesDOMSupport(*xliaison)); }
            xercesc::XercesDOMParser* p = new xercesc::XercesDOMParser;
            parsers.push_back(p);
            p->setDoNamespaces(true);
            xercesc::MemBufInputSource src((const XMLByte*) xml.data(), xml.size(), "case");
            p->parse(src);
            const bool indexed = kind == "xi";
            d.doc = xliaison->createDocument(p->getDocument(), indexed, indexed, false);
        }
        d.walk(d.doc);
        for (size_t i = 0; i < d.nodes.size(); ++i) ids[d.nodes[i]] = std::make_pair(docs.size(), i);
        docs.push_back(d);
        return d.shape == shape;
    }
    XalanNode* node(const std::string& s) const    // "d.i"
    {
        size_t dot = s.find('.');
        size_t d = (size_t) std::strtoul(s.substr(0, dot).c_str(), 0, 10), i = (size_t) std::strtoul(s.substr(dot + 1).c_str(), 0, 10);
        if (d >= docs.size() || i >= docs[d].nodes.size()) return 0;
        return docs[d].nodes[i];
    }
    std::string show(const NodeRefListBase& l) const
    {
        std::string r;
        char buf[48];
        for (NodeRefListBase::size_type i = 0; i < l.getLength(); ++i) {
            std::map<const XalanNode*, std::pair<size_t, size_t> >::const_iterator it = ids.find(l.item(i));
            if (it == ids.end()) std::snprintf(buf, sizeof buf, i ? ",?" : "?");
            else std::snprintf(buf, sizeof buf, i ? ",%zu.%zu" : "%zu.%zu", it->second.first, it->second.second);
            r += buf;
        }
        return r;
    }
    // document order by the independent numbering; 1 ascending strictly, -1 descending strictly, 0 neither
    int sortedness(const MutableNodeRefList& l) const
    {
        bool asc = true, desc = true;
        for (NodeRefListBase::size_type i = 0; i + 1 < l.getLength(); ++i) {
            std::pair<size_t, size_t> a = ids.find(l.item(i))->second, b = ids.find(l.item(i + 1))->second;
            if (!(a < b)) asc = false;
            if (!(b < a)) desc = false;
        }
        return asc ? 1 : desc ? -1 : 0;
    }
};

static std::string state(const World& w, const MutableNodeRefList& l)
{
    return std::string(l.getDocumentOrder() ? "D" : l.getReverseDocumentOrder() ? "R" : "U") + ":" + w.show(l);
}

class NoResolver : public PrefixResolver
{
public:
    XalanDOMString m_uri;
    virtual const XalanDOMString* getNamespaceForPrefix(const XalanDOMString&) const { return 0; }
    virtual const XalanDOMString& getURI() const { return m_uri; }
};

int main(int argc, char** argv)
{
    Init init;
    std::istream* in = &std::cin;
    std::ifstream f;
    if (argc > 1) { f.open(argv[1]); in = &f; }
    MemoryManager& mm = XalanMemMgrs::getDefaultXercesMemMgr();
    std::string line;
    while (std::getline(*in, line)) {
        if (line.empty() || line[0] == '#') continue;
        std::vector<std::string> fs;
        { size_t i = 0; while (true) { size_t j = line.find('|', i); if (j == std::string::npos) { fs.push_back(line.substr(i)); break; } fs.push_back(line.substr(i, j - i)); i = j + 1; } }
        if (fs.size() < 4) continue;
        const std::string& id = fs[0];
        const std::string& mode = fs[1];
        std::string out;
        try {
            World w(mm);
            bool shapes = true;
            for (size_t k = 2; k + 1 < fs.size(); ++k) shapes = w.add(fs[k]) && shapes;
            if (!shapes) { std::cout << id << " shape"; for (size_t k = 0; k < w.docs.size(); ++k) std::cout << " " << w.docs[k].shape; std::cout << '\n'; continue; }
            std::string opsf = fs.back().substr(2);
            XPathEnvSupportDefault env(mm);
            XObjectFactoryDefault factory(mm);
            XPathExecutionContextDefault ec(mm);
            ec.setXPathEnvSupport(&env);
            ec.setXObjectFactory(&factory);
            ec.setDOMSupport(w.support());
            if (mode == "P") {
                for (int pass = 0; pass < 2; ++pass)
                    for (size_t d = 0; d < w.docs.size(); ++d) {
                        const std::vector<XalanNode*>& ns = w.docs[d].nodes;
                        std::string bits;
                        for (size_t i = 1; i < ns.size(); ++i)
                            for (size_t j = 1; j < ns.size(); ++j)
                                bits += (pass == 0 ? ec.isNodeAfter(*ns[i], *ns[j]) : DOMServices::isNodeAfter(*ns[i], *ns[j])) ? '1' : '0';
                        out += (out.empty() ? "" : ";") + bits;
                    }
            } else if (mode == "X") {
                std::vector<std::string> ops = split(opsf);
                for (size_t k = 0; k < ops.size(); ++k) {
                    size_t eq = ops[k].find('=');
                    XalanNode* ctx = w.node(ops[k].substr(0, eq));
                    std::string r;
                    try {
                        XPathConstructionContextDefault cc(mm);
                        XPath xpath(mm);
                        NoResolver res;
                        XPathProcessorImpl proc(mm);
                        proc.initXPath(xpath, cc, u16_of_token(ops[k].substr(eq + 1)), res);
                        MutableNodeRefList ctxList(mm);
                        XObjectPtr o = xpath.execute(ctx, res, ctxList, ec);
                        if (o->getType() != XObject::eTypeNodeSet) r = "notnodeset";
                        else {
                            const NodeRefListBase& ns = o->nodeset();
                            r = w.show(ns);
                            // the library's own notion of document order: the same nodes inserted one by one
                            MutableNodeRefList again(mm);
                            for (NodeRefListBase::size_type q = 0; q < ns.getLength(); ++q) again.addNodeInDocOrder(ns.item(q), ec);
                            const std::string r2 = w.show(again);
                            if (r2 != r) r += "!reinserted:" + r2;
                        }
                    }
                    catch (const XSLException&) { r = "err"; }
                    catch (const XalanDOMException&) { r = "err"; }
                    out += (k ? ";" : "") + r;
                }
            } else {
                MutableNodeRefList reg0(mm), reg1(mm), reg2(mm);
                MutableNodeRefList* const regp[3] = { &reg0, &reg1, &reg2 };
                std::vector<std::string> ops = split(opsf);
                for (size_t k = 0; k < ops.size(); ++k) {
                    const std::string& op = ops[k];
                    size_t colon = op.find(':');
                    std::string arg = colon == std::string::npos ? "" : op.substr(colon + 1);
                    char c = op[0];
                    int r = (c == 's' ? op[2] : op[1]) - '0';
                    if (r < 0 || r > 2) { out += ";bad"; continue; }
                    MutableNodeRefList& l = *regp[r];
                    if (c == 'a') l.addNodeInDocOrder(w.node(arg), ec);
                    else if (c == 'p') { XalanNode* n = w.node(arg); if (n) l.addNode(n); }
                    else if (c == 'm' || c == 'b') {
                        int s = arg[0] - '0';
                        if (s < 0 || s > 2 || s == r) { out += ";bad"; continue; }
                        if (c == 'm') l.addNodesInDocOrder((*regp[s]), ec);
                        else l.addNodesInDocOrder(static_cast<const NodeRefListBase&>((*regp[s])), ec);
                    }
                    else if (c == 'r') l.reverse();
                    else if (c == 'c') l.clear();
                    else if (c == 'f') { int so = w.sortedness(l); if (so == 1) l.setDocumentOrder(); else if (so == -1) l.setReverseDocumentOrder(); }
                    else if (c == 's') { if (op[1] == 'D') l.setDocumentOrder(); else if (op[1] == 'R') l.setReverseDocumentOrder(); else l.setUnknownOrder(); }
                    else if (c == 'n') {
                        size_t i = 0;
                        while (i < arg.size()) { size_t j = arg.find(',', i); if (j == std::string::npos) j = arg.size();
                            size_t pos = (size_t) std::strtoul(arg.substr(i, j - i).c_str(), 0, 10);
                            if (pos < l.getLength()) l.setNode(pos, 0); i = j + 1; }
                        l.clearNulls();
                    }
                    out += (k ? ";" : "") + state(w, l);
                }
            }
        }
        catch (const XSLException&) { out = "exception:xsl"; }
        catch (const XalanDOMException&) { out = "exception:dom"; }
        catch (const xercesc::XMLException&) { out = "exception:xml"; }
        catch (const xercesc::SAXException&) { out = "exception:sax"; }
        catch (const std::exception& e) { out = std::string("exception:std:") + e.what(); }
        std::cout << id << " " << out << '\n';
    }
    return 0;
}
