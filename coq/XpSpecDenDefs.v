(* XpSpecDenDefs.v — a relational denotational semantics of the expressions of XpAst.v, written from
   XPath 1.0 sections 2 (location paths, node tests, predicates), 3 (expressions) and 4 (core
   function library): [den c e v] reads "in context c (context node, position, size, variable
   bindings, document) expression e has value v".  Node-sets are represented by strictly sorted
   lists (document order), so the value of an expression is unique.  An expression that the
   Recommendation makes erroneous (wrong argument type, unknown function or variable, ...) has no
   value.  Definitions only; the theorems relating [eval] of XpDefs.v to [den] are in
   XpSpecDenModel.v / Properties_C02t.v.
   Carved out by name: the namespace axis (K21) is not specified; strings are sequences of UTF-16
   code units (K6).  The primitive string / number functions substring, translate,
   normalize-space, lang, floor / ceiling / round, number-from-string and the first-occurrence search
   are the shared definitions of XpDefs.v / NumDefs.v, whose conformance is the subject of separate
   theorems (Properties_C02.v, Properties_C02s.v, Properties_C18.v). *)
From Coq Require Import ZArith NArith List Bool Arith Relations Sorted SpecFloat.
Require Import XV.GenNum XV.NumDefs XV.XpAst XV.DomDefs XV.XpDefs XV.XpModel XV.XpSpecDefs XV.XpSpecEvalModel.
Import ListNotations.

(** * node tests (section 2.3) *)
(* "every axis has a principal node type: for the attribute axis it is attribute, for the namespace
   axis it is namespace, for other axes it is element" *)
Definition principal_kind (ax : axis) : nkind :=
  match ax with AxAttribute => KAttr | AxNamespace => KNsDecl | _ => KElem end.

(* the local part of the expanded-name of a node (getLocalName; a node built without namespace
   support has only its node name) *)
Definition local_part (nd : node) : str := match n_local nd with [] => n_qname nd | l => l end.

(* a text node removed by xsl:strip-space is not part of the tree *)
Definition in_tree (d : doc) (strip : doc -> nat -> bool) (n : nat) : Prop :=
  ~ (n_kind (get d n) = KText /\ strip d n = true).

Definition node_test_denotes (d : doc) (strip : doc -> nat -> bool) (ax : axis) (t : ntest) (n : nat) : Prop :=
  let nd := get d n in
  match t with
  (* "node() is true for any node of any type whatsoever"; on the attribute axis the stored list also
     holds the declarations of namespaces, which are not attribute nodes (5.3) *)
  | TNode => in_tree d strip n /\ (ax = AxAttribute -> n_kind nd = KAttr)
  | TText => n_kind nd = KText /\ in_tree d strip n
  | TComment => n_kind nd = KComment
  | TPi None => n_kind nd = KPi
  (* "processing-instruction('x') is true for any processing instruction that has a name equal to x" *)
  | TPi (Some tg) => n_kind nd = KPi /\ n_qname nd = tg
  | TRoot => n = 0                                             (* the '/' step: the root node *)
  (* "* is true for any node of the principal node type" *)
  | TName NsEmpty None => n_kind nd = principal_kind ax
  (* "a QName is true if the node is of the principal type and has an expanded-name equal to the
     expanded-name specified by the QName ... if the QName does not have a prefix, then the namespace
     URI is null" (the prefix was replaced by its URI when the expression was compiled) *)
  | TName NsEmpty (Some l) => n_kind nd = principal_kind ax /\ n_uri nd = [] /\ local_part nd = l
  (* "NCName:* is true for any node of the principal type whose expanded-name has the namespace URI
     to which the prefix expands, regardless of the local part" *)
  | TName (NsUri u) None => n_kind nd = principal_kind ax /\ n_uri nd = u
  | TName (NsUri u) (Some l) => n_kind nd = principal_kind ax /\ n_uri nd = u /\ local_part nd = l
  | TName NsAny _ => False                                     (* "*:name" is not XPath 1.0 *)
  end.

(** * steps and paths with predicate values given by a relation *)
Section DenoteR.
  Variable d : doc.
  Variable tstP : axis -> ntest -> nat -> Prop.
  (* [pvR pe x k m v]: predicate expression pe has value v at context node x, position k, size m *)
  Variable pvR : expr -> nat -> nat -> nat -> value -> Prop.

  (* 2.4: a number is true when equal to the context position, anything else as by boolean() *)
  Definition truth (v : value) (k : nat) : Prop :=
    match v with VNum r => d_eq (d_of_nat k) r = true | _ => to_boolean v = true end.

  Definition pos_size (ax : axis) (S : nat -> Prop) (y k m : nat) : Prop :=
    proximity_position ax S y k /\ set_size S m.

  Definition filter_setR (ax : axis) (S : nat -> Prop) (pe : expr) (x : nat) : Prop :=
    S x /\ exists k m v, pos_size ax S x k m /\ pvR pe x k m v /\ truth v k.

  (* the predicate has a value at every node of the set being filtered (an error anywhere makes the
     whole expression erroneous); a number literal is not "evaluated" at all in that sense, it has a
     value everywhere *)
  Definition pred_definedR (ax : axis) (S : nat -> Prop) (pe : expr) : Prop :=
    forall y, S y -> exists k m v, pos_size ax S y k m /\ pvR pe y k m v.

  Fixpoint preds_setR (ax : axis) (S : nat -> Prop) (ps : list pred) : nat -> Prop :=
    match ps with
    | [] => S
    | p :: r => preds_setR ax (filter_setR ax S (snd p)) r
    end.

  Fixpoint preds_definedR (ax : axis) (S : nat -> Prop) (ps : list pred) : Prop :=
    match ps with
    | [] => True
    | p :: r => pred_definedR ax S (snd p) /\ preds_definedR ax (filter_setR ax S (snd p)) r
    end.

  Definition axis_set (ax : axis) (t : ntest) (n : nat) : nat -> Prop :=
    fun y => axis_rel d ax n y /\ tstP ax t y.

  Definition step_denR (st : step) (n x : nat) : Prop :=
    let '(ax, t, ps) := st in preds_setR ax (axis_set ax t n) ps x.
  Definition step_definedR (st : step) (n : nat) : Prop :=
    let '(ax, t, ps) := st in preds_definedR ax (axis_set ax t n) ps.

  Fixpoint path_denR (steps : list step) (n x : nat) : Prop :=
    match steps with
    | [] => x = n
    | st :: r => exists y, step_denR st n y /\ path_denR r y x
    end.

  Fixpoint path_definedR (steps : list step) (n : nat) : Prop :=
    match steps with
    | [] => True
    | st :: r => step_definedR st n /\ forall y, step_denR st n y -> path_definedR r y
    end.
End DenoteR.

(** * the core function library (section 4), applied to the VALUES of the arguments *)
Definition fn_position : str := [112;111;115;105;116;105;111;110]%N.
Definition fn_last : str := [108;97;115;116]%N.
Definition fn_count : str := [99;111;117;110;116]%N.
Definition fn_not : str := [110;111;116]%N.
Definition fn_true : str := [116;114;117;101]%N.
Definition fn_false : str := [102;97;108;115;101]%N.
Definition fn_boolean : str := [98;111;111;108;101;97;110]%N.
Definition fn_name : str := [110;97;109;101]%N.
Definition fn_local_name : str := [108;111;99;97;108;45;110;97;109;101]%N.
Definition fn_namespace_uri : str := [110;97;109;101;115;112;97;99;101;45;117;114;105]%N.
Definition fn_number : str := [110;117;109;98;101;114]%N.
Definition fn_floor : str := [102;108;111;111;114]%N.
Definition fn_ceiling : str := [99;101;105;108;105;110;103]%N.
Definition fn_round : str := [114;111;117;110;100]%N.
Definition fn_string : str := [115;116;114;105;110;103]%N.
Definition fn_sum : str := [115;117;109]%N.
Definition fn_string_length : str := [115;116;114;105;110;103;45;108;101;110;103;116;104]%N.
Definition fn_concat : str := [99;111;110;99;97;116]%N.
Definition fn_contains : str := [99;111;110;116;97;105;110;115]%N.
Definition fn_starts_with : str := [115;116;97;114;116;115;45;119;105;116;104]%N.
Definition fn_substring_before : str := [115;117;98;115;116;114;105;110;103;45;98;101;102;111;114;101]%N.
Definition fn_substring_after : str := [115;117;98;115;116;114;105;110;103;45;97;102;116;101;114]%N.
Definition fn_substring : str := [115;117;98;115;116;114;105;110;103]%N.
Definition fn_translate : str := [116;114;97;110;115;108;97;116;101]%N.
Definition fn_normalize_space : str := [110;111;114;109;97;108;105;122;101;45;115;112;97;99;101]%N.
Definition fn_lang : str := [108;97;110;103]%N.

(* the first node of a node-set in document order (node-sets are sorted lists) *)
Definition first_node (l : list nat) : option nat := hd_error l.

Inductive fun_den (c : ctx) : str -> list value -> value -> Prop :=
  (* 4.1 node-set functions *)
  | fd_position : fun_den c fn_position [] (VNum (d_of_nat (position_of c)))
  | fd_last : fun_den c fn_last [] (VNum (d_of_nat (length (cx_list c))))
  | fd_count l : fun_den c fn_count [VNodes l] (VNum (d_of_nat (length l)))
  (* name(), local-name(), namespace-uri(): of the context node, or of the first node of the argument
     in document order; the empty string for an empty node-set *)
  | fd_name0 : fun_den c fn_name [] (VStr (name_of c (cx_node c)))
  | fd_name1 l : fun_den c fn_name [VNodes l] (VStr (match first_node l with Some n => name_of c n | None => [] end))
  | fd_local0 : fun_den c fn_local_name [] (VStr (local_name_of c (cx_node c)))
  | fd_local1 l : fun_den c fn_local_name [VNodes l] (VStr (match first_node l with Some n => local_name_of c n | None => [] end))
  | fd_nsuri0 : fun_den c fn_namespace_uri [] (VStr (ns_uri_of c (cx_node c)))
  | fd_nsuri1 l : fun_den c fn_namespace_uri [VNodes l] (VStr (match first_node l with Some n => ns_uri_of c n | None => [] end))
  (* 4.2 string functions *)
  | fd_string0 : fun_den c fn_string [] (VStr (node_string c (cx_node c)))
  | fd_string1 a : fun_den c fn_string [a] (VStr (to_string c a))
  | fd_concat vals : 2 <= length vals -> fun_den c fn_concat vals (VStr (concat (map (to_string c) vals)))
  (* "returns true if the first argument string starts with the second argument string" *)
  | fd_starts_with a b r : (r = true <-> exists t, to_string c a = to_string c b ++ t) ->
      fun_den c fn_starts_with [a; b] (VBool r)
  (* "returns true if the first argument string contains the second argument string" *)
  | fd_contains a b r : (r = true <-> exists s t, to_string c a = s ++ to_string c b ++ t) ->
      fun_den c fn_contains [a; b] (VBool r)
  (* "the substring of the first argument string that precedes / follows the first occurrence of the
     second argument string in the first argument string, or the empty string if the first argument
     string does not contain the second argument string" *)
  | fd_before a b : fun_den c fn_substring_before [a; b]
      (VStr (let s := to_string c a in let p := to_string c b in
             match s, p with
             | [], _ | _, [] => []
             | _, _ => match index_of_sub s p with Some i => firstn i s | None => [] end
             end))
  | fd_after a b : fun_den c fn_substring_after [a; b]
      (VStr (let s := to_string c a in let p := to_string c b in
             match s, p with
             | [], _ => []
             | _, [] => s
             | _, _ => match index_of_sub s p with Some i => skipn (i + length p) s | None => [] end
             end))
  | fd_substring2 a b : fun_den c fn_substring [a; b] (VStr (f_substring (to_string c a) (to_number c b) None))
  | fd_substring3 a b t : fun_den c fn_substring [a; b; t]
      (VStr (f_substring (to_string c a) (to_number c b) (Some (to_number c t))))
  | fd_strlen0 : fun_den c fn_string_length [] (VNum (d_of_nat (length (node_string c (cx_node c)))))
  | fd_strlen1 a : fun_den c fn_string_length [a] (VNum (d_of_nat (length (to_string c a))))
  | fd_normalize0 : fun_den c fn_normalize_space [] (VStr (f_normalize_space (node_string c (cx_node c))))
  | fd_normalize1 a : fun_den c fn_normalize_space [a] (VStr (f_normalize_space (to_string c a)))
  | fd_translate a b t : fun_den c fn_translate [a; b; t]
      (VStr (f_translate (to_string c a) (to_string c b) (to_string c t)))
  (* 4.3 boolean functions *)
  | fd_boolean a : fun_den c fn_boolean [a] (VBool (to_boolean a))
  | fd_not a : fun_den c fn_not [a] (VBool (negb (to_boolean a)))
  | fd_true : fun_den c fn_true [] (VBool true)
  | fd_false : fun_den c fn_false [] (VBool false)
  | fd_lang a : fun_den c fn_lang [a] (VBool (f_lang c (to_string c a)))
  (* 4.4 number functions *)
  | fd_number0 : fun_den c fn_number [] (VNum (string_to_number (node_string c (cx_node c))))
  | fd_number1 a : fun_den c fn_number [a] (VNum (to_number c a))
  (* "the sum, for each node in the argument node-set, of the result of converting the string-values
     of the node to a number" (IEEE additions in document order) *)
  | fd_sum l : fun_den c fn_sum [VNodes l] (VNum (sum_nodes c l))
  | fd_floor a : fun_den c fn_floor [a] (VNum (d_floor (to_number c a)))
  | fd_ceiling a : fun_den c fn_ceiling [a] (VNum (d_ceiling (to_number c a)))
  | fd_round a : fun_den c fn_round [a] (VNum (d_round (to_number c a))).

(** * expressions (section 3) *)
(* the value is the node-set P, represented as the strictly sorted list of its members *)
Definition nodes_value (P : nat -> Prop) (v : value) : Prop :=
  exists r, v = VNodes r /\ ordered r /\ forall x, In x r <-> P x.

Definition cmp_den (R : ctx -> expr -> value -> Prop) (c : ctx) (op : cmpop) (a b : expr) (v : value) : Prop :=
  exists va vb r, R c a va /\ R c b vb /\ v = VBool r /\ (r = true <-> cmp_rule c op va vb).

Definition arith_den (R : ctx -> expr -> value -> Prop) (c : ctx) (op : dbl -> dbl -> dbl) (a b : expr) (v : value) : Prop :=
  exists va vb, R c a va /\ R c b vb /\ v = VNum (op (to_number c va) (to_number c vb)).

(* one level of the semantics: the value of e in terms of the values [R] of its sub-expressions *)
Definition expr_den (R : ctx -> expr -> value -> Prop) (c : ctx) (e : expr) (v : value) : Prop :=
  let d := cx_doc c in
  let tstP := node_test_denotes d (cx_strip c) in
  (* a predicate expression is evaluated with the node as context node, at the given context position and size *)
  let pvR := fun pe x k m w => R (with_node c x (canon x k m)) pe w in
  match e with
  (* 3.4: "or is evaluated by evaluating each operand and converting its value to a boolean; the right
     operand is not evaluated if the left operand evaluates to true" - so an error in the right operand
     does not matter then; and dually *)
  | EOr a b => exists va, R c a va /\
      ((to_boolean va = true /\ v = VBool true) \/
       (to_boolean va = false /\ exists vb, R c b vb /\ v = VBool (to_boolean vb)))
  | EAnd a b => exists va, R c a va /\
      ((to_boolean va = false /\ v = VBool false) \/
       (to_boolean va = true /\ exists vb, R c b vb /\ v = VBool (to_boolean vb)))
  (* 3.4 comparisons: the rules written with "there is a node in the node-set such that ..." *)
  | EEq a b => cmp_den R c CEq a b v | ENe a b => cmp_den R c CNe a b v
  | ELt a b => cmp_den R c CLt a b v | ELte a b => cmp_den R c CLe a b v
  | EGt a b => cmp_den R c CGt a b v | EGte a b => cmp_den R c CGe a b v
  (* 3.5: operands converted as by number(), IEEE 754 operations *)
  | EPlus a b => arith_den R c d_add a b v | EMinus a b => arith_den R c d_sub a b v
  | EMult a b => arith_den R c d_mul a b v | EDiv a b => arith_den R c (SFdiv prec emax) a b v
  | EMod a b => arith_den R c d_mod a b v
  | ENeg a => exists va, R c a va /\ v = VNum (SFopp (to_number c va))
  (* 3.3: the union of the operands, which must be node-sets *)
  | EUnion l => exists sets, Forall2 (fun x s => R c x (VNodes s)) l sets /\
                nodes_value (fun x => exists s, In s sets /\ In x s) v
  | ELiteral s => v = VStr s
  | EVar ns local => lookup_var (cx_vars c) ns local = Some v
  | EGroup x => R c x v
  (* 3.5: a number literal has the value of its token, correctly rounded (NumDefs.string_to_number) *)
  | ENumLit t => v = VNum (string_to_number t)
  (* 3.2: each argument is evaluated; the function is applied to the values *)
  | EFunc name args => exists vals, Forall2 (R c) args vals /\ fun_den c name vals v
  | EExtFunc _ _ _ => False                                   (* extension functions: XpxDefs.v *)
  (* 2: a location path selects the nodes related to the context node by the composition of its steps *)
  | EPath None _ steps =>
      path_definedR d tstP pvR steps (cx_node c) /\
      nodes_value (path_denR d tstP pvR steps (cx_node c)) v
  (* 3.3: a filter expression: "the Predicate filters the node-set with respect to the child axis";
     then each remaining node is a context node of the path *)
  | EPath (Some h) hps steps =>
      filter_head h /\ exists ns, R c h (VNodes ns) /\ (forall y, In y ns -> y < length d) /\
      let F := preds_setR pvR AxChild (fun y => In y ns) hps in
      preds_definedR pvR AxChild (fun y => In y ns) hps /\
      (forall n, F n -> path_definedR d tstP pvR steps n) /\
      nodes_value (fun x => exists n, F n /\ path_denR d tstP pvR steps n x) v
  end.

(* the semantics, by recursion on a bound [k] of the nesting depth (expressions nest through lists of
   arguments, operands and predicates; the bound only serves the termination checker: see
   [den_stable] in XpSpecDenModel.v - any bound above the size of the expression gives the same relation) *)
Fixpoint denF (k : nat) (c : ctx) (e : expr) (v : value) {struct k} : Prop :=
  match k with
  | O => False
  | S k' => expr_den (denF k') c e v
  end.

Definition den (c : ctx) (e : expr) (v : value) : Prop := denF (S (expr_size e)) c e v.

(** * the expressions and contexts the theorems are about *)
(* the direct sub-expressions *)
Definition subexprs (e : expr) : list expr :=
  match e with
  | EOr a b | EAnd a b | ENe a b | EEq a b | ELte a b | ELt a b | EGte a b | EGt a b
  | EPlus a b | EMinus a b | EMult a b | EDiv a b | EMod a b => [a; b]
  | ENeg a | EGroup a => [a]
  | EUnion l | EFunc _ l | EExtFunc _ _ l => l
  | ELiteral _ | EVar _ _ | ENumLit _ => []
  | EPath h hp st =>
      (match h with Some x => [x] | None => [] end) ++ map snd hp ++
      flat_map (fun s : step => map snd (snd s)) st
  end.

(* no namespace axis (K21), the '/' step tests for the root, only XPath 1.0 name tests *)
Definition step_wf (st : step) : Prop :=
  let '(ax, t, _) := st in
  ax <> AxNamespace /\ (ax = AxRoot -> t = TRoot) /\
  match t with TName NsAny _ => False | _ => True end.

Definition local_wf (e : expr) : Prop :=
  match e with EPath _ _ st => Forall step_wf st | _ => True end.

Inductive expr_wf : expr -> Prop :=
  | expr_wf_intro e : local_wf e -> Forall expr_wf (subexprs e) -> expr_wf e.

(* node-set values: sorted, nodes of the table *)
Definition value_ok (d : doc) (v : value) : Prop :=
  match v with VNodes r => ordered r /\ forall x, In x r -> x < length d | _ => True end.

Definition ctx_ok (c : ctx) : Prop :=
  wfd (cx_doc c) /\ cx_node c < length (cx_doc c) /\
  (Z.of_nat (length (cx_doc c)) < 2 ^ 53)%Z /\
  forall ns l v, lookup_var (cx_vars c) ns l = Some v -> value_ok (cx_doc c) v.
