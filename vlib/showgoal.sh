#!/bin/sh
# usage: showgoal.sh File.v LINE  — print the goals just before LINE (debug helper)
f=$1; n=$2
head -n $((n-1)) "$f" > /tmp/_dbg.v
echo "Show. Abort." >> /tmp/_dbg.v
cd "$(dirname "$f")" && timeout 300 coqc -Q . XV /tmp/_dbg.v 2>&1 | tail -${3:-40}
