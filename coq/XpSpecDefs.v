(* XpSpecDefs.v — a DECLARATIVE reading of XPath 1.0 sections 2 (location paths) and 5 (data
   model) over the node tables of DomDefs.v, written from the Recommendation and not from the
   interpreter: the axes as relations between node ids, document order, axis direction,
   proximity position, the meaning of a step with predicates, and of a location path as
   relational composition.  Also the well-formedness of a node table (the table is the document
   in document order).  Definitions only; the theorems relating the interpreter model of
   XpDefs.v to these are in XpSpec*Model.v / Properties_C02s.v.
   The namespace axis is not specified here: known finding K21. *)
From Coq Require Import NArith List Bool Arith Relations Sorted.
Require Import XV.XpAst XV.DomDefs XV.NumDefs XV.XpDefs.
Import ListNotations.

(** * well-formed node tables

   Section 5: "document order orders element nodes in order of the occurrence of their start-tag
   ... the attribute nodes and namespace nodes of an element occur before the children of the
   element".  A table is well-formed when it is laid out in that order: node [n] is immediately
   followed by its attribute nodes (Xalan's source tree keeps namespace declarations among
   them), then by the complete subtrees of its children, one after the other; [sz n] is the
   number of table entries of the subtree of [n].  Links agree: the members of the two lists point
   back to [n]; attribute nodes are leaves of attribute kind; children are not. *)
Fixpoint chain (sz : nat -> nat) (start : nat) (l : list nat) (stop : nat) : Prop :=
  match l with
  | [] => start = stop
  | c :: r => c = start /\ chain sz (c + sz c) r stop
  end.

Record node_layout (d : doc) (sz : nat -> nat) (n : nat) : Prop := {
  nl_attrs : n_attrs (get d n) = seq (S n) (length (n_attrs (get d n)));
  nl_children : chain sz (S n + length (n_attrs (get d n))) (n_children (get d n)) (n + sz n);
  nl_attr : forall a, In a (n_attrs (get d n)) ->
      n_parent (get d a) = Some n /\ is_attr_kind (n_kind (get d a)) = true /\
      n_children (get d a) = [] /\ n_attrs (get d a) = [];
  nl_child : forall c, In c (n_children (get d n)) ->
      n_parent (get d c) = Some n /\ is_attr_kind (n_kind (get d c)) = false
}.

Record wfd (d : doc) : Prop := {
  wd_root : n_parent (get d 0) = None /\ is_attr_kind (n_kind (get d 0)) = false;
  wd_doc : forall n, n < length d -> (n_kind (get d n) = KDoc <-> n = 0);   (* the root node, and only it, is a document node *)
  wd_layout : exists sz, sz 0 = length d /\ forall n, n < length d -> node_layout d sz n
}.

(** * the axes (section 2.2), as relations: [R n x] reads "x is on the axis of context node n" *)
Section Axes.
  Variable d : doc.

  Definition is_node (x : nat) : Prop := x < length d.
  Definition non_attr (x : nat) : Prop := is_attr_kind (n_kind (get d x)) = false.

  (* 5.2: the children of an element / of the root node *)
  Definition child_of (p c : nat) : Prop := In c (n_children (get d p)).
  (* 5.3: "each element node has an associated set of attribute nodes; the element is the parent of
     each of these attribute nodes; however, an attribute node is not a child of its parent";
     declarations of namespaces are not attributes *)
  Definition attribute_of (e a : nat) : Prop :=
    n_kind (get d e) = KElem /\ In a (n_attrs (get d e)) /\ n_kind (get d a) = KAttr.
  (* the parent relation: inverse of child, plus the owner element of attribute/namespace nodes *)
  Definition parent_rel (x p : nat) : Prop := child_of p x \/ In x (n_attrs (get d p)).

  (* "the descendant axis contains the descendants of the context node; a descendant is a child or
     a child of a child and so on": the transitive closure of child *)
  Definition descendant (n x : nat) : Prop := clos_trans nat child_of n x.
  (* "the ancestor axis contains the parent of the context node and the parent's parent and so on" *)
  Definition ancestor (n x : nat) : Prop := clos_trans nat parent_rel n x.

  Definition self_ax (n x : nat) : Prop := x = n.
  Definition descendant_or_self (n x : nat) : Prop := x = n \/ descendant n x.
  Definition ancestor_or_self (n x : nat) : Prop := x = n \/ ancestor n x.

  (* document order = the order of the table *)
  Definition doc_before (x y : nat) : Prop := x < y.

  (* siblings: children of the same parent ("if the context node is an attribute node or namespace
     node, the following-sibling axis is empty": such a node is nobody's child) *)
  Definition following_sibling (n x : nat) : Prop :=
    exists p, child_of p n /\ child_of p x /\ doc_before n x.
  Definition preceding_sibling (n x : nat) : Prop :=
    exists p, child_of p n /\ child_of p x /\ doc_before x n.

  (* "all nodes in the same document as the context node that are after the context node in
     document order, excluding any descendants and excluding attribute nodes and namespace nodes" *)
  Definition following_ax (n x : nat) : Prop :=
    is_node x /\ doc_before n x /\ ~ descendant n x /\ non_attr x.
  (* "... before the context node in document order, excluding any ancestors and excluding
     attribute nodes and namespace nodes" *)
  Definition preceding_ax (n x : nat) : Prop :=
    is_node x /\ doc_before x n /\ ~ ancestor n x /\ non_attr x.

  (* the root of the tree the context node is in: the ancestor-or-self that has no parent *)
  Definition root_of (n x : nat) : Prop := ancestor_or_self n x /\ forall p, ~ parent_rel x p.

  Definition axis_rel (ax : axis) (n x : nat) : Prop :=
    match ax with
    | AxAncestor => ancestor n x
    | AxAncestorOrSelf => ancestor_or_self n x
    | AxAttribute => attribute_of n x
    | AxChild => child_of n x
    | AxDescendant => descendant n x
    | AxDescendantOrSelf => descendant_or_self n x
    | AxFollowing => following_ax n x
    | AxFollowingSibling => following_sibling n x
    | AxParent => parent_rel n x
    | AxPreceding => preceding_ax n x
    | AxPrecedingSibling => preceding_sibling n x
    | AxSelf => self_ax n x
    | AxRoot => root_of n x
    | AxNamespace => False        (* not specified: K21 *)
    end.
End Axes.

(** * axis direction and proximity position (section 2.4) *)
(* "an axis that only ever contains the context node or nodes that are before the context node in
   document order is a reverse axis" : ancestor, ancestor-or-self, preceding, preceding-sibling *)
Definition axis_reverse (ax : axis) : bool :=
  match ax with
  | AxAncestor | AxAncestorOrSelf | AxPreceding | AxPrecedingSibling => true
  | _ => false
  end.

(* [y] comes before [x] in the order the axis counts in *)
Definition axis_before (ax : axis) (y x : nat) : Prop :=
  if axis_reverse ax then x < y else y < x.

(* "the proximity position of a member of a node-set with respect to an axis is the position of the
   node in the node-set ordered in document order if the axis is a forward axis and in reverse
   document order if the axis is a reverse axis; the first position is 1":
   k - 1 members of the set come before x *)
Definition proximity_position (ax : axis) (S : nat -> Prop) (x k : nat) : Prop :=
  S x /\ exists before : list nat,
    NoDup before /\ (forall y, In y before <-> S y /\ axis_before ax y x) /\ k = Datatypes.S (length before).

(* a list is in the order the axis counts in (hence duplicate-free): its i-th member has
   proximity position i *)
Definition axis_ordered (ax : axis) (l : list nat) : Prop := Sorted.StronglySorted (axis_before ax) l.

(* the number of nodes of a set (context size) *)
Definition set_size (S : nat -> Prop) (m : nat) : Prop :=
  exists all : list nat, NoDup all /\ (forall y, In y all <-> S y) /\ m = length all.

(** * steps and paths (sections 2.1, 2.4) *)
Section Denote.
  Variable d : doc.
  Variable tst : axis -> ntest -> nat -> bool.                  (* the node test *)
  (* the value of a predicate expression at (context node, context position, context size) *)
  Variable pv : expr -> nat -> nat -> nat -> res value.

  (* "if the result is a number, the result will be converted to true if the number is equal to the
     context position and will be converted to false otherwise; if the result is not a number, then
     the result will be converted as if by a call to the boolean function" *)
  Definition pred_true (pe : expr) (x k m : nat) : Prop :=
    exists v, pv pe x k m = Ok v /\
      match v with
      | VNum r => d_eq (d_of_nat k) r = true
      | _ => to_boolean v = true
      end.

  (* "a predicate filters a node-set with respect to an axis to produce a new node-set: for each node
     in the node-set to be filtered, the PredicateExpr is evaluated with that node as the context
     node, with the number of nodes in the node-set as the context size, and with the proximity
     position of the node in the node-set with respect to the axis as the context position" *)
  Definition filter_set (ax : axis) (S : nat -> Prop) (pe : expr) (x : nat) : Prop :=
    S x /\ exists k m, proximity_position ax S x k /\ set_size S m /\ pred_true pe x k m.

  (* the predicates of a step apply from left to right, each to the set the previous one left *)
  Fixpoint preds_set (ax : axis) (S : nat -> Prop) (ps : list pred) : nat -> Prop :=
    match ps with
    | [] => S
    | p :: r => preds_set ax (filter_set ax S (snd p)) r
    end.

  (* "the node-set selected by the location step is the node-set that results from generating an
     initial node-set from the axis and node-test, and then filtering that node-set by each of the
     predicates in turn" *)
  Definition step_denotes (st : step) (n x : nat) : Prop :=
    let '(ax, t, ps) := st in
    preds_set ax (fun y => axis_rel d ax n y /\ tst ax t y = true) ps x.

  (* "the initial sequence of steps selects a set of nodes relative to a context node; each node in
     that set is used as a context node for the following step; the sets of nodes identified by
     that step are unioned together": relational composition *)
  Fixpoint path_denotes (steps : list step) (n x : nat) : Prop :=
    match steps with
    | [] => x = n
    | st :: r => exists y, step_denotes st n y /\ path_denotes r y x
    end.
End Denote.
