"""C19 — pluggable memory manager: balanced use, and allocation failure is survivable.

Three legs:
 * proof: coq/Properties_C19.v over the allocation-ledger model (MemDefs / MemMapDefs) of XalanVector, XalanList,
   ArenaAllocator (+ XalanMap: model only), consuming GenMem.v / GenCont.v regenerated from the source;
 * tie: correspondence `mem` — harness/mem.cpp instantiates the real templates with a counting / failing
   xercesc::MemoryManager and prints the ledger of generated operation histories (with and without an injected
   refusal); the extracted model must print the same ledger;
 * oracle: (a) the harness' own manager table on those histories (outstanding blocks, foreign / double frees,
   throws without injection, state after a refusal) and (b) the fault-enumeration sweep through the public API
   (vlib/mem_sweep.py + harness/mem_sweep.cpp): every scenario balanced without injection, and for each sampled
   allocation index k a forked child in which the k-th allocate is refused, classified by outcome and call-site
   signature.  Neither involves the Coq model."""
import os, re, json, time
from vlib import core

LEVEL = "proof"
FAMILY = "mem"

# ---------------------------------------------------------------------------------------------------------
# operation histories (every choice from ctx.rng)

def gen_vec(r, n):
    ops = []
    for _ in range(n):
        i = r.randrange(2)
        c = r.random()
        if c < 0.30:
            ops.append("p%d" % i)
        elif c < 0.38:
            ops.append("r%d:%d" % (i, r.choice([0, 1, 2, 3, 5, 8, 13, 20])))
        elif c < 0.46:
            ops.append("ie%d:%d" % (i, r.choice([1, 1, 2, 3, 7])))
        elif c < 0.56:
            ops.append("im%d:%d" % (i, r.choice([1, 1, 2, 3, 7])))
        elif c < 0.62:
            ops.append("z%d:%d" % (i, r.choice([0, 1, 2, 4, 9, 17])))
        elif c < 0.70:
            ops.append("a%d" % i)
        elif c < 0.78:
            ops.append("x")
        elif c < 0.84:
            ops.append("c%d" % i)
        elif c < 0.92:
            ops.append("o%d" % i)
        else:
            ops.append("e%d" % i)
    return ops


def gen_list(r, n):
    ops = []
    for _ in range(n):
        i = r.randrange(2)
        c = r.random()
        if c < 0.30:
            ops.append("pb%d" % i)
        elif c < 0.42:
            ops.append("pf%d" % i)
        elif c < 0.52:
            ops.append("in%d:%d" % (i, r.randrange(5)))
        elif c < 0.72:
            ops.append("er%d:%d" % (i, r.randrange(4)))
        elif c < 0.80:
            ops.append("cl%d" % i)
        elif c < 0.88:
            ops.append("em%d" % i)
        else:
            ops.append("x")
    return ops


def gen_arena(r, n):
    return [("rs" if r.random() < 0.15 else "n:%d" % r.choice([1, 8, 24])) for _ in range(n)]


def gen_rarena(r, n):
    ops, live = [], 0
    for _ in range(n):
        c = r.random()
        if c < 0.55 or live == 0:
            ops.append("n:%d" % r.choice([1, 8, 24])); live += 1
        elif c < 0.95:
            ops.append("d:%d" % r.randrange(live)); live -= 1
        else:
            ops.append("rs"); live = 0
    return ops


def gen_map(r, n):
    ops = []
    keys = [r.randrange(40) for _ in range(r.choice([3, 6, 12]))]
    for _ in range(n):
        i = r.randrange(2)
        c = r.random()
        if c < 0.50:
            ops.append("i%d:%d" % (i, r.choice(keys)))
        elif c < 0.78:
            ops.append("e%d:%d" % (i, r.choice(keys)))
        elif c < 0.84:
            ops.append("c%d" % i)
        elif c < 0.93:
            ops.append("a%d" % i)
        else:
            ops.append("x")
    return ops


FIXED = [
    # growth boundaries 1,2,3,5,8,13; reserve-then-push; exact insert; assign both ways; swap before destruction
    ("vec", None, ["p0"] * 14),
    ("vec", None, ["r0:6"] + ["p0"] * 7),
    ("vec", None, ["p0", "p0", "p0", "im0:1", "im0:4", "ie0:2", "z0:20", "z0:1", "c0", "p0"]),
    ("vec", None, ["p0", "p0", "p1", "x", "p0", "p1", "a0", "a1", "x"]),
    ("vec", None, ["p0", "x"]),
    ("vec", None, ["r0:4", "r1:2", "x", "p0", "p0", "p0"]),
    ("vec", None, ["p1", "p1", "p1", "a0", "p0", "c1", "a0", "e0", "o0"]),
    ("list", None, ["pb0", "pb0", "pf0", "er0:1", "pb0", "cl0", "pb0", "pb0"]),
    ("list", None, ["em0"]),
    ("list", None, []),
    ("list", None, ["pb0", "pb1", "x", "er0:0", "pb0", "pb1"]),
    ("list", None, ["pb0", "x"]),
    ("arena", None, ["2"]),
    ("arena", None, ["2", "n:8", "n:8", "n:8", "rs", "n:4"]),
    ("arena", None, ["1", "n:8", "n:8", "rs", "rs", "n:1", "n:1"]),
    ("arena", None, ["3", "n:8", "n:8", "n:8"]),
    ("arena", None, ["2", "rs"]),
    ("map", None, ["i0:1", "i0:2", "i0:3", "i0:4", "i0:5", "i0:6", "e0:2", "e0:3", "e0:4", "i0:7", "c0", "i0:1"]),
    ("map", None, ["i0:1", "a1", "x", "a0"]),
    ("map", None, ["a1"]),
    ("map", None, []),
    ("map", None, ["e0:3"]),
    ("map", None, ["i0:1", "i0:4", "i0:7", "i0:10", "i0:13", "i0:16", "i0:19", "i0:22", "e0:1", "e0:4", "e0:7", "i1:3", "a0", "a1"]),
    ("map", None, ["i0:1", "i0:2", "c0", "i0:3", "i0:4", "i0:5", "c0", "i0:1"]),
    ("map", None, ["i0:1", "x", "i0:2", "i1:3"]),
    ("map", None, ["i1:5", "a1", "e1:27", "i0:36", "i0:5", "a1", "i0:5"]),
    ("rarena", None, ["2", "n:8", "n:8", "n:8", "d:1", "n:4", "d:0", "d:0"]),
    ("rarena", None, ["1", "n:8", "n:8", "d:0", "d:0", "n:8"]),
    ("rarena", None, ["2"]),
    ("rarenad", None, ["2", "n:8", "d:0"]),
    ("rarenad", None, ["2", "n:8", "n:8", "n:8", "d:2", "d:1", "d:0"]),
]

# growth past the first arena block / past a rehash, a compaction and a copy of a XalanMap: EVERY allocation index of
# these histories is refused in turn (quick and thorough; thorough also under ASan+UBSan)
EXHAUSTIVE = [
    ("arena", ["2", "n:8", "n:8", "n:8", "n:8", "n:8"]),              # three blocks of two objects
    ("arena", ["1", "n:8", "n:8", "rs", "n:8", "n:8"]),               # block per object; reset recycles the list nodes
    ("arena", ["3", "n:1", "n:1", "n:1", "n:1"]),
    ("rarena", ["2", "n:8", "n:8", "n:8", "d:0", "n:8", "n:8"]),
    ("rarenad", ["1", "n:8", "n:8", "d:0", "n:8"]),
    ("map", ["i0:1", "i0:2", "i0:3", "i0:4", "i0:5", "i0:6", "i0:7", "i0:8", "i0:9"]),           # 3 buckets -> rehash at 5 and 9 entries
    ("map", ["i0:1", "i0:4", "i0:7", "i0:10", "i0:13", "i0:16", "e0:1", "e0:4", "e0:7", "i0:19"]),   # one bucket chain; compaction at the third erase
    ("map", ["i1:1", "i1:2", "i1:3", "i1:4", "i1:5", "i1:6", "a0", "i0:7", "a1"]),               # copy past a rehash of the temporary, both ways
    ("map", ["i0:1", "i0:2", "c0", "i0:3", "i0:4", "i0:5", "i0:6", "i0:7", "x", "a0"]),            # free-list reuse after clear, then rehash
]

# the stored replays of K-new-1 / K-new-2 (corpus/C19/K24_arena_leak.txt, K25_map_leak.txt): known findings while the
# translator finds the unrepaired shapes, regression cases (must be clean) once it finds the repaired ones
KNOWN_REPLAYS = {"K-new-1": "K24_arena_leak.txt", "K-new-2": "K25_map_leak.txt"}

# former findings, now repaired: these histories (with the refusal where it used to hurt) must be clean
REGRESSION = [
    ("arena", 0, ["2"]),                                   # K8: never-used allocator, next allocation refused
    ("map", 1, ["a1"]), ("map", 2, ["a1"]),                # K8: ~XalanMap of the copy of an empty map
    ("map", 26, ["i1:5", "a1", "e1:27", "i0:36", "i0:5", "a1", "i0:5"]),   # K8 inside operator=
    ("map", 5, ["i0:1", "i0:2"]),                          # K23: refused bucket push_back
    ("rarena", 5, ["2", "n:8", "n:8"]), ("rarena", 5, ["2", "n:8", "n:8", "n:8"]),   # K-new-3
    ("list", None, ["em0"]), ("list", None, ["cl0"]),
]

NO_MODEL = ("rarena", "rarenad")


def make_cases(ctx, n_rand):
    """[(id, family, fuse or None, tokens)] — every fault-free history also with every / sampled fuse values"""
    r = ctx.rng
    base = list(FIXED)
    gens = {"vec": gen_vec, "list": gen_list, "arena": gen_arena, "map": gen_map, "rarena": gen_rarena, "rarenad": gen_rarena}
    for fam in ("vec", "list", "arena", "map", "rarena", "rarenad"):
        for _ in range(n_rand):
            n = r.choice([2, 4, 8, 12, 20] if fam != "map" else [3, 6, 12, 25])
            ops = gens[fam](r, n)
            if "arena" in fam:
                ops = [str(r.choice([1, 2, 3, 5]))] + ops
            base.append((fam, None, ops))
    cases = []
    for k, (fam, _, ops) in enumerate(base):
        cases.append(("c%d" % k, fam, None, ops))
    return cases


def regression_cases():
    return [("g%d" % k, fam, fuse, ops) for k, (fam, fuse, ops) in enumerate(REGRESSION)]


def exhaustive_base():
    return [("x%d" % k, fam, None, ops) for k, (fam, ops) in enumerate(EXHAUSTIVE)]


def known_replay_cases():
    """[(finding key, case)] from the stored replay files"""
    out = []
    for key, fn in sorted(KNOWN_REPLAYS.items()):
        path = os.path.join(core.VERIF, "corpus", "C19", fn)
        if not os.path.exists(path):
            continue
        for l in open(path):
            t = l.split()
            if len(t) >= 3 and not l.startswith("#"):
                out.append((key, ("%s.%s" % (key.replace("-", ""), t[0]), t[1], None if t[2] == "-" else int(t[2]), t[3:])))
    return out


# ---------------------------------------------------------------------------------------------------------
# which shape of the two allocation-failure sites does this tree have?  (translator/gen_mem.py, fail closed)

SITE_FLAGS = {}          # name -> True (repaired) / False (as found); missing = the translator did not recognise the site


def read_site_flags():
    """the regenerated booleans of coq/GenMem.v that decide whether a leak after a refusal is the known finding"""
    global SITE_FLAGS
    SITE_FLAGS = {}
    try:
        txt = open(os.path.join(core.COQ, "GenMem.v")).read()
        import gen_mem                      # translator/ is on sys.path (core imports srcfacts from there)
        _, facts = gen_mem.gen_mem()        # fails closed (AnchorError) on an unknown shape: then nothing is excused as repaired
        for k in ("arena_block_guarded", "rarena_block_guarded", "map_entry_guarded", "map_copy_guarded"):
            m = re.search(r"^Definition %s : bool := (true|false)\.$" % k, txt, re.M)
            if m and (m.group(1) == "true") == bool(facts[k]):
                SITE_FLAGS[k] = bool(facts[k])
    except Exception as ex:
        SITE_FLAGS = {}
    return SITE_FLAGS


def leak_finding(fam):
    """finding key that excuses blocks lost after a refusal in this family, or None when the site is repaired"""
    if fam == "arena":
        return None if SITE_FLAGS.get("arena_block_guarded") is True else "K-new-1"
    if fam.startswith("rarena"):
        return None if SITE_FLAGS.get("rarena_block_guarded") is True else "K-new-1"
    if fam == "map":
        return None if (SITE_FLAGS.get("map_entry_guarded") is True and SITE_FLAGS.get("map_copy_guarded") is True) else "K-new-2"
    return None


def with_fuses(ctx, cases, res_impl, per_case):
    """second round: for each fault-free history, inject a refusal at some of its allocation indices"""
    r = ctx.rng
    out = []
    for cid, fam, _, ops in cases:
        line = res_impl.get(cid)
        if line is None:
            continue
        n_alloc = len(re.findall(r" A\d+:", line))          # includes the destructor's allocations, if any
        ks = list(range(n_alloc + 1))
        if len(ks) > per_case:
            ks = sorted(set(r.sample(ks, per_case - 2) + [0, n_alloc - 1]))
        for k in ks:
            out.append(("%s.f%d" % (cid, k), fam, k, ops))
    return out


def case_line(c):
    cid, fam, fuse, ops = c
    return "%s %s %s %s" % (cid, fam, "-" if fuse is None else str(fuse), " ".join(ops))


# ---------------------------------------------------------------------------------------------------------
# canonical form of a ledger trace

SEG = re.compile(r" \| ")


def parse(line, sizes=None):
    """-> list of segments (head, [events], obs) ; events: ('A', mgr, bytes, id) ('F', mgr, id) ('!',)"""
    segs = []
    for s in SEG.split(line.strip()):
        t = s.split()
        if not t:
            continue
        head, evs, obs = t[0], [], ""
        for x in t[1:]:
            if x == "!":
                evs.append(("!",))
            elif x.startswith("o="):
                obs = x
            elif x[0] == "A":
                m = re.match(r"A(\d+):(\d+)(?:\*(\d+))?=(\d+)$", x)
                if m.group(3) is not None:
                    b = sizes[int(m.group(2))] * int(m.group(3))
                else:
                    b = int(m.group(2))
                evs.append(("A", int(m.group(1)), b, m.group(4)))
            elif x[0] == "F":
                m = re.match(r"F(\d+):(\S+)$", x)
                evs.append(("F", int(m.group(1)), m.group(2)))
            else:
                evs.append(("?", x))
        segs.append((head, evs, obs))
    return segs


def canonical(line, sizes=None, stop_at=None):
    """Order-insensitive within an operation: blocks are renamed (operation index, rank among the operation's
    allocations sorted by (bytes, manager)); the events of an operation become a sorted multiset; in an
    operation that threw, blocks allocated and released inside it cancel (net effect).  When the destructor
    phase recorded a refusal (DT) the comparison stops at the refusal."""
    segs = parse(line, sizes)
    name = {}
    out = []
    for si, (head, evs, obs) in enumerate(segs):
        if head == "end":
            out.append("end " + " ".join(x[1] if x[0] == "?" else str(x) for x in evs))
            continue
        if head == "DT":
            out.append("DT")
            break
        if head == "CRASH":
            out.append("CRASH")
            break
        allocs = [e for e in evs if e[0] == "A"]
        order = sorted(range(len(allocs)), key=lambda i: (allocs[i][2], allocs[i][1], i))
        for rank, i in enumerate(order):
            name[allocs[i][3]] = "%d.%d" % (si, rank)
        evc = []
        for e in evs:
            if e[0] == "A":
                evc.append(("A", e[1], e[2], name[e[3]]))
            elif e[0] == "F":
                evc.append(("F", e[1], name.get(e[2], "?" + e[2])))
            else:
                evc.append(e)
        if head in ("T", "TERMINATE"):
            freed = {e[2] for e in evc if e[0] == "F"}
            made = {e[3] for e in evc if e[0] == "A"}
            both = freed & made
            evc = [e for e in evc if not ((e[0] == "A" and e[3] in both) or (e[0] == "F" and e[2] in both))]
        if head == "TERMINATE" or (stop_at is not None and si == stop_at):
            # std::terminate inside this operation (a destructor was refused memory): nothing after it is comparable
            out.append("T! %s" % " ".join(map(str, sorted(evc, key=str))))
            break
        out.append("%s %s %s" % (head, " ".join(map(str, sorted(evc, key=str))), obs))
    return " | ".join(out)


def terminate_index(line):
    for si, (head, evs, obs) in enumerate(parse(line)):
        if head == "TERMINATE":
            return si
    return None


# ---------------------------------------------------------------------------------------------------------
# independent oracle on the harness' own manager table

# blocks lost after a refusal in an arena / a map: K-new-1 / K-new-2 (allowed by the property text: reclaimable by
# discarding the manager) as long as the translator finds the unrepaired shape of the site - see leak_finding()


def oracle_container(c, line):
    """-> list of (known_key or None, text)"""
    cid, fam, fuse, ops = c
    res = []
    segs = parse(line)
    if any(s[0] == "TERMINATE" for s in segs):
        if fuse is None:
            return [(None, "std::terminate without any injected refusal")]
        return [("K8", "REGRESSION of the K8 repair: a destructor reached from an operation (the temporary of operator=) asked the manager for memory and was refused: std::terminate")]
    if any(s[0] == "CRASH" for s in segs):
        if fuse is not None and fam.startswith("rarena"):
            return [("K-new-3", "crash after an object constructor threw between allocateBlock and commitAllocation")]
        return [(None, "the harness child crashed: " + line[-80:])]
    end = [s for s in segs if s[0] == "end"]
    if not end:
        return [(None, "no result line (crash of the harness?)")]
    kv = dict(x[1].split("=") for x in end[0][1] if x[0] == "?")
    out, bad = int(kv.get("out", -1)), int(kv.get("bad", -1))
    threw = [i for i, s in enumerate(segs) if s[0] == "T"]
    dt = any(s[0] == "DT" for s in segs)
    if bad != 0 and fuse is not None and fam.startswith("rarena") and threw:
        # ~ReusableArenaBlock destroys the slot that allocateBlock() counted although its constructor threw
        res.append(("K-new-3", "a never-constructed arena slot was destroyed after its constructor threw (foreign free)"))
    elif bad != 0:
        res.append((None, "a deallocate of a block that is not outstanding in that manager (foreign or double free)"))
    if fuse is None and threw:
        res.append((None, "operation %d threw although no refusal was injected" % threw[0]))
    if dt:
        res.append(("K8", "REGRESSION of the K8 repair: the manager was asked for memory inside a destructor and refused (std::terminate in C++11)"))
    else:
        dtor_allocs = [s for s in segs if s[0] == "Dok" and any(e[0] == "A" for e in s[1])]
        if dtor_allocs:
            res.append((None, "a %s destructor called the manager's allocate" % fam))
    if out != 0 and not dt:
        if fuse is None and fam == "rarenad":
            res.append(("K-new-6", "%d blocks never released by a ReusableArenaAllocator(destroyBlocks=true)" % out))
        elif fuse is None:
            res.append((None, "%d blocks still outstanding after the containers were destroyed (no refusal injected)" % out))
        elif fam.startswith("rarena") or fam in ("arena", "map"):
            res.append((leak_finding(fam), "%d blocks lost after a refused allocation%s" % (
                out, "" if leak_finding(fam) else " although %s releases the new block on that path in this tree" % (
                    "XalanMap" if fam == "map" else "allocateBlock()"))))
        else:
            res.append((None, "%d blocks lost after a refused allocation in a %s" % (out, fam)))
    # state after a refusal: vectors unchanged (strong guarantee), list lengths unchanged, number of arena objects
    # unchanged, size() of both maps unchanged by a refused insert / operator= (a refused erase has erased)
    if fam in ("vec", "list", "arena", "rarena", "rarenad", "map"):
        prev = None
        for si, s in enumerate(segs):
            if fam == "map" and s[0] == "T" and 0 < si <= len(ops) and ops[si - 1][0] == "e":
                prev = s[2]
                continue
            if s[0] == "T" and prev is not None and s[2] != prev:
                res.append((None, "observable state changed by an operation that threw: %s -> %s" % (prev, s[2])))
            if s[0] in ("ok", "T"):
                prev = s[2]
    return res


# ---------------------------------------------------------------------------------------------------------

def run_containers(ctx, impl, model, sizes, cases, corr, orc):
    lines = [case_line(c) for c in cases]
    rc_i, res_i, raw_i = core.run_lines_parallel(impl, lines)
    for _ in range(3):
        # .build/plain is shared with the other checks; a concurrent relink makes the loader fail: wait and retry
        if rc_i == 0 or "shared libraries" not in raw_i:
            break
        core.build_lib("plain")
        time.sleep(2)
        rc_i, res_i, raw_i = core.run_lines_parallel(impl, lines)
    rc_m, res_m, raw_m = core.run_lines_parallel(model, lines) if model else (0, {}, "")
    if rc_i != 0:
        orc.append({"case": "(process)", "what": "container harness exited with status %d: %s" % (rc_i, raw_i[-300:]), "known": None})
    for c in cases:
        cid, fam, fuse, ops = c
        ctx.cov["evaluations"] += 1
        ctx.count("%s:%s" % (fam, "fault" if fuse is not None else "plain"))
        li = res_i.get(cid)
        if li is None:
            orc.append({"case": case_line(c), "what": "no result from the implementation (crash?)", "known": None})
            continue
        li = cid + " " + li
        if model and fam not in NO_MODEL:
            lm = res_m.get(cid)
            ctx.cov["traces_validated_against_impl"] += 1
            if lm is None:
                corr.append({"case": case_line(c), "impl": li[:300], "model": None})
            else:
                lm = cid + " " + lm
                try:
                    ti = terminate_index(li)
                    same = canonical(li) == canonical(lm, sizes, stop_at=ti)
                    if ti is not None and same:
                        same = parse(lm, sizes)[ti][0] == "T"
                except Exception as ex:      # unparsable trace
                    same = False
                if not same:
                    corr.append({"case": case_line(c), "impl": li[:600], "model": lm[:600]})
        for known, text in oracle_container(c, li):
            orc.append({"case": case_line(c), "what": text, "known": known})
    return res_i


def run(ctx):
    ctx.assumptions += [
        "container elements are trivially copyable (int / iterators): element construction neither allocates nor throws; arena objects own exactly one block of the arena's manager",
        "the manager refuses at most one allocation per history (single-shot fuse) in the container model; the API sweep also runs a persistent-refusal mode in the thorough tier",
        "XalanMap and ReusableArenaAllocator are tied by correspondence / oracle only (no general theorem); XalanDeque and XalanDOMString are not modelled here (C20 has their functional models)",
        "exception safety of the whole library is enumerated (one refusal per run, every sampled allocation index), not proved",
    ]
    ok_lib, liblog = core.build_lib("plain")
    if not ok_lib:
        ctx.broken.append("library does not build from the working tree: " + liblog[-500:])
        return ctx.finish(LEVEL)
    proved = ctx.prove(["Properties_C19.v"], ["GenMem", "GenCont"])
    model, ok_m, mlog = core.build_model(FAMILY)
    if not ok_m:
        ctx.broken.append("model extraction/build failed: " + mlog[-500:])
        model = None
    impl, ok_h, hlog = core.build_harness("mem", "plain", extra_flags=["-DNDEBUG"])
    if not ok_h:
        ctx.broken.append("harness does not compile against the working tree: " + hlog[-500:])
        return ctx.finish(LEVEL)
    rc, out = core.sh([impl], input="sizes\n")
    m = re.search(r"^sizes (.*)$", out, re.M)
    sizes = {int(k): int(v) for k, v in (x.split("=") for x in m.group(1).split())} if m else {}
    ctx.notes["sizeof"] = sizes
    known = {k["key"]: k for k in ctx.known.for_property("C19")}
    flags = read_site_flags()
    ctx.notes["allocation_failure_sites"] = {k: ("repaired" if v else "as found") for k, v in sorted(flags.items())}

    corr, orc = [], []
    n_rand, per_case = (40, 6) if not ctx.thorough else (300, 40)
    cases = make_cases(ctx, n_rand)
    res_i = run_containers(ctx, impl, model, sizes, cases, corr, orc)
    faults = with_fuses(ctx, cases, res_i, per_case) + regression_cases()
    run_containers(ctx, impl, model, sizes, faults, corr, orc)
    # growth past the first block / past a rehash: every allocation index refused in turn
    xbase = exhaustive_base()
    res_x = run_containers(ctx, impl, model, sizes, xbase, corr, orc)
    xfaults = with_fuses(ctx, xbase, res_x, 10 ** 6)
    run_containers(ctx, impl, model, sizes, xfaults, corr, orc)
    ctx.notes["exhaustive_refusals"] = len(xfaults)
    faults += xfaults
    # the stored replays of K-new-1 / K-new-2: must still fail while the site has the shape as found (else the
    # translator's flag and the library disagree), must be clean once it is repaired
    kr = known_replay_cases()
    orc_kr = []
    run_containers(ctx, impl, model, sizes, [c for _, c in kr], corr, orc_kr)
    orc += orc_kr
    for key in sorted({k for k, _ in kr}):
        fams = {c[1] for k, c in kr if k == key}
        as_found = any(leak_finding(f) == key for f in fams)
        fails = any(o["known"] == key for o in orc_kr)
        if as_found and not fails and flags:
            ctx.broken.append("tie: translator/gen_mem.py finds the shape of %s (blocks lost when the list node is refused) but the stored replay corpus/C19/%s is clean" % (key, KNOWN_REPLAYS[key]))
    if ctx.thorough:
        # the same exhaustive refusals under ASan + UBSan (a use after free / invalid free on a failure path ends the child)
        from vlib import mem_sweep as _ms
        ok_a, alog = core.build_lib("asan")
        impl_a, ok_ha, hlog_a = core.build_harness("mem", "asan", extra_flags=["-DNDEBUG"]) if ok_a else (None, False, alog)
        if not ok_ha:
            ctx.broken.append("harness/mem.cpp does not build under ASan: " + str(hlog_a)[-300:])
        else:
            lines = [case_line(c) for c in xbase + xfaults]
            rc_a, res_a, raw_a = core.run_lines_parallel(impl_a, lines, env=_ms.env_for("asan"))
            n_a = 0
            for c in xbase + xfaults:
                la = res_a.get(c[0])
                n_a += 1
                if la is None:
                    orc.append({"case": case_line(c), "what": "no result under ASan (crash?)", "known": None})
                    continue
                for kn, text in oracle_container(c, c[0] + " " + la):
                    if "CRASH" in la or kn is None:
                        orc.append({"case": case_line(c), "what": "under ASan+UBSan: " + text, "known": kn})
            ctx.notes["exhaustive_refusals_asan"] = n_a
    ctx.cov["samples"] = [case_line(c) for c in cases[:3] + faults[:5]]
    ctx.cov["distinct_nontrivial"] = len({(c[1], c[2], tuple(c[3])) for c in cases + faults if len(c[3]) > 1})
    ctx.notes["rule"] = ("distinct = different (family, fuse, operation list); non-trivial = at least two operations. "
                         "API sweep: distinct (scenario, stylesheet, k) children, counted separately under sweep_children")

    # ----- the API-level fault enumeration
    sweep_new, sweep_known = [], {}
    try:
        from vlib import mem_sweep
    except Exception as ex:
        mem_sweep = None
        ctx.broken.append("oracle: vlib/mem_sweep.py not importable: %r" % (ex,))
    if mem_sweep is not None:
        sweep_new, sweep_known = mem_sweep.check(ctx, known, widen=bool(corr or not proved or not model))
        sweep_new += mem_sweep.check_multi(ctx, known)
        from vlib import mem_failcomp
        sweep_new += mem_failcomp.check(ctx, known)

    new = [o for o in orc if not (o["known"] and o["known"] in known)]
    if (corr or not proved or not model) and not new and not sweep_new and not ctx.thorough:
        ctx.escalated = True
        more = make_cases(ctx, 250)
        r2 = run_containers(ctx, impl, model, sizes, more, corr, orc)
        run_containers(ctx, impl, model, sizes, with_fuses(ctx, more, r2, 25), corr, orc)
        new = [o for o in orc if not (o["known"] and o["known"] in known)]
    hits = {}
    for o in orc:
        if o["known"] and o["known"] in known:
            hits[o["known"]] = hits.get(o["known"], 0) + 1
    for k, n in sweep_known.items():
        hits[k] = hits.get(k, 0) + n
    for k in sorted(hits):
        ctx.known_finding("%s %s" % (k, known[k]["what"]))
    ctx.notes["known_class_hits"] = hits
    if corr:
        ctx.broken.append("correspondence mem: %d of %d ledger traces differ between model and library, e.g. %s" % (
            len(corr), ctx.cov["traces_validated_against_impl"], json.dumps(corr[0])[:900]))
        ctx.notes["correspondence_mismatches"] = corr[:10]
    if new:
        new.sort(key=lambda o: len(o["case"]))
        txt = "\n".join("%s\n#   %s" % (o["case"], o["what"]) for o in new[:40])
        ctx.violation("oracle", "# C19 container ledger failures (replay: python3 check.py C19 --replay <this file>; lines go to .build/mem_plain)\n" + txt)
    if sweep_new:
        txt = "\n".join("%s\n#   %s" % (o["case"], o["what"]) for o in sweep_new[:40])
        ctx.violation("sweep", "# C19 allocation-failure sweep: outcomes outside the known classes (replay: python3 check.py C19 --replay <this file>)\n" + txt)
    ctx.notes["oracle_failures"] = len(new) + len(sweep_new)
    return ctx.finish(LEVEL, explanation="theorems over the ledger model of XalanVector / XalanList / ArenaAllocator + correspondence of the extracted model (incl. XalanMap) with the real templates under a counting/failing MemoryManager + fault enumeration through the public API")


def replay(ctx, path):
    read_site_flags()
    return _replay(ctx, path)


def _replay(ctx, path):
    """container lines (`<id> vec|list|map|arena|rarena|rarenad <fuse|-> ...`) go to harness/mem.cpp and through the
    container oracle; `sweep <scenario> <xsl> <xml> <mode> <k>` lines go to harness/mem_sweep.cpp.  Exit status 1
    when a line fails (known finding or not)."""
    core.build_lib("plain")
    impl, ok_h, hlog = core.build_harness("mem", "plain", extra_flags=["-DNDEBUG"])
    cont, sweep = [], []
    for l in open(path):
        if not l.strip() or l.startswith("#") or l.startswith("(process)"):
            continue
        (sweep if l.startswith(("sweep ", "multi ", "failcomp ")) else cont).append(l)
    rc = 0
    if cont:
        r, out = core.sh([impl], input="".join(cont))
        res = {}
        for l in out.split("\n"):
            if l.strip():
                res[l.split(" ", 1)[0]] = l
        for l in cont:
            t = l.split()
            c = (t[0], t[1], None if t[2] == "-" else int(t[2]), t[3:])
            line = res.get(t[0])
            print(line)
            fails = oracle_container(c, line) if line else [(None, "no result (crash?)")]
            for known, text in fails:
                print("#   FAILS%s: %s" % (" (known finding %s)" % known if known else "", text))
                rc = 1
    if sweep:
        from vlib import mem_sweep, mem_failcomp
        rc = max(rc, mem_sweep.replay([l for l in sweep if not l.startswith("failcomp ")]))
        rc = max(rc, mem_failcomp.replay([l for l in sweep if l.startswith("failcomp ")]))
    return rc
