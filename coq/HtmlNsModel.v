(* C08 part "html": the scratch string m_stringBuffer.  (1) started empty, every writer leaves it empty and writes what the
   buffer-free writers of HtmlDefs.v write; (2) scratch_buffer_empty_between_events: with doPushHasNamespace clearing the
   string (GenHtml.push_has_namespace_clears_buffer), after every node - element in a namespace or not, any context - the
   string is empty again; (3) without namespace declarations the model with the string is the model of the theorems. *)
From Coq Require Import NArith List Bool Lia ZifyBool ZifyNat ZifyN.
Require Import XV.GenOutopt XV.GenHtml XV.HtmlEnt4Defs XV.HtmlDefs XV.HtmlNsDefs XV.HtmlTableModel XV.HtmlSerModel XV.HtmlRefModel XV.HtmlTextModel XV.HtmlTreeModel.
Import ListNotations.
Open Scope N_scope.

Definition lift (o : option str) : option (str * str) := match o with Some x => Some (x, []) | None => None end.

Lemma bind_lift : forall piece X Y, X [] = lift Y -> bind_b (piece, []) X = lift (opt_app piece Y).
Proof. intros piece X Y H. unfold bind_b. cbn [fst snd]. rewrite H. destruct Y; reflexivity. Qed.

Lemma content_unit_b_nil : forall c ch, content_unit_b c [] ch = (content_unit c ch, []).
Proof. intros c ch. unfold content_unit_b, content_unit. destruct (maxc c <? ch); reflexivity. Qed.

Lemma acc_content_b_nil : forall c s, acc_content_b c [] s = (acc_content c s, []).
Proof.
  intros c. induction s as [|ch s IH]; [reflexivity|]. cbn [acc_content_b]. rewrite content_unit_b_nil. cbn [fst snd]. rewrite IH. reflexivity.
Qed.

Lemma write_chars_b_nil_n : forall c n s, (length s <= n)%nat -> write_chars_b c [] s = lift (write_chars c s).
Proof.
  intros c. induction n as [|n IH]; intros s Hn; [destruct s; [reflexivity | cbn in Hn; lia]|].
  destruct s as [|ch r]; [reflexivity|]. cbn [length] in Hn. cbn [write_chars_b write_chars].
  assert (R : write_chars_b c [] r = lift (write_chars c r)) by (apply IH; lia).
  destruct ((ch <? specials_size) && negb (text_S c ch)); [apply bind_lift; exact R|].
  destruct (ch =? 10); [apply bind_lift; exact R|].
  destruct (default_entity ch); [apply bind_lift; exact R|].
  destruct (is_high ch).
  - destruct r as [|next r']; [reflexivity|]. destruct (is_lowsur next); [|reflexivity].
    apply (bind_lift (numref (pair_cp ch next))). apply IH. cbn [length] in Hn. lia.
  - destruct ((text_literal_from <=? ch) && (ch <=? maxc c)).
    + rewrite content_unit_b_nil. apply bind_lift. exact R.
    + apply (bind_lift (numref ch)). exact R.
Qed.
Lemma write_chars_b_nil : forall c s, write_chars_b c [] s = lift (write_chars c s).
Proof. intros c s. apply (write_chars_b_nil_n c (length s)). lia. Qed.

Lemma write_attr_b_nil_n : forall n s, (length s <= n)%nat -> write_attr_b [] s = lift (write_attr s).
Proof.
  induction n as [|n IH]; intros s Hn; [destruct s; [reflexivity | cbn in Hn; lia]|].
  destruct s as [|ch r]; [reflexivity|]. cbn [length] in Hn. cbn [write_attr_b write_attr].
  assert (R : write_attr_b [] r = lift (write_attr r)) by (apply IH; lia).
  destruct ((ch <? specials_size) && negb (attr_S ch)); [apply bind_lift; exact R|].
  destruct ((ch =? 38) && match r with 123 :: _ => true | _ => false end); [apply bind_lift; exact R|].
  destruct (default_entity ch); [apply bind_lift; exact R|].
  destruct (is_high ch).
  - destruct r as [|next r']; [reflexivity|]. destruct (is_lowsur next); [|reflexivity].
    apply (bind_lift (numref (if attr_pair_is_one_reference then pair_cp ch next else pair_cp ch next mod 65536))). apply IH. cbn [length] in Hn. lia.
  - apply (bind_lift (numref ch)). exact R.
Qed.
Lemma write_attr_b_nil : forall s, write_attr_b [] s = lift (write_attr s).
Proof. intros s. apply (write_attr_b_nil_n (length s)). lia. Qed.

Lemma write_norm_b_nil_n : forall c n s, (length s <= n)%nat -> write_norm_b c [] s = lift (write_norm c s).
Proof.
  intros c. induction n as [|n IH]; intros s Hn; [destruct s; [reflexivity | cbn in Hn; lia]|].
  destruct s as [|ch r]; [reflexivity|]. cbn [length] in Hn. cbn [write_norm_b write_norm].
  assert (R : write_norm_b c [] r = lift (write_norm c r)) by (apply IH; lia).
  assert (R2 : forall x r', r = x :: r' -> write_norm_b c [] r' = lift (write_norm c r')) by (intros x r' ->; apply IH; cbn [length] in Hn; lia).
  assert (G : (if ch =? 10 then bind_b (newline, []) (fun b' => write_norm_b c b' r)
               else if ch <=? maxc c then
                 if (55296 <=? ch) && (ch <? 57344) then
                   match r with [] => None | next :: r' => if (ch <? 56320) && is_lowsur next
                     then bind_b (cat_b (content_unit_b c [] ch) (fun b' => content_unit_b c b' next)) (fun b' => write_norm_b c b' r') else None end
                 else bind_b (content_unit_b c [] ch) (fun b' => write_norm_b c b' r)
               else if is_lowsur ch then None
               else if is_high ch then match r with [] => None | next :: r' => if is_lowsur next then bind_b (numref_b [] (pair_cp ch next), []) (fun b' => write_norm_b c b' r') else None end
               else bind_b (numref_b [] ch, []) (fun b' => write_norm_b c b' r)) =
              lift (if ch =? 10 then opt_app newline (write_norm c r)
               else if ch <=? maxc c then
                 if (55296 <=? ch) && (ch <? 57344) then
                   match r with [] => None | next :: r' => if (ch <? 56320) && is_lowsur next
                     then opt_app (content_unit c ch ++ content_unit c next) (write_norm c r') else None end
                 else opt_app (content_unit c ch) (write_norm c r)
               else if is_lowsur ch then None
               else if is_high ch then match r with [] => None | next :: r' => if is_lowsur next then opt_app (numref (pair_cp ch next)) (write_norm c r') else None end
               else opt_app (numref ch) (write_norm c r))).
  { destruct (ch =? 10); [apply bind_lift; exact R|].
    destruct (ch <=? maxc c).
    - destruct ((55296 <=? ch) && (ch <? 57344)).
      + destruct r as [|next r']; [reflexivity|]. destruct ((ch <? 56320) && is_lowsur next); [|reflexivity].
        unfold cat_b. rewrite content_unit_b_nil. cbn [fst snd]. rewrite content_unit_b_nil. cbn [fst snd].
        apply bind_lift. apply (R2 next r' eq_refl).
      + rewrite content_unit_b_nil. apply bind_lift. exact R.
    - destruct (is_lowsur ch); [reflexivity|]. destruct (is_high ch).
      + destruct r as [|next r']; [reflexivity|]. destruct (is_lowsur next); [|reflexivity].
        apply (bind_lift (numref (pair_cp ch next))). apply (R2 next r' eq_refl).
      + apply (bind_lift (numref ch)). exact R. }
  destruct r as [|x r']; [exact G|]. destruct x as [|p]; [exact G|]. do 4 (destruct p; try exact G).
  destruct (ch =? 13); [|exact G]. apply bind_lift. apply (R2 10 r' eq_refl).
Qed.
Lemma write_norm_b_nil : forall c s, write_norm_b c [] s = lift (write_norm c s).
Proof. intros c s. apply (write_norm_b_nil_n c (length s)). lia. Qed.

Lemma cat_nil : forall piece K X, K [] = (X, []) -> cat_b (piece, []) K = (piece ++ X, []).
Proof. intros piece K X H. unfold cat_b. cbn [fst snd]. rewrite H. reflexivity. Qed.

Lemma hexnum_b_nil : forall n, hexnum_b [] n = hexnum n.
Proof. reflexivity. Qed.

Lemma write_uri_b_nil_n : forall c n s, (length s <= n)%nat -> write_uri_b c [] s = (write_uri c s, []).
Proof.
  intros c. induction n as [|n IH]; intros s Hn; [destruct s; [reflexivity | cbn in Hn; lia]|].
  destruct s as [|ch r]; [reflexivity|]. cbn [length] in Hn. cbn [write_uri_b write_uri].
  assert (R : write_uri_b c [] r = (write_uri c r, [])) by (apply IH; lia).
  assert (R2 : forall x r', r = x :: r' -> write_uri_b c [] r' = (write_uri c r', [])) by (intros x r' ->; apply IH; cbn [length] in Hn; lia).
  destruct ((ch <? uri_plain_from) || (uri_plain_to <? ch)).
  - destruct (esc_urls c).
    + destruct (ch =? 32); [apply (cat_nil [32]); exact R|].
      destruct (ch <=? 127); [apply (cat_nil (hexnum ch)); exact R|].
      destruct (ch <=? 2047); [rewrite (cat_nil _ _ (write_uri c r) R); rewrite !hexnum_b_nil, <- ?app_assoc; reflexivity|].
      destruct (N.land ch 64512 =? 55296).
      * rewrite (cat_nil _ _ (match r with [] => [] | _ :: t => write_uri c t end)).
        -- rewrite !hexnum_b_nil, <- ?app_assoc. reflexivity.
        -- destruct r as [|x r']; [reflexivity | apply (R2 x r' eq_refl)].
      * rewrite (cat_nil _ _ (write_uri c r) R). rewrite !hexnum_b_nil, <- ?app_assoc. reflexivity.
    + destruct (ch <? maxc c); [rewrite content_unit_b_nil; apply cat_nil; exact R|].
      destruct (uri_noescape_pair_is_one_reference && is_high ch && match r with n0 :: _ => is_lowsur n0 | [] => false end).
      * destruct r as [|x r']; [reflexivity|]. apply (cat_nil (numref (pair_cp ch x))). apply (R2 x r' eq_refl).
      * apply (cat_nil (numref ch)). exact R.
  - destruct (ch =? 34); [apply cat_nil; exact R|]. destruct (ch =? 38); [apply cat_nil; exact R|].
    rewrite content_unit_b_nil. apply cat_nil. exact R.
Qed.
Lemma write_uri_b_nil : forall c s, write_uri_b c [] s = (write_uri c s, []).
Proof. intros c s. apply (write_uri_b_nil_n c (length s)). lia. Qed.

Lemma ser_attrs_b_nil : forall c elem l, ser_attrs_b c elem [] l = lift (ser_attrs c elem l).
Proof.
  intros c elem. induction l as [|[name value] l IH]; [reflexivity|]. cbn [ser_attrs_b ser_attrs ser_attr_b ser_attr].
  destruct ((match value with [] => true | _ :: _ => eq_nocase name value end) && attr_is aflag_ATTREMPTY elem name).
  - apply bind_lift. exact IH.
  - destruct (attr_is aflag_ATTRURL elem name).
    + rewrite write_uri_b_nil. apply bind_lift. exact IH.
    + rewrite write_attr_b_nil. destruct (write_attr value); [|reflexivity]. cbn [lift]. apply bind_lift. exact IH.
Qed.

Lemma ser_attrs_xml_b_nil : forall c l o b', ser_attrs_xml_b c [] l = Some (o, b') -> b' = [].
Proof.
  intros c. induction l as [|[name value] l IH]; intros o b' H; [cbn in H; congruence|]. cbn [ser_attrs_xml_b] in H.
  rewrite write_attr_b_nil in H. destruct (write_attr value); [|discriminate]. cbn [lift] in H. unfold bind_b in H. cbn [fst snd] in H.
  destruct (ser_attrs_xml_b c [] l) as [[o2 b2]|] eqn:E; [|discriminate]. injection H as _ <-. apply (IH _ _ eq_refl).
Qed.

Lemma meta_tag_b_nil : forall c, meta_tag_b c [] = (meta_tag c, []).
Proof. intros c. unfold meta_tag_b, meta_tag. rewrite acc_content_b_nil. reflexivity. Qed.

Lemma push_has_ns_clears : forall res ns name, snd (push_has_ns true res ns name []) = [].
Proof. intros res ns name. unfold push_has_ns. destruct res; reflexivity. Qed.

(* ---- the kids loop of ser_node_b is ser_list_b ---------------------------------------------------------------------- *)
Lemma ser_node_b_el : forall clr res c top ins raw op ns b name attrs kids,
  ser_node_b clr res c top ins raw op ns b (HEl name attrs kids) =
  let ns' := decls attrs ++ ns in
  let hb := push_has_ns clr res ns' name b in
  if fst hb then
    match ser_attrs_xml_b c (snd hb) attrs with
    | None => None
    | Some (ao, b1) =>
        match ser_list_b clr res c top ins raw ns' kids true b1 with
        | None => None
        | Some (ko, open_end, b2) =>
            Some (pte op ++ [60] ++ acc_name c name ++ ao ++ ko ++
                  (if open_end then (if space_before_close c then [32] else []) ++ [47; 62] else [60; 47] ++ acc_name c name ++ [62]), false, b2)
        end
    end
  else
    match ser_attrs_b c name (snd hb) attrs with
    | None => None
    | Some (ao, b1) =>
        let head := elem_is flag_HEADELEM name in
        let mt := if head && negb (omit_meta c) then meta_tag_b c b1 else ([], b1) in
        match ser_list_b clr res c false (if elem_is flag_SCRIPTELEM name then true else ins) (elem_is flag_RAW name) ns' kids (negb head) (snd mt) with
        | None => None
        | Some (ko, open_end, b2) =>
            let empty := elem_is flag_EMPTY name in
            let etag := [60; 47] ++ acc_name c name ++ [62] in
            Some ((pte op ++ [60] ++ acc_name c name ++ ao) ++ (if head then 62 :: fst mt else []) ++ ko ++
                  (if open_end then (if empty then [62] else 62 :: etag) else (if empty then [] else etag)), false, b2)
        end
    end.
Proof.
  intros clr res c top ins raw op ns b name attrs kids. cbn [ser_node_b]. cbv zeta.
  destruct (fst (push_has_ns clr res (decls attrs ++ ns) name b)).
  - destruct (ser_attrs_xml_b c (snd (push_has_ns clr res (decls attrs ++ ns) name b)) attrs) as [[ao b1]|]; [|reflexivity].
    match goal with
    | |- match ?F ?t ?i ?r ?kk ?o ?bb with _ => _ end = _ =>
        assert (E : forall l o' b', F t i r l o' b' = ser_list_b clr res c t i r (decls attrs ++ ns) l o' b')
    end.
    { induction l as [|k l IHl]; intros o' b'; [reflexivity|]. cbn [ser_list_b].
      match goal with |- match ?X with _ => _ end = _ => destruct X as [[[? ?] ?]|] end; [|reflexivity]. rewrite IHl. reflexivity. }
    rewrite E. reflexivity.
  - destruct (ser_attrs_b c name (snd (push_has_ns clr res (decls attrs ++ ns) name b)) attrs) as [[ao b1]|]; [|reflexivity].
    match goal with
    | |- match ?F ?t ?i ?r ?kk ?o ?bb with _ => _ end = _ =>
        assert (E : forall l o' b', F t i r l o' b' = ser_list_b clr res c t i r (decls attrs ++ ns) l o' b')
    end.
    { induction l as [|k l IHl]; intros o' b'; [reflexivity|]. cbn [ser_list_b].
      match goal with |- match ?X with _ => _ end = _ => destruct X as [[[? ?] ?]|] end; [|reflexivity]. rewrite IHl. reflexivity. }
    rewrite E. reflexivity.
Qed.

(* ---- (2) the invariant: the scratch string is empty after every node ------------------------------------------------ *)
Definition empty_after (n : hnode) : Prop :=
  forall res c top ins raw op ns o op' b', ser_node_b true res c top ins raw op ns [] n = Some (o, op', b') -> b' = [].

Lemma empty_after_list : forall l, Forall empty_after l ->
  forall res c top ins raw ns op o op' b', ser_list_b true res c top ins raw ns l op [] = Some (o, op', b') -> b' = [].
Proof.
  induction l as [|k l IH]; intros HF res c top ins raw ns op o op' b' H; [cbn in H; congruence|].
  inversion HF as [|? ? Hk Hl]; subst. cbn [ser_list_b] in H.
  destruct (ser_node_b true res c top ins raw op ns [] k) as [[[o1 op1] b1]|] eqn:E1; [|discriminate].
  assert (b1 = []) by (apply (Hk _ _ _ _ _ _ _ _ _ _ E1)). subst b1.
  destruct (ser_list_b true res c top ins raw ns l op1 []) as [[[o2 op2] b2]|] eqn:E2; [|discriminate].
  injection H as _ _ <-. apply (IH Hl _ _ _ _ _ _ _ _ _ _ E2).
Qed.

Lemma lift_nil : forall x o b', lift x = Some (o, b') -> b' = [].
Proof. intros x o b' H. destruct x; cbn in H; congruence. Qed.

Theorem scratch_empty_after_every_node : forall n, empty_after n.
Proof.
  apply hnode_induction.
  - intros name attrs kids IHk res c top ins raw op ns o op' b' H. rewrite ser_node_b_el in H. cbv zeta in H.
    pose proof (push_has_ns_clears res (decls attrs ++ ns) name) as PC.
    destruct (push_has_ns true res (decls attrs ++ ns) name []) as [fl bb]. cbn [fst snd] in *. subst bb.
    destruct fl.
    + destruct (ser_attrs_xml_b c [] attrs) as [[ao b1]|] eqn:EA; [|discriminate].
      assert (b1 = []) by (apply (ser_attrs_xml_b_nil _ _ _ _ EA)). subst b1.
      destruct (ser_list_b true res c top ins raw (decls attrs ++ ns) kids true []) as [[[ko oe] b2]|] eqn:EK; [|discriminate].
      injection H as _ _ <-. apply (empty_after_list kids IHk _ _ _ _ _ _ _ _ _ _ EK).
    + rewrite ser_attrs_b_nil in H. destruct (ser_attrs c name attrs) as [ao|]; [|discriminate]. cbn [lift] in H.
      destruct (elem_is flag_HEADELEM name && negb (omit_meta c)); [rewrite meta_tag_b_nil in H|]; cbn [fst snd] in H.
      * match type of H with match ?X with _ => _ end = _ => destruct X as [[[ko oe] b2]|] eqn:EK; [|discriminate] end.
        injection H as _ _ <-. apply (empty_after_list kids IHk _ _ _ _ _ _ _ _ _ _ EK).
      * match type of H with match ?X with _ => _ end = _ => destruct X as [[[ko oe] b2]|] eqn:EK; [|discriminate] end.
        injection H as _ _ <-. apply (empty_after_list kids IHk _ _ _ _ _ _ _ _ _ _ EK).
  - intros s res c top ins raw op ns o op' b' H. cbn [ser_node_b] in H. destruct s as [|s0 s']; [congruence|].
    destruct ins; [rewrite acc_content_b_nil in H; congruence|].
    destruct raw; [rewrite write_norm_b_nil in H | rewrite write_chars_b_nil in H];
      match type of H with match lift ?X with _ => _ end = _ => destruct X; cbn [lift] in H; congruence end.
  - intros s res c top ins raw op ns o op' b' H. cbn [ser_node_b] in H. congruence.
  - intros t d res c top ins raw op ns o op' b' H. cbn [ser_node_b] in H. destruct d as [|d0 d']; [congruence|].
    destruct pi_data_is_escaped.
    + rewrite write_chars_b_nil in H. destruct (write_chars c (d0 :: d')); cbn [lift] in H; congruence.
    + rewrite acc_content_b_nil in H. congruence.
Qed.

(* ---- (3) without namespace declarations: the model of the theorems ---------------------------------------------------- *)
Definition lift3 (x : option (str * bool)) : option (str * bool * str) :=
  match x with Some (o, op) => Some (o, op, []) | None => None end.

Definition same_as_plain (n : hnode) : Prop :=
  no_decls n = true -> forall res c top ins raw op,
  ser_node_b true res c top ins raw op [] [] n = lift3 (ser_node c top ins raw op n).

Lemma same_list : forall l, Forall same_as_plain l -> forallb no_decls l = true ->
  forall res c top ins raw op, ser_list_b true res c top ins raw [] l op [] = lift3 (ser_list c top ins raw l op).
Proof.
  induction l as [|k l IH]; intros HF Hnd res c top ins raw op; [reflexivity|].
  inversion HF as [|? ? Hk Hl]; subst. cbn [forallb] in Hnd. apply andb_true_iff in Hnd. destruct Hnd as [N1 N2].
  cbn [ser_list_b ser_list]. rewrite (Hk N1). destruct (ser_node c top ins raw op k) as [[o1 op1]|]; [|reflexivity]. cbn [lift3].
  rewrite (IH Hl N2). destruct (ser_list c top ins raw l op1) as [[o2 op2]|]; reflexivity.
Qed.

Theorem no_decls_same_as_plain : forall n, same_as_plain n.
Proof.
  apply hnode_induction.
  - intros name attrs kids IHk Hnd res c top ins raw op. cbn [no_decls] in Hnd. apply andb_true_iff in Hnd. destruct Hnd as [Hd Hk].
    unfold no_decl_attrs in Hd. destruct (decls attrs) eqn:ED; [|discriminate].
    rewrite ser_node_b_el, ser_node_el, ED. cbv zeta. cbn [app].
    assert (PH : push_has_ns true res [] name [] = (false, [])) by (unfold push_has_ns; destruct res; [cbn [lookup_ns]|]; reflexivity).
    rewrite PH. cbn [fst snd]. rewrite ser_attrs_b_nil. destruct (ser_attrs c name attrs) as [ao|]; [|reflexivity]. cbn [lift].
    destruct (elem_is flag_HEADELEM name) eqn:EH; destruct (omit_meta c) eqn:EO; cbn [andb negb]; try rewrite meta_tag_b_nil; cbn [fst snd];
      rewrite (same_list kids IHk Hk);
      match goal with |- match lift3 ?X with _ => _ end = _ => destruct X as [[ko oe]|] end; reflexivity.
  - intros s _ res c top ins raw op. cbn [ser_node_b ser_node]. destruct s as [|s0 s']; [reflexivity|].
    destruct ins; [rewrite acc_content_b_nil; reflexivity|].
    destruct raw; [rewrite write_norm_b_nil; destruct (write_norm c (s0 :: s')) | rewrite write_chars_b_nil; destruct (write_chars c (s0 :: s'))]; reflexivity.
  - intros s _ res c top ins raw op. reflexivity.
  - intros t d _ res c top ins raw op. cbn [ser_node_b ser_node]. destruct d as [|d0 d']; [reflexivity|]. unfold pi_data.
    destruct pi_data_is_escaped.
    + rewrite write_chars_b_nil. destruct (write_chars c (d0 :: d')); reflexivity.
    + rewrite acc_content_b_nil. reflexivity.
Qed.

Theorem serialize_b_is_serialize : forall res c doc, forallb no_decls doc = true ->
  serialize_html_b true res c doc = lift (serialize_html c doc).
Proof.
  intros res c doc H. unfold serialize_html_b, serialize_html.
  rewrite (same_list doc (proj2 (Forall_forall _ _) (fun x _ => no_decls_same_as_plain x)) H).
  destruct (ser_list c true false false doc false) as [[o op]|]; reflexivity.
Qed.

Theorem scratch_empty_after_document : forall res c doc o b, serialize_html_b true res c doc = Some (o, b) -> b = [].
Proof.
  intros res c doc o b H. unfold serialize_html_b in H.
  destruct (ser_list_b true res c true false false [] doc false []) as [[[o1 op1] b1]|] eqn:E; [|discriminate].
  injection H as _ <-. apply (empty_after_list doc (proj2 (Forall_forall _ _) (fun x _ => scratch_empty_after_every_node x)) _ _ _ _ _ _ _ _ _ _ E).
Qed.
