(* ExtractTargets.v - C05 part "targets": extraction of the two builder machines and the specification for the
   correspondence run.  (Z.of_N and length only so that the types z and nat exist for ocaml/conv.ml.) *)
From Coq Require Import ZArith List.
Require Import ExtrOcamlBasic.
Require Import XV.TargetsDefs.
Extraction "extracted/targets_model.ml" run_target run_indexes fresh_start number_list den_t den script top_ok Z.of_N length.
