"""C08 — facts consumed by coq/OutoptDefs.v / OutoptModel.v / Properties_C08.v (GenOutopt.v):
  * the order of the indent-writer calls and of the markup writes inside every FormatterToXMLUnicode method that
    consults the indent writer (startElement, endElement, writeCharacters, writeCDATA, comment,
    writeProcessingInstruction, writeParentTagEnd, endDocument, writeXMLHeader, charactersRaw) as op lists; the
    model pins them (Properties_C08.automaton_as_modelled is a reflexivity proof over these lists);
  * the bodies of XalanIndentWriter::indent / shouldIndent / pop_preserve / push_preserve / increaseIndent /
    decreaseIndent (normalised text anchors) and the empty bodies of XalanDummyIndentWriter;
  * option selection: StylesheetRoot's defaults (m_indentAmount(-1), m_omitxmlDecl(false), m_outputEscapeURLs(true),
    m_omitMETATag(false), m_outputMethod NONE), the `indentAmount > -1` test and the eDefaultIndentAmount values,
    the rule "XML declaration is written when standalone is given", the XHTML doctype prefix, the HTML-root switch of
    XSLTEngineImpl::flushPending, FormatterToText's per-unit write;
  * the XalanHTMLElementsProperties table (element name, element flags, attribute name/flags).
Fail closed."""
import re
import srcfacts
from srcfacts import AnchorError, need, read, strip_comments, function_body, HEADER


def _sq(s):
    return re.sub(r"\s+", "", strip_comments(s))


OPS = [
    (r"writeParentTagEnd\(\)", "OPte"),
    (r"generateDoctypeDecl\(name\)", "ODoctype"),
    (r"m_indentHandler\.setPreserve\(true\)", "OSetPreserve true"),
    (r"m_indentHandler\.setPreserve\(false\)", "OSetPreserve false"),
    (r"m_indentHandler\.setPrevText\(true\)", "OSetPrevText true"),
    (r"m_indentHandler\.setPrevText\(false\)", "OSetPrevText false"),
    (r"m_indentHandler\.setStartNewLine\(true\)", "OSetStartNewLine true"),
    (r"m_indentHandler\.setStartNewLine\(false\)", "OSetStartNewLine false"),
    (r"m_indentHandler\.indent\(\)", "OIndent"),
    (r"m_indentHandler\.increaseIndent\(\)", "OIncrease"),
    (r"m_indentHandler\.decreaseIndent\(\)", "ODecrease"),
    (r"m_indentHandler\.pop_preserve\(\)", "OPopPreserve"),
    (r"m_indentHandler\.push_preserve\(\)", "OPushPreserve"),
    (r"m_indentHandler\.outputLineSep\(\)", "OLineSep"),
    (r"m_indentHandler\.\w+\([^)]*\)", None),                 # any other call: unknown -> anchor error
    (r"if\(hasChildNodes==true\)", "OIfChildren"),
    (r"if\(markParentForChildren\(\)==true\)", "OIfMarkParent"),
    (r"if\(getNeedToOutputDoctypeDecl\(\)==false\)", "OIfNoDoctype"),
    (r"else", "OElse"),
    (r"openElementForChildren\(\)", "OOpenElement"),
    (r"childNodesWereAdded\(\)", "OChildNodesWereAdded"),
    (r"m_writer\.write\(value_type\(XalanUnicode::char(\w+)\)\)", "OChar"),
    (r"writeName\(\w+\)", "OName"),
    (r"processAttribute\(", "OAttr"),
    (r"writeNormalizedData\(", "OData"),
    (r"writeCDATAChars\(", "OCdataChars"),
    (r"safeWriteContent\(", "OContent"),
    (r"writeDefaultEscape\(", "OContent"),
    (r"writeNormalizedCharBig\(", "OContent"),
    (r"m_writer\.write\(chars,length\)", "ORawChars"),
]
CHARS = {"LessThanSign": 60, "GreaterThanSign": 62, "Solidus": 47, "Space": 32, "ExclamationMark": 33, "HyphenMinus": 45,
         "QuestionMark": 63, "Ampersand": 38, "Semicolon": 59, "QuoteMark": 34, "EqualsSign": 61}


def op_list(body, what):
    s = _sq(body)
    rx = re.compile("|".join("(?P<g%d>%s)" % (i, p.replace("(\\w+)", "\\w+")) for i, (p, _) in enumerate(OPS)))
    out = []
    for m in rx.finditer(s):
        i = int(m.lastgroup[1:])
        pat, name = OPS[i]
        if name is None:
            raise AnchorError("unknown indent-writer call in %s: %s" % (what, m.group(0)))
        if name == "OChar":
            cname = re.match(pat, m.group(0)).group(1)
            if cname not in CHARS:
                raise AnchorError("unknown character constant in %s: %s" % (what, cname))
            out.append("OChar %d" % CHARS[cname])
        else:
            out.append(name)
    # collapse runs of OContent (the escaping loop is C04's subject)
    res = []
    for o in out:
        if o == "OContent" and res and res[-1] == "OContent":
            continue
        res.append(o)
    return res


def coq_ops(name, ops):
    return "Definition %s : list iop := [%s].\n" % (name, "; ".join(ops))


def brace_items(text, start):
    """text[start] == '{': returns (list of top-level comma separated items as strings, index after the closing brace)"""
    assert text[start] == "{"
    depth, i, items, cur = 0, start, [], start + 1
    while i < len(text):
        c = text[i]
        if c == "{":
            depth += 1
        elif c == "}":
            depth -= 1
            if depth == 0:
                last = text[cur:i].strip()
                if last:
                    items.append(last)
                return items, i + 1
        elif c == "," and depth == 1:
            items.append(text[cur:i].strip())
            cur = i + 1
        i += 1
    raise AnchorError("unbalanced braces in the HTML element table")


def name_of(item):
    inner, _ = brace_items(item, 0)
    units = []
    for x in inner:
        if x == "0":
            break
        m = re.fullmatch(r"XalanUnicode::charLetter_([A-Z])|XalanUnicode::charDigit_([0-9])", x)
        if not m:
            raise AnchorError("HTML table: unexpected name unit " + x)
        units.append(ord(m.group(1) or m.group(2)))
    return units


def flags_of(item, enum):
    item = item.strip()
    if item == "0":
        return 0
    v = 0
    for t in item.split("|"):
        t = t.strip()
        m = re.fullmatch(r"ElemDesc::(\w+)", t)
        if not m or m.group(1) not in enum:
            raise AnchorError("HTML table: unexpected flag " + t)
        v |= enum[m.group(1)]
    return v


def html_table():
    hp = strip_comments(read("XMLSupport/XalanHTMLElementsProperties.hpp"))
    enum_e, enum_a = {}, {}
    for mm in re.finditer(r"(\w+)\s*=\s*\(1\s*<<\s*(\d+)\)", hp):
        (enum_a if mm.group(1).startswith("ATTR") else enum_e)[mm.group(1)] = 1 << int(mm.group(2))
    for k in ("EMPTY", "RAW", "BLOCK", "HEADELEM", "SCRIPTELEM", "STYLEELEM", "WHITESPACESENSITIVE"):
        if k not in enum_e:
            raise AnchorError("ElemDesc::%s not found" % k)
    for k in ("ATTRURL", "ATTREMPTY"):
        if k not in enum_a:
            raise AnchorError("ElemDesc::%s not found" % k)
    enum = dict(enum_e)
    enum.update(enum_a)
    hc = strip_comments(read("XMLSupport/XalanHTMLElementsProperties.cpp"))
    m = need(r"s_elementProperties\[\]\s*=\s*\{", hc, "s_elementProperties table")
    items, _ = brace_items(hc, m.end() - 1)
    rows = []
    for it in items:
        parts, _ = brace_items(it, 0)
        if len(parts) != 3:
            raise AnchorError("HTML table: entry with %d fields" % len(parts))
        nm = name_of(parts[0])
        fl = flags_of(parts[1], enum)
        attrs = []
        ai, _ = brace_items(parts[2], 0)
        for a in ai:
            ap, _ = brace_items(a, 0)
            an = name_of(ap[0])
            if not an:
                break
            attrs.append((an, flags_of(ap[1], enum)))
        rows.append((nm, fl, attrs))
    return rows, enum_e, enum_a


def html_names():
    return ["".join(map(chr, r[0])) for r in html_table()[0] if r[0]]


def gen_outopt():
    facts = {}
    fx = read("XMLSupport/FormatterToXMLUnicode.hpp")
    out = HEADER
    out += "(* facts of the output-option code (translator/gen_outopt.py) *)\n"
    out += "From Coq Require Import NArith ZArith List Bool.\nImport ListNotations.\n"
    out += ("Inductive iop : Type := OPte | ODoctype | OSetPreserve (b : bool) | OSetPrevText (b : bool) | OSetStartNewLine (b : bool)\n"
            "  | OIndent | OIncrease | ODecrease | OPopPreserve | OPushPreserve | OLineSep | OIfChildren | OIfMarkParent | OIfNoDoctype | OElse\n"
            "  | OOpenElement | OChildNodesWereAdded | OChar (c : N) | OName | OAttr | OData | OCdataChars | OContent | ORawChars.\n")
    heads = [
        ("ops_startElement", r"startElement\(\s*const XMLCh\* const\s+name,\s*AttributeList&\s+attrs\)\s*\{"),
        ("ops_endElement", r"endElement\(const XMLCh\* const\s+name\)\s*\{"),
        ("ops_endDocument", r"endDocument\(\)\s*\{"),
        ("ops_charactersRaw", r"charactersRaw\(\s*const XMLCh\* const\s+chars,\s*const size_type\s+length\)\s*\{"),
        ("ops_comment", r"comment\(const XMLCh\* const\s+data\)\s*\{"),
        ("ops_writeProcessingInstruction", r"writeProcessingInstruction\(\s*const XMLCh\*\s+target,\s*const XMLCh\*\s+data\)\s*\{"),
        ("ops_writeCharacters", r"writeCharacters\(\s*const XMLCh\*\s+chars,\s*size_type\s+length\)\s*\{"),
        ("ops_writeCDATA", r"writeCDATA\(\s*const XMLCh\*\s+chars,\s*size_type\s+length\)\s*\{"),
        ("ops_writeParentTagEnd", r"writeParentTagEnd\(\)\s*\{"),
    ]
    for name, rx in heads:
        body = function_body(fx, rx, "FormatterToXMLUnicode::" + name[4:])
        ops = op_list(body, name)
        facts[name] = ops
        out += coq_ops(name, ops)
    cd = facts["ops_writeCDATA"]
    if cd == ["OPte", "OSetPreserve true", "OIndent", "OCdataChars"]:
        out += "Definition cdata_sets_prevtext : bool := false.\n"
    elif cd == ["OPte", "OSetPreserve true", "OIndent", "OCdataChars", "OSetPrevText true"]:
        out += "Definition cdata_sets_prevtext : bool := true.    (* writeCDATA repaired (K-C08-1) *)\n"
    else:
        raise AnchorError("writeCDATA has neither the original nor the repaired call order: " + " ".join(cd))
    raw = facts["ops_charactersRaw"]
    if raw != ["OPte", "OSetPreserve true", "ORawChars"] + (["OSetPrevText true"] if len(cd) == 5 else []):
        raise AnchorError("charactersRaw call order %s does not go with writeCDATA's" % " ".join(raw))
    hdr = function_body(fx, r"writeXMLHeader\(\)\s*\{", "FormatterToXMLUnicode::writeXMLHeader")
    h = _sq(hdr)
    need(re.escape("if(m_standalone.empty()==false){m_writer.write(m_constants.s_xmlHeaderStandaloneString,m_constants.s_xmlHeaderStandaloneStringLength);m_writer.write(m_standalone);}"),
         h, "writeXMLHeader writes standalone when it is not empty")
    need(re.escape("if(getNeedToOutputDoctypeDecl()==false){m_indentHandler.outputLineSep();}"), h,
         "writeXMLHeader: line separator (indent writer) when no DOCTYPE follows")
    out += "Definition header_linesep_only_without_doctype : bool := true.\n"
    # number of indent-handler uses in the whole file: nothing consults it outside the pinned functions
    total = len(re.findall(r"m_indentHandler\.\w+\(", strip_comments(fx)))
    pinned = sum(1 for ops in facts.values() for o in ops if o.split()[0] in (
        "OSetPreserve", "OSetPrevText", "OSetStartNewLine", "OIndent", "OIncrease", "ODecrease", "OPopPreserve", "OPushPreserve", "OLineSep"))
    ent = len(re.findall(r"m_indentHandler\.\w+\(", strip_comments(function_body(fx, r"entityReference\(const XMLCh\* const\s+name\)\s*\{", "entityReference"))))
    if total != pinned + ent + 1:      # + writeXMLHeader's outputLineSep
        raise AnchorError("FormatterToXMLUnicode.hpp uses the indent writer in %d places, %d are modelled" % (total, pinned + ent + 1))

    # ---- XalanIndentWriter / XalanDummyIndentWriter
    iw = read("XMLSupport/XalanIndentWriter.hpp")
    s = _sq(iw)
    need(re.escape("voidindent(){if(shouldIndent()){if(m_startNewLine==true){m_newLineWriter();}m_whiteSpaceWriter(m_currentIndent);}}"), s, "XalanIndentWriter::indent")
    need(re.escape("boolshouldIndent()const{return(!m_ispreserve&&!m_isprevtext);}"), s, "XalanIndentWriter::shouldIndent")
    need(re.escape("voidincreaseIndent(){m_currentIndent+=m_indent;}"), s, "increaseIndent")
    need(re.escape("m_currentIndent-=m_indent;}"), s, "decreaseIndent")
    need(re.escape("voidpop_preserve(){if(m_preserves.empty()){m_ispreserve=false;}else{m_ispreserve=m_preserves.back();m_preserves.pop_back();}}"), s, "pop_preserve")
    need(re.escape("voidpush_preserve(){m_preserves.push_back(m_ispreserve);}"), s, "push_preserve")
    need(re.escape("m_currentIndent(0),m_startNewLine(false),m_ispreserve(false),m_isprevtext(false)"), s, "XalanIndentWriter initial state")
    need(re.escape("voidsetStartNewLine(boolvalue){m_startNewLine=value;}"), s, "setStartNewLine")
    need(re.escape("voidsetPrevText(boolvalue){m_isprevtext=value;}"), s, "setPrevText")
    need(re.escape("voidsetPreserve(boolvalue){m_ispreserve=value;}"), s, "setPreserve")
    out += "Definition should_indent_is_not_preserve_and_not_prevtext : bool := true.\n"
    dw = _sq(read("XMLSupport/XalanDummyIndentWriter.hpp"))
    for fn in ("voidindent(){}", "voidincreaseIndent(){}", "voiddecreaseIndent(){}", "voidoutputLineSep(){}", "voidpop_preserve(){}", "voidpush_preserve(){}"):
        need(re.escape(fn), dw, "XalanDummyIndentWriter::" + fn)
    out += "Definition dummy_indent_writer_is_empty : bool := true.\n"
    fw = _sq(read("XMLSupport/XalanFormatterWriter.hpp"))
    need(re.escape("voidoperator()(size_typecount){for(size_typei=0;i<count;i++){m_writer.write(value_type(XalanUnicode::charSpace));}}"), fw, "WhiteSpaceWriterFunctor writes count spaces")
    need(re.escape("m_writer.write(m_newlineString,m_newlineStringLength);"), fw, "NewLineWriterFunctor writes the newline string")
    out += "Definition indent_space_unit : N := 32%N.\nDefinition newline_units : list N := [10%N].   (* XalanOutputStream::defaultNewlineString on this platform *)\n"

    # ---- XalanXMLSerializerBase: header rule, XHTML prefix
    sb = read("XMLSupport/XalanXMLSerializerBase.cpp")
    b = _sq(sb)
    need(re.escape("m_shouldWriteXMLHeader(xmlDecl==true?true:theStandalone.length()!=0)"), b, "XML declaration forced by standalone")
    out += "Definition standalone_forces_declaration : bool := true.\n"
    need(re.escape("if(m_doctypeSystem.empty()==false){m_needToOutputDoctypeDecl=true;}if(m_shouldWriteXMLHeader==true){writeXMLHeader();if(m_needToOutputDoctypeDecl==true){outputNewline();}}"),
         b, "startDocument")
    need(re.escape("if(startsWith(m_doctypePublic,s_xhtmlDocTypeString)==true){m_spaceBeforeClose=true;}"), b, "space before '/>' for XHTML public ids")
    m = need(r"s_xhtmlDocTypeString\[\]\s*=\s*\{(.*?)XalanDOMChar\(0\)", strip_comments(sb), "s_xhtmlDocTypeString")
    cmap = {"HyphenMinus": 45, "Solidus": 47, "Space": 32}
    units = []
    for t in re.findall(r"XalanUnicode::char(\w+)", m.group(1)):
        mm = re.fullmatch(r"Letter_([A-Za-z])|Digit_([0-9])", t)
        if mm:
            units.append(ord(mm.group(1) or mm.group(2)))
        elif t in cmap:
            units.append(cmap[t])
        else:
            raise AnchorError("s_xhtmlDocTypeString: unexpected unit " + t)
    facts["xhtml_prefix"] = "".join(map(chr, units))
    out += "Definition xhtml_doctype_prefix : list N := [%s]%%N.\n" % "; ".join(map(str, units))
    need(re.escape("m_version(theXMLVersion==XML_VERSION_1_0?s_1_0String:s_1_1String)"), b, "version string is 1.0 or 1.1")

    # ---- StylesheetRoot: defaults and the selection rule
    sr = read("XSLT/StylesheetRoot.cpp")
    r = _sq(sr)
    m = need(r"m_indentAmount\((-?\d+)\)", r, "StylesheetRoot::m_indentAmount default")
    out += "Definition stylesheet_indent_amount_default : Z := (%s)%%Z.\n" % m.group(1)
    for fld, val, coq in (("m_omitxmlDecl", "false", "omit_xml_decl_default"), ("m_outputEscapeURLs", "true", "escape_urls_default"),
                          ("m_omitMETATag", "false", "omit_meta_default")):
        mm = need(re.escape(fld) + r"\((true|false)\)", r, "StylesheetRoot::%s default" % fld)
        out += "Definition %s : bool := %s.\n" % (coq, mm.group(1))
    need(re.escape("m_outputMethod(FormatterListener::OUTPUT_METHOD_NONE)"), r, "default output method NONE")
    need(re.escape("m_indentResult(eIndentNoImplicit)"), r, "default indent: no (implicit)")
    setup = _sq(function_body(sr, r"StylesheetRoot::setupFormatterListener\s*\([^)]*\)\s*const\s*\{", "setupFormatterListener"))
    need(re.escape("intindentAmount=executionContext.getIndent();if(indentAmount<0){indentAmount=m_indentAmount;}"), setup, "API indent overrides the stylesheet amount when >= 0")
    m = need(r"constbooldoIndent=\(indentAmount>(-?\d+)\)\?true:getOutputIndent\(\);", setup, "doIndent = (indentAmount > -1) ? true : getOutputIndent()")
    out += "Definition indent_on_when_amount_gt : Z := (%s)%%Z.\n" % m.group(1)
    need(re.escape("if(doIndent==true&&indentAmount<0){indentAmount=FormatterToXML::eDefaultIndentAmount;}"), setup, "xml default amount")
    need(re.escape("if(doIndent==true&&indentAmount<0){indentAmount=FormatterToHTML::eDefaultIndentAmount;}"), setup, "html default amount")
    need(re.escape("createFormatterToXML(*pw,m_version,doIndent,indentAmount,theEncoding,m_mediatype,m_doctypeSystem,m_doctypePublic,!m_omitxmlDecl,m_standalone)"), setup, "createFormatterToXML arguments")
    need(re.escape("createFormatterToText(*pw,theEncoding)"), setup, "createFormatterToText arguments")
    need(re.escape("createFormatterToHTML(*pw,theEncoding,m_mediatype,m_doctypeSystem,m_doctypePublic,doIndent,indentAmount,outputEscapeURLs,omitMETATag)"), setup, "createFormatterToHTML arguments")
    for hdr, coq in (("XMLSupport/FormatterToXML.hpp", "default_indent_amount_xml"), ("XMLSupport/FormatterToHTML.hpp", "default_indent_amount_html")):
        mm = need(r"eDefaultIndentAmount\s*=\s*(\d+)", strip_comments(read(hdr)), hdr + " eDefaultIndentAmount")
        out += "Definition %s : N := %s%%N.\n" % (coq, mm.group(1))
    pos = _sq(function_body(sr, r"StylesheetRoot::processOutputSpec\s*\([^)]*\)\s*\{", "processOutputSpec"))
    need(re.escape("elseif(equals(aname,Constants::ATTRNAME_OUTPUT_CDATA_SECTION_ELEMENTS)){if(m_outputMethod==FormatterListener::OUTPUT_METHOD_NONE||m_outputMethod==FormatterListener::OUTPUT_METHOD_XML){"),
         pos, "cdata-section-elements only recorded while the method is none/xml")
    out += "Definition cdata_elements_need_xml_method_so_far : bool := true.\n"
    need(re.escape("if(m_outputMethod==FormatterListener::OUTPUT_METHOD_HTML&&m_indentResult==eIndentNoImplicit){m_indentResult=eIndentYesImplicit;}"), pos, "html implies indent unless explicit")
    need(re.escape("m_indentAmount=WideStringToInt(atts.getValue(i));if(m_indentAmount<0){m_indentAmount=0;}"), pos, "xalan:indent-amount clamps at 0")
    out += "Definition html_method_implies_indent : bool := true.\n"
    eng = _sq(function_body(read("XSLT/XSLTEngineImpl.cpp"), r"XSLTEngineImpl::flushPending\s*\(\s*\)\s*\{", "XSLTEngineImpl::flushPending"))
    need(re.escape("if(m_stylesheetRoot->isOutputMethodSet()==false){if(equalsIgnoreCaseASCII(getPendingElementName(),Constants::ELEMNAME_HTML_STRING)==true&&pendingAttributesHasDefaultNS()==false)"),
         eng, "flushPending: switch to HTML when no method is set and the first element is 'html' (any case) without a default namespace")
    need(re.escape("elseif(theFormatter->getOutputFormat()==FormatterListener::OUTPUT_METHOD_XML){setFormatterListenerImpl(m_executionContext->createFormatterToHTML("), eng,
         "flushPending creates a FormatterToHTML over the same writer")
    out += "Definition html_root_switch_ignores_case : bool := true.\n"
    ft = _sq(function_body(read("XMLSupport/FormatterToText.cpp"), r"FormatterToText::characters\s*\([^)]*\)\s*\{", "FormatterToText::characters"))
    need(re.escape("m_writer->write(chars[i]);"), ft, "FormatterToText writes every unit")
    if "if(chars[i]>m_maxCharacter){}" in ft:
        out += "Definition text_method_checks_representability : bool := false.\n"
    elif "if(chars[i]>m_maxCharacter){checkRepresentable(m_writer->getStream(),m_encoding,chars,i,length,getMemoryManager());}" in ft:
        whole = _sq(read("XMLSupport/FormatterToText.cpp"))
        need(re.escape("if(theStream->canTranscodeTo(theChar)==false){XalanDOMStringtheBuffer(theManager);throwXalanTranscodingServices::UnrepresentableCharacterException(theChar,theEncoding,theBuffer);}"),
             whole, "checkRepresentable raises UnrepresentableCharacterException when the transcoder cannot represent the character")
        out += "Definition text_method_checks_representability : bool := true.    (* repaired (K18) *)\n"
    else:
        raise AnchorError("FormatterToText::characters: neither the original nor the repaired handling of a character above m_maxCharacter")

    # ---- XalanOutputStream: does a flush for more data keep a trailing high surrogate back? (K-C08-2 / C05 K05e)
    osh = _sq(read("PlatformSupport/XalanOutputStream.hpp"))
    osc = _sq(read("PlatformSupport/XalanOutputStream.cpp"))
    if "if(m_buffer.size()==m_bufferSize){flushBuffer();}m_buffer.push_back(theChar);" in osh:
        facts["stream_keeps_high_surrogate"] = False
    elif "if(m_buffer.size()>=m_bufferSize){flushBufferForMore();}m_buffer.push_back(theChar);" in osh:
        need(re.escape("if(m_buffer.empty()==false&&isHighSurrogate(m_buffer.back())==true){constXalanDOMChartheHighSurrogate=m_buffer.back();m_buffer.pop_back();flushBuffer();m_buffer.push_back(theHighSurrogate);}else{flushBuffer();}"),
             osc, "flushBufferForMore keeps a trailing high surrogate in the buffer")
        facts["stream_keeps_high_surrogate"] = True
    else:
        raise AnchorError("XalanOutputStream::write(XalanDOMChar): neither the original nor the repaired flush")
    out += "Definition stream_keeps_high_surrogate : bool := %s.\n" % ("true" if facts["stream_keeps_high_surrogate"] else "false")
    facts["text_method_checks_representability"] = "text_method_checks_representability : bool := true" in out
    facts["cdata_sets_prevtext"] = "cdata_sets_prevtext : bool := true" in out

    # ---- HTML element table
    rows, enum_e, enum_a = html_table()
    named = [r for r in rows if r[0]]
    if len(named) < 80:
        raise AnchorError("HTML table: only %d named entries" % len(named))
    facts["html_elements"] = len(named)
    for k in ("EMPTY", "RAW", "BLOCK", "HEADELEM", "SCRIPTELEM", "STYLEELEM", "WHITESPACESENSITIVE", "CDATA"):
        out += "Definition flag_%s : N := %d%%N.\n" % (k, enum_e.get(k, 0))
    out += "Definition aflag_ATTRURL : N := %d%%N.\nDefinition aflag_ATTREMPTY : N := %d%%N.\n" % (enum_a["ATTRURL"], enum_a["ATTREMPTY"])
    out += "(* (upper-case name, element flags, [(attribute name, attribute flags)]) *)\n"
    out += "Definition html_elements : list (list N * N * list (list N * N)) := [\n"
    out += ";\n".join("  ([%s], %d, [%s])" % ("; ".join(map(str, nm)), fl, "; ".join("([%s], %d)" % ("; ".join(map(str, an)), af) for an, af in attrs))
                      for nm, fl, attrs in named)
    out += "]%N.\n"
    return out, facts


GENERATORS = {"GenOutopt": gen_outopt}
