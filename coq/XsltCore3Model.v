(* C01 core3 (top-level variables / params): the lazy evaluation of XsltCore3Defs.v (force: VariablesStack::findXObject with
   the guard stack, over the VariablesStack model of XsltVarsDefs.v) against the reference semantics gval. *)
From Coq Require Import List NArith Bool Arith Lia.
Require Import XV.XsltEventsDefs XV.XsltVarsDefs XV.XsltVarsModel XV.XsltCoreDefs XV.XsltCore3Defs.
Import ListNotations.

Lemma nth_error_set_nth_eq : forall (A : Type) (l : list A) i x, i < length l -> nth_error (set_nth i x l) i = Some x.
Proof. induction l; intros i x H; simpl in *. lia. destruct i; simpl; auto. apply IHl. lia. Qed.

Lemma nth_error_set_nth_neq : forall (A : Type) (l : list A) i j x, i <> j -> nth_error (set_nth i x l) j = nth_error l j.
Proof.
  induction l; intros i j x H; simpl. destruct i; reflexivity.
  destruct i; destruct j; simpl; auto. lia.
Qed.

Lemma length_set_nth : forall (A : Type) (l : list A) i x, length (set_nth i x l) = length l.
Proof. induction l; intros; simpl. destruct i; reflexivity. destruct i; simpl; auto. Qed.

Lemma memN_true : forall k l, memN k l = true <-> In k l.
Proof.
  induction l; simpl. split; [discriminate|tauto].
  rewrite orb_true_iff. rewrite IHl. rewrite N.eqb_eq. tauto.
Qed.

Section GlobalsModel.
  Variable ev_value : N -> list value -> N -> N -> N -> value.
  Variable root : N.
  Variable gdefs : list gdef.
  Variable ext : list (N * value).

  Notation gval := (gval ev_value root gdefs ext).
  Notation genv := (genv gdefs).
  Notation gdef_at := (gdef_at gdefs).
  Notation ext_value := (ext_value ext).
  Notation force := (force ev_value root gdefs).
  Notation topo_eval := (topo_eval ev_value root gdefs ext).
  Notation topo_step := (topo_step ev_value root gdefs ext).

  Definition gl : nat := length (gseg genv).
  Definition dep (f : nat) (n : N) : option value := match lookup n genv with Some j => gval f j | None => None end.

  Lemma gval_unfold : forall f k, gval (S f) k =
    match gdef_at k with
    | None => None
    | Some g => match ext_value g with
                | Some v => Some v
                | None => match g_sel g with
                          | None => Some empty_string_value
                          | Some e => match map_opt (dep f) (xvars e) with
                                      | Some vs => Some (ev_value (xid e) vs root 1%N 1%N)
                                      | None => None
                                      end
                          end
                end
    end.
  Proof. reflexivity. Qed.

  Lemma map_opt_mono : forall (g1 g2 : N -> option value), (forall n v, g1 n = Some v -> g2 n = Some v) ->
    forall l vs, map_opt g1 l = Some vs -> map_opt g2 l = Some vs.
  Proof.
    intros g1 g2 H. induction l; intros vs; simpl; auto.
    destruct (g1 a) eqn:E; try discriminate. rewrite (H _ _ E).
    destruct (map_opt g1 l) eqn:E2; try discriminate. rewrite (IHl _ eq_refl). auto.
  Qed.

  (* ---- the reference semantics does not depend on the fuel once it is defined ---- *)
  Lemma gval_S : forall f k v, gval f k = Some v -> gval (S f) k = Some v.
  Proof.
    induction f; intros k v H. discriminate.
    rewrite gval_unfold in H. rewrite gval_unfold.
    destruct (gdef_at k); auto. destruct (ext_value g); auto. destruct (g_sel g); auto.
    destruct (map_opt (dep f) (xvars e)) eqn:E; try discriminate.
    rewrite (map_opt_mono (dep f) (dep (S f)) (fun n v0 => ltac:(unfold dep; destruct (lookup n genv); auto)) _ _ E). exact H.
  Qed.

  Lemma gval_le : forall f f' k v, f <= f' -> gval f k = Some v -> gval f' k = Some v.
  Proof. induction 1; auto. intros. apply gval_S. auto. Qed.

  Lemma gval_det : forall f f' k v v', gval f k = Some v -> gval f' k = Some v' -> v = v'.
  Proof.
    intros. pose proof (gval_le f (max f f') k v (Nat.le_max_l _ _) H). pose proof (gval_le f' (max f f') k v' (Nat.le_max_r _ _) H0). congruence.
  Qed.

  Lemma gval_none_le : forall f f' k, f <= f' -> gval f' k = None -> gval f k = None.
  Proof. intros. destruct (gval f k) eqn:E; auto. rewrite (gval_le _ _ _ _ H E) in H0. discriminate. Qed.

  Lemma gval_minimal : forall f k v, gval f k = Some v -> exists d, d < f /\ gval (S d) k = Some v /\ gval d k = None.
  Proof.
    induction f; intros k v H. discriminate.
    destruct (gval f k) eqn:E.
    - destruct (IHf _ _ E) as [d [H1 [H2 H3]]]. exists d. repeat split; auto.
      rewrite (gval_det _ _ _ _ _ H2 H) in H2. exact H2.
    - exists f. auto.
  Qed.

  (* ---- the slots: every value held is the reference value; an external value is held from the start ---- *)
  Definition Cons (sl : list (option value)) : Prop :=
    length sl = length gdefs /\
    (forall i v, nth_error sl i = Some (Some v) -> exists f, gval f (N.of_nat i) = Some v) /\
    (forall i g v, nth_error gdefs i = Some g -> ext_value g = Some v -> nth_error sl i = Some (Some v)).

  (* b holds what a holds, and the entries of the bindings under evaluation (the guard stack gd) are untouched *)
  Definition Ext (gd : list N) (a b : list (option value)) : Prop :=
    (forall i v, nth_error a i = Some (Some v) -> nth_error b i = Some (Some v)) /\
    (forall j, In j gd -> nth_error b (N.to_nat j) = nth_error a (N.to_nat j)).

  Lemma Ext_refl : forall gd a, Ext gd a a.
  Proof. intros gd a. split; auto. Qed.

  Lemma Ext_trans : forall gd a b c, Ext gd a b -> Ext gd b c -> Ext gd a c.
  Proof. intros gd a b c [H1 H1'] [H2 H2']. split; auto. intros j Hj. rewrite (H2' _ Hj). auto. Qed.

  Lemma Ext_weaken : forall gd k a b, Ext (k :: gd) a b -> Ext gd a b.
  Proof. intros gd k a b [H1 H2]. split; auto. intros j Hj. apply H2. right. exact Hj. Qed.

  Lemma Cons_init : Cons (slots_init gdefs ext).
  Proof.
    unfold slots_init. repeat split.
    - apply map_length.
    - intros i v H. rewrite nth_error_map in H. destruct (nth_error gdefs i) as [g|] eqn:E; try discriminate. simpl in H.
      exists 1. rewrite gval_unfold. unfold XsltCore3Defs.gdef_at. rewrite Nat2N.id. rewrite E. inversion H as [H1]. rewrite H1. reflexivity.
    - intros i g v H1 H2. rewrite nth_error_map. rewrite H1. simpl. rewrite H2. reflexivity.
  Qed.

  Lemma Cons_set : forall gd sl k v f, Cons sl -> gval f k = Some v -> nth_error sl (N.to_nat k) = Some None -> ~ In k gd ->
    Cons (set_nth (N.to_nat k) (Some v) sl) /\ Ext gd sl (set_nth (N.to_nat k) (Some v) sl).
  Proof.
    intros gd sl k v f [C1 [C2 C3]] Hg Hs Hnk. split; [repeat split|split].
    - rewrite length_set_nth. exact C1.
    - intros i w H. destruct (Nat.eq_dec (N.to_nat k) i) as [E|E].
      + subst i. rewrite nth_error_set_nth_eq in H by (apply nth_error_Some; congruence). inversion H; subst. exists f. rewrite N2Nat.id. exact Hg.
      + rewrite nth_error_set_nth_neq in H by assumption. eauto.
    - intros i g w H1 H2. destruct (Nat.eq_dec (N.to_nat k) i) as [E|E].
      + subst i. rewrite (C3 _ _ _ H1 H2) in Hs. discriminate.
      + rewrite nth_error_set_nth_neq by assumption. eauto.
    - intros i w H. destruct (Nat.eq_dec (N.to_nat k) i) as [E|E].
      + subst i. congruence.
      + rewrite nth_error_set_nth_neq by assumption. exact H.
    - intros j Hj. apply nth_error_set_nth_neq. intros E. apply N2Nat.inj in E. subst j. tauto.
  Qed.

  (* ---- completeness: wherever the reference semantics defines the value, lazy evaluation returns it - from ANY
     consistent state of the slots, below ANY local frames F of the place of reference -, leaves the VariablesStack and
     the guard stack exactly as they were and only fills slots ---- *)
  Lemma force_complete_d : forall d n k v s F R fuel,
    Good genv F R -> l_vs s = st (F ++ ECtx :: R) gl -> loc n F = None -> lookup n genv = Some k ->
    gval (S d) k = Some v -> gval d k = None ->
    (forall j, In j (l_guard s) -> gval (S d) j = None) ->
    Cons (l_slots s) -> d < fuel ->
    exists sl', force fuel n s = FOk (v, mkL (l_vs s) sl' (l_guard s)) /\ Cons sl' /\ Ext (l_guard s) (l_slots s) sl'.
  Proof.
    induction d as [d IH] using lt_wf_ind.
    intros n k v s F R fuel HG Hvs Hloc Hk Hv Hmin Hgd HC Hf.
    destruct fuel as [|f']; [lia|]. destruct s as [vs0 sl gd]. cbn [l_vs l_slots l_guard] in *.
    cbn [XsltCore3Defs.force l_vs l_slots l_guard]. rewrite Hvs. unfold gl. rewrite (get_variable_st genv n F R HG). cbn [fst]. rewrite Hloc. rewrite Hk.
    pose proof Hv as Hv'. rewrite gval_unfold in Hv'.
    destruct (gdef_at k) as [g0|] eqn:Eg; try discriminate.
    assert (Hlen : N.to_nat k < length sl).
    { destruct HC as [C1 _]. rewrite C1. apply nth_error_Some. unfold XsltCore3Defs.gdef_at in Eg. congruence. }
    destruct (nth_error sl (N.to_nat k)) as [[w|]|] eqn:Es.
    - (* the entry holds a value *)
      destruct HC as [C1 [C2 C3]]. destruct (C2 _ _ Es) as [f Hw]. rewrite N2Nat.id in Hw.
      rewrite (gval_det _ _ _ _ _ Hw Hv). exists sl. split; [reflexivity|]. split; [repeat split; auto|apply Ext_refl].
    - (* null: evaluate *)
      destruct (memN k gd) eqn:Em.
      { apply memN_true in Em. rewrite (Hgd _ Em) in Hv. discriminate. }
      destruct (ext_value g0) as [w|] eqn:Ex.
      { destruct HC as [C1 [C2 C3]]. unfold XsltCore3Defs.gdef_at in Eg. rewrite (C3 _ _ _ Eg Ex) in Es. discriminate. }
      assert (Hpop : pop_ctx (push ECtx (st (F ++ ECtx :: R) (length (gseg genv)))) = st (F ++ ECtx :: R) (length (gseg genv))).
      { rewrite push_st. apply (pop_ctx_st [] (F ++ ECtx :: R)). constructor. }
      destruct (g_sel g0) as [e|] eqn:Esel.
      + destruct (map_opt (dep d) (xvars e)) as [vals|] eqn:Em2; try discriminate. inversion Hv'; subst v. clear Hv'.
        (* the mentioned bindings, left to right *)
        assert (HL : forall xs vals0 sl0, map_opt (dep d) xs = Some vals0 -> Cons sl0 ->
                  exists sl2, force_list (force f') xs (mkL (push ECtx (st (F ++ ECtx :: R) (length (gseg genv)))) sl0 (k :: gd))
                              = FOk (vals0, mkL (push ECtx (st (F ++ ECtx :: R) (length (gseg genv)))) sl2 (k :: gd)) /\ Cons sl2 /\ Ext (k :: gd) sl0 sl2).
        { induction xs as [|x r IHx]; intros vals0 sl0 Hm HC0.
          - simpl in Hm. inversion Hm; subst. exists sl0. split; [reflexivity|]. split; [exact HC0|apply Ext_refl].
          - cbn [map_opt] in Hm. destruct (dep d x) as [vx|] eqn:Ex1; try discriminate.
            destruct (map_opt (dep d) r) as [vr|] eqn:Er; try discriminate. inversion Hm; subst vals0. clear Hm.
            unfold dep in Ex1. destruct (lookup x genv) as [j|] eqn:Ej; try discriminate.
            destruct (gval_minimal _ _ _ Ex1) as [dj [Hdj [Hj1 Hj2]]].
            assert (HGn : Good genv [] (F ++ ECtx :: R)) by (apply Good_nested; [constructor|exact HG]).
            destruct (IH dj Hdj x j vx (mkL (push ECtx (st (F ++ ECtx :: R) (length (gseg genv)))) sl0 (k :: gd)) [] (F ++ ECtx :: R) f'
                         HGn ltac:(cbn [l_vs]; rewrite push_st; reflexivity) eq_refl Ej Hj1 Hj2) as [sl1 [Hr1 [HC1 HE1]]].
            { cbn [l_guard]. intros j' [Hj'|Hj'].
              - subst j'. apply (gval_none_le (S dj) d); [lia|exact Hmin].
              - apply (gval_none_le (S dj) (S d)); [lia|]. apply Hgd. exact Hj'. }
            { exact HC0. }
            { lia. }
            cbn [l_vs l_guard l_slots] in Hr1.
            destruct (IHx _ sl1 eq_refl HC1) as [sl2 [Hr2 [HC2 HE2]]].
            exists sl2. split; [|split; [exact HC2|eapply Ext_trans; eauto]].
            cbn [force_list]. rewrite Hr1. rewrite Hr2. reflexivity. }
        destruct (HL _ _ sl Em2 HC) as [sl2 [Hr [HC2 HE2]]].
        rewrite Hr. cbn [l_vs l_slots l_guard tl]. rewrite Hpop.
        assert (Hnk : ~ In k gd) by (intros X; apply memN_true in X; congruence).
        assert (Es2 : nth_error sl2 (N.to_nat k) = Some None).
        { destruct HE2 as [_ H2]. rewrite (H2 k (or_introl eq_refl)). exact Es. }
        destruct (Cons_set gd sl2 k _ (S d) HC2 Hv Es2 Hnk) as [HC3 HE3].
        eexists. split; [reflexivity|]. split; [exact HC3|eapply Ext_trans; [apply (Ext_weaken _ _ _ _ HE2)|exact HE3]].
      + inversion Hv'; subst v. clear Hv'. cbn [l_vs l_slots l_guard tl]. rewrite Hpop.
        assert (Hnk : ~ In k gd) by (intros X; apply memN_true in X; congruence).
        destruct (Cons_set gd sl k _ (S d) HC Hv Es Hnk) as [HC3 HE3].
        eexists. split; [reflexivity|]. split; [exact HC3|exact HE3].
    - apply nth_error_None in Es. lia.
  Qed.

  Theorem force_complete : forall f n k v s F R fuel,
    Good genv F R -> l_vs s = st (F ++ ECtx :: R) gl -> loc n F = None -> lookup n genv = Some k ->
    gval f k = Some v -> l_guard s = [] -> Cons (l_slots s) -> f <= fuel ->
    exists sl', force fuel n s = FOk (v, mkL (l_vs s) sl' []) /\ Cons sl' /\ Ext [] (l_slots s) sl'.
  Proof.
    intros f n k v s F R fuel HG Hvs Hloc Hk Hv Hgd HC Hf.
    destruct (gval_minimal _ _ _ Hv) as [d [Hd [H1 H2]]].
    destruct (force_complete_d d n k v s F R fuel HG Hvs Hloc Hk H1 H2) as [sl' [Hr [HC' HE]]]; auto.
    - rewrite Hgd. intros j [].
    - lia.
    - rewrite Hgd in *. exists sl'. auto.
  Qed.

  Lemma Cons_set' : forall sl k v f g, Cons sl -> gval f k = Some v -> gdef_at k = Some g -> ext_value g = None ->
    Cons (set_nth (N.to_nat k) (Some v) sl).
  Proof.
    intros sl k v f g [C1 [C2 C3]] Hg Hd Hx. repeat split.
    - rewrite length_set_nth. exact C1.
    - intros i w H. destruct (Nat.eq_dec (N.to_nat k) i) as [E|E].
      + subst i. rewrite nth_error_set_nth_eq in H. inversion H; subst. exists f. rewrite N2Nat.id. exact Hg.
        rewrite C1. apply nth_error_Some. unfold XsltCore3Defs.gdef_at in Hd. congruence.
      + rewrite nth_error_set_nth_neq in H by assumption. eauto.
    - intros i g' w H1 H2. destruct (Nat.eq_dec (N.to_nat k) i) as [E|E].
      + subst i. unfold XsltCore3Defs.gdef_at in Hd. congruence.
      + rewrite nth_error_set_nth_neq by assumption. eauto.
  Qed.

  Lemma dep_le : forall f f' n v, f <= f' -> dep f n = Some v -> dep f' n = Some v.
  Proof. unfold dep. intros f f' n v H. destruct (lookup n genv); auto. apply gval_le. exact H. Qed.

  (* ---- soundness: whatever lazy evaluation returns is the reference value; the VariablesStack and the guard stack are
     as they were ---- *)
  Theorem force_sound : forall fuel n s F R v s',
    Good genv F R -> l_vs s = st (F ++ ECtx :: R) gl -> loc n F = None -> Cons (l_slots s) ->
    force fuel n s = FOk (v, s') ->
    exists k f, lookup n genv = Some k /\ gval f k = Some v /\ l_vs s' = l_vs s /\ l_guard s' = l_guard s /\ Cons (l_slots s').
  Proof.
    induction fuel as [|f' IH]; intros n s F R v s' HG Hvs Hloc HC Hr. discriminate.
    destruct s as [vs0 sl gd]. cbn [l_vs l_slots l_guard] in *.
    cbn [XsltCore3Defs.force l_vs l_slots l_guard] in Hr. rewrite Hvs in Hr. unfold gl in Hr. rewrite (get_variable_st genv n F R HG) in Hr. cbn [fst] in Hr. rewrite Hloc in Hr.
    destruct (lookup n genv) as [k|] eqn:Hk; try discriminate.
    destruct (nth_error sl (N.to_nat k)) as [[w|]|] eqn:Es.
    - inversion Hr; subst. destruct HC as [C1 [C2 C3]]. destruct (C2 _ _ Es) as [f Hw]. rewrite N2Nat.id in Hw.
      exists k, f. repeat split; auto.
    - destruct (gdef_at k) as [g0|] eqn:Eg; try discriminate.
      destruct (memN k gd); try discriminate.
      assert (Ex : ext_value g0 = None).
      { destruct (ext_value g0) eqn:E; auto. destruct HC as [C1 [C2 C3]]. unfold XsltCore3Defs.gdef_at in Eg. rewrite (C3 _ _ _ Eg E) in Es. discriminate. }
      assert (Hpop : pop_ctx (push ECtx (st (F ++ ECtx :: R) (length (gseg genv)))) = st (F ++ ECtx :: R) (length (gseg genv))).
      { rewrite push_st. apply (pop_ctx_st [] (F ++ ECtx :: R)). constructor. }
      destruct (g_sel g0) as [e|] eqn:Esel.
      + assert (HL : forall xs s1 vals s2, l_vs s1 = push ECtx (st (F ++ ECtx :: R) (length (gseg genv))) -> Cons (l_slots s1) ->
                  force_list (force f') xs s1 = FOk (vals, s2) ->
                  exists fm, map_opt (dep fm) xs = Some vals /\ l_vs s2 = l_vs s1 /\ l_guard s2 = l_guard s1 /\ Cons (l_slots s2)).
        { induction xs as [|x r IHx]; intros s1 vals s2 Hs1 HC1 Hl.
          - simpl in Hl. inversion Hl; subst. exists 0. auto.
          - cbn [force_list] in Hl. destruct (force f' x s1) as [[vx sx]| | |] eqn:Ef; try discriminate.
            destruct (force_list (force f') r sx) as [[vr sr]| | |] eqn:Er; try discriminate. inversion Hl; subst vals s2. clear Hl.
            assert (HGn : Good genv [] (F ++ ECtx :: R)) by (apply Good_nested; [constructor|exact HG]).
            destruct (IH x s1 [] (F ++ ECtx :: R) vx sx HGn ltac:(rewrite Hs1; rewrite push_st; reflexivity) eq_refl HC1 Ef)
              as [j [fj [Hj [Hvj [A1 [A2 A3]]]]]].
            destruct (IHx sx vr sr ltac:(rewrite A1; exact Hs1) A3 Er) as [fm [Hm [B1 [B2 B3]]]].
            exists (max fj fm). split; [|split; [congruence|split; [congruence|exact B3]]].
            cbn [map_opt]. assert (Hd : dep (max fj fm) x = Some vx).
            { unfold dep. rewrite Hj. apply (gval_le fj); [apply Nat.le_max_l|exact Hvj]. }
            rewrite Hd. rewrite (map_opt_mono (dep fm) (dep (max fj fm)) (fun n0 v0 => dep_le fm (max fj fm) n0 v0 (Nat.le_max_r _ _)) _ _ Hm). reflexivity. }
        destruct (force_list (force f') (xvars e) (mkL (push ECtx (st (F ++ ECtx :: R) (length (gseg genv)))) sl (k :: gd))) as [[vals s2]| | |] eqn:El; try discriminate.
        destruct (HL (xvars e) (mkL (push ECtx (st (F ++ ECtx :: R) (length (gseg genv)))) sl (k :: gd)) vals s2 eq_refl HC El) as [fm [Hm [B1 [B2 B3]]]]. cbn [l_vs l_guard l_slots] in *.
        inversion Hr; subst v s'. clear Hr. cbn [l_vs l_guard l_slots].
        assert (Hv : gval (S fm) k = Some (ev_value (xid e) vals root 1%N 1%N)).
        { rewrite gval_unfold. rewrite Eg. rewrite Ex. rewrite Esel. rewrite Hm. reflexivity. }
        exists k, (S fm). split; auto. split; auto. split. { rewrite B1. rewrite Hvs. exact Hpop. } split. { rewrite B2. reflexivity. }
        eapply Cons_set'; eauto.
      + inversion Hr; subst v s'. clear Hr. cbn [l_vs l_guard l_slots].
        assert (Hv : gval 1 k = Some empty_string_value).
        { rewrite gval_unfold. rewrite Eg. rewrite Ex. rewrite Esel. reflexivity. }
        exists k, 1. split; auto. split; auto. split. { rewrite Hvs. exact Hpop. } split. { reflexivity. }
        eapply Cons_set'; eauto.
    - destruct (gdef_at k); discriminate.
  Qed.

  (* ---- consequences ---- *)
  (* the value does not depend on the state in which (i.e. on when, and after which other references) the binding is forced *)
  Theorem force_state_independent : forall f1 f2 n s1 s2 F1 R1 F2 R2 v1 v2 s1' s2',
    Good genv F1 R1 -> l_vs s1 = st (F1 ++ ECtx :: R1) gl -> loc n F1 = None -> Cons (l_slots s1) ->
    Good genv F2 R2 -> l_vs s2 = st (F2 ++ ECtx :: R2) gl -> loc n F2 = None -> Cons (l_slots s2) ->
    force f1 n s1 = FOk (v1, s1') -> force f2 n s2 = FOk (v2, s2') -> v1 = v2.
  Proof.
    intros.
    destruct (force_sound _ _ _ _ _ _ _ H H0 H1 H2 H7) as [k1 [g1 [A1 [A2 _]]]].
    destruct (force_sound _ _ _ _ _ _ _ H3 H4 H5 H6 H8) as [k2 [g2 [B1 [B2 _]]]].
    rewrite A1 in B1. inversion B1; subst. eapply gval_det; eauto.
  Qed.

  (* a circular definition (no value at any fuel) is an error on both sides: lazy evaluation never returns a value *)
  Theorem cycle_is_error_on_both_sides : forall n k s F R, lookup n genv = Some k -> (forall f, gval f k = None) ->
    Good genv F R -> l_vs s = st (F ++ ECtx :: R) gl -> loc n F = None -> Cons (l_slots s) ->
    forall fuel v s', force fuel n s <> FOk (v, s').
  Proof.
    intros n k s F R Hk Hn HG Hvs Hloc HC fuel v s' Hr.
    destruct (force_sound _ _ _ _ _ _ _ HG Hvs Hloc HC Hr) as [k' [f [A1 [A2 _]]]].
    rewrite Hk in A1. inversion A1; subst. rewrite Hn in A2. discriminate.
  Qed.

  (* ---- evaluation in any order in which every binding comes after the ones it mentions gives the reference values ---- *)
  Definition EnvOk (env : list (N * value)) : Prop := forall k v, lookup_v k env = Some v -> exists f, gval f k = Some v.

  Lemma topo_step_ok : forall env k env', EnvOk env -> topo_step env k = Some env' -> EnvOk env'.
  Proof.
    intros env k env' He H. unfold XsltCore3Defs.topo_step in H.
    destruct (gdef_at k) as [g|] eqn:Eg; try discriminate.
    assert (Hx : forall v, gval 1 k = Some v \/ (exists f, gval f k = Some v) -> env' = (k, v) :: env -> EnvOk env').
    { intros v Hv E. subst env'. intros k0 v0 Hl. simpl in Hl. destruct (N.eqb k k0) eqn:Ek.
      - apply N.eqb_eq in Ek. subst k0. inversion Hl; subst. destruct Hv as [Hv|Hv]; eauto.
      - apply He. exact Hl. }
    destruct (ext_value g) as [w|] eqn:Ex.
    - injection H as H1; subst env'. eapply Hx; [|reflexivity]. left. rewrite gval_unfold. rewrite Eg. rewrite Ex. reflexivity.
    - destruct (g_sel g) as [e|] eqn:Es.
      + match type of H with match ?t with _ => _ end = _ => destruct t as [vals|] eqn:Em; try discriminate end.
        injection H as H1; subst env'. eapply Hx; [|reflexivity]. right.
        assert (HM : forall xs vs, map_opt (fun n => match lookup n genv with Some j => lookup_v j env | None => None end) xs = Some vs ->
                       exists fm, map_opt (dep fm) xs = Some vs).
        { induction xs as [|x r IHx]; intros vs Hm. inversion Hm. exists 0. reflexivity.
          cbn [map_opt] in Hm. destruct (lookup x genv) as [j|] eqn:Ej; try discriminate.
          destruct (lookup_v j env) as [vx|] eqn:El; try discriminate.
          match type of Hm with match ?t with _ => _ end = _ => destruct t as [vr|] eqn:Er; try discriminate end.
          inversion Hm; subst vs. destruct (He _ _ El) as [fj Hj]. destruct (IHx _ eq_refl) as [fm Hm2].
          exists (max fj fm). cbn [map_opt].
          assert (Hd : dep (max fj fm) x = Some vx) by (unfold dep; rewrite Ej; apply (gval_le fj); [apply Nat.le_max_l|exact Hj]).
          rewrite Hd. rewrite (map_opt_mono (dep fm) (dep (max fj fm)) (fun n0 v0 => dep_le fm (max fj fm) n0 v0 (Nat.le_max_r _ _)) _ _ Hm2). reflexivity. }
        destruct (HM _ _ Em) as [fm Hm]. exists (S fm). rewrite gval_unfold. rewrite Eg. rewrite Ex. rewrite Es. rewrite Hm. reflexivity.
      + injection H as H1; subst env'. eapply Hx; [|reflexivity]. left. rewrite gval_unfold. rewrite Eg. rewrite Ex. rewrite Es. reflexivity.
  Qed.

  Theorem topo_eval_gives_reference_values : forall order env, topo_eval order [] = Some env ->
    forall k v, lookup_v k env = Some v -> exists f, gval f k = Some v.
  Proof.
    assert (X : forall order env0 env, EnvOk env0 -> topo_eval order env0 = Some env -> EnvOk env).
    { induction order; intros env0 env H0 H; simpl in H. inversion H; subst; auto.
      destruct (topo_step env0 a) eqn:E; try discriminate. eapply IHorder; [|exact H]. eapply topo_step_ok; eauto. }
    intros order env H. apply (X order [] env); auto. intros k v Hl. discriminate.
  Qed.

  (* hence two orders agree wherever both give a value: the dependency order is irrelevant *)
  Theorem topo_order_irrelevant : forall o1 o2 e1 e2 k v1 v2,
    topo_eval o1 [] = Some e1 -> topo_eval o2 [] = Some e2 -> lookup_v k e1 = Some v1 -> lookup_v k e2 = Some v2 -> v1 = v2.
  Proof.
    intros. destruct (topo_eval_gives_reference_values _ _ H _ _ H1) as [f1 A]. destruct (topo_eval_gives_reference_values _ _ H0 _ _ H2) as [f2 B].
    eapply gval_det; eauto.
  Qed.

  (* a run of references (what one expression mentions, left to right): every one gets its reference value *)
  Theorem force_all_complete : forall f names vals s F R fuel,
    Good genv F R -> l_vs s = st (F ++ ECtx :: R) gl -> (forall n, In n names -> loc n F = None) ->
    map_opt (dep f) names = Some vals -> l_guard s = [] -> Cons (l_slots s) -> f <= fuel ->
    exists sl', force_all ev_value root gdefs fuel names s = FOk (vals, mkL (l_vs s) sl' []) /\ Cons sl' /\ Ext [] (l_slots s) sl'.
  Proof.
    intros f names. induction names as [|x r IH]; intros vals s F R fuel HG Hvs Hloc Hm Hgd HC Hf.
    - simpl in Hm. inversion Hm; subst. exists (l_slots s). split; [|split; [exact HC|apply Ext_refl]].
      destruct s as [a b c]. cbn [l_guard] in Hgd. subst c. reflexivity.
    - cbn [map_opt] in Hm. destruct (dep f x) as [vx|] eqn:Ex; try discriminate.
      destruct (map_opt (dep f) r) as [vr|] eqn:Er; try discriminate. inversion Hm; subst vals. clear Hm.
      unfold dep in Ex. destruct (lookup x genv) as [k|] eqn:Ek; try discriminate.
      destruct (force_complete f x k vx s F R fuel HG Hvs (Hloc x (or_introl eq_refl)) Ek Ex Hgd HC Hf) as [sl1 [Hr1 [HC1 HE1]]].
      destruct (IH vr (mkL (l_vs s) sl1 []) F R fuel HG Hvs (fun n Hn => Hloc n (or_intror Hn)) eq_refl eq_refl HC1 Hf) as [sl2 [Hr2 [HC2 HE2]]].
      cbn [l_vs l_slots] in *. exists sl2. split; [|split; [exact HC2|eapply Ext_trans; eauto]].
      unfold force_all in *. cbn [force_list]. rewrite Hr1. rewrite Hr2. reflexivity.
  Qed.

  (* the state StylesheetRoot::process starts from *)
  Lemma l_init_shape : l_vs (l_init gdefs ext) = st ([] ++ ECtx :: gseg genv) gl /\ Good genv [] (gseg genv) /\ Cons (l_slots (l_init gdefs ext)).
  Proof.
    unfold l_init. cbn [l_vs l_slots]. split; [|split].
    - rewrite impl_start_st. reflexivity.
    - repeat split. constructor. unfold gseg. destruct (map _ genv); discriminate. exists [ECtx]. reflexivity.
    - apply Cons_init.
  Qed.
End GlobalsModel.
