"""Shared machinery for the /verif checks: building /repo's library from the working tree,
regenerating the Coq facts, building/checking the Coq project, extraction, harness builds,
correspondence runs, known findings, verdicts and evidence."""
import os, re, sys, json, time, glob, shlex, fcntl, hashlib, random, subprocess

VERIF = os.path.dirname(os.path.dirname(os.path.abspath(__file__)))
REPO = os.environ.get("VERIF_REPO", "/repo")
BUILD = os.path.join(VERIF, ".build")
COQ = os.path.join(VERIF, "coq")
OUT = os.path.join(VERIF, "out")
GUARD = "APACHE_XALAN_C_VERIF"
NPROC = os.cpu_count() or 4

sys.path.insert(0, os.path.join(VERIF, "translator"))
import srcfacts  # noqa: E402

AXIOM_WHITELIST = {
    # standard-library axioms that may appear (named in DESIGN.md section 3)
    "ClassicalDedekindReals.sig_forall_dec", "ClassicalDedekindReals.sig_not_dec",
    "FunctionalExtensionality.functional_extensionality_dep",
    "functional_extensionality_dep", "sig_forall_dec", "sig_not_dec",
    "Classical_Prop.classic", "classic", "ProofIrrelevance.proof_irrelevance", "proof_irrelevance",
    "JMeq.JMeq_eq", "JMeq_eq", "Eqdep.Eq_rect_eq.eq_rect_eq", "eq_rect_eq",
}

FORBIDDEN = re.compile(
    r"\b(Admitted|admit|Axiom|Axioms|Parameter|Parameters|Conjecture|Conjectures|Admit Obligations)\b"
    r"|Unset\s+Guard|bypass_check|type-in-type|impredicative-set|Unset\s+Universe\s+Checking|Unset\s+Positivity"
    r"|native_compute")


def log(*a):
    print("[verif]", *a, file=sys.stderr, flush=True)


def sh(cmd, timeout=1200, cwd=None, env=None, input=None):
    """Run a command; returns (rc, stdout+stderr text). rc = 124 on timeout."""
    e = dict(os.environ)
    if env:
        e.update(env)
    try:
        p = subprocess.run(cmd, shell=isinstance(cmd, str), cwd=cwd, env=e, input=input,
                           stdout=subprocess.PIPE, stderr=subprocess.STDOUT, timeout=timeout,
                           universal_newlines=True, errors="replace")
        return p.returncode, p.stdout
    except subprocess.TimeoutExpired as ex:
        out = ex.stdout or ""
        if isinstance(out, bytes):
            out = out.decode("utf-8", "replace")
        return 124, out + "\n[timeout after %ss]" % timeout


class Lock:
    def __init__(self, name):
        os.makedirs(BUILD, exist_ok=True)
        self.path = os.path.join(BUILD, name + ".lock")

    def __enter__(self):
        self.f = open(self.path, "w")
        fcntl.flock(self.f, fcntl.LOCK_EX)
        return self

    def __exit__(self, *a):
        fcntl.flock(self.f, fcntl.LOCK_UN)
        self.f.close()


# ------------------------------------------------------------------------------------------------
# library build from /repo's working tree

VARIANT_FLAGS = {
    "plain": ("-Wno-error -D%s" % GUARD, ""),
    "asan": ("-Wno-error -D%s -O1 -g -fsanitize=address,undefined -fno-sanitize-recover=undefined -fno-omit-frame-pointer" % GUARD,
             "-fsanitize=address,undefined"),
    "tsan": ("-Wno-error -D%s -O1 -g -fsanitize=thread" % GUARD, "-fsanitize=thread"),
}


def lib_dir(variant="plain"):
    return os.path.join(BUILD, variant, "src", "xalanc")


def build_lib(variant="plain"):
    """(Re)build libxalan-c from /repo's current working tree. Returns (ok, log)."""
    bdir = os.path.join(BUILD, variant)
    cxx, ld = VARIANT_FLAGS[variant]
    with Lock("lib_" + variant):
        logtxt = ""
        if not os.path.exists(os.path.join(bdir, "build.ninja")):
            cmd = ["cmake", "-G", "Ninja", "-S", REPO, "-B", bdir, "-DCMAKE_BUILD_TYPE=RelWithDebInfo",
                   "-DCMAKE_CXX_FLAGS=" + cxx]
            if ld:
                cmd += ["-DCMAKE_SHARED_LINKER_FLAGS=" + ld, "-DCMAKE_EXE_LINKER_FLAGS=" + ld]
            rc, out = sh(cmd, timeout=600)
            logtxt += out
            if rc != 0:
                return False, logtxt
        # the message-catalogue tool that runs during the build leaks; do not let LeakSanitizer fail the build
        env = {"ASAN_OPTIONS": os.environ.get("ASAN_OPTIONS", "detect_leaks=0")} if variant == "asan" else None
        rc, out = sh(["ninja", "-C", bdir, "xalan-c"], timeout=3000, env=env)
        logtxt += out[-4000:]
        return rc == 0, logtxt


def include_flags(variant="plain"):
    b = os.path.join(BUILD, variant)
    return ["-I" + os.path.join(REPO, "src"), "-I" + os.path.join(b, "src"),
            "-I" + os.path.join(b, "src", "xalanc", "PlatformSupport"),
            "-I" + os.path.join(b, "src", "xalanc", "NLS", "include"),
            "-I" + os.path.join(VERIF, "harness")]


def newer(target, deps):
    if not os.path.exists(target):
        return True
    t = os.path.getmtime(target)
    return any(os.path.exists(d) and os.path.getmtime(d) > t for d in deps)


def build_harness(name, variant="plain", extra_src=(), extra_flags=()):
    """Compile harness/<name>.cpp against the freshly built library. Returns (path, ok, log)."""
    src = os.path.join(VERIF, "harness", name + ".cpp")
    exe = os.path.join(BUILD, "%s_%s" % (name, variant))
    lib = os.path.join(lib_dir(variant), "libxalan-c.so")
    # public headers of /repo are inputs too: rebuild when any header is newer than the binary
    hdr_stamp = newest_mtime(os.path.join(REPO, "src"), (".hpp", ".h"))
    deps = [src, os.path.join(VERIF, "harness", "common.hpp"), lib] + list(extra_src)
    with Lock("harness_" + name + "_" + variant):
        if not newer(exe, deps) and os.path.getmtime(exe) >= hdr_stamp:
            return exe, True, ""
        cxx, ld = VARIANT_FLAGS[variant]
        flags = ["-std=gnu++14", "-O1", "-g", "-D" + GUARD, "-Wno-deprecated-declarations"]
        if variant == "asan":
            flags += ["-fsanitize=address,undefined", "-fno-sanitize-recover=undefined", "-fno-omit-frame-pointer"]
        if variant == "tsan":
            flags += ["-fsanitize=thread"]
        cmd = ["g++"] + flags + list(extra_flags) + include_flags(variant) + [src] + list(extra_src) + \
              ["-o", exe, "-L" + lib_dir(variant), "-lxalan-c", "-lxerces-c", "-lpthread",
               "-Wl,-rpath," + lib_dir(variant),
               "-Wl,-rpath," + os.path.join(lib_dir(variant), "Utils", "XalanMsgLib")]
        rc, out = sh(cmd, timeout=900)
        return exe, rc == 0, out


_mt_cache = {}


def newest_mtime(root, exts):
    key = (root, exts)
    if key in _mt_cache:
        return _mt_cache[key]
    m = 0.0
    for d, _, fs in os.walk(root):
        for f in fs:
            if f.endswith(exts):
                try:
                    m = max(m, os.path.getmtime(os.path.join(d, f)))
                except OSError:
                    pass
    _mt_cache[key] = m
    return m


# ------------------------------------------------------------------------------------------------
# Coq project

def coq_files():
    return sorted(os.path.basename(p) for p in glob.glob(os.path.join(COQ, "*.v")))


def coq_prepare(gen_names=None):
    """Regenerate Gen files from /repo and the Makefile. Returns the srcfacts result dict."""
    with Lock("coq"):
        os.makedirs(os.path.join(COQ, "extracted"), exist_ok=True)
        res = srcfacts.run(COQ, gen_names)
        proj = "-Q . XV\n" + "\n".join(coq_files()) + "\n"
        changed = srcfacts.write_if_changed(os.path.join(COQ, "_CoqProject"), proj)
        if changed or not os.path.exists(os.path.join(COQ, "Makefile")):
            sh(["coq_makefile", "-f", "_CoqProject", "-o", "Makefile"], cwd=COQ)
        return res


def coq_make(targets, timeout=2400):
    """Full .vo build of the given targets (never -vos). Returns (ok, log)."""
    with Lock("coq"):
        rc, out = sh(["make", "-k", "-j%d" % NPROC] + list(targets), cwd=COQ, timeout=timeout,
                     env={"TIMED": ""})
        return rc == 0, out


def coq_failure_site(logtxt):
    """From coqc's error output find (file, line, enclosing statement name)."""
    m = re.search(r'File "\./?([^"]+)", line (\d+)', logtxt)
    if not m:
        return None
    f, ln = m.group(1), int(m.group(2))
    name = None
    try:
        lines = open(os.path.join(COQ, f)).read().split("\n")
        for i in range(min(ln, len(lines)) - 1, -1, -1):
            mm = re.match(r"\s*(Theorem|Lemma|Corollary|Example|Definition|Fixpoint|Fact|Remark|Proposition)\s+(\w+)", lines[i])
            if mm:
                name = mm.group(2)
                break
    except OSError:
        pass
    return {"file": f, "line": ln, "statement": name}


def statements_of(vfile):
    txt = open(os.path.join(COQ, vfile)).read()
    txt = re.sub(r"\(\*.*?\*\)", " ", txt, flags=re.S)
    return re.findall(r"^\s*(?:Theorem|Lemma|Corollary|Example|Fact|Proposition)\s+(\w+)", txt, flags=re.M)


def coq_assumptions(vfile):
    """Compile a Properties file directly and parse its Print Assumptions output.
    Returns (ok, {theorem: [axioms]}, raw)."""
    with Lock("coq"):
        rc, out = sh(["coqc", "-Q", ".", "XV", vfile], cwd=COQ, timeout=1200)
    txt = open(os.path.join(COQ, vfile)).read()
    order = re.findall(r"Print\s+Assumptions\s+(\w+)\s*\.", txt)
    blocks = re.split(r"(?m)^(?=Closed under the global context|Axioms:)", out)
    blocks = [b for b in blocks if b.startswith("Closed under") or b.startswith("Axioms:")]
    res = {}
    for name, b in zip(order, blocks):
        if b.startswith("Closed"):
            res[name] = []
        else:
            ax = re.findall(r"(?m)^([A-Za-z_][\w.']*)\s*:", b[len("Axioms:"):])
            res[name] = ax
    ok = rc == 0 and len(blocks) == len(order)
    return ok, res, out


def coq_cone(vfiles):
    """Transitive closure of the project-local (XV.*) dependencies of the given .v files."""
    seen, todo = [], list(vfiles)
    allf = set(coq_files())
    while todo:
        f = todo.pop()
        if f in seen or f not in allf:
            continue
        seen.append(f)
        txt = open(os.path.join(COQ, f)).read()
        txt = re.sub(r"\(\*.*?\*\)", " ", txt, flags=re.S)
        for sent in re.split(r"\.(?:\s|$)", txt):
            m = re.match(r"\s*(?:From\s+(\S+)\s+)?Require\s+(?:Import\s+|Export\s+)?(.*)$", sent, flags=re.S)
            if not m:
                continue
            frm = m.group(1)
            for name in m.group(2).split():
                if name.startswith("XV."):
                    todo.append(name[3:] + ".v")
                elif frm == "XV" or (frm is None and (name + ".v") in allf):
                    todo.append(name.split(".")[-1] + ".v")
    return sorted(seen)


def grep_gate(files=None):
    """Reject forbidden vernacular in the given coq/*.v files (default: all; comments stripped)."""
    hits = []
    for f in (files if files is not None else coq_files()):
        txt = open(os.path.join(COQ, f)).read()
        txt = re.sub(r"\(\*.*?\*\)", lambda m: "\n" * m.group(0).count("\n"), txt, flags=re.S)
        stack = []
        for i, line in enumerate(txt.split("\n"), 1):
            if FORBIDDEN.search(line):
                hits.append("%s:%d: %s" % (f, i, line.strip()[:120]))
            m = re.match(r"\s*Section\s+(\w+)", line)
            if m:
                stack.append(m.group(1))
            m = re.match(r"\s*End\s+(\w+)\s*\.", line)
            if m and stack and stack[-1] == m.group(1):
                stack.pop()
            if re.match(r"\s*(Variable|Variables|Hypothesis|Hypotheses|Context)\b", line) and not stack:
                hits.append("%s:%d: section-less %s" % (f, i, line.strip()[:80]))
    return hits


def build_model(family):
    """Compile Extract<Family>.v (extraction) and the OCaml driver. Returns (exe, ok, log)."""
    Fam = family[0].upper() + family[1:]
    ok, out = coq_make(["Extract%s.vo" % Fam])
    exe = os.path.join(BUILD, family + "_model")
    if not ok:
        return exe, False, out
    ml = os.path.join(COQ, "extracted", family + "_model.ml")
    mli = ml + "i"
    drv = os.path.join(VERIF, "ocaml", family + "_driver.ml")
    conv = os.path.join(VERIF, "ocaml", "conv.ml")
    with Lock("ml_" + family):
        if not newer(exe, [ml, mli, drv, conv]):
            return exe, True, ""
        d = os.path.join(BUILD, "ml_" + family)
        os.makedirs(d, exist_ok=True)
        mod = family + "_model"
        for src in (ml, mli):
            with open(src) as f, open(os.path.join(d, os.path.basename(src)), "w") as g:
                g.write(f.read())
        with open(os.path.join(d, "driver.ml"), "w") as g:
            g.write("open %s\n" % (mod[0].upper() + mod[1:]))
            g.write(open(conv).read())
            g.write(open(drv).read())
        rc, out2 = sh(["ocamlfind", "ocamlopt", "-w", "-a", "-O2", mod + ".mli", mod + ".ml", "driver.ml", "-o", exe],
                      cwd=d, timeout=900)
        return exe, rc == 0, out + out2


# ------------------------------------------------------------------------------------------------
# running both sides

def run_lines(exe, text, timeout=1200, env=None, sep=" "):
    """Feed `text` to exe's stdin; returns (rc, {id: rest-of-line}, raw)."""
    rc, out = sh([exe], input=text, timeout=timeout, env=env)
    res = {}
    for line in out.split("\n"):
        if not line or line.startswith("#"):
            continue
        parts = line.split(sep, 1)
        res[parts[0]] = parts[1] if len(parts) > 1 else ""
    return rc, res, out


def run_lines_parallel(exe, lines, jobs=None, timeout=1200, env=None, sep=" "):
    """Like run_lines, but splits the case lines over `jobs` processes (cases are independent)."""
    from concurrent.futures import ThreadPoolExecutor
    jobs = jobs or NPROC
    if len(lines) < 4 * jobs:
        return run_lines(exe, "\n".join(lines) + "\n", timeout, env, sep)
    per = (len(lines) + jobs - 1) // jobs
    chunks = [lines[i:i + per] for i in range(0, len(lines), per)]
    with ThreadPoolExecutor(jobs) as ex:
        rs = list(ex.map(lambda ch: run_lines(exe, "\n".join(ch) + "\n", timeout, env, sep), chunks))
    rc = max(abs(r[0]) for r in rs)
    res = {}
    for r in rs:
        res.update(r[1])
    return rc, res, "".join(r[2][-2000:] for r in rs if r[0] != 0)


# ------------------------------------------------------------------------------------------------
# known findings

class Known:
    def __init__(self):
        self.findings = []   # dicts: property, key, cls, replay, what
        self.fixed = []
        paths = [os.path.join(VERIF, "KNOWN_FINDINGS.txt")] + sorted(glob.glob(os.path.join(VERIF, "props", "C*.findings.txt")))
        lines = []
        for p in paths:
            if os.path.exists(p):
                lines += open(p).read().split("\n")
        for line in lines:
            line = line.strip()
            if not line or line.startswith("#"):
                continue
            if line.startswith("finding:"):
                head, _, what = line[len("finding:"):].partition("::")
                kv = dict(x.split("=", 1) for x in head.split() if "=" in x)
                self.findings.append({"property": kv.get("property"), "key": kv.get("key"),
                                      "cls": kv.get("class"), "replay": kv.get("replay"), "what": what.strip()})
            elif line.startswith("fixed:"):
                self.fixed.append(line)

    def for_property(self, pid):
        return [f for f in self.findings if f["property"] == pid]


# ------------------------------------------------------------------------------------------------
# per-run context, verdict, evidence

class Ctx:
    def __init__(self, pid, tier, seed):
        self.pid, self.tier, self.seed = pid, tier, seed
        self.t0 = time.time()
        self.rng = random.Random((seed * 1000003) ^ int(hashlib.sha256(pid.encode()).hexdigest()[:8], 16))
        self.violations = []          # (replay_path, nofail)
        self.known_lines = []
        self.obligations = []         # names
        self.discharged = []
        self.axioms = {}
        self.broken = []              # descriptions of broken proof obligations / ties / correspondence
        self.cov = {"evaluations": 0, "distinct_nontrivial": 0, "samples": [], "traces_validated_against_impl": 0}
        self.distribution = {}
        self.assumptions = []
        self.trusted = []
        self.notes = {}
        self.known = Known()
        self.escalated = False
        if os.environ.get("VERIF_FORCE_ESCALATED"):
            # second pass of check.py: files the model mirrors differ from the validated text (vlib/anchors.py)
            self.escalated = True
            self.notes["modelled_source_changed"] = os.environ["VERIF_FORCE_ESCALATED"].split(",")
        os.makedirs(os.path.join(OUT, pid), exist_ok=True)

    @property
    def thorough(self):
        return self.tier == "thorough" or self.escalated

    def count(self, key, n=1):
        self.distribution[key] = self.distribution.get(key, 0) + n

    def replay_path(self, tag):
        return os.path.join(OUT, self.pid, "replay_%s_%d.txt" % (tag, len(self.violations)))

    def violation(self, tag, text, nofail=False):
        p = self.replay_path(tag)
        with open(p, "w") as f:
            f.write(text if text.endswith("\n") else text + "\n")
        self.violations.append((p, nofail))
        return p

    def known_finding(self, what):
        self.known_lines.append(what)

    # --- proof leg ------------------------------------------------------------------------
    def prove(self, prop_files, gen_names, extra_targets=()):
        """Regenerate facts, build the property files, check assumptions and the grep gate.
        Returns True when every obligation is discharged."""
        facts = coq_prepare(gen_names)
        self.notes["gen"] = {k: ({"ok": True, "changed": v.get("changed")} if v["ok"] else v) for k, v in facts.items()}
        ok_all = True
        for name, r in facts.items():
            if not r["ok"]:
                self.broken.append("translator: %s: %s" % (name, r["error"]))
                ok_all = False
        hits = grep_gate(coq_cone(list(prop_files) + [n + '.v' for n in (gen_names or [])] + [t[:-3] + '.v' for t in extra_targets if t.endswith('.vo')]))
        if hits:
            self.broken.append("grep gate: " + "; ".join(hits[:5]))
            ok_all = False
        targets = [f[:-2] + ".vo" for f in prop_files] + list(extra_targets)
        ok, out = coq_make(targets)
        for f in prop_files:
            names = statements_of(f)
            self.obligations += names
            vo = os.path.join(COQ, f[:-2] + ".vo")
            built = os.path.exists(vo) and not newer(vo, [os.path.join(COQ, f)])
            if ok or built and ("Error" not in out):
                a_ok, ax, raw = coq_assumptions(f)
                if a_ok:
                    self.discharged += names
                    self.axioms.update(ax)
                    bad = sorted({a for l in ax.values() for a in l if a not in AXIOM_WHITELIST and a.split(".")[-1] not in AXIOM_WHITELIST})
                    if bad:
                        self.broken.append("assumptions outside the whitelist: " + ", ".join(bad))
                        ok_all = False
                else:
                    self.broken.append("Print Assumptions run failed for %s: %s" % (f, raw[-400:]))
                    ok_all = False
            else:
                site = coq_failure_site(out)
                self.broken.append("proof: %s does not check (%s)" % (f, json.dumps(site) if site else out[-600:]))
                self.notes["coq_error"] = out[-1500:]
                ok_all = False
        if ok_all and self.tier == "thorough" and not self.escalated and os.environ.get("VERIF_NO_COQCHK") != "1":
            ok_all = self.coqchk(prop_files) and ok_all
        return ok_all

    def coqchk(self, prop_files):
        """Thorough tier: re-check the compiled property files and everything they depend on with the
        independent checker and record the axioms it lists (coqchk -o).  A rejection is a broken
        obligation; a timeout is recorded but not counted (the kernel already accepted the files)."""
        mods = ["XV." + f[:-2] for f in prop_files]
        res = {"modules": mods}
        for attempt in (1, 2):
            with Lock("coq"):
                rc, out = sh(["coqchk", "-o", "-silent", "-Q", ".", "XV"] + mods, cwd=COQ, timeout=3000)
            if rc == 124 and "[timeout after" in out:
                rc = None
            if rc == 0 or rc is None:
                break
        if rc is None:
            res["result"] = "timed out (not counted)"
            self.notes.setdefault("coqchk", []).append(res)
            return True
        m = re.search(r"\* Axioms:(.*?)\n\s*\n\* Constants/Inductives relying on type-in-type:(.*?)\n\s*\n\* Constants/Inductives relying on unsafe \(co\)fixpoints:(.*?)\n\s*\n\* Inductives whose positivity is assumed:(.*?)\n", out + "\n\n", flags=re.S)
        if rc != 0 or not m:
            res["result"] = "rejected"
            res["output"] = out[-800:]
            self.notes.setdefault("coqchk", []).append(res)
            self.broken.append("coqchk does not accept %s: %s" % (", ".join(mods), out[-300:]))
            return False
        fields = [" ".join(x.split()) for x in m.groups()]
        res.update({"result": "accepted", "axioms": fields[0], "type_in_type": fields[1], "unsafe_fixpoints": fields[2], "assumed_positivity": fields[3]})
        self.notes.setdefault("coqchk", []).append(res)
        bad = [f for f in fields[1:] if f != "<none>"]
        if bad:
            self.broken.append("coqchk: kernel checks switched off somewhere in the cone: " + "; ".join(bad))
            return False
        if fields[0] != "<none>":
            names = [a.strip() for a in re.split(r"\s+", fields[0]) if a.strip()]
            outside = [a for a in names if a not in AXIOM_WHITELIST and a.split(".")[-1] not in AXIOM_WHITELIST]
            if outside:
                self.broken.append("coqchk lists axioms outside the whitelist: " + ", ".join(outside))
                return False
        return True

    # --- finish ---------------------------------------------------------------------------
    def finish(self, level="proof", checker_cmd="", explanation=""):
        wall = time.time() - self.t0
        for w in self.known_lines:
            print("KNOWN-FINDING: property=%s %s" % (self.pid, w))
        # broken proof / tie / correspondence with no failing input found
        real = [v for v in self.violations if not v[1]]
        if self.broken and not real:
            txt = "property %s: no longer shown to hold; no failing input found by the widened search.\n" % self.pid
            txt += "\n".join("BROKEN: " + b for b in self.broken) + "\n"
            p = self.replay_path("unproved")
            with open(p, "w") as f:
                f.write(txt)
            self.violations.append((p, True))
        for p, nofail in self.violations:
            if not nofail and self.broken:
                with open(p, "a") as f:
                    f.write("\n".join("# ALSO BROKEN: " + b for b in self.broken) + "\n")
            print("VIOLATION property=%s replay=%s%s" % (self.pid, p, " no-failing-input-found" if nofail else ""))
        cov = dict(self.cov)
        cov["samples"] = cov["samples"][:12] or ["(none)"]
        cov.update({
            "obligations": len(self.obligations), "discharged": len(self.discharged),
            "obligation_names": self.obligations,
            "checker_cmd": checker_cmd or "coq_makefile -f _CoqProject -o Makefile && make -k -j%d Properties_%s.vo (Coq 8.16.1, full .vo build) ; coqc Properties_%s.v (Print Assumptions)" % (NPROC, self.pid, self.pid),
            "trusted_base": self.trusted or DEFAULT_TRUSTED,
            "axioms_per_theorem": self.axioms,
            "input_distribution": self.distribution,
            "broken": self.broken,
            "known_findings_reported": self.known_lines,
            "explanation": explanation,
        })
        cov.update(self.notes)
        ev = {"property_id": self.pid, "tier": self.tier, "seed": self.seed, "level": level,
              "coverage": cov, "assumptions": self.assumptions, "wall_s": round(wall, 2),
              "violations": len(self.violations)}
        os.makedirs(os.path.join(VERIF, "evidence"), exist_ok=True)
        with open(os.path.join(VERIF, "evidence", self.pid + ".json"), "w") as f:
            json.dump(ev, f, indent=1, sort_keys=True)
            f.write("\n")
        log("%s %s: %d obligations, %d discharged, %d evaluations, %d violations, %.1fs" % (
            self.pid, self.tier, len(self.obligations), len(self.discharged), cov["evaluations"],
            len(self.violations), wall))
        return 1 if self.violations else 0


DEFAULT_TRUSTED = [
    "Coq 8.16.1 kernel (coqc, full .vo build; vm_compute used; no native_compute)",
    "axioms: none beyond those listed per theorem under axioms_per_theorem (Print Assumptions output)",
    "translator /verif/translator/srcfacts.py (regex/AST anchored; fails closed)",
    "extraction: ExtrOcamlBasic only (Extract Inductive bool/option/unit/list/prod/sumbool/sumor); no Extract Constant; OCaml 4.13.1; ocaml/conv.ml + family driver",
    "correspondence harness: g++ 12, harness/*.cpp over public Xalan-C headers, Xerces-C 3.2, Python generators/oracles",
]


def shrink_list(items, fails, max_steps=200):
    """Greedy 1-minimal shrinking of a list under predicate `fails`."""
    cur = list(items)
    steps = 0
    chunk = max(1, len(cur) // 2)
    while chunk >= 1 and steps < max_steps:
        i = 0
        progressed = False
        while i < len(cur) and steps < max_steps:
            cand = cur[:i] + cur[i + chunk:]
            steps += 1
            if cand != cur and fails(cand):
                cur = cand
                progressed = True
            else:
                i += chunk
        if chunk == 1 and not progressed:
            break
        chunk = max(1, chunk // 2) if chunk > 1 else (1 if progressed else 0)
    return cur
