(* SerLegacyFails.v — C04, part "legacy": the two serializers succeed and fail together on ARBITRARY
   strings of 16-bit units (no U+0000) in text nodes and attribute values, when the legacy source has
   the repair 11-K-new-4 (lc_surfix): both fail exactly for an unpaired surrogate or a control
   character XML 1.0 forbids.  This needs the error side of FormatterToXMLUnicode's model too: its
   UTF-16 writer writes a text node / attribute value iff the surrogates are paired and no character
   is forbidden. *)
From Coq Require Import NArith List Bool Lia ZifyBool ZifyNat ZifyN.
Require Import XV.GenSer XV.GenSerLegacy XV.SerDefs XV.XmlParseDefs XV.SerEscModel XV.SerLegacyDefs
               XV.SerLegacyModel XV.SerLegacyModel2 XV.SerLegacyAgree XV.SerLegacyMarkup.
Import ListNotations.
Local Open Scope N_scope.

Definition okres (r : res (list N)) : bool := match r with Ok _ => true | _ => false end.

Lemma okres_lift : forall pre r, okres (lift pre r) = okres r.
Proof. intros pre [y| |k]; reflexivity. Qed.
Lemma okres_lg_lift : forall pre r, okres (lg_lift pre r) = okres r.
Proof. intros pre [y| |k]; reflexivity. Qed.

(* ---- FormatterToXMLUnicode, UTF-16 writer ------------------------------------------------------ *)
Definition one (attr v11 : bool) (c : N) : list item := if attr then ats v11 c else cs v11 c.

Definition chk_one (attr v11 : bool) (c : N) : bool :=
  Bool.eqb (okres (payload (one attr v11 c))) (negb (p_forbidden v11 c)).

Lemma sweep_one : forall attr v11, forallb (chk_one attr v11) (upto (sp_last v11)) = true.
Proof. intros [|] [|]; vm_compute; reflexivity. Qed.

Lemma one_ok : forall attr v11 c, x_high c = false -> x_low c = false ->
  okres (payload (one attr v11 c)) = negb (p_forbidden v11 c).
Proof.
  intros attr v11 c Hh Hl. destruct (p_range v11 c) eqn:Er.
  - assert (Hf : p_forbidden v11 c = false).
    { unfold p_forbidden. unfold p_range in Er. rewrite Er. reflexivity. }
    rewrite Hf. destruct (v11 && (c =? 8232)) eqn:E8.
    + assert (v11 = true /\ c = 8232) as [-> ->] by lia. destruct attr; vm_compute; reflexivity.
    + destruct attr; unfold one; [rewrite (ats_high _ _ Er E8 Hh Hl)|rewrite (cs_high _ _ Er E8 Hh Hl)]; reflexivity.
  - apply eqb_prop. apply (sweep _ _ (sweep_one attr v11)). unfold p_range in Er. lia.
Qed.

Definition uw (attr v11 : bool) (s : list N) : list item :=
  if attr then write_attr_string fam_utf16 v11 s else write_content fam_utf16 v11 s.

Definition u_ok (v11 : bool) (s : list N) : bool :=
  sur_paired s && forallb (fun c => negb (p_forbidden v11 c)) s.

Lemma uw_pair : forall attr v11 hi lo r, x_high hi = true -> x_low lo = true ->
  okres (payload (uw attr v11 (hi :: lo :: r))) = okres (payload (uw attr v11 r)).
Proof.
  intros [|] v11 hi lo r Hh Hl; unfold uw.
  - rewrite write_attr_pair by assumption. rewrite (payload_app_ok (u16_unit hi ++ u16_unit lo) _ [hi; lo] eq_refl). apply okres_lift.
  - rewrite write_content_pair by assumption. rewrite (payload_app_ok (u16_unit hi ++ u16_unit lo) _ [hi; lo] eq_refl). apply okres_lift.
Qed.

Lemma uw_lone : forall attr v11 c r, lone_head (c :: r) = true -> okres (payload (uw attr v11 (c :: r))) = false.
Proof.
  intros attr v11 c r H. cbn [lone_head] in H.
  assert (Hs : x_high c = true \/ x_low c = true) by lia.
  destruct (sur_high v11 c Hs) as (A1 & A2 & _).
  assert (G : exists sk, u16_at c r = ([IThrow err_surrogate], sk)).
  { unfold u16_at. rewrite is_high_x, is_low_x. destruct (x_high c) eqn:Eh.
    - destruct r as [|n r]; [eexists; reflexivity|]. rewrite is_low_x. destruct (x_low n) eqn:En; [|eexists; reflexivity].
      assert (x_low c = false) by (unfold x_low, x_high, x_in in *; lia). lia.
    - destruct (x_low c); [eexists; reflexivity|]. lia. }
  destruct G as [sk G]. destruct attr; unfold uw.
  - unfold write_attr_string. cbn [char_loop]. unfold attr_step at 1. rewrite A1. unfold normalized_big. rewrite A2.
    cbn [f_at fam_utf16]. rewrite G. reflexivity.
  - unfold write_content. cbn [char_loop]. unfold content_step at 1. rewrite A1. unfold normalized_big. rewrite A2.
    cbn [f_at fam_utf16]. rewrite G. reflexivity.
Qed.

Lemma uw_cons : forall attr v11 c r, x_high c = false -> x_low c = false ->
  okres (payload (uw attr v11 (c :: r))) = negb (p_forbidden v11 c) && okres (payload (uw attr v11 r)).
Proof.
  intros attr v11 c r Hh Hl. rewrite <- (one_ok attr v11 c Hh Hl). destruct attr; unfold uw, one.
  - rewrite write_attr_cons, payload_app by assumption.
    destruct (payload (ats v11 c)); [destruct (payload (write_attr_string fam_utf16 v11 r))|..]; reflexivity.
  - rewrite write_content_cons, payload_app by assumption.
    destruct (payload (cs v11 c)); [destruct (payload (write_content fam_utf16 v11 r))|..]; reflexivity.
Qed.

Lemma sur_not_forbidden : forall v11 c, x_high c = true \/ x_low c = true -> p_forbidden v11 c = false.
Proof. intros v11 c H. destruct (sur_high v11 c H) as (A1 & _). unfold p_forbidden. unfold p_range in A1. rewrite A1. reflexivity. Qed.

Theorem unicode_ok_iff : forall attr v11 n s, (length s <= n)%nat ->
  okres (payload (uw attr v11 s)) = u_ok v11 s.
Proof.
  intros attr v11. induction n as [|n IH]; intros s Hlen.
  { destruct s; [destruct attr; reflexivity|cbn in Hlen; lia]. }
  destruct s as [|c r]; [destruct attr; reflexivity|]. unfold u_ok. cbn [sur_paired forallb].
  destruct (x_high c) eqn:Eh.
  - destruct r as [|lo r].
    + rewrite uw_lone; [reflexivity|]. cbn [lone_head]. rewrite Eh. lia.
    + destruct (x_low lo) eqn:El.
      * rewrite (uw_pair attr v11 c lo r Eh El), (IH r) by (cbn [length] in Hlen; lia). unfold u_ok. cbn [forallb].
        rewrite (sur_not_forbidden v11 c (or_introl Eh)), (sur_not_forbidden v11 lo (or_intror El)). reflexivity.
      * rewrite uw_lone; [reflexivity|]. cbn [lone_head]. rewrite Eh, El. lia.
  - destruct (x_low c) eqn:El.
    + rewrite uw_lone; [reflexivity|]. cbn [lone_head]. rewrite El. reflexivity.
    + rewrite (uw_cons attr v11 c r Eh El), (IH r) by (cbn [length] in Hlen; lia). unfold u_ok. lia.
Qed.

(* ---- the legacy serializer with the surrogate repair -------------------------------------------- *)
Definition l_ok (v11 : bool) (s : list N) : bool :=
  sur_paired s && forallb (fun c => negb (negb v11 && ctl10 c)) s.

Section LegacySide.
  Variable g : lcfg.
  Hypothesis Hm : lg_max_ok (lc_max g) = true.
  Hypothesis Hf : lc_surfix g = true.
  Let v11 := lc_v11 g.

  Lemma step_total : forall attr c, x_high c = false -> x_low c = false -> c <> 0 -> c < 65536 ->
    okres (lg_step g attr c) = negb (negb v11 && ctl10 c).
  Proof.
    intros attr c Hh Hl Hz Hs. destruct (negb v11 && ctl10 c) eqn:E.
    - assert (v11 = false /\ ctl10 c = true) as [Hv Hc] by lia. rewrite (ctl_step g attr c Hm Hv Hc). reflexivity.
    - destruct (xml_char v11 c) eqn:Hx.
      + destruct (step_shape g attr c Hm Hx Hh Hl Hs) as (e & He & _). rewrite He. reflexivity.
      + (* U+FFFE, U+FFFF: written like any other character above the tables *)
        assert (Hc : c = 65534 \/ c = 65535).
        { unfold ctl10 in E. unfold xml_char, x_in in Hx. unfold x_high, x_low, x_in in Hh, Hl. destruct v11; lia. }
        assert (Ea : lg_default_entity attr c = None).
        { unfold lg_default_entity. destruct (c =? 10) eqn:E10; [lia|]. rewrite andb_false_r.
          apply assoc_none; [reflexivity|lia]. }
        unfold lg_step, lg_special, lg_default_escape. rewrite Ea, lg_high_x, Hh, lg_low_x, Hl, lg_sur_x, Hh, Hl.
        change lg_specials_size with 256. assert (Ec : (c <? 256) = false) by lia. rewrite Ec. cbn [andb orb].
        rewrite !andb_false_r. cbn [orb]. change lg_lsep with 8232.
        destruct (lc_max g <? c); cbn [orb fst]; [reflexivity|].
        destruct (lc_v11 g && (c =? 8232)); reflexivity.
  Qed.

  Lemma lone_fails : forall attr t, lone_head t = true -> lg_loop g attr t = Thrown err_surrogate.
  Proof. intros attr t H. exact (legacy_unpaired_surrogate_fails g attr [] t Hm Hf eq_refl eq_refl H). Qed.

  Theorem legacy_ok_iff : forall attr n s, (length s <= n)%nat -> small s = true -> ~ In 0 s ->
    okres (lg_loop g attr s) = l_ok v11 s.
  Proof.
    intros attr. induction n as [|n IH]; intros s Hlen Hs Hz.
    { destruct s; [reflexivity|cbn in Hlen; lia]. }
    destruct s as [|c r]; [reflexivity|]. unfold l_ok. cbn [sur_paired forallb].
    assert (Hsr : small r = true) by (unfold small in *; cbn [forallb] in Hs; lia).
    assert (Hzr : ~ In 0 r) by (intros X; apply Hz; right; exact X).
    assert (Hc16 : c < 65536) by (unfold small in Hs; cbn [forallb] in Hs; lia).
    assert (Hc0 : c <> 0) by (intros ->; apply Hz; left; reflexivity).
    destruct (x_high c) eqn:Eh.
    - destruct r as [|lo r].
      + rewrite (lone_fails attr [c]); [reflexivity|].
        cbn [lone_head]. rewrite Eh. lia.
      + destruct (x_low lo) eqn:El.
        * rewrite (lg_loop_pair_out g attr c lo r Hm Eh El), okres_lg_lift.
          rewrite (IH r) by (cbn [length] in Hlen; try lia; unfold small in *; cbn [forallb] in *; try lia; intros X; apply Hzr; right; exact X).
          unfold l_ok. cbn [forallb]. unfold ctl10. unfold x_high, x_low, x_in in Eh, El. lia.
        * rewrite (lone_fails attr (c :: lo :: r)); [reflexivity|].
          cbn [lone_head]. rewrite Eh, El. lia.
    - destruct (x_low c) eqn:El.
      + rewrite (lone_fails attr (c :: r)); [reflexivity|].
        cbn [lone_head]. rewrite El. reflexivity.
      + rewrite lg_loop_cons by (rewrite lg_high_x; exact Eh).
        pose proof (step_total attr c Eh El Hc0 Hc16) as T.
        destruct (lg_step g attr c) as [e| |k]; cbn [okres] in T.
        * rewrite okres_lg_lift, (IH r) by (cbn [length] in Hlen; try lia; assumption). unfold l_ok. fold v11. lia.
        * fold v11. rewrite <- T. rewrite andb_false_r. reflexivity.
        * fold v11. rewrite <- T. rewrite andb_false_r. reflexivity.
  Qed.

End LegacySide.

(* the two predicates coincide on strings without U+0000 *)
Lemma forb_ctl : forall v11 c, c <> 0 -> p_forbidden v11 c = negb v11 && ctl10 c.
Proof.
  intros [|] c Hc; [rewrite no_forbidden_1_1; reflexivity|]. cbn [negb andb]. destruct (c <? 128) eqn:E.
  - rewrite forbidden_iff_not_char_1_0' by lia. unfold ctl10, xml_char, x_in. lia.
  - unfold p_forbidden, sp_last, last_special_1_0. assert (X : (127 <? c) = true) by lia. rewrite X. unfold ctl10. lia.
Qed.

Lemma ok_same : forall v11 s, ~ In 0 s -> l_ok v11 s = u_ok v11 s.
Proof.
  intros v11 s Hz. unfold l_ok, u_ok. f_equal. induction s as [|c s IH]; [reflexivity|]. cbn [forallb].
  rewrite IH by (intros X; apply Hz; right; exact X).
  rewrite (forb_ctl v11 c) by (intros ->; apply Hz; left; reflexivity). reflexivity.
Qed.

(* text nodes (attr = false) and attribute values (attr = true): ARBITRARY 16-bit unit strings *)
Theorem fails_iff_unicode_fails : forall g attr s, lg_max_ok (lc_max g) = true -> lc_surfix g = true ->
  small s = true -> ~ In 0 s ->
  okres (lg_loop g attr s) = okres (payload (uw attr (lc_v11 g) s)).
Proof.
  intros g attr s Hm Hf Hs Hz.
  rewrite (legacy_ok_iff g Hm Hf attr (length s) s (le_n _) Hs Hz), (unicode_ok_iff attr (lc_v11 g) (length s) s (le_n _)).
  apply ok_same. exact Hz.
Qed.

(* without the surrogate repair the statement fails: a lone low surrogate is written *)
Theorem fails_iff_unicode_fails_refuted :
  okres (lg_loop (mklcfg 65535 false true false) false [97; 56832]) = true /\
  okres (payload (uw false false [97; 56832])) = false.
Proof. split; vm_compute; reflexivity. Qed.
