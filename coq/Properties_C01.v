(* Properties_C01.v — property theorems for C01 (transformation result = the tree XSLT 1.0 defines):
   the two mechanisms that make the composition of instructions work in Xalan-C, modelled as coded
   (XsltEventsDefs.v: pending-start-tag event machine of XSLTEngineImpl; XsltVarsDefs.v: VariablesStack
   and its call-site protocol). Nothing but statements closed by [exact] and their assumptions. *)
From Coq Require Import List NArith Bool.
Require Import XV.XsltEventsDefs XV.XsltEventsModel XV.XsltVarsDefs XV.XsltVarsModel XV.XsltFactsModel.
Require Import XV.XsltLoopDefs XV.XsltLoopModel.
Import ListNotations.

(* ---- (a) pending-start-tag machine ---- *)

(* For EVERY instruction-generated item tree (any nesting; attributes before, between and after
   children; attributes at top level; duplicates) the tree the formatter receives through
   startElement / addResultAttribute / flushPending / characters / comment / processingInstruction /
   endElement equals direct construction with the library's reading "any characters event closes the
   start tag". names_ok = element names are non-empty. *)
Theorem pending_machine_builds_tree : forall l, forallb names_ok l = true ->
  machine_tree (ops_of l) = Some (spec_tree false l).
Proof. exact pending_machine_builds_tree_thm. Qed.
Print Assumptions pending_machine_builds_tree.

(* The Recommendation's reading (7.6.1: an empty string creates no text node, so an attribute after it
   is still legal) is violated: copy-of / value-of select="." of an empty string flushes the start tag. *)
Theorem pending_machine_builds_tree_rec_refuted :
  forallb names_ok rec_witness = true /\
  option_map canon_list (machine_tree (ops_of rec_witness)) <> Some (canon_list (spec_tree true rec_witness)).
Proof. exact pending_machine_builds_tree_rec_refuted_thm. Qed.
Print Assumptions pending_machine_builds_tree_rec_refuted.

(* ... and holds with the exact guard: no empty characters event *)
Theorem pending_machine_builds_tree_rec_partial : forall l,
  forallb names_ok l = true -> forallb no_empty_text l = true ->
  option_map canon_list (machine_tree (ops_of l)) = Some (canon_list (spec_tree true l)).
Proof. exact pending_machine_builds_tree_rec_partial_thm. Qed.
Print Assumptions pending_machine_builds_tree_rec_partial.

(* the engine's addResultAttribute has no guard of its own: an attribute added with no element pending
   is attached to the NEXT element *)
Theorem raw_attribute_leaks_refuted :
  machine_tree raw_witness = Some [RElem [97%N] [] [RText [116%N]; RElem [98%N] [([108%N], [118%N])] []]].
Proof. exact raw_attribute_leaks_refuted_thm. Qed.
Print Assumptions raw_attribute_leaks_refuted.

(* with the guard of ElemAttribute / cloneToResultTree (every op sequence, ill-nested ones included):
   no element pending => the pending attribute list is empty *)
Theorem attribute_guard_keeps_pending_list_empty : forall ops,
  forallb no_raw ops = true -> inv (run_ops ops e_init).
Proof. exact guarded_ops_keep_inv_thm. Qed.
Print Assumptions attribute_guard_keeps_pending_list_empty.

(* text is never lost or reordered, for every op sequence *)
Theorem text_never_lost_or_reordered : forall ops, chars_of_sax (events_of ops) = chars_of_ops ops.
Proof. exact text_never_lost_or_reordered_thm. Qed.
Print Assumptions text_never_lost_or_reordered.

(* duplicate attribute names: the last value wins, the first position is kept *)
Theorem duplicate_attribute_last_wins : forall l,
  fold_left (fun a p => add_attr (fst p) (snd p) a) l [] = dedup_last_keep_pos l.
Proof. exact duplicate_attribute_last_wins_thm. Qed.
Print Assumptions duplicate_attribute_last_wins.

Theorem pending_attributes_delivered : forall n l, nonempty n = true ->
  events_of (IStart n :: map (fun p => IAttr (fst p) (snd p)) l ++ [IEnd n]) =
  [SaxStart n (dedup_last_keep_pos l); SaxEnd n].
Proof. exact pending_attributes_delivered_thm. Qed.
Print Assumptions pending_attributes_delivered.

(* non-vacuity: attribute after attribute, duplicate, late attribute after text and after a child
   element, attribute at top level, nesting, empty text *)
Example pending_machine_example :
  let a := [97%N] in let b := [98%N] in let k := [107%N] in let m := [109%N] in let v := [118%N] in let w := [119%N] in
  let items := [GAttr k v; GElem a [(k, v)] [GAttr m v; GAttr k w; GText w; GAttr m w; GElem b [] [GText []; GAttr k v]; GCopyAttr k v]; GComment v] in
  forallb names_ok items = true /\
  machine_tree (ops_of items) =
    Some [RElem a [(k, w); (m, v)] [RText w; RElem b [] [RText []]]; RComment v].
Proof. vm_compute. split; reflexivity. Qed.
Print Assumptions pending_machine_example.

(* ---- (b) variables stack ---- *)

(* For every finite execution tree (templates invoked by call-template / apply-templates with
   with-params, params with defaults, variables, blocks, for-each iterations, recursion) the binding
   every reference $n sees through findEntry over the stack driven by the library's push/pop protocol
   is the binding lexical scoping defines, and no InvalidStackContextException is raised.
   ok_root true = well-formed tree, no local shadows a local (XSLT 1.0 11.5), and the exact guard
   of finding K-C01-1: a reference not bound locally is not to a name passed by a with-param of the
   enclosing invocation. rs selects the variant of the end of a template instance: false = the tree with
   K-C01-1 (resetParams never called), true = params deactivated when the template's frame is popped;
   XsltVariantDefs.reset_variant says which one the current source has. *)
Theorem varstack_refines_lexical_env_partial : forall rs globals root,
  ok_root true root = true -> impl_run rs globals root = Some (spec_run globals root).
Proof. exact varstack_refines_lexical_env_partial_thm. Qed.
Print Assumptions varstack_refines_lexical_env_partial.

(* The repaired variant (params deactivated when a template instance ends), WITHOUT that guard: full lexical
   scoping. In particular a with-param the invoked template does not declare is invisible to it (XSLT 1.0
   11.6: pushParams pushes INACTIVE param entries, findEntry skips them unless asked by xsl:param), whatever
   top-level variable has the same name. *)
Theorem varstack_refines_lexical_env : forall globals root,
  ok_root false root = true -> impl_run true globals root = Some (spec_run globals root).
Proof. exact varstack_refines_lexical_env_thm. Qed.
Print Assumptions varstack_refines_lexical_env.

(* non-vacuity: the invoked template declares param 4 only; with-params 5 and 4 are passed; $5 (directly and in a
   nested block) sees the top-level 100, not the passed 7 - in both variants *)
Example undeclared_with_param_is_invisible :
  let w := (Tmpl 1 [] [Invoke [(5, 7); (4, 9)] [Tmpl 2 [(4, 1)] [Use 5; Use 4; Block 9 [Var 6 60; Use 5]]]; Use 5])%N in
  ok_root false w = true /\ ok_root true w = false /\
  impl_run true [(5, 100)]%N w = Some [(5, Some 100); (4, Some 9); (5, Some 100); (5, Some 100)]%N /\
  impl_run false [(5, 100)]%N w = Some [(5, Some 100); (4, Some 9); (5, Some 100); (5, Some 100)]%N.
Proof. vm_compute. repeat split; reflexivity. Qed.
Print Assumptions undeclared_with_param_is_invisible.

(* without the repair and without the guard: a with-param activated by the xsl:param of one template instance stays active
   for the template instances that follow under the same xsl:apply-templates (resetParams is never
   called), where it shadows the top-level variable of the same name *)
Theorem varstack_refines_lexical_env_refuted :
  ok_root false leak_witness = true /\
  impl_run false [(5, 100)]%N leak_witness <> Some (spec_run [(5, 100)]%N leak_witness).
Proof. exact varstack_refines_lexical_env_refuted_thm. Qed.
Print Assumptions varstack_refines_lexical_env_refuted.

Example leak_witness_behaves_lexically_once_repaired :
  impl_run true [(5, 100)]%N leak_witness = Some (spec_run [(5, 100)]%N leak_witness).
Proof. exact leak_witness_repaired. Qed.
Print Assumptions leak_witness_behaves_lexically_once_repaired.

(* m_currentStackFrameIndex equals the stack size after every sequence of stack operations *)
Theorem csfi_tracks_size : forall ops, tracks (fold_left (fun s o => rstep o s) ops vs_init).
Proof. exact csfi_tracks_size_thm. Qed.
Print Assumptions csfi_tracks_size.

(* non-vacuity: a called template does not see the caller's local (6 -> top-level 600), a for-each
   variable does not leak into the next iteration (5 -> top-level 100 before each re-declaration),
   params bind to with-param (5 -> 7, 4 -> 9) or default (3 -> 30), globals are visible everywhere *)
Example varstack_example :
  let w := (Tmpl 1 [(8, 80)] [Var 6 60; Use 6; Use 8; Block 9 [Use 5; Var 5 50; Use 5]; Block 9 [Use 5; Var 5 51; Use 5]; Use 5;
              Invoke [(5, 7); (4, 9)] [Tmpl 2 [(4, 1); (5, 2); (3, 30)] [Use 5; Use 4; Use 3; Use 6]]; Use 6])%N in
  ok_root true w = true /\
  impl_run false [(5, 100); (6, 600)]%N w =
    Some [(6, Some 60); (8, Some 80); (5, Some 100); (5, Some 50); (5, Some 100); (5, Some 51); (5, Some 100);
          (5, Some 7); (4, Some 9); (3, Some 30); (6, Some 600); (6, Some 60)]%N.
Proof. vm_compute. split; reflexivity. Qed.
Print Assumptions varstack_example.

(* ---- (c) the iterative interpreter loop ---- *)

(* ElemTemplateElement::execute with the default startElement / endElement / getInvoker /
   getNextChildElemToExecute protocol (and xsl:for-each handing out its first child again per node): for
   EVERY instruction tree the loop stops after exactly steps t iterations having started and ended the
   elements in the order of the structural recursion; more fuel changes nothing. *)
Theorem iterative_eq_recursive : forall t f, exec_iter (steps t + f) t = (Done, exec_rec t).
Proof. exact iterative_eq_recursive_thm. Qed.
Print Assumptions iterative_eq_recursive.

Example iterative_loop_example :
  let t := (Node 1 1 [Node 2 0 [Node 3 1 []]; Node 4 2 [Node 5 1 []; Node 6 1 [Node 7 1 []]]; Node 8 1 []])%N in
  steps t = 20 /\ fst (exec_iter 19 t) <> Done /\
  snd (exec_iter 20 t) = [Start 1; Start 2; End 2; Start 4; Start 5; End 5; Start 6; Start 7; End 7; End 6;
                          Start 5; End 5; Start 6; Start 7; End 7; End 6; End 4; Start 8; End 8; End 1]%N.
Proof. vm_compute. repeat split; try reflexivity. discriminate. Qed.
Print Assumptions iterative_loop_example.

(* ---- tie: the source still has the structure the two models were written for (GenXslt.v is
   regenerated from /repo on every run by translator/gen_xslt.py) ---- *)
Theorem source_facts_as_modelled : XV.XsltFactsModel.facts_as_modelled = true.
Proof. exact XV.XsltFactsModel.facts_as_modelled_true. Qed.
Print Assumptions source_facts_as_modelled.
