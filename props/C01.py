"""C01 - transformation result = the tree XSLT 1.0 defines for stylesheet and source.

proof  : coq/Properties_C01.v - the two mechanisms that make composition work, modelled as coded:
         (a) pending-start-tag event machine of XSLTEngineImpl (XsltEventsDefs/Model),
         (b) VariablesStack + call-site protocol refines lexical scoping (XsltVarsDefs/Model);
tie    : translator/gen_xslt.py -> coq/GenXslt.v (structural facts the models depend on) and two
         correspondences of the extracted models with the rebuilt library on generated programs:
         (a) the event script of every generated program, replayed by the extracted machine, predicts the
             result tree the library serializes; (b) the extracted variables stack, replaying the dynamic
             execution tree of marker programs, predicts the value every $x reference prints;
oracle : vlib/xsltref.py - a reference XSLT 1.0 interpreter written from the Recommendation (direct tree
         construction, lexical environments), compared with the re-parsed output of the library on
         grammar-generated error-free programs; disagreements outside known classes are shrunk and
         reported with the (stylesheet, document) as replay."""
import ast
import collections
import glob
import hashlib
import os

from vlib import core, xsltrun, xsltref, xsltgen

LEVEL = "proof"
FAMILY = "xslt"

# known-finding classes (props/C01.findings.txt): decided by the reference run (flags) or statically
FLAG_CLASS = {
    "initial_position": "K-C01-2",
    "global_position": "K-C01-2",
    "attr_after_empty_text": "K-C01-3",
    "ns_in_rtf": "K-C01-4",
    "global_rtf_built_in_text_only_context": "K-C01-5",
    "local_binding_read_inside_attribute_set": "K-C01-6",
    "ns_attr_copied_alone": "C14/KN9",   # recorded under property C14, not re-filed here
    "ns_attr_replaced": "C14/K17",      # recorded under property C14, not re-filed here
}
# classes of findings reported but possibly not yet listed in KNOWN_FINDINGS.txt: while unlisted (and unrepaired)
# their programs are left out of the streams (the class guard of the generators); once listed they are run and
# reported as KNOWN-FINDING like the others
PENDING = {"K-C01-6"}

# a class stops excusing a disagreement as soon as the source has the repair (facts of translator/gen_xslt.py),
# whether or not the finding is still listed
REPAIR_FACTS = {
    "initial_position": ("initial_template_has_root_node_list",),
    "global_position": ("lazy_global_has_own_node_list",),
    "attr_after_empty_text": ("copy_of_skips_empty_string", "value_of_dot_skips_empty_string"),
    "global_rtf_built_in_text_only_context": ("lazy_global_resets_copy_text_nodes_only",),
    "#with-param-name-equals-global-name": ("params_reset_when_template_frame_popped",),
    "local_binding_read_inside_attribute_set": ("attribute_set_hides_locals_by_context_marker",),
}
FOREIGN = {"C14/KN9": "KN9 (property C14): a copied attribute node in a namespace keeps its prefix and nothing declares it on the new parent",
           "C14/K17": "K17 (property C14): two attributes with the same expanded name in a namespace are not recognised as duplicates (replacement is decided on the qualified name string)"}


def corpus_dir():
    return os.path.join(core.VERIF, "corpus", "C01")


def passes_global_name(sheet):
    """class of K-C01-1: some with-param has the name of a top-level variable/param"""
    gl, wp = set(), set()

    def tops(sh):
        for imp in sh.get("imports", []):
            tops(imp)
        for t in sh["tops"]:
            if t[0] in ("variable", "param"):
                gl.add(t[1])
            elif t[0] == "include":
                tops(t[1])
            elif t[0] == "template":
                body(t[1].get("body", []))

    def body(b):
        for i in b:
            if i[0] == "apply":
                wp.update(n for n, _ in i[4])
                for _, vd in i[4]:
                    if vd[0] == "body":
                        body(vd[1])
            elif i[0] == "call":
                wp.update(n for n, _ in i[2])
                for _, vd in i[2]:
                    if vd[0] == "body":
                        body(vd[1])
            elif i[0] in ("lre", "for-each"):
                body(i[3])
            elif i[0] in ("element", "attribute", "pi", "if"):
                body(i[2])
            elif i[0] in ("comment", "copy"):
                body(i[1])
            elif i[0] == "choose":
                for _, b2 in i[1]:
                    body(b2)
                if i[2]:
                    body(i[2])
            elif i[0] == "variable" and i[2][0] == "body":
                body(i[2][1])
    tops(sheet)
    return bool(gl & wp)


def replay_text(kind, what, sheet, doc, extra=""):
    main, files = xsltgen.print_sheet(sheet)
    head = ["# C01 %s: %s" % (kind, what),
            "# replay: python3 check.py C01 --replay <this file>   (reference tree vs re-parsed library output)"]
    for l in main.split("\n"):
        head.append("#   " + l)
    for k, v in files.items():
        head.append("#   --- %s" % k)
        for l in v.split("\n"):
            head.append("#   " + l)
    head.append("#   --- source: " + xsltgen.doc_xml(doc).replace("\n", "&#10;"))
    if extra:
        for l in extra.split("\n"):
            head.append("#   " + l)
    return "\n".join(head) + "\n" + repr({"kind": kind, "sheet": sheet, "doc": doc}) + "\n"


def load_replay(path):
    lines = [l for l in open(path, encoding="utf-8") if l.startswith("{")]
    return ast.literal_eval(lines[-1].strip())


def tree_of_model(s):
    """canonical token string of ocaml/xslt_driver.ml -> the tree form of xsltref.freeze"""
    toks = s.split()
    pos = [0]

    def name(x):
        if "^" in x:
            u, l = x.split("^", 1)
            return (u, l)
        return ("", x)

    def nodes():
        out = []
        while pos[0] < len(toks):
            t = toks[pos[0]]
            if t == ")":
                pos[0] += 1
                return out
            pos[0] += 1
            if t.startswith("("):
                nm = name(t[1:])
                attrs = []
                while pos[0] < len(toks) and toks[pos[0]].startswith("@"):
                    a, _, h = toks[pos[0]][1:].partition("=")
                    an = name(a)
                    attrs.append((an[0], an[1], bytes.fromhex(h).decode("utf-8")))
                    pos[0] += 1
                ch = nodes()
                out.append(("e", nm, tuple(sorted(attrs)), tuple(ch)))
            elif t.startswith("t="):
                out.append(("t", bytes.fromhex(t[2:]).decode("utf-8")))
            elif t.startswith("c="):
                out.append(("c", xsltref.comment_recovery(bytes.fromhex(t[2:]).decode("utf-8"))))
            elif t.startswith("p="):
                tg, _, h = t[2:].partition(",")
                out.append(("p", tg, bytes.fromhex(h).decode("utf-8").lstrip(" \t\r\n")))
        return out
    return tuple(nodes())


def features(sheet):
    c = collections.Counter()

    def body(b, depth, ctxs):
        for i in b:
            k = i[0]
            c[k] += 1
            for outer in ctxs:
                c["%s>%s" % (outer, k)] += 1
            sub = []
            if k in ("lre", "for-each"):
                sub = [i[3]]
                if k == "for-each" and i[2]:
                    c["sort-in-for-each"] += 1
            elif k in ("element", "attribute", "pi", "if"):
                sub = [i[2]]
            elif k in ("comment", "copy"):
                sub = [i[1]]
            elif k == "choose":
                sub = [b2 for _, b2 in i[1]] + ([i[2]] if i[2] else [])
            elif k == "variable" and i[2][0] == "body":
                sub = [i[2][1]]
                c["rtf-variable"] += 1
            elif k == "apply":
                if i[3]:
                    c["sort-in-apply"] += 1
                if i[4]:
                    c["apply-with-param"] += 1
                if i[2]:
                    c["apply-mode"] += 1
                sub = [vd[1] for _, vd in i[4] if vd[0] == "body"]
            elif k == "call":
                sub = [vd[1] for _, vd in i[2] if vd[0] == "body"]
            for s in sub:
                body(s, depth + 1, (ctxs + [k])[-2:])

    def tops(sh):
        for imp in sh.get("imports", []):
            c["import"] += 1
            tops(imp)
        for t in sh["tops"]:
            if t[0] == "include":
                c["include"] += 1
                tops(t[1])
            elif t[0] == "template":
                c["template"] += 1
                if t[1].get("params"):
                    c["template-params"] += 1
                body(t[1].get("body", []), 0, [])
            else:
                c["top-" + t[0]] += 1
    tops(sheet)
    return c


class Runner:
    def __init__(self, ctx, model):
        self.ctx, self.model = ctx, model
        self.facts = {}
        self.listed = set(k["key"] for k in ctx.known.for_property("C01"))
        self.foreign_listed = set("%s/%s" % (f["property"], f["key"]) for f in ctx.known.findings)
        self.seen = set()
        self.corr_ev, self.corr_vs, self.oracle = [], [], []
        self.known_hits = collections.Counter()
        self.n_ev = self.n_vs = 0

    def prepare(self, cid, kind, sheet, doc, expect=None):
        """reference run; returns the case dict or None when the reference rejects the program"""
        ctx = self.ctx
        try:
            if kind == "vars":
                tree, flags, it = xsltref.run(sheet, doc, vtrace=True)
                trace = None
            else:
                trace = []
                tree, flags = xsltref.run(sheet, doc, trace=trace)
                it = None
        except xsltref.XsltError as e:
            ctx.count("generator:rejected-by-reference(%s)" % str(e)[:24])
            return None
        except RecursionError:
            ctx.count("generator:too-deep")
            return None
        main, files = xsltgen.print_sheet(sheet)
        return {"id": cid, "kind": kind, "sheet_ast": sheet, "doc": doc, "sheet": main, "files": files,
                "source": xsltgen.doc_xml(doc), "tree": tree, "flags": flags, "trace": trace, "it": it, "expect": expect}

    def repaired(self, flag):
        fs = REPAIR_FACTS.get(flag)
        return bool(fs) and all(self.facts.get(f) for f in fs)

    def left_out(self, c):
        for f, k in FLAG_CLASS.items():
            if c["flags"].get(f) and k in PENDING and k not in self.listed and not self.repaired(f):
                return k
        return None

    def known_classes(self, c):
        """classes of LISTED known findings the program falls in (a class whose finding has been repaired and
        removed from the list no longer excuses a disagreement)"""
        ks = [FLAG_CLASS[f] for f in FLAG_CLASS if c["flags"].get(f) and not self.repaired(f)]
        if passes_global_name(c["sheet_ast"]) and not self.repaired("#with-param-name-equals-global-name"):
            ks.append("K-C01-1")
        return [k for k in ks if k in self.listed or (k in FOREIGN and k in self.foreign_listed)]

    def evaluate(self, cases):
        ctx = self.ctx
        res = xsltrun.run([{k: c[k] for k in ("id", "sheet", "source", "files")} for c in cases])
        # a crash takes the rest of its chunk with it: re-run the cases without a result one per process
        lost = [c for c in cases if res.get(c["id"], ("crash",))[0] == "crash"]
        if lost:
            from concurrent.futures import ThreadPoolExecutor
            ctx.count("library:cases-lost-to-a-crashed-chunk", len(lost))

            def one(c):
                return c["id"], xsltrun.run([{k: c[k] for k in ("id", "sheet", "source", "files")}], timeout=60).get(c["id"], ("crash",))
            with ThreadPoolExecutor(core.NPROC) as ex:
                for cid, r in ex.map(one, lost[:400]):
                    res[cid] = r
            for c in lost[400:]:
                res[c["id"]] = ("lost",)
        # model side
        lines, vsinfo = [], {}
        for c in cases:
            if c["kind"] == "vars":
                toks, names = xsltgen.vs_tokens(c["it"], c["sheet_ast"])
                lines.append("%s vs %s" % (c["id"], toks))
            else:
                lines.append("%s ev %s" % (c["id"], " ".join(c["trace"])))
        mres = {}
        if self.model:
            rc, mres, raw = core.run_lines_parallel(self.model, lines)
        for c in cases:
            ctx.cov["evaluations"] += 1
            for k, v in features(c["sheet_ast"]).items():
                if ">" in k or k in ("sort-in-apply", "sort-in-for-each", "rtf-variable", "apply-with-param", "import", "include"):
                    ctx.count("feature:" + k, 1)
            for f in c["flags"]:
                if f != "#stats":
                    ctx.count("recovered:" + f)
            for f in c["flags"].get("#stats", {}):
                ctx.count("executed:" + f)
            o = res.get(c["id"], ("crash",))
            if o[0] == "lost":
                ctx.count("library:not-re-run-after-crash")
                continue
            known = self.known_classes(c)
            got = None
            if o[0] == "ok":
                try:
                    got = xsltref.parse_output(o[1])
                except Exception as e:     # ill-formed output
                    got = ("unparsable", str(e))
            # ---- oracle ----
            fail = None
            if o[0] != "ok":
                fail = "the library fails on an error-free program: %s" % (o[1:],)
            elif got != c["tree"]:
                fail = "result tree differs from the tree XSLT 1.0 defines"
            if fail:
                rec = {"case": c, "what": fail, "lib": o, "got": got, "known": known}
                if known:
                    for k in known:
                        self.known_hits[k] += 1
                    ctx.count("oracle:known-class")
                else:
                    self.oracle.append(rec)
                    ctx.count("oracle:FAIL")
            else:
                ctx.count("oracle:agree")
                h = hashlib.sha1(repr(c["tree"]).encode()).hexdigest()
                if any(n[0] == "e" for n in c["tree"]):
                    self.seen.add(h)
            # ---- correspondences (model vs library) ----
            m = mres.get(c["id"])
            if m is None or got is None:
                continue
            if got[:1] == ("unparsable",):
                # ill-formed output where the model predicts a tree
                if not set(known) - {"K-C01-3"}:
                    (self.corr_vs if c["kind"] == "vars" else self.corr_ev).append(
                        {"id": c["id"], "model": m[:200], "library": "ill-formed output: %s" % (got[1],), "case": c})
                continue
            if c["kind"] == "vars":
                f = m.split()
                if not f or f[0] not in ("0", "1") or (len(f) > 1 and f[1] == "EXC"):
                    self.corr_vs.append({"id": c["id"], "model": m[:200], "why": "model raised / malformed", "case": c})
                    continue
                obs = [None if x.split("=")[1] == "-" else int(x.split("=")[1]) for x in f[1:]]
                exp = xsltgen.vs_expected_markers(c["it"], obs)
                lib = xsltgen.markers_of_output(got)
                self.n_vs += 1
                ctx.cov["traces_validated_against_impl"] += 1
                ctx.count("vs:ok_root=" + f[0])
                if exp != lib and "K-C01-1" not in known:
                    self.corr_vs.append({"id": c["id"], "model": exp[:12], "library": lib[:12], "case": c})
            else:
                if m.startswith("ERR") or m == "ILL-NESTED":
                    self.corr_ev.append({"id": c["id"], "model": m[:200], "case": c})
                    continue
                if set(known) - {"K-C01-3"}:
                    # the event script comes from the reference run: where the library is known to deviate for
                    # reasons outside the event machine the script is not the one the library executed
                    continue
                pred = tree_of_model(m)
                self.n_ev += 1
                ctx.cov["traces_validated_against_impl"] += 1
                if pred != got:
                    self.corr_ev.append({"id": c["id"], "model": xsltref.show(pred)[:300].replace("\n", " | "),
                                         "library": xsltref.show(got)[:300].replace("\n", " | "), "case": c})
                elif c["flags"].get("attr_after_empty_text"):
                    ctx.count("ev:model-follows-library-on-empty-text")

    def still_fails(self, kind):
        def fails(sheet, doc):
            c = self.prepare("s", kind, sheet, doc)
            if c is None or self.known_classes(c):
                return False
            o = xsltrun.run([{k: c[k] for k in ("id", "sheet", "source", "files")}], timeout=60).get("s", ("crash",))
            if o[0] != "ok":
                return True
            try:
                return xsltref.parse_output(o[1]) != c["tree"]
            except Exception:
                return True
        return fails


def corpus_cases(runner):
    out = []
    for p in sorted(glob.glob(os.path.join(corpus_dir(), "*.txt"))):
        try:
            d = load_replay(p)
        except Exception:
            continue
        c = runner.prepare("corpus_" + os.path.basename(p)[:-4], d.get("kind", "main"), d["sheet"], d["doc"], expect=d.get("expect"))
        if c and runner.left_out(c):
            runner.ctx.count("corpus:left-out(class %s reported, not listed yet)" % runner.left_out(c))
        elif c:
            out.append(c)
    return out


def run(ctx):
    ctx.assumptions += [
        "language: the core instruction set of vlib/xsltgen.py (template rules with match/name/mode/priority + built-in rules, apply-templates with select/mode/sort/with-param, call-template, for-each, value-of, copy, copy-of, element, attribute, text, comment, processing-instruction, if, choose, variable/param/with-param incl. result tree fragments, literal result elements with AVTs, xsl:number value=, key(), import/include precedence, attribute sets); strip-space, namespace-alias, exclude-result-prefixes beyond the fixed header, document(), xsl:output, messages, format-number, apply-imports are not generated (strip-space: C13, namespaces: C14, keys: C15, sort: C16, number: C17, serialization: C04/C08)",
        "result trees are compared on expanded names, attributes, text, comments, PIs in order; namespace nodes not used by a name are not compared (C14); text sort keys are restricted to element names and numeric keys to NaN-free counts (collation and NaN order are implementation-defined)",
        "recoverable errors for which XSLT 1.0 names the recovery (attribute after children / outside an element: ignored) are generated and must be recovered that way, since the library does not signal them",
        "the Coq models cover the two mechanisms, not the whole interpreter: XPath evaluation (C02/C11), pattern matching (C09), conflict resolution (C10) enter the oracle through vlib/xpref.py and vlib/xsltref.py only",
        "mechanism (b): lazy evaluation of top-level variables and param defaults with bodies are outside the model; marker programs use literal defaults",
    ]
    ctx.notes["rule"] = "distinct/non-trivial = distinct result trees (sha1 of the canonical tree) containing at least one element, among programs on which library and reference agree"
    ok_lib, liblog = core.build_lib("plain")
    if not ok_lib:
        ctx.broken.append("library does not build from the working tree: " + liblog[-500:])
        return ctx.finish(LEVEL)
    proved = ctx.prove(["Properties_C01.v"], ["GenXslt"])
    model, ok_m, mlog = core.build_model(FAMILY)
    if not ok_m:
        ctx.broken.append("model extraction/build failed: " + mlog[-500:])
        model = None
    exe, ok_h, hlog = xsltrun.build()
    if not ok_h:
        ctx.broken.append("xslt driver does not compile against the working tree: " + hlog[-500:])
        return ctx.finish(LEVEL)
    known = {k["key"]: k for k in ctx.known.for_property("C01")}
    # instruction-layer facts that shape the event script given to the extracted machine
    facts = {}
    try:
        import sys
        sys.path.insert(0, os.path.join(core.VERIF, "translator"))
        import srcfacts
        facts = srcfacts.GENERATORS["GenXslt"]()[1]
        xsltref.EMIT["copy-of"] = not facts["copy_of_skips_empty_string"]
        xsltref.EMIT["value-of-dot"] = not facts["value_of_dot_skips_empty_string"]
        ctx.notes["source_variant"] = {k: facts[k] for k in (
            "copy_of_skips_empty_string", "value_of_dot_skips_empty_string", "params_reset_when_template_frame_popped",
            "initial_template_has_root_node_list", "lazy_global_has_own_node_list", "lazy_global_resets_copy_text_nodes_only")}
    except Exception as e:     # AnchorError is already reported by ctx.prove
        ctx.notes["source_variant"] = "unavailable: %s" % e
    runner = Runner(ctx, model)
    runner.facts = facts
    # classes whose finding is repaired in the source or no longer listed are generated on purpose
    xsltgen.OPEN_CLASSES = set()
    if runner.repaired("#with-param-name-equals-global-name") or "K-C01-1" not in runner.listed:
        xsltgen.OPEN_CLASSES.add("K-C01-1")
    if runner.repaired("initial_position") or "K-C01-2" not in runner.listed:
        xsltgen.OPEN_CLASSES.add("K-C01-2a")
    if runner.repaired("global_position") or "K-C01-2" not in runner.listed:
        xsltgen.OPEN_CLASSES.add("K-C01-2b")
    ctx.notes["opened_classes"] = sorted(xsltgen.OPEN_CLASSES)

    cases = corpus_cases(runner)
    expect = {c["id"]: c["expect"] for c in cases if c["expect"]}

    def generate(n_main, n_vars, tag):
        out = []
        for i in range(n_main):
            sheet, doc = xsltgen.gen_case(ctx.rng)
            c = runner.prepare("%sm%d" % (tag, i), "main", sheet, doc)
            if c and runner.left_out(c):
                ctx.count("generator:left-out(class %s reported, not listed yet)" % runner.left_out(c))
            elif c:
                out.append(c)
        for i in range(n_vars):
            sheet, doc = xsltgen.gen_vars_case(ctx.rng)
            c = runner.prepare("%sv%d" % (tag, i), "vars", sheet, doc)
            if c:
                out.append(c)
        return out

    n_main, n_vars = (10000, 3000) if not ctx.thorough else (80000, 20000)
    cases += generate(n_main, n_vars, "g")
    ctx.cov["samples"] = [c["sheet"][:600] for c in cases[:2] + cases[len(cases) // 2: len(cases) // 2 + 2] + cases[-2:]]
    runner.evaluate(cases)
    if (runner.corr_ev or runner.corr_vs or not proved or not model) and not runner.oracle and not ctx.thorough:
        ctx.escalated = True
        runner.evaluate(generate(12000, 4000, "w"))
    ctx.cov["distinct_nontrivial"] = len(runner.seen)
    ctx.notes["correspondence"] = {"event_machine_cases": runner.n_ev, "variables_stack_cases": runner.n_vs,
                                   "event_mismatches": len(runner.corr_ev), "variables_mismatches": len(runner.corr_vs)}
    # known findings: stored replays must still show their class (a note, not a verdict) and class hits are reported
    for k in sorted(runner.known_hits):
        if k in FOREIGN:
            ctx.known_finding("%s (%d programs in the class disagree)" % (FOREIGN[k], runner.known_hits[k]))
        elif k in known:
            ctx.known_finding("%s %s (%d generated/corpus programs in the class disagree)" % (k, known[k]["what"], runner.known_hits[k]))
        else:
            ctx.broken.append("class %s is not a listed known finding" % k)
    ctx.notes["known_class_hits"] = dict(runner.known_hits)
    ctx.notes["corpus_expectations"] = expect
    if runner.corr_ev:
        m = runner.corr_ev[0]
        ctx.broken.append("correspondence events: %d of %d programs: tree predicted by the extracted pending machine differs from the library's, e.g. %s: model %s / library %s" % (
            len(runner.corr_ev), runner.n_ev, m["id"], m.get("model"), m.get("library")))
    if runner.corr_vs:
        m = runner.corr_vs[0]
        ctx.broken.append("correspondence variables: %d of %d marker programs: values predicted by the extracted VariablesStack differ from the library's, e.g. %s: model %s / library %s" % (
            len(runner.corr_vs), runner.n_vs, m["id"], m.get("model"), m.get("library")))
    # oracle failures: shrink the smallest few and report
    new = sorted(runner.oracle, key=lambda o: len(o["case"]["sheet"]))
    for o in new[:3]:
        c = o["case"]
        sheet, doc = c["sheet_ast"], c["doc"]
        try:
            sheet, doc = xsltgen.shrink(sheet, doc, runner.still_fails(c["kind"]), max_steps=250 if not ctx.thorough else 600)
        except Exception:
            pass
        c2 = runner.prepare("r", c["kind"], sheet, doc) or c
        o2 = xsltrun.run([{k: c2[k] for k in ("id", "sheet", "source", "files")}]).get(c2["id"], ("crash",))
        extra = "library: %s\nreference tree:\n%s" % (
            (o2[1][:600].decode("utf-8", "replace") if o2[0] == "ok" else str(o2[1:])), xsltref.show(c2["tree"])[:800])
        ctx.violation("oracle", replay_text(c2["kind"], o["what"], c2["sheet_ast"], c2["doc"], extra))
    # correspondence mismatches with no oracle failure: keep one replay each for the report
    if not new:
        for lst, tag in ((runner.corr_ev, "events"), (runner.corr_vs, "variables")):
            if lst:
                c = lst[0]["case"]
                ctx.violation("correspondence_" + tag, replay_text(c["kind"], "model/library correspondence mismatch (%s); model %s ; library %s" % (
                    tag, lst[0].get("model"), lst[0].get("library")), c["sheet_ast"], c["doc"]), nofail=True)
    ctx.notes["oracle_failures"] = len(new)
    # the whole-interpreter refinement for the core language (props/C01core.py: explicit-stack machine = reference
    # semantics, extracted machine vs the library on generated programs) runs as part of this check
    if os.path.exists(os.path.join(core.VERIF, "props", "C01core.py")):
        import importlib
        importlib.import_module("props.C01core").run_part(ctx)
    # regression cases over several stylesheet modules (props/C01_regress.py)
    importlib.import_module("props.C01_regress").run_part(ctx)
    # part 2 of it (props/C01core2.py): the language extended by xsl:element / xsl:comment / xsl:processing-instruction
    if os.path.exists(os.path.join(core.VERIF, "props", "C01core2.py")):
        import importlib
        importlib.import_module("props.C01core2").run_part(ctx)
    # part cover (props/C01cover.py): generator + reference for the items of the instruction list the streams above lack
    if os.path.exists(os.path.join(core.VERIF, "props", "C01cover.py")):
        import importlib
        importlib.import_module("props.C01cover").run_part(ctx)
    return ctx.finish(LEVEL, explanation="unbounded theorems over Gallina models of the pending-start-tag event machine and of the VariablesStack (lexical scoping refinement) + structural facts regenerated from the source + two correspondences of the extracted models with the rebuilt library + a reference XSLT 1.0 interpreter as oracle on generated programs")


def replay(ctx, path):
    core.build_lib("plain")
    d = load_replay(path)
    runner = Runner(ctx, None)
    try:
        import sys
        sys.path.insert(0, os.path.join(core.VERIF, "translator"))
        import srcfacts
        runner.facts = srcfacts.GENERATORS["GenXslt"]()[1]
        xsltref.EMIT["copy-of"] = not runner.facts["copy_of_skips_empty_string"]
        xsltref.EMIT["value-of-dot"] = not runner.facts["value_of_dot_skips_empty_string"]
    except Exception:
        pass
    c = runner.prepare("replay", d.get("kind", "main"), d["sheet"], d["doc"])
    if c is None:
        print("the reference rejects the program")
        return 2
    o = xsltrun.run([{k: c[k] for k in ("id", "sheet", "source", "files")}])["replay"]
    print("library:", o[1].decode("utf-8", "replace") if o[0] == "ok" else o)
    print("reference tree:")
    print(xsltref.show(c["tree"]))
    print("recovered/flags:", c["flags"], "known classes:", runner.known_classes(c))
    if o[0] != "ok":
        return 1
    try:
        got = xsltref.parse_output(o[1])
    except Exception as e:
        print("output is not well-formed:", e)
        return 1
    print("AGREE" if got == c["tree"] else "DIFFER")
    return 0 if got == c["tree"] else 1
