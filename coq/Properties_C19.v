(* Properties_C19.v — C19 "pluggable memory manager: balanced use, allocation failure is survivable":
   theorems about the allocation-ledger model (MemDefs.v) of XalanVector, XalanList and ArenaAllocator, for the
   code with the repairs of K8 (no allocation inside destructors), K23 and K-new-4.  The two allocation-failure sites of
   K-new-1 (ArenaAllocator::allocateBlock) and K-new-2 (XalanMap::doCreateEntry, XalanMap copy constructor) are
   parameters of the model: a boolean per site says whether the new block is released when the list node for it is
   refused.  The theorems are stated for both values where they hold for both, `..._safe` is the full guarantee for the
   repaired shape, `..._refuted` / `..._partial` are about the shape as found, and `..._this_tree` is the statement at
   the values GenMem.v (regenerated from /repo on every run) gives these booleans.
   The heap is the manager's table: [live] = outstanding blocks with the manager that handed them out,
   [bad] = a deallocate of a block not outstanding in that manager happened (foreign or double free),
   [fuse] = failure injection (Some k: the allocation after k successful ones is refused, once). *)
From Coq Require Import List Arith Bool Lia Permutation.
Require Import XV.GenCont XV.GenMem XV.MemDefs XV.MemModel XV.MemListModel XV.MemArenaModel XV.MemMapDefs XV.MemMapModel XV.MemMapLedger.
Import ListNotations.

(* the shapes of the source that the model follows (regenerated from /repo on every run) *)
Theorem source_shape :
  vec_dtor_deallocates = true /\ vec_swap_swaps_manager = true /\ vec_grow_copy_then_swap = true /\
  vec_reserve_copy_then_swap = true /\ list_dtor_guarded = true /\ list_dtor_frees_all = true /\
  list_head_lazy = true /\ list_swap_swaps_manager = true /\ list_erase_recycles = true /\
  arena_dtor_resets = true /\ arena_create_then_push = true /\ arenablock_dtor_all_objects = true /\
  arenablock_dtor_frees_storage = true /\ map_dtor_guard_buckets = true /\ map_dtor_frees_values = true /\
  map_clear_recycles = true /\ map_value_before_node = true /\
  list_empty_nonallocating = true /\ list_clear_guarded = true /\ list_fresh_node_terminated = true /\
  arena_reset_guarded = true /\ map_bucket_push_guarded = true.
Proof. repeat split; reflexivity. Qed.
Print Assumptions source_shape.

(* ---------------- XalanVector (two vectors on two managers; swap, operator=, growth, reserve, ...) *)

(* every history of operations, with or without an injected allocation failure anywhere, followed by the
   destructors: nothing outstanding, no foreign free, no double free *)
Theorem vec_ledger_balanced : forall (ops : list vop) (f : option nat) w h,
  run _ _ vstep ops vworld0 (heap0 f) = (w, h) ->
  live (vdestroy w h) = [] /\ bad (vdestroy w h) = false.
Proof. exact vec_ledger_balanced_lemma. Qed.
Print Assumptions vec_ledger_balanced.

(* strong guarantee: an operation in which the manager refuses leaves both vectors and the manager's
   table exactly as they were, in every reachable state *)
Theorem vec_alloc_failure_safe : forall (ops : list vop) (f : option nat) w h op h1 w1,
  run _ _ vstep ops vworld0 (heap0 f) = (w, h) ->
  vstep op w h = (h1, w1, false) ->
  w1 = w /\ live h1 = live h /\ bad h1 = false /\
  live (vdestroy w1 h1) = [] /\ bad (vdestroy w1 h1) = false.
Proof.
  intros ops f w h op h1 w1 R S.
  assert (V : vinv w h) by (eapply vrun_inv; [apply vinv0 | exact R]).
  destruct (vstep_inv _ _ _ _ _ _ V S) as [V1 T]. destruct (T eq_refl) as [E L].
  split; auto. split; auto. split; [apply V1|]. apply vdestroy_spec. exact V1.
Qed.
Print Assumptions vec_alloc_failure_safe.

Theorem vec_dtor_never_allocates : forall w h,
  next (vdestroy w h) = next h /\ fuse (vdestroy w h) = fuse h.
Proof. exact vdestroy_no_alloc. Qed.
Print Assumptions vec_dtor_never_allocates.

(* ... where every call of allocate, successful or refused, shows in (next, fuse) *)
Theorem alloc_is_visible : forall m t c h h1 r, alloc m t c h = (h1, r) -> next h1 <> next h \/ fuse h1 <> fuse h.
Proof. exact alloc_visible. Qed.
Print Assumptions alloc_is_visible.

(* the "reserve before create" idiom of XalanTransformer: after reserve(n) succeeded, pushing up to n
   elements never calls the manager (so it cannot fail): the heap, log included, is unchanged *)
Theorem reserve_then_push_safe : forall tag v n h h1 v1 j,
  vwf v -> linv (vowned v) h -> vec_reserve tag v n h = (h1, v1, true) -> vsize v + j <= n ->
  push_n tag j v1 h1 = (h1, vset_size v1 (vsize v + j), true).
Proof. exact reserve_then_push_lemma. Qed.
Print Assumptions reserve_then_push_safe.

(* the hypotheses are satisfiable and failure does happen in the model *)
Example vec_reserve_example :
  vec_reserve TAG_INT (vempty 0) 4 (heap0 None) =
  (mkheap 1 [(0, 0)] None false [EAlloc 0 TAG_INT 4 0], mkvec 0 0 4 (Some 0), true).
Proof. reflexivity. Qed.
Example vec_failure_example :
  let '(w, h) := run _ _ vstep [VPush false; VPush false] vworld0 (heap0 (Some 1)) in
  vsize (fst w) = 1 /\ vcap (fst w) = 1 /\ log h = [EThrow; EAlloc 0 TAG_INT 1 0].
Proof. vm_compute. auto. Qed.

(* ---------------- XalanList (two lists; lazy sentinel, free list, swap) *)

Theorem list_ledger_balanced : forall (ops : list lop) (f : option nat) w h h1 ok,
  run _ _ lstep ops lworld0 (heap0 f) = (w, h) -> ldestroy w h = (h1, ok) ->
  ok = true /\ live h1 = [] /\ bad h1 = false.
Proof.
  intros ops f w h h1 ok R D.
  assert (V : linv2 w h) by (eapply lrun_inv; [apply linv20 | exact R]).
  destruct (ldestroy_spec _ _ _ _ V D) as [A [B [C _]]]. auto.
Qed.
Print Assumptions list_ledger_balanced.

(* basic guarantee: an operation in which the manager refuses changes nothing but, possibly, the lazily
   allocated sentinel; the lists stay destructible and destruction balances the ledger *)
Theorem list_alloc_failure_safe : forall (ops : list lop) (f : option nat) w h op h1 w1 h2 ok,
  run _ _ lstep ops lworld0 (heap0 f) = (w, h) ->
  lstep op w h = (h1, w1, false) -> ldestroy w1 h1 = (h2, ok) ->
  only_heads w w1 /\ bad h1 = false /\ ok = true /\ live h2 = [] /\ bad h2 = false.
Proof.
  intros ops f w h op h1 w1 h2 ok R S D.
  assert (V : linv2 w h) by (eapply lrun_inv; [apply linv20 | exact R]).
  destruct (lstep_inv _ _ _ _ _ _ V S) as [V1 T].
  destruct (ldestroy_spec _ _ _ _ V1 D) as [A [B [C _]]].
  split; [apply T; reflexivity|]. split; [apply V1|]. auto.
Qed.
Print Assumptions list_alloc_failure_safe.

(* ~XalanList is guarded by "if (m_listHead != 0)": it never calls the manager's allocate *)
Theorem list_dtor_never_allocates : forall (ops : list lop) (f : option nat) w h h1 ok,
  run _ _ lstep ops lworld0 (heap0 f) = (w, h) -> ldestroy w h = (h1, ok) ->
  next h1 = next h /\ fuse h1 = fuse h.
Proof.
  intros ops f w h h1 ok R D.
  assert (V : linv2 w h) by (eapply lrun_inv; [apply linv20 | exact R]).
  destruct (ldestroy_spec _ _ _ _ V D) as [_ [_ [_ X]]]. exact X.
Qed.
Print Assumptions list_dtor_never_allocates.

(* empty() / size() / clear() on a fresh list do not create the head node any more (they did before the K8 repair) *)
Example list_empty_does_not_allocate :
  lstep (LEmpty false) lworld0 (heap0 None) = (heap0 None, lworld0, true) /\
  lstep (LClear false) lworld0 (heap0 None) = (heap0 None, lworld0, true).
Proof. split; reflexivity. Qed.

(* ---------------- ArenaAllocator<Obj, ArenaBlock<Obj>> ; [g]: allocateBlock() destroys the new block when the block
   list refuses the node for it (K-new-1 repaired) *)

(* without a refusal: every history followed by the destructor is balanced, for both shapes *)
Theorem arena_ledger_balanced : forall (g : bool) (ops : list aop) (bs : nat) a h h1 a1 ok,
  run _ _ (astep g) ops (arena0 0 bs) (heap0 None) = (a, h) -> arena_dtor a h = (h1, a1, ok) ->
  ok = true /\ live h1 = [] /\ bad h1 = false.
Proof.
  intros g ops bs a h h1 a1 ok R D.
  destruct (arun_inv _ _ _ _ _ _ (ainv0 0 bs None) R) as [V [FZ _]].
  destruct (FZ eq_refl) as [LK F1]. cbn in LK.
  destruct (arena_dtor_spec _ _ _ _ _ V D) as [OK [P [B _]]]. rewrite LK in P.
  split; auto. split; auto. apply Permutation_nil. apply Permutation_sym. exact P.
Qed.
Print Assumptions arena_ledger_balanced.

(* alloc_failure_safe, the FULL statement, for the repaired allocateBlock(): every history of operations with the
   refusal of any single allocation anywhere in it (f = Some k, any k; or none), then the destructor: no foreign or
   double free ever; a refused operation leaves the objects of the arena exactly as they were (strong guarantee on the
   logical contents); the destructor completes and NOTHING is outstanding afterwards - every block obtained from the
   manager was either still owned by the allocator (and released by ~ArenaAllocator) or returned on the failure path *)
Theorem arena_alloc_failure_safe : forall (ops : list aop) (f : option nat) (bs : nat) a h,
  run _ _ (astep true) ops (arena0 0 bs) (heap0 f) = (a, h) ->
  bad h = false /\
  (forall op h1 a1, astep true op a h = (h1, a1, false) -> aobjs a1 = aobjs a /\ bad h1 = false) /\
  (forall h1 a1 ok, arena_dtor a h = (h1, a1, ok) -> ok = true /\ live h1 = [] /\ bad h1 = false).
Proof. exact arena_safe_guarded. Qed.
Print Assumptions arena_alloc_failure_safe.

(* the refusals the theorem talks about do happen, and in the places that used to lose the block: growing past the first
   block (block size 2, third object) with the list node refused - the new block's storage and struct go back *)
Example arena_refusal_repaired :
  (let '(t, a, h) := run_trace _ _ (astep true) aobs [ANew 8; ANew 8; ANew 8] (arena0 0 2) (heap0 (Some 8)) in
   map (fun s => fst (fst s)) t = [true; true; false] /\ aobs a = [2] /\
   rev (log h) = [EAlloc 0 TAG_ABLK 1 6; EAlloc 0 TAG_ASTORE 2 7; EThrow; EFree 0 7; EFree 0 6]) /\
  map (fun k => r_outstanding (arena_case_g true (Some k) 2 [ANew 8; ANew 8; ANew 8])) (seq 0 14) = repeat 0 14.
Proof. split; vm_compute; auto. Qed.

(* the same statement for allocateBlock() as found - m_blocks.push_back(ArenaBlockType::create(...)) - is REFUTED
   (K-new-1): when the head node or the list node cannot be allocated the freshly created block (its struct and its
   storage) is lost *)
Theorem arena_alloc_failure_safe_refuted :
  (exists f bs ops, r_dtor_ok (arena_case_g false f bs ops) = true /\ r_outstanding (arena_case_g false f bs ops) = 2 /\
                    r_bad (arena_case_g false f bs ops) = false) /\
  r_outstanding (arena_case_g false (Some 2) 2 [ANew 8]) = 2 /\
  r_outstanding (arena_case_g false (Some 8) 2 [ANew 8; ANew 8; ANew 8]) = 2.
Proof. split; [exists (Some 3), 2, [ANew 8]|]; vm_compute; auto. Qed.
Print Assumptions arena_alloc_failure_safe_refuted.

(* what does hold for both shapes with refusals anywhere: no foreign / double free ever; every step leaks nothing or
   exactly the two blocks of one ArenaBlock, and only a refused step can leak; a refused step leaves the objects as they
   were; the destructor always completes and what is then outstanding is exactly the leaked blocks *)
Theorem arena_alloc_failure_safe_partial : forall (g : bool) (ops : list aop) (f : option nat) (bs : nat) a h,
  run _ _ (astep g) ops (arena0 0 bs) (heap0 f) = (a, h) ->
  bad h = false /\
  (forall op h1 a1 ok, astep g op a h = (h1, a1, ok) ->
     bad h1 = false /\ leak_step a a1 /\ (ok = true -> aleak a1 = aleak a) /\ (ok = false -> aobjs a1 = aobjs a)) /\
  (forall h1 a1 ok, arena_dtor a h = (h1, a1, ok) -> ok = true /\ Permutation (live h1) (aleak a) /\ bad h1 = false).
Proof.
  intros g ops f bs a h R.
  destruct (arun_inv _ _ _ _ _ _ (ainv0 0 bs f) R) as [V _].
  split; [apply V|]. split.
  - intros op h1 a1 ok S. destruct (astep_inv _ _ _ _ _ _ _ V S) as [V1 [_ [LS [OK [_ [_ NB]]]]]].
    split; [apply V1|]. auto.
  - intros h1 a1 ok D. destruct (arena_dtor_spec _ _ _ _ _ V D) as [OK [P [B _]]]. auto.
Qed.
Print Assumptions arena_alloc_failure_safe_partial.

(* the statement at the shape of allocateBlock() in this tree (GenMem.arena_block_guarded): the full guarantee when the
   translator found the repaired shape, the partial one when it found the shape of K-new-1 *)
Theorem arena_alloc_failure_safe_this_tree : arena_safe_at arena_block_guarded.
Proof. exact (arena_safe_any arena_block_guarded). Qed.
Print Assumptions arena_alloc_failure_safe_this_tree.

(* dtor_never_allocates, a full theorem for both shapes (it was refuted before the K8 repair: reset() called begin() on
   a block list that was never used): in every reachable state, whatever was refused before, ~ArenaAllocator
   completes without calling the manager's allocate *)
Theorem arena_dtor_never_allocates : forall (g : bool) (ops : list aop) (f : option nat) (bs : nat) a h h1 a1 ok,
  run _ _ (astep g) ops (arena0 0 bs) (heap0 f) = (a, h) ->
  arena_dtor a h = (h1, a1, ok) -> ok = true /\ next h1 = next h /\ fuse h1 = fuse h.
Proof.
  intros g ops f bs a h h1 a1 ok R D.
  destruct (arun_inv _ _ _ _ _ _ (ainv0 0 bs f) R) as [V _].
  destruct (arena_dtor_spec _ _ _ _ _ V D) as [OK [_ [_ X]]]. auto.
Qed.
Print Assumptions arena_dtor_never_allocates.

(* regression of the K8 witness: a never-used allocator, with the very next allocation to be refused *)
Example arena_dtor_unused :
  arena_dtor (arena0 0 4) (heap0 (Some 0)) = (heap0 (Some 0), arena0 0 4, true).
Proof. reflexivity. Qed.

(* ---------------- XalanMap (two maps on two managers: insert / erase / clear / operator= / swap); [ge]: doCreateEntry
   releases the value block when the free list refuses the node for it, [gc]: the copy constructor releases the entries
   copied so far when an insert throws (K-new-2 repaired, parts 1 and 2) *)

(* dtor_never_allocates for XalanMap, a full theorem for all shapes with the K8 repair: in every state reachable by
   insert / erase / clear / operator= / swap on two maps, with a refusal anywhere, ~XalanMap (on any heap) completes
   and never calls the manager's allocate - because whenever the map has an entry, live or free, the free-entries list
   has its head node (invariant mheads_ok), and m_freeEntries.begin() is only reached for a non-empty free list *)
Theorem map_dtor_never_allocates : forall (ge gc : bool) (ops : list mop) (f : option nat) (minb thr : nat) w h (i : bool) h' h1 ok,
  run _ _ (mstep ge gc) ops (map0 0 minb thr, map0 1 minb thr) (heap0 f) = (w, h) ->
  map_dtor (sel i w) h' = (h1, ok) -> ok = true /\ next h1 = next h' /\ fuse h1 = fuse h'.
Proof. exact map_dtor_any. Qed.
Print Assumptions map_dtor_never_allocates.

(* regression of the K8 witness: the copy of an empty map (one bucket, free list never used) *)
Example map_dtor_copy_of_empty :
  r_dtor_events (map_case None 3 3 [MAssign true]) = [EFree 0 1; EFree 1 0] /\
  r_dtor_ok (map_case (Some 2) 3 3 [MAssign true]) = true.
Proof. split; vm_compute; reflexivity. Qed.

(* alloc_failure_safe for XalanMap, the FULL statement, for the repaired doCreateEntry() and copy constructor: every
   history of operations on the two maps (at least one bucket to start with, as the class requires) with the refusal of
   any single allocation anywhere in it, then both destructors: no foreign or double free ever; a refused insert or
   operator= leaves the entries (keys, in order) and size() of both maps exactly as they were (a refused erase is the
   compaction of the buckets running out of memory after the entry was erased: basic guarantee only); both destructors
   complete and NOTHING is outstanding afterwards: bucket table, bucket storage, head nodes, entry nodes and value
   blocks of both maps were all either still owned and released by ~XalanMap, or returned on the failure path
   (the ownership invariant minv2 of MemMapLedger.v, over rehash, compactBuckets, copy construction and swap) *)
Theorem map_alloc_failure_safe : forall (ops : list mop) (f : option nat) (minb thr : nat) w h, 0 < minb ->
  run _ _ (mstep true true) ops (map0 0 minb thr, map0 1 minb thr) (heap0 f) = (w, h) ->
  bad h = false /\
  (forall op h1 w1, mstep true true op w h = (h1, w1, false) ->
     bad h1 = false /\ (is_erase op = false -> mlog2 w1 = mlog2 w)) /\
  (forall h1 ok1 h2 ok2, map_dtor (fst w) h = (h1, ok1) -> map_dtor (snd w) h1 = (h2, ok2) ->
     ok1 = true /\ ok2 = true /\ live h2 = [] /\ bad h2 = false).
Proof. exact map_safe_guarded. Qed.
Print Assumptions map_alloc_failure_safe.

(* the refusals do happen in the places that used to lose blocks: the node of the free list (fuse 3, 4), a copy that
   fails after one / three entries (fuse 17, 23: operator= past a rehash of the temporary), and nothing is outstanding
   for any of the first 30 allocation indices of that history *)
Example map_refusal_repaired :
  map (fun k => r_outstanding (map_case_g true true (Some k) 3 3 [MInsert false 1; MInsert false 2])) [3; 4] = [0; 0] /\
  map (fun k => r_outstanding (map_case_g true true (Some k) 3 3 [MInsert true 1; MInsert true 2; MInsert true 3; MAssign false]))
      (seq 0 30) = repeat 0 30 /\
  (let '(h, w, ok) := mstep true true (MInsert false 2) (fst (run _ _ (mstep true true) [MInsert false 1] (map0 0 3 3, map0 1 3 3) (heap0 None)))
                                       (mkheap 6 [] (Some 0) false []) in ok = false).
Proof. split; [|split]; vm_compute; reflexivity. Qed.

(* the same statement for the code as found is REFUTED (K-new-2): doCreateEntry does
   m_freeEntries.push_back(Entry(allocate(1))): the value block is lost when the head node or the entry node of the free
   list cannot be allocated (with or without the repair of the copy constructor); and a copy constructor whose insert
   throws releases the nodes but no value block of the entries copied so far (with or without the repair of doCreateEntry) *)
Theorem map_alloc_failure_safe_refuted :
  r_outstanding (map_case_g false false (Some 3) 3 3 [MInsert false 1; MInsert false 2]) = 1 /\
  r_outstanding (map_case_g false true (Some 4) 3 3 [MInsert false 1; MInsert false 2]) = 1 /\
  r_outstanding (map_case_g true false (Some 17) 3 3 [MInsert true 1; MInsert true 2; MInsert true 3; MAssign false]) = 1 /\
  r_outstanding (map_case_g false false (Some 23) 3 3 [MInsert true 1; MInsert true 2; MInsert true 3; MAssign false]) = 3.
Proof. split; [|split; [|split]]; vm_compute; reflexivity. Qed.
Print Assumptions map_alloc_failure_safe_refuted.

(* what holds for BOTH shapes (the shapes only matter inside an operation that is refused: an operation that succeeds
   does the same whatever they are): a history in which no step was refused - with or without a fuse set - followed by
   both destructors leaves nothing outstanding and frees nothing twice or foreign *)
Theorem map_alloc_failure_safe_partial : forall (ge gc : bool) (ops : list mop) (f : option nat) (minb thr : nat) w h, 0 < minb ->
  run_ok ge gc ops (map0 0 minb thr, map0 1 minb thr) (heap0 f) = Some (w, h) ->
  forall h1 ok1 h2 ok2, map_dtor (fst w) h = (h1, ok1) -> map_dtor (snd w) h1 = (h2, ok2) ->
  ok1 = true /\ ok2 = true /\ live h2 = [] /\ bad h2 = false.
Proof. exact map_balanced_any. Qed.
Print Assumptions map_alloc_failure_safe_partial.

(* satisfiable, past a rehash and a copy, also with a fuse that is never reached *)
Example map_partial_example :
  (exists w h, run_ok false false [MInsert true 1; MInsert true 2; MInsert true 3; MInsert true 4; MInsert true 5; MAssign false; MErase false 2]
                       (map0 0 3 3, map0 1 3 3) (heap0 (Some 100)) = Some (w, h) /\ msize (fst w) = 4 /\ msize (snd w) = 5) /\
  run_ok false false [MInsert false 1; MInsert false 2] (map0 0 3 3, map0 1 3 3) (heap0 (Some 3)) = None.
Proof. split; [eexists; eexists; split; [vm_compute; reflexivity | split; reflexivity] | vm_compute; reflexivity]. Qed.

(* the statement at the shapes found in this tree (GenMem.map_entry_guarded, GenMem.map_copy_guarded): destructors never
   allocate, histories without a refused step are balanced, and - when the translator found both repaired shapes - the
   full guarantee *)
Theorem map_alloc_failure_safe_this_tree : map_safe_at map_entry_guarded map_copy_guarded.
Proof. exact (map_safe_any map_entry_guarded map_copy_guarded). Qed.
Print Assumptions map_alloc_failure_safe_this_tree.

(* regression of K23: a refused bucket push_back leaves the map as it was (no live entry outside the buckets,
   m_size = number of live entries, the entry is back on the free list, erased), and nothing is lost *)
Example map_bucket_refusal_repaired :
  (let '(h, w, ok) := mstep map_entry_guarded map_copy_guarded (MInsert false 1) (map0 0 3 3, map0 1 3 3) (heap0 (Some 5)) in
   ok = false /\ mentries (fst w) = [] /\ msize (fst w) = 0 /\ map eerased (mfrees (fst w)) = [true]) /\
  r_outstanding (map_case (Some 5) 3 3 [MInsert false 1; MInsert false 2]) = 0.
Proof. split; vm_compute; auto. Qed.
