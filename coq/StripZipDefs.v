(* C13 — the one-level context [ctx] of StripDefs.v extended to a full zipper (definitions only, no
   proofs), so that the parent, ancestor, ancestor-or-self, following and preceding axes can be
   modelled.  Every axis consults the strip predicate where the code consults it (a node test on a text
   node asks shouldStripSourceNode); elements, comments and PIs are never stripped.

   The proofs are in StripZipModel.v: observing the original tree through a strip predicate equals
   observing the physically stripped tree with no predicate, for all eleven axes. *)
From Coq Require Import String List NArith Bool.
Import ListNotations.
Require Import XV.GenStrip XV.StripDefs.
Open Scope list_scope.

(* one level of the path to the root: the ancestor element's name and attributes and its siblings;
   the key ITS children are looked at with is computed from the frames ([up_key]): its own name, and the
   xml:space state inherited through the outer frames (root_key outside the document element) *)
Record frame := { f_name : qname; f_attrs : list (qname * str); f_before : list node; f_after : list node }.

(* a located node: itself, its siblings, and the frames of its ancestors, nearest first.
   The children of the parent are z_before ++ z_self :: z_after; they are looked at with (parent_key z) *)
Record zctx := { z_before : list node; z_self : node; z_after : list node; z_up : list frame }.

(* the key with which the children of the innermost frame are looked at *)
Fixpoint up_key (up : list frame) : key :=
  match up with
  | [] => root_key
  | f :: r => child_key (up_key r) (f_name f) (f_attrs f)
  end.

Definition parent_key (z : zctx) : key := up_key (z_up z).

(* the frames are elements, which are never stripped: only the node itself has to be asked about *)
Definition zvisible (st : pred) (z : zctx) : bool := visible st (parent_key z) (z_self z).

Definition zkeep (st : pred) (l : list zctx) : list zctx := filter (zvisible st) l.

(* ------------------------------------------------------------------------------------------------ *)
(* parent, ancestors *)

Definition zparent (z : zctx) : option zctx :=
  match z_up z with
  | [] => None
  | f :: up' =>
      Some {| z_before := f_before f;
              z_self := Elem (f_name f) (f_attrs f) (z_before z ++ z_self z :: z_after z);
              z_after := f_after f;
              z_up := up' |}
  end.

(* parent, grandparent, ... (nearest first) of the node x with siblings before/after under the frames up *)
Fixpoint zanc (before : list node) (x : node) (after : list node) (up : list frame) : list zctx :=
  match up with
  | [] => []
  | f :: up' =>
      let p := Elem (f_name f) (f_attrs f) (before ++ x :: after) in
      {| z_before := f_before f; z_self := p; z_after := f_after f; z_up := up' |}
      :: zanc (f_before f) p (f_after f) up'
  end.

Definition zancestors (z : zctx) : list zctx := zanc (z_before z) (z_self z) (z_after z) (z_up z).

Definition zancestors_or_self (z : zctx) : list zctx := z :: zancestors z.

(* ------------------------------------------------------------------------------------------------ *)
(* children, siblings *)

(* all ways of picking one element of l, located under the frames up with `pre` before and `post` after *)
Fixpoint zpicks (up : list frame) (pre l post : list node) : list zctx :=
  match l with
  | [] => []
  | k :: r => {| z_before := pre; z_self := k; z_after := r ++ post; z_up := up |}
              :: zpicks up (pre ++ [k]) r post
  end.

Definition zchildren (st : pred) (z : zctx) : list zctx :=
  match z_self z with
  | Elem n a ks =>
      zkeep st (zpicks ({| f_name := n; f_attrs := a; f_before := z_before z; f_after := z_after z |} :: z_up z)
                       [] ks [])
  | _ => []
  end.

Definition zfollowing_siblings (st : pred) (z : zctx) : list zctx :=
  zkeep st (zpicks (z_up z) (z_before z ++ [z_self z]) (z_after z) []).

(* in document order *)
Definition zpreceding_siblings (st : pred) (z : zctx) : list zctx :=
  zkeep st (zpicks (z_up z) [] (z_before z) (z_self z :: z_after z)).

(* ------------------------------------------------------------------------------------------------ *)
(* descendants (document order = pre-order), visible only *)

Fixpoint zdesc (st : pred) (up : list frame) (pre : list node) (x : node) (post : list node) : list zctx :=
  match x with
  | Elem n a ks =>
      (fix go (pre' l : list node) : list zctx :=
         match l with
         | [] => []
         | k :: r =>
             (if visible st (child_key (up_key up) n a) k
              then {| z_before := pre'; z_self := k; z_after := r;
                      z_up := {| f_name := n; f_attrs := a; f_before := pre; f_after := post |} :: up |}
                   :: zdesc st ({| f_name := n; f_attrs := a; f_before := pre; f_after := post |} :: up) pre' k r
              else [])
             ++ go (pre' ++ [k]) r
         end) [] ks
  | _ => []
  end.

Definition zdescendants (st : pred) (z : zctx) : list zctx :=
  zdesc st (z_up z) (z_before z) (z_self z) (z_after z).

Definition zdescendants_or_self (st : pred) (z : zctx) : list zctx := z :: zdescendants st z.

(* ------------------------------------------------------------------------------------------------ *)
(* following, preceding — both in document order *)

(* for z and then each ancestor (nearest first): its visible following siblings, each followed by its
   visible descendants *)
Definition zfollowing (st : pred) (z : zctx) : list zctx :=
  flat_map (fun a => flat_map (zdescendants_or_self st) (zfollowing_siblings st a))
           (zancestors_or_self z).

(* for the outermost ancestor first, ..., down to z: descendant-or-self of each visible preceding sibling
   (= every visible node before z in document order that is not an ancestor of z) *)
Definition zpreceding (st : pred) (z : zctx) : list zctx :=
  flat_map (fun a => flat_map (zdescendants_or_self st) (zpreceding_siblings st a))
           (rev (zancestors_or_self z)).

(* ------------------------------------------------------------------------------------------------ *)
(* axes, steps, paths *)

Inductive zaxis := ZSelf | ZChild | ZDescendant | ZDescendantOrSelf | ZParent | ZAncestor | ZAncestorOrSelf
                 | ZFollowingSibling | ZPrecedingSibling | ZFollowing | ZPreceding.

Definition zaxis_ctxs (st : pred) (a : zaxis) (z : zctx) : list zctx :=
  match a with
  | ZSelf => [z]
  | ZChild => zchildren st z
  | ZDescendant => zdescendants st z
  | ZDescendantOrSelf => zdescendants_or_self st z
  | ZParent => match zparent z with Some p => [p] | None => [] end
  | ZAncestor => zancestors z
  | ZAncestorOrSelf => zancestors_or_self z
  | ZFollowingSibling => zfollowing_siblings st z
  | ZPrecedingSibling => zpreceding_siblings st z
  | ZFollowing => zfollowing st z
  | ZPreceding => zpreceding st z
  end.

(* positional predicates count in the order of the lists above (document order, except the ancestor
   axes which are nearest first), as apply_pred in StripDefs.v *)
Record zstep := { zs_axis : zaxis; zs_test : ntest; zs_pred : ppred }.

Definition zeval_step (st : pred) (s : zstep) (z : zctx) : list zctx :=
  apply_pred (zs_pred s) (filter (fun z' => test_node (zs_test s) (z_self z')) (zaxis_ctxs st (zs_axis s) z)).

Fixpoint zeval_path (st : pred) (p : list zstep) (z : zctx) : list zctx :=
  match p with
  | [] => [z]
  | s :: r => flat_map (zeval_path st r) (zeval_step st s z)
  end.

(* ------------------------------------------------------------------------------------------------ *)
(* the image of a located node in the physically stripped tree *)

Fixpoint strip_frames (st : pred) (up : list frame) : list frame :=
  match up with
  | [] => []
  | f :: r =>
      {| f_name := f_name f; f_attrs := f_attrs f;
         f_before := strip_list st (up_key r) (f_before f);
         f_after := strip_list st (up_key r) (f_after f) |} :: strip_frames st r
  end.

Definition zstrip (st : pred) (z : zctx) : zctx :=
  {| z_before := strip_list st (parent_key z) (z_before z);
     z_self := remove_stripped st (parent_key z) (z_self z);
     z_after := strip_list st (parent_key z) (z_after z);
     z_up := strip_frames st (z_up z) |}.

(* ------------------------------------------------------------------------------------------------ *)
(* what a stylesheet can print about a selected located node *)

Record zobs := { zo_string : str; zo_copy : list event; zo_position : nat; zo_siblings : nat;
                 zo_children : nat; zo_depth : nat; zo_following : nat; zo_preceding : nat }.

Definition zobserve (st : pred) (z : zctx) : zobs :=
  {| zo_string := string_value st (parent_key z) (z_self z);
     zo_copy := copy_events st (parent_key z) (z_self z);
     zo_position := S (length (filter (visible st (parent_key z)) (z_before z)));
     zo_siblings := length (filter (visible st (parent_key z)) (z_before z ++ z_self z :: z_after z));
     zo_children := length (children st (parent_key z) (z_self z));
     zo_depth := length (z_up z);
     zo_following := length (zfollowing st z);
     zo_preceding := length (zpreceding st z) |}.

Definition zroot (d : node) : zctx := {| z_before := []; z_self := d; z_after := []; z_up := [] |}.

Definition zrun (st : pred) (p : list zstep) (d : node) : list zobs :=
  map (zobserve st) (zeval_path st p (zroot d)).
