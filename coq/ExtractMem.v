(* Extraction of the C19 ledger model for the correspondence driver. ExtrOcamlBasic only.
   (positive / N / Z are extracted only because the shared ocaml/conv.ml glue mentions them.) *)
Require Import ExtrOcamlBasic.
Require Import BinNums.
Require Import XV.MemDefs XV.MemMapDefs.
Extraction "extracted/mem_model.ml" BinNums.positive BinNums.N BinNums.Z vec_case list_case arena_case map_case.
