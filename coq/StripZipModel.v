(* C13 — the zipper part (StripZipDefs.v): for the parent, ancestor, ancestor-or-self, following and
   preceding axes too (and the six axes of StripTreeModel.v again, now with the path to the root),
   consulting the strip decision at every observation point is the same as observing the physically
   stripped tree with no decision at all.

   All statements are closed under the global context (Print Assumptions at the end). *)
From Coq Require Import String List NArith Bool Arith Lia.
Import ListNotations.
Require Import XV.StripDefs XV.StripTreeModel XV.StripZipDefs.
Open Scope list_scope.

(* ------------------------------------------------------------------------------------------------ *)
(* keys and visibility *)

Lemma up_key_strip_frames : forall st up, up_key (strip_frames st up) = up_key up.
Proof.
  intros st up. induction up as [|f r IH]; [reflexivity|].
  cbn [strip_frames up_key f_name f_attrs]. rewrite IH. reflexivity.
Qed.

Lemma parent_key_zstrip : forall st z, parent_key (zstrip st z) = parent_key z.
Proof. intros st z. apply up_key_strip_frames. Qed.

Lemma strip_frames_length : forall st up, length (strip_frames st up) = length up.
Proof. intros st up. induction up as [|f r IH]; simpl; [reflexivity|]. rewrite IH. reflexivity. Qed.

Lemma zvisible_no_strip : forall z, zvisible no_strip z = true.
Proof. intros z. apply visible_no_strip. Qed.

Lemma zkeep_no_strip : forall l, zkeep no_strip l = l.
Proof. intros l. apply filter_all_true. apply zvisible_no_strip. Qed.

Lemma zkeep_all : forall st l, Forall (fun z => zvisible st z = true) (zkeep st l).
Proof. intros st l. apply Forall_forall. intros z Hz. apply filter_In in Hz. apply Hz. Qed.

Lemma zvisible_zstrip : forall st z, zvisible st (zstrip st z) = zvisible st z.
Proof.
  intros st z. unfold zvisible. rewrite parent_key_zstrip. cbn [zstrip z_self]. apply visible_rs.
Qed.

Lemma visible_stripped_false : forall st pk x, visible st pk x = true -> stripped st pk x = false.
Proof. intros st pk x H. unfold visible in H. destruct (stripped st pk x); [discriminate|reflexivity]. Qed.

(* ------------------------------------------------------------------------------------------------ *)
(* 1. parent *)

Theorem zparent_equiv : forall st z, zvisible st z = true ->
  option_map (zstrip st) (zparent z) = zparent (zstrip st z).
Proof.
  intros st [b x a up] Hv. unfold zvisible, parent_key in Hv. cbn [z_up z_self] in Hv.
  destruct up as [|f up']; [reflexivity|].
  unfold zparent, zstrip, parent_key.
  cbn [z_up z_before z_self z_after strip_frames option_map up_key f_name f_attrs f_before f_after] in *.
  rewrite rs_elem, strip_list_app, (strip_list_cons_vis _ _ x a Hv). reflexivity.
Qed.

Lemma zparent_visible : forall st z p, zparent z = Some p -> zvisible st p = true.
Proof.
  intros st z p H. unfold zparent in H. destruct (z_up z); [discriminate|].
  injection H as <-. reflexivity.
Qed.

(* ------------------------------------------------------------------------------------------------ *)
(* ancestors *)

Lemma zancestors_parent : forall z,
  zancestors z = match zparent z with Some p => p :: zancestors p | None => [] end.
Proof. intros [b x a up]. destruct up; reflexivity. Qed.

Lemma zanc_strip : forall st up b x a, visible st (up_key up) x = true ->
  map (zstrip st) (zanc b x a up) =
  zanc (strip_list st (up_key up) b) (remove_stripped st (up_key up) x) (strip_list st (up_key up) a)
       (strip_frames st up).
Proof.
  intros st up. induction up as [|f up' IH]; intros b x a Hv; [reflexivity|].
  cbn [up_key] in Hv.
  cbn [zanc strip_frames map f_name f_attrs f_before f_after up_key].
  rewrite IH by reflexivity.
  unfold zstrip, parent_key. cbn [z_before z_self z_after z_up].
  rewrite rs_elem, strip_list_app, (strip_list_cons_vis _ _ x a Hv). reflexivity.
Qed.

Lemma zanc_visible : forall st up b x a, Forall (fun z => zvisible st z = true) (zanc b x a up).
Proof.
  intros st up. induction up as [|f up' IH]; intros b x a; cbn [zanc]; constructor.
  - reflexivity.
  - apply IH.
Qed.

Lemma zancestors_equiv : forall st z, zvisible st z = true ->
  map (zstrip st) (zancestors z) = zancestors (zstrip st z).
Proof. intros st [b x a up] Hv. apply zanc_strip. exact Hv. Qed.

Lemma zancestors_visible : forall st z, Forall (fun z' => zvisible st z' = true) (zancestors z).
Proof. intros st z. apply zanc_visible. Qed.

Lemma zaos_equiv : forall st z, zvisible st z = true ->
  map (zstrip st) (zancestors_or_self z) = zancestors_or_self (zstrip st z).
Proof.
  intros st z Hv. unfold zancestors_or_self. cbn [map]. rewrite zancestors_equiv by exact Hv. reflexivity.
Qed.

Lemma zaos_visible : forall st z, zvisible st z = true ->
  Forall (fun z' => zvisible st z' = true) (zancestors_or_self z).
Proof. intros st z Hv. constructor; [exact Hv|apply zancestors_visible]. Qed.

(* ------------------------------------------------------------------------------------------------ *)
(* children and siblings *)

Lemma zpicks_strip : forall st up l pre post,
  map (zstrip st) (zkeep st (zpicks up pre l post)) =
  zpicks (strip_frames st up) (strip_list st (up_key up) pre) (strip_list st (up_key up) l)
         (strip_list st (up_key up) post).
Proof.
  intros st up l. unfold zkeep. induction l as [|k r IH]; intros pre post; [reflexivity|].
  cbn [zpicks filter]. unfold zvisible at 1, parent_key at 1. cbn [z_up z_self].
  destruct (visible st (up_key up) k) eqn:E.
  - rewrite (strip_list_cons_vis _ _ _ _ E). cbn [map zpicks]. f_equal.
    + unfold zstrip, parent_key. cbn [z_before z_self z_after z_up]. rewrite strip_list_app. reflexivity.
    + rewrite IH, strip_list_app, (strip_list_cons_vis _ _ k [] E). reflexivity.
  - rewrite (strip_list_cons_invis _ _ _ _ E).
    rewrite IH, strip_list_app, (strip_list_cons_invis _ _ k [] E).
    change (strip_list st (up_key up) []) with (@nil node). rewrite app_nil_r. reflexivity.
Qed.

Lemma zchildren_equiv : forall st z,
  map (zstrip st) (zchildren st z) = zchildren no_strip (zstrip st z).
Proof.
  intros st [b x a up]. unfold zchildren. cbn [zstrip z_self z_before z_after z_up].
  destruct x; try reflexivity.
  rewrite rs_elem, zkeep_no_strip, zpicks_strip. reflexivity.
Qed.

Lemma zchildren_visible : forall st z, Forall (fun z' => zvisible st z' = true) (zchildren st z).
Proof. intros st z. unfold zchildren. destruct (z_self z); try constructor. apply zkeep_all. Qed.

Lemma zfs_equiv : forall st z, zvisible st z = true ->
  map (zstrip st) (zfollowing_siblings st z) = zfollowing_siblings no_strip (zstrip st z).
Proof.
  intros st [b x a up] Hv. unfold zvisible, parent_key in Hv. cbn [z_up z_self] in Hv.
  unfold zfollowing_siblings. cbn [zstrip z_self z_before z_after z_up]. unfold parent_key. cbn [z_up].
  rewrite zkeep_no_strip, zpicks_strip.
  rewrite strip_list_app, (strip_list_cons_vis _ _ x [] Hv). reflexivity.
Qed.

Lemma zps_equiv : forall st z, zvisible st z = true ->
  map (zstrip st) (zpreceding_siblings st z) = zpreceding_siblings no_strip (zstrip st z).
Proof.
  intros st [b x a up] Hv. unfold zvisible, parent_key in Hv. cbn [z_up z_self] in Hv.
  unfold zpreceding_siblings. cbn [zstrip z_self z_before z_after z_up]. unfold parent_key. cbn [z_up].
  rewrite zkeep_no_strip, zpicks_strip.
  rewrite (strip_list_cons_vis _ _ x a Hv). reflexivity.
Qed.

(* ------------------------------------------------------------------------------------------------ *)
(* descendants: the inner loop of zdesc as a function of its own *)

Fixpoint zdesc_go (st : pred) (up : list frame) (pre l : list node) : list zctx :=
  match l with
  | [] => []
  | k :: r =>
      (if visible st (up_key up) k
       then {| z_before := pre; z_self := k; z_after := r; z_up := up |} :: zdesc st up pre k r
       else [])
      ++ zdesc_go st up (pre ++ [k]) r
  end.

Lemma zdesc_go_fix : forall st up n a pre post ks pre',
  (fix go (pre' l : list node) : list zctx :=
     match l with
     | [] => []
     | k :: r =>
         (if visible st (child_key (up_key up) n a) k
          then {| z_before := pre'; z_self := k; z_after := r;
                  z_up := {| f_name := n; f_attrs := a; f_before := pre; f_after := post |} :: up |}
               :: zdesc st ({| f_name := n; f_attrs := a; f_before := pre; f_after := post |} :: up) pre' k r
          else [])
         ++ go (pre' ++ [k]) r
     end) pre' ks =
  zdesc_go st ({| f_name := n; f_attrs := a; f_before := pre; f_after := post |} :: up) pre' ks.
Proof.
  intros st up n a pre post ks. induction ks as [|k r IH]; intros pre'; [reflexivity|].
  cbn [zdesc_go]. rewrite <- IH. reflexivity.
Qed.

Lemma zdesc_elem : forall st up pre n a ks post,
  zdesc st up pre (Elem n a ks) post =
  zdesc_go st ({| f_name := n; f_attrs := a; f_before := pre; f_after := post |} :: up) [] ks.
Proof. intros st up pre n a ks post. exact (zdesc_go_fix st up n a pre post ks []). Qed.

Lemma zdesc_go_strip : forall st ks,
  Forall (fun k => forall up pre post,
            map (zstrip st) (zdesc st up pre k post) =
            zdesc no_strip (strip_frames st up) (strip_list st (up_key up) pre)
                  (remove_stripped st (up_key up) k) (strip_list st (up_key up) post)) ks ->
  forall up pre,
  map (zstrip st) (zdesc_go st up pre ks) =
  zdesc_go no_strip (strip_frames st up) (strip_list st (up_key up) pre) (strip_list st (up_key up) ks).
Proof.
  intros st ks HF. induction HF as [|k r Hk _ IH]; intros up pre; [reflexivity|].
  cbn [zdesc_go]. rewrite map_app, IH, strip_list_app.
  destruct (visible st (up_key up) k) eqn:E.
  - rewrite (strip_list_cons_vis _ _ k r E), (strip_list_cons_vis _ _ k [] E).
    cbn [zdesc_go]. rewrite visible_no_strip. cbn [map]. rewrite Hk. reflexivity.
  - rewrite (strip_list_cons_invis _ _ k r E), (strip_list_cons_invis _ _ k [] E).
    change (strip_list st (up_key up) []) with (@nil node). rewrite app_nil_r. reflexivity.
Qed.

Lemma zdesc_strip : forall st x up pre post,
  map (zstrip st) (zdesc st up pre x post) =
  zdesc no_strip (strip_frames st up) (strip_list st (up_key up) pre)
        (remove_stripped st (up_key up) x) (strip_list st (up_key up) post).
Proof.
  intros st. induction x using node_ind'; intros up pre post; try reflexivity.
  rewrite rs_elem, !zdesc_elem. rewrite (zdesc_go_strip st ks H). reflexivity.
Qed.

Lemma zdesc_go_visible : forall st ks,
  Forall (fun k => forall up pre post, Forall (fun z => zvisible st z = true) (zdesc st up pre k post)) ks ->
  forall up pre, Forall (fun z => zvisible st z = true) (zdesc_go st up pre ks).
Proof.
  intros st ks HF. induction HF as [|k r Hk _ IH]; intros up pre; [constructor|].
  cbn [zdesc_go]. apply Forall_app. split; [|apply IH].
  destruct (visible st (up_key up) k) eqn:E; [|constructor].
  constructor; [exact E|apply Hk].
Qed.

Lemma zdesc_visible : forall st x up pre post,
  Forall (fun z => zvisible st z = true) (zdesc st up pre x post).
Proof.
  intros st. induction x using node_ind'; intros up pre post; try constructor.
  rewrite zdesc_elem. apply zdesc_go_visible. exact H.
Qed.

Lemma zdescendants_equiv : forall st z,
  map (zstrip st) (zdescendants st z) = zdescendants no_strip (zstrip st z).
Proof. intros st [b x a up]. apply zdesc_strip. Qed.

Lemma zdescendants_visible : forall st z, Forall (fun z' => zvisible st z' = true) (zdescendants st z).
Proof. intros st z. apply zdesc_visible. Qed.

Lemma zdos_equiv : forall st z,
  map (zstrip st) (zdescendants_or_self st z) = zdescendants_or_self no_strip (zstrip st z).
Proof.
  intros st z. unfold zdescendants_or_self. cbn [map]. rewrite zdescendants_equiv. reflexivity.
Qed.

Lemma zdos_visible : forall st z, zvisible st z = true ->
  Forall (fun z' => zvisible st z' = true) (zdescendants_or_self st z).
Proof. intros st z Hv. constructor; [exact Hv|apply zdescendants_visible]. Qed.

(* ------------------------------------------------------------------------------------------------ *)
(* following and preceding *)

Lemma zfs_dos_equiv : forall st a, zvisible st a = true ->
  map (zstrip st) (flat_map (zdescendants_or_self st) (zfollowing_siblings st a)) =
  flat_map (zdescendants_or_self no_strip) (zfollowing_siblings no_strip (zstrip st a)).
Proof.
  intros st a Hv. rewrite <- (zfs_equiv st a Hv). rewrite map_flat_map, flat_map_map.
  apply flat_map_ext_Forall. apply Forall_forall. intros z _. apply zdos_equiv.
Qed.

Lemma zps_dos_equiv : forall st a, zvisible st a = true ->
  map (zstrip st) (flat_map (zdescendants_or_self st) (zpreceding_siblings st a)) =
  flat_map (zdescendants_or_self no_strip) (zpreceding_siblings no_strip (zstrip st a)).
Proof.
  intros st a Hv. rewrite <- (zps_equiv st a Hv). rewrite map_flat_map, flat_map_map.
  apply flat_map_ext_Forall. apply Forall_forall. intros z _. apply zdos_equiv.
Qed.

Lemma zfs_dos_visible : forall st a,
  Forall (fun z => zvisible st z = true) (flat_map (zdescendants_or_self st) (zfollowing_siblings st a)).
Proof.
  intros st a. apply Forall_flat_map_intro.
  eapply Forall_impl; [|apply (zkeep_all st)]. intros z Hz. apply zdos_visible. exact Hz.
Qed.

Lemma zps_dos_visible : forall st a,
  Forall (fun z => zvisible st z = true) (flat_map (zdescendants_or_self st) (zpreceding_siblings st a)).
Proof.
  intros st a. apply Forall_flat_map_intro.
  eapply Forall_impl; [|apply (zkeep_all st)]. intros z Hz. apply zdos_visible. exact Hz.
Qed.

Lemma Forall_rev' {A} (P : A -> Prop) (l : list A) : Forall P l -> Forall P (rev l).
Proof.
  intros H. apply Forall_forall. intros x Hx. apply in_rev in Hx.
  rewrite Forall_forall in H. apply H. exact Hx.
Qed.

Lemma zfollowing_equiv : forall st z, zvisible st z = true ->
  map (zstrip st) (zfollowing st z) = zfollowing no_strip (zstrip st z).
Proof.
  intros st z Hv. unfold zfollowing. rewrite <- (zaos_equiv st z Hv).
  rewrite map_flat_map, flat_map_map. apply flat_map_ext_Forall.
  eapply Forall_impl; [|apply (zaos_visible st z Hv)].
  intros a Ha. apply zfs_dos_equiv. exact Ha.
Qed.

Lemma zpreceding_equiv : forall st z, zvisible st z = true ->
  map (zstrip st) (zpreceding st z) = zpreceding no_strip (zstrip st z).
Proof.
  intros st z Hv. unfold zpreceding. rewrite <- (zaos_equiv st z Hv), <- map_rev.
  rewrite map_flat_map, flat_map_map. apply flat_map_ext_Forall.
  eapply Forall_impl; [|apply Forall_rev'; apply (zaos_visible st z Hv)].
  intros a Ha. apply zps_dos_equiv. exact Ha.
Qed.

Lemma zfollowing_visible : forall st z, Forall (fun z' => zvisible st z' = true) (zfollowing st z).
Proof.
  intros st z. unfold zfollowing. apply Forall_flat_map_intro.
  apply Forall_forall. intros a _. apply zfs_dos_visible.
Qed.

Lemma zpreceding_visible : forall st z, Forall (fun z' => zvisible st z' = true) (zpreceding st z).
Proof.
  intros st z. unfold zpreceding. apply Forall_flat_map_intro.
  apply Forall_forall. intros a _. apply zps_dos_visible.
Qed.

(* ------------------------------------------------------------------------------------------------ *)
(* 2. all axes *)

Theorem zaxis_equiv : forall st a z, zvisible st z = true ->
  map (zstrip st) (zaxis_ctxs st a z) = zaxis_ctxs no_strip a (zstrip st z).
Proof.
  intros st a z Hv. destruct a; cbn [zaxis_ctxs].
  - reflexivity.
  - apply zchildren_equiv.
  - apply zdescendants_equiv.
  - apply zdos_equiv.
  - rewrite <- (zparent_equiv st z Hv). destruct (zparent z); reflexivity.
  - apply zancestors_equiv. exact Hv.
  - apply zaos_equiv. exact Hv.
  - apply zfs_equiv. exact Hv.
  - apply zps_equiv. exact Hv.
  - apply zfollowing_equiv. exact Hv.
  - apply zpreceding_equiv. exact Hv.
Qed.

Theorem zaxis_visible : forall st a z, zvisible st z = true ->
  Forall (fun z' => zvisible st z' = true) (zaxis_ctxs st a z).
Proof.
  intros st a z Hv. destruct a; cbn [zaxis_ctxs].
  - constructor; [exact Hv|constructor].
  - apply zchildren_visible.
  - apply zdescendants_visible.
  - apply zdos_visible. exact Hv.
  - destruct (zparent z) eqn:E; [|constructor].
    constructor; [apply (zparent_visible st z z0 E)|constructor].
  - apply zancestors_visible.
  - apply zaos_visible. exact Hv.
  - apply zkeep_all.
  - apply zkeep_all.
  - apply zfollowing_visible.
  - apply zpreceding_visible.
Qed.

(* ------------------------------------------------------------------------------------------------ *)
(* 3. steps and paths *)

Theorem zstep_equiv : forall st s z, zvisible st z = true ->
  map (zstrip st) (zeval_step st s z) = zeval_step no_strip s (zstrip st z).
Proof.
  intros st s z Hv. unfold zeval_step. rewrite map_apply_pred. f_equal.
  rewrite <- (zaxis_equiv st _ z Hv). rewrite filter_map_comm. f_equal.
  apply filter_ext. intros z'. cbn [zstrip z_self]. symmetry. apply test_node_rs.
Qed.

Theorem zstep_visible : forall st s z, zvisible st z = true ->
  Forall (fun z' => zvisible st z' = true) (zeval_step st s z).
Proof.
  intros st s z Hv. apply Forall_forall. intros x Hx. unfold zeval_step in Hx.
  apply apply_pred_incl in Hx. apply filter_In in Hx. destruct Hx as [Hx _].
  pose proof (zaxis_visible st (zs_axis s) z Hv) as HA. rewrite Forall_forall in HA. auto.
Qed.

Theorem zpath_equiv : forall st p z, zvisible st z = true ->
  map (zstrip st) (zeval_path st p z) = zeval_path no_strip p (zstrip st z).
Proof.
  intros st p. induction p as [|s r IH]; intros z Hv; cbn [zeval_path]; [reflexivity|].
  rewrite <- (zstep_equiv st s z Hv). rewrite map_flat_map, flat_map_map.
  apply flat_map_ext_Forall. eapply Forall_impl; [|apply zstep_visible; exact Hv].
  intros z' Hz'. apply IH. exact Hz'.
Qed.

Theorem zpath_visible : forall st p z, zvisible st z = true ->
  Forall (fun z' => zvisible st z' = true) (zeval_path st p z).
Proof.
  intros st p. induction p as [|s r IH]; intros z Hv; cbn [zeval_path].
  - constructor; [exact Hv|constructor].
  - apply Forall_flat_map_intro. eapply Forall_impl; [|apply zstep_visible; exact Hv].
    intros z' Hz'. apply IH. exact Hz'.
Qed.

(* ------------------------------------------------------------------------------------------------ *)
(* 4. observations *)

Theorem zobserve_equiv : forall st z, zvisible st z = true ->
  zobserve st z = zobserve no_strip (zstrip st z).
Proof.
  intros st z Hv.
  pose proof (zfollowing_equiv st z Hv) as HF. pose proof (zpreceding_equiv st z Hv) as HP.
  unfold zobserve. rewrite <- HF, <- HP, !map_length, parent_key_zstrip.
  destruct z as [b x a up]. unfold zvisible, parent_key in *.
  cbn [zstrip z_before z_self z_after z_up] in *. unfold parent_key. cbn [z_up].
  set (pn := up_key up) in *.
  pose proof (visible_stripped_false st pn x Hv) as Hs.
  rewrite (rs_string_value st pn x Hs), (rs_copy_events st pn x Hs), rs_children.
  rewrite !filter_visible_no_strip, map_length, strip_list_length, strip_frames_length.
  replace (strip_list st pn b ++ remove_stripped st pn x :: strip_list st pn a)
    with (strip_list st pn (b ++ x :: a))
    by (rewrite strip_list_app, (strip_list_cons_vis _ _ x a Hv); reflexivity).
  rewrite strip_list_length. reflexivity.
Qed.

(* ------------------------------------------------------------------------------------------------ *)
(* 5. the whole observation language *)

Lemma zrun_equiv : forall st p d, visible st root_key d = true ->
  zrun st p d = zrun no_strip p (remove_stripped st root_key d).
Proof.
  intros st p d Hv. unfold zrun.
  change (zroot (remove_stripped st root_key d)) with (zstrip st (zroot d)).
  rewrite <- (zpath_equiv st p (zroot d) Hv). rewrite map_map.
  apply map_ext_F. eapply Forall_impl; [|apply (zpath_visible st p (zroot d) Hv)].
  intros z Hz. apply zobserve_equiv. exact Hz.
Qed.

Theorem zstrip_equiv : forall st p n a ks,
  zrun st p (Elem n a ks) = zrun no_strip p (remove_stripped st root_key (Elem n a ks)).
Proof. intros st p n a ks. apply zrun_equiv. reflexivity. Qed.

(* ------------------------------------------------------------------------------------------------ *)
(* 6. non-vacuity: a small tree with whitespace text nodes
        <r>_<a>x</a>_<b>_<c/>_</b>_</r>          (_ = the text node " \n"; r a b c = local names 1 2 3 4) *)

Definition ex_ws : node := Text [32; 10]%N.

Definition ex_tree : node :=
  Elem (0, 1)%N []
    [ ex_ws; Elem (0, 2)%N [] [Text [120]%N]; ex_ws;
      Elem (0, 3)%N [] [ex_ws; Elem (0, 4)%N [] []; ex_ws]; ex_ws ].

Definition ex_strip_all : pred := fun _ => true.     (* xsl:strip-space elements="*" *)

(* child::a *)
Definition ex_to_a : list zstep := [ {| zs_axis := ZChild; zs_test := TName (0, 2)%N; zs_pred := PAll |} ].
(* child::a/following::node() *)
Definition ex_a_following : list zstep :=
  ex_to_a ++ [ {| zs_axis := ZFollowing; zs_test := TNode; zs_pred := PAll |} ].
(* descendant::c *)
Definition ex_to_c : list zstep := [ {| zs_axis := ZDescendant; zs_test := TName (0, 4)%N; zs_pred := PAll |} ].
(* descendant::c/preceding::node()[nearest]/parent::node() *)
Definition ex_c_prec_parent : list zstep :=
  ex_to_c ++ [ {| zs_axis := ZPreceding; zs_test := TNode; zs_pred := PLast |};
               {| zs_axis := ZParent; zs_test := TNode; zs_pred := PAll |} ].
(* descendant::c/ancestor::node()[outermost] *)
Definition ex_c_top : list zstep :=
  ex_to_c ++ [ {| zs_axis := ZAncestor; zs_test := TNode; zs_pred := PLast |} ].

(* (a) the following axis from <a>: 2 nodes with the declaration (b, c), 6 without (_ b _ c _ _) *)
Example ex_following_with :
  map z_self (zeval_path ex_strip_all ex_a_following (zroot ex_tree)) =
  [ Elem (0, 3)%N [] [ex_ws; Elem (0, 4)%N [] []; ex_ws]; Elem (0, 4)%N [] [] ].
Proof. vm_compute. reflexivity. Qed.

Example ex_following_without :
  map z_self (zeval_path no_strip ex_a_following (zroot ex_tree)) =
  [ ex_ws; Elem (0, 3)%N [] [ex_ws; Elem (0, 4)%N [] []; ex_ws]; ex_ws; Elem (0, 4)%N [] []; ex_ws; ex_ws ].
Proof. vm_compute. reflexivity. Qed.

Example ex_following_counts :
  length (zeval_path ex_strip_all ex_a_following (zroot ex_tree)) = 2 /\
  length (zeval_path no_strip ex_a_following (zroot ex_tree)) = 6.
Proof. vm_compute. split; reflexivity. Qed.

(* the preceding axis from <c>, document order: a "x" with the declaration, _ a "x" _ _ without *)
Example ex_preceding_with :
  map z_self (flat_map (zpreceding ex_strip_all) (zeval_path ex_strip_all ex_to_c (zroot ex_tree))) =
  [ Elem (0, 2)%N [] [Text [120]%N]; Text [120]%N ].
Proof. vm_compute. reflexivity. Qed.

Example ex_preceding_without :
  map z_self (flat_map (zpreceding no_strip) (zeval_path no_strip ex_to_c (zroot ex_tree))) =
  [ ex_ws; Elem (0, 2)%N [] [Text [120]%N]; Text [120]%N; ex_ws; ex_ws ].
Proof. vm_compute. reflexivity. Qed.

(* (b) the observations of <a> with the declaration on the tree = with no declaration on the removed
   tree; with no declaration on the original tree they are different *)
Example ex_run_a :
  zrun ex_strip_all ex_to_a ex_tree =
    [ {| zo_string := [120]%N; zo_copy := [EStart (0, 2)%N []; EChars [120]%N; EEnd (0, 2)%N];
         zo_position := 1; zo_siblings := 2; zo_children := 1; zo_depth := 1;
         zo_following := 2; zo_preceding := 0 |} ] /\
  zrun no_strip ex_to_a (remove_stripped ex_strip_all root_key ex_tree) = zrun ex_strip_all ex_to_a ex_tree /\
  zrun no_strip ex_to_a ex_tree =
    [ {| zo_string := [120]%N; zo_copy := [EStart (0, 2)%N []; EChars [120]%N; EEnd (0, 2)%N];
         zo_position := 2; zo_siblings := 5; zo_children := 1; zo_depth := 1;
         zo_following := 6; zo_preceding := 1 |} ].
Proof. vm_compute. repeat split; reflexivity. Qed.

(* the same through preceding and parent: the nearest preceding node of <c> is the "x" of <a> with the
   declaration (its parent: <a>) and the whitespace text node of <b> without (its parent: <b>) *)
Example ex_run_c_prec_parent :
  zrun ex_strip_all ex_c_prec_parent ex_tree =
    [ {| zo_string := [120]%N; zo_copy := [EStart (0, 2)%N []; EChars [120]%N; EEnd (0, 2)%N];
         zo_position := 1; zo_siblings := 2; zo_children := 1; zo_depth := 1;
         zo_following := 2; zo_preceding := 0 |} ] /\
  zrun no_strip ex_c_prec_parent (remove_stripped ex_strip_all root_key ex_tree) =
    zrun ex_strip_all ex_c_prec_parent ex_tree /\
  zrun no_strip ex_c_prec_parent ex_tree =
    [ {| zo_string := [32; 10; 32; 10]%N;
         zo_copy := [EStart (0, 3)%N []; EChars [32; 10]%N; EStart (0, 4)%N []; EEnd (0, 4)%N;
                     EChars [32; 10]%N; EEnd (0, 3)%N];
         zo_position := 4; zo_siblings := 5; zo_children := 3; zo_depth := 1;
         zo_following := 1; zo_preceding := 4 |} ].
Proof. vm_compute. repeat split; reflexivity. Qed.

(* the zipper rebuilds the tree: the outermost ancestor of <c> is the document element itself *)
Example ex_rebuild :
  map z_self (zeval_path no_strip ex_c_top (zroot ex_tree)) = [ex_tree] /\
  map z_self (zeval_path ex_strip_all ex_c_top (zroot ex_tree)) = [ex_tree] /\
  map z_self (zeval_path no_strip ex_c_top (zroot (remove_stripped ex_strip_all root_key ex_tree))) =
    [remove_stripped ex_strip_all root_key ex_tree].
Proof. vm_compute. repeat split; reflexivity. Qed.

Print Assumptions zparent_equiv.
Print Assumptions zaxis_equiv.
Print Assumptions zaxis_visible.
Print Assumptions zpath_equiv.
Print Assumptions zobserve_equiv.
Print Assumptions zstrip_equiv.
