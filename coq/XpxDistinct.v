(* C02, extension part (family xpx): set:distinct / xalan:distinct (FunctionDistinct::execute). *)
From Coq Require Import List NArith ZArith Bool Arith Lia.
From Coq Require Import ZifyBool ZifyNat ZifyN.
Require Import XV.GenXpx XV.XpxDefs XV.XpxModel.
Import ListNotations.

Lemma sorted_drop_mid : forall l1 a l2, sorted (l1 ++ a :: l2) -> sorted (l1 ++ l2).
Proof.
  induction l1 as [|b u IH]; intros a l2 Hs; cbn in *.
  - destruct Hs; assumption.
  - destruct Hs as [Hb Hu]. split; [|eauto]. intros y Hy. apply Hb.
    apply in_app_or in Hy. apply in_or_app. destruct Hy; [left | right; right]; assumption.
Qed.

Lemma str_eqb_eq : forall a b, str_eqb a b = true <-> a = b.
Proof.
  induction a as [|x a IH]; intros [|y b]; cbn; split; intros H; try discriminate; try reflexivity.
  - apply andb_true_iff in H. destruct H as [H1 H2]. apply N.eqb_eq in H1. apply IH in H2. congruence.
  - inversion H; subst. rewrite N.eqb_refl. cbn. apply IH. reflexivity.
Qed.

Section DistinctProofs.
  Variable K : Type.
  Variable keqb : K -> K -> bool.
  Hypothesis keqb_eq : forall a b, keqb a b = true <-> a = b.
  Variable sv : N -> K.

  Notation kmem := (kmem K keqb).
  Notation dist_rec := (dist_rec K keqb sv).
  Notation distinct := (distinct K keqb sv).
  Notation distinct_step := (distinct_step K keqb sv).

  Lemma kmem_In : forall k seen, kmem k seen = true <-> In k seen.
  Proof.
    intros k seen. unfold XpxDefs.kmem. rewrite existsb_exists. split.
    - intros [y [Hy He]]. apply keqb_eq in He. subst. exact Hy.
    - intros H. exists k. split; [exact H | apply keqb_eq; reflexivity].
  Qed.

  Lemma kmem_cons_false : forall k a seen, kmem k (a :: seen) = false <-> k <> a /\ kmem k seen = false.
  Proof.
    intros. unfold XpxDefs.kmem. cbn [existsb]. rewrite orb_false_iff. split; intros [H1 H2]; split; auto.
    - intros ->. assert (keqb a a = true) by (apply keqb_eq; reflexivity). congruence.
    - destruct (keqb k a) eqn:E; [|reflexivity]. apply keqb_eq in E. contradiction.
  Qed.

  (* the loop, on a list in document order, is the plain left-to-right scan *)
  Lemma distinct_fold : forall l acc seen, sorted (acc ++ l) ->
    fst (fold_left distinct_step l (acc, seen)) = acc ++ dist_rec seen l.
  Proof.
    induction l as [|a t IH]; intros acc seen Hs; cbn [fold_left XpxDefs.dist_rec].
    - cbn. rewrite app_nil_r. reflexivity.
    - unfold XpxDefs.distinct_step at 2. cbn [fst snd]. destruct (kmem (sv a) seen) eqn:E.
      + apply IH. eapply sorted_drop_mid. exact Hs.
      + rewrite insert_last by (intros y Hy; eapply sorted_app_lt; eauto).
        rewrite IH by (rewrite <- app_assoc; exact Hs). rewrite <- app_assoc. reflexivity.
  Qed.

  Lemma distinct_scan : forall l, sorted l -> distinct l = dist_rec [] l.
  Proof.
    intros l Hs. unfold XpxDefs.distinct. destruct l as [|x [|y t]].
    - reflexivity.
    - reflexivity.
    - rewrite distinct_fold by exact Hs. reflexivity.
  Qed.

  Lemma dist_rec_sub : forall l seen x, In x (dist_rec seen l) -> In x l.
  Proof.
    induction l as [|a t IH]; intros seen x H; cbn [XpxDefs.dist_rec] in H; [exact H|].
    destruct (kmem (sv a) seen).
    - right. eapply IH. exact H.
    - destruct H as [H | H]; [left; exact H | right; eapply IH; exact H].
  Qed.

  Lemma dist_rec_sorted : forall l seen, sorted l -> sorted (dist_rec seen l).
  Proof.
    induction l as [|a t IH]; intros seen Hs; cbn [XpxDefs.dist_rec]; [exact I|]. destruct Hs as [Ha Ht].
    destruct (kmem (sv a) seen); [auto|]. cbn [sorted]. split; [|auto].
    intros y Hy. apply Ha. eapply dist_rec_sub. exact Hy.
  Qed.

  Lemma dist_rec_idem : forall l seen, dist_rec seen (dist_rec seen l) = dist_rec seen l.
  Proof.
    induction l as [|a t IH]; intros seen; cbn [XpxDefs.dist_rec]; [reflexivity|].
    destruct (kmem (sv a) seen) eqn:E; [apply IH|].
    cbn [XpxDefs.dist_rec]. rewrite E. f_equal. apply IH.
  Qed.

  Lemma dist_rec_first : forall l seen x,
    In x (dist_rec seen l) <->
    exists l1 l2, l = l1 ++ x :: l2 /\ kmem (sv x) seen = false /\ forall y, In y l1 -> sv y <> sv x.
  Proof.
    induction l as [|a t IH]; intros seen x; cbn [XpxDefs.dist_rec].
    - split; [intros [] | intros [l1 [l2 [H _]]]; destruct l1; discriminate].
    - destruct (kmem (sv a) seen) eqn:E.
      + rewrite IH. split.
        * intros [l1 [l2 [H1 [H2 H3]]]]. exists (a :: l1), l2. subst. split; [reflexivity|]. split; [exact H2|].
          intros y [Hy | Hy]; [subst y | auto]. intros Heq. rewrite Heq in E. congruence.
        * intros [l1 [l2 [H1 [H2 H3]]]]. destruct l1 as [|b l1].
          -- cbn in H1. inversion H1; subst. congruence.
          -- cbn in H1. inversion H1; subst. exists l1, l2. split; [reflexivity|]. split; [exact H2|].
             intros y Hy. apply H3. right. exact Hy.
      + cbn [In]. rewrite IH. split.
        * intros [H | [l1 [l2 [H1 [H2 H3]]]]].
          -- subst. exists [], t. split; [reflexivity|]. split; [exact E|]. intros y [].
          -- apply kmem_cons_false in H2. destruct H2 as [H2a H2b]. exists (a :: l1), l2. subst.
             split; [reflexivity|]. split; [exact H2b|]. intros y [Hy | Hy]; [subst y; congruence | auto].
        * intros [l1 [l2 [H1 [H2 H3]]]]. destruct l1 as [|b l1].
          -- cbn in H1. inversion H1; subst. left. reflexivity.
          -- cbn in H1. inversion H1; subst. right. exists l1, l2. split; [reflexivity|]. split.
             ++ apply kmem_cons_false. split; [|exact H2]. intros Heq. apply (H3 b); [left; reflexivity | congruence].
             ++ intros y Hy. apply H3. right. exact Hy.
  Qed.

  (* set:distinct keeps exactly the FIRST node, in document order, of every string-value class *)
  Lemma distinct_first_of_class : forall l x, sorted l ->
    (In x (distinct l) <-> In x l /\ forall y, In y l -> sv y = sv x -> (x <= y)%N).
  Proof.
    intros l x Hs. rewrite distinct_scan by exact Hs. rewrite dist_rec_first. split.
    - intros [l1 [l2 [H1 [_ H3]]]]. subst l. split; [apply in_or_app; right; left; reflexivity|].
      intros y Hy Heq. apply in_app_or in Hy. destruct Hy as [Hy | [Hy | Hy]].
      + exfalso. exact (H3 y Hy Heq).
      + subst. lia.
      + apply sorted_app_r in Hs. destruct Hs as [Hx _]. specialize (Hx y Hy). lia.
    - intros [Hin Hmin]. destruct (in_split _ _ Hin) as [l1 [l2 Hl]]. exists l1, l2. split; [exact Hl|].
      split; [reflexivity|]. intros y Hy Heq. subst l.
      assert (y < x)%N by (eapply sorted_app_lt; eauto).
      assert (x <= y)%N by (apply Hmin; [apply in_or_app; left; exact Hy | exact Heq]). lia.
  Qed.

  Lemma distinct_sorted : forall l, sorted l -> sorted (distinct l).
  Proof. intros l Hs. rewrite distinct_scan by exact Hs. apply dist_rec_sorted. exact Hs. Qed.

  Lemma distinct_idempotent : forall l, sorted l -> distinct (distinct l) = distinct l.
  Proof.
    intros l Hs. rewrite (distinct_scan l Hs). rewrite distinct_scan by (apply dist_rec_sorted; exact Hs).
    apply dist_rec_idem.
  Qed.

  Lemma dist_rec_covers : forall l seen y, In y l ->
    kmem (sv y) seen = true \/ exists x, In x (dist_rec seen l) /\ sv x = sv y.
  Proof.
    induction l as [|a t IH]; intros seen y Hy; [destruct Hy|]. cbn [XpxDefs.dist_rec].
    destruct (kmem (sv a) seen) eqn:E.
    - destruct Hy as [Hy | Hy]; [subst; left; exact E | apply IH; exact Hy].
    - destruct Hy as [Hy | Hy].
      + subst. right. exists y. split; [left; reflexivity | reflexivity].
      + destruct (IH (sv a :: seen) y Hy) as [H | [x [H1 H2]]].
        * destruct (kmem (sv y) seen) eqn:E2; [left; reflexivity|]. right. exists a. split; [left; reflexivity|].
          apply kmem_In in H. destruct H as [H | H]; [exact H|]. apply kmem_In in H. congruence.
        * right. exists x. split; [right; exact H1 | exact H2].
  Qed.

  (* every string-value of the argument is represented in the result ... *)
  Lemma distinct_covers : forall l y, sorted l -> In y l -> exists x, In x (distinct l) /\ sv x = sv y.
  Proof.
    intros l y Hs Hy. rewrite distinct_scan by exact Hs. destruct (dist_rec_covers l [] y Hy) as [H | H]; [discriminate | exact H].
  Qed.

  Lemma dist_rec_fresh : forall l seen x, In x (dist_rec seen l) -> kmem (sv x) seen = false.
  Proof.
    intros l seen x H. apply dist_rec_first in H. destruct H as [l1 [l2 [_ [H _]]]]. exact H.
  Qed.

  Lemma dist_rec_values_NoDup : forall l seen, NoDup (map sv (dist_rec seen l)).
  Proof.
    induction l as [|a t IH]; intros seen; cbn [XpxDefs.dist_rec]; [constructor|].
    destruct (kmem (sv a) seen); [apply IH|]. cbn [map]. constructor; [|apply IH].
    intros Hin. apply in_map_iff in Hin. destruct Hin as [x [Hx1 Hx2]].
    apply dist_rec_fresh in Hx2. apply kmem_cons_false in Hx2. destruct Hx2 as [Hx2 _]. congruence.
  Qed.

  (* ... exactly once *)
  Lemma distinct_values_NoDup : forall l, sorted l -> NoDup (map sv (distinct l)).
  Proof. intros l Hs. rewrite distinct_scan by exact Hs. apply dist_rec_values_NoDup. Qed.
End DistinctProofs.
