(* C08 part "html": FormatterToHTML with its namespace bookkeeping and the shared scratch string m_stringBuffer as state.
   - startElement / endElement ask pushHasNamespace / popHasNamespace: when a prefix resolver is set and the prefix of the
     element name (the empty prefix for an unprefixed name) is bound to a non-empty namespace, the element is written by
     FormatterToXML::startElement / endElement ("<name", attributes through the 2-argument processAttribute and the HTML
     writeAttrString, "/>" or "</name>"), and none of the HTML stacks (script, raw, element level) is pushed;
   - doPushHasNamespace puts the prefix into m_stringBuffer (substring assigns) and clears it at the end;
     writeNumberedEntityReference and accumHexNumber APPEND the number to m_stringBuffer, write it, clear it.
   The writers below are those of HtmlDefs.v with the scratch string threaded through (b = its content before, the second
   component of the result = its content after).  Definitions only. *)
From Coq Require Import NArith List Bool.
Require Import XV.GenOutopt XV.GenHtml XV.HtmlEnt4Defs XV.HtmlDefs.
Import ListNotations.
Open Scope N_scope.

Definition numref_b (b : str) (n : N) : str := [38; 35] ++ b ++ decimal n ++ [59].
Definition hexnum_b (b : str) (n : N) : str :=
  let d := b ++ rev (hex_rev 8 n) in 37 :: (match d with [_] => [48] | _ => [] end) ++ d.

Definition bind_b (p : str * str) (k : str -> option (str * str)) : option (str * str) :=
  match k (snd p) with Some (o2, b2) => Some (fst p ++ o2, b2) | None => None end.

Definition content_unit_b (c : hcfg) (b : str) (ch : N) : str * str :=
  if maxc c <? ch then (numref_b b ch, []) else ([ch], b).
Fixpoint acc_content_b (c : hcfg) (b : str) (s : str) : str * str :=
  match s with
  | [] => ([], b)
  | ch :: r => let p := content_unit_b c b ch in let q := acc_content_b c (snd p) r in (fst p ++ fst q, snd q)
  end.

Fixpoint write_chars_b (c : hcfg) (b : str) (s : str) : option (str * str) :=
  match s with
  | [] => Some ([], b)
  | ch :: r =>
      if (ch <? specials_size) && negb (text_S c ch) then bind_b ([ch], b) (fun b' => write_chars_b c b' r)
      else if ch =? 10 then bind_b (newline, b) (fun b' => write_chars_b c b' r)
      else match default_entity ch with
           | Some e => bind_b (e, b) (fun b' => write_chars_b c b' r)
           | None =>
               if is_high ch then
                 match r with
                 | [] => None
                 | next :: r' => if is_lowsur next then bind_b (numref_b b (pair_cp ch next), []) (fun b' => write_chars_b c b' r') else None
                 end
               else if (text_literal_from <=? ch) && (ch <=? maxc c) then bind_b (content_unit_b c b ch) (fun b' => write_chars_b c b' r)
               else bind_b (numref_b b ch, []) (fun b' => write_chars_b c b' r)
           end
  end.

Fixpoint write_attr_b (b : str) (s : str) : option (str * str) :=
  match s with
  | [] => Some ([], b)
  | ch :: r =>
      if (ch <? specials_size) && negb (attr_S ch) then bind_b ([ch], b) (fun b' => write_attr_b b' r)
      else if (ch =? 38) && (match r with 123 :: _ => true | _ => false end) then bind_b ([38], b) (fun b' => write_attr_b b' r)
      else match default_entity ch with
           | Some e => bind_b (e, b) (fun b' => write_attr_b b' r)
           | None =>
               if is_high ch then
                 match r with
                 | [] => None
                 | next :: r' =>
                     if is_lowsur next
                     then bind_b (numref_b b (if attr_pair_is_one_reference then pair_cp ch next else (pair_cp ch next) mod 65536), []) (fun b' => write_attr_b b' r')
                     else None
                 end
               else bind_b (numref_b b ch, []) (fun b' => write_attr_b b' r)
           end
  end.

Definition cat_b (p : str * str) (k : str -> str * str) : str * str := let q := k (snd p) in (fst p ++ fst q, snd q).

Fixpoint write_uri_b (c : hcfg) (b : str) (s : str) : str * str :=
  match s with
  | [] => ([], b)
  | ch :: r =>
      if (ch <? uri_plain_from) || (uri_plain_to <? ch) then
        if esc_urls c then
          if ch =? 32 then cat_b ([32], b) (fun b' => write_uri_b c b' r)
          else if ch <=? 127 then cat_b (hexnum_b b ch, []) (fun b' => write_uri_b c b' r)
          else if ch <=? 2047 then cat_b (hexnum_b b (N.lor (N.shiftr ch 6) 192) ++ hexnum_b [] (N.lor (N.land ch 63) 128), []) (fun b' => write_uri_b c b' r)
          else if N.land ch 64512 =? 55296 then
            let nextChar := match r with [] => 0 | n :: _ => n end in
            let highSurrogate := N.land ch 1023 in
            let wwww := N.shiftr (N.land highSurrogate 960) 6 in
            let uuuuu := wwww + 1 in
            let zzzz := N.shiftr (N.land highSurrogate 60) 2 in
            let temp := N.land (N.shiftl (N.land highSurrogate 3) 4) 48 in
            let lowSurrogate := N.land nextChar 1023 in
            let yyyyyy := N.lor temp (N.shiftr (N.land lowSurrogate 960) 6) in
            let xxxxxx := N.land lowSurrogate 63 in
            cat_b (hexnum_b b (N.lor 240 (N.shiftr uuuuu 2)) ++
                   hexnum_b [] (N.lor (N.lor 128 (N.land (N.shiftl (N.land uuuuu 3) 4) 48)) zzzz) ++
                   hexnum_b [] (N.lor 128 yyyyyy) ++ hexnum_b [] (N.lor 128 xxxxxx), [])
                  (fun b' => match r with [] => ([], b') | _ :: t => write_uri_b c b' t end)
          else cat_b (hexnum_b b (N.lor (N.shiftr ch 12) 224) ++ hexnum_b [] (N.lor (N.shiftr (N.land ch 4032) 6) 128) ++
                      hexnum_b [] (N.lor (N.land ch 63) 128), []) (fun b' => write_uri_b c b' r)
        else if ch <? maxc c then cat_b (content_unit_b c b ch) (fun b' => write_uri_b c b' r)
        else if uri_noescape_pair_is_one_reference && is_high ch && (match r with n :: _ => is_lowsur n | [] => false end)
        then match r with
             | n :: r' => cat_b (numref_b b (pair_cp ch n), []) (fun b' => write_uri_b c b' r')
             | [] => ([], b)
             end
        else cat_b (numref_b b ch, []) (fun b' => write_uri_b c b' r)
      else if ch =? 34 then cat_b ((if esc_urls c then [37; 50; 50] else [38; 113; 117; 111; 116; 59]), b) (fun b' => write_uri_b c b' r)
      else if ch =? 38 then cat_b ([38; 97; 109; 112; 59], b) (fun b' => write_uri_b c b' r)
      else cat_b (content_unit_b c b ch) (fun b' => write_uri_b c b' r)
  end.

Fixpoint write_norm_b (c : hcfg) (b : str) (s : str) : option (str * str) :=
  match s with
  | [] => Some ([], b)
  | ch :: r =>
      let general :=
          if ch =? 10 then bind_b (newline, b) (fun b' => write_norm_b c b' r)
          else if ch <=? maxc c then
            if (55296 <=? ch) && (ch <? 57344) then
              match r with
              | [] => None
              | next :: r' => if (ch <? 56320) && is_lowsur next
                              then bind_b (cat_b (content_unit_b c b ch) (fun b' => content_unit_b c b' next)) (fun b' => write_norm_b c b' r') else None
              end
            else bind_b (content_unit_b c b ch) (fun b' => write_norm_b c b' r)
          else if is_lowsur ch then None
          else if is_high ch then
            match r with
            | [] => None
            | next :: r' => if is_lowsur next then bind_b (numref_b b (pair_cp ch next), []) (fun b' => write_norm_b c b' r') else None
            end
          else bind_b (numref_b b ch, []) (fun b' => write_norm_b c b' r) in
      match r with
      | 10 :: r' => if ch =? 13 then bind_b (newline, b) (fun b' => write_norm_b c b' r') else general
      | _ => general
      end
  end.

(* ---- the prefix resolver: the namespace declarations in scope (innermost first), as the XSLT engine's result namespace
   stack and the harness's resolver answer; None = no binding (getNamespaceForPrefix returns 0) ------------------------ *)
Definition xmlns_str : str := [120; 109; 108; 110; 115].
Fixpoint has_prefix_str (p s : str) : option str :=       (* the rest of s after p *)
  match p, s with
  | [], _ => Some s
  | x :: p', y :: s' => if x =? y then has_prefix_str p' s' else None
  | _, [] => None
  end.
Definition decl_of (a : str * str) : option (str * str) :=
  match has_prefix_str xmlns_str (fst a) with
  | Some [] => Some ([], snd a)
  | Some (58 :: p) => Some (p, snd a)
  | _ => None
  end.
Fixpoint decls (attrs : list (str * str)) : list (str * str) :=
  match attrs with
  | [] => []
  | a :: l => match decl_of a with Some d => d :: decls l | None => decls l end
  end.
Fixpoint lookup_ns (p : str) (ns : list (str * str)) : option str :=
  match ns with
  | [] => None
  | (k, u) :: ns' => if str_eqb k p then Some u else lookup_ns p ns'
  end.
(* indexOf(name, ':') < length: the part before the first colon *)
Fixpoint prefix_of (name : str) : option str :=
  match name with
  | [] => None
  | ch :: r => if ch =? 58 then Some [] else match prefix_of r with Some p => Some (ch :: p) | None => None end
  end.

(* pushHasNamespace: (the flag, the scratch string afterwards).  clr = doPushHasNamespace ends with m_stringBuffer.clear()
   (GenHtml.push_has_namespace_clears_buffer); res = a prefix resolver is set *)
Definition push_has_ns (clr res : bool) (ns : list (str * str)) (name b : str) : bool * str :=
  if res then
    let pfx := prefix_of name in
    let b1 := match pfx with Some p => p | None => b end in
    let uri := lookup_ns (match pfx with Some p => p | None => [] end) ns in
    (match uri with Some (_ :: _) => true | _ => false end, if clr then [] else b1)
  else (false, b).

Fixpoint has_prefix_units (p s : str) : bool :=
  match p, s with
  | [], _ => true
  | x :: p', y :: s' => (x =? y) && has_prefix_units p' s'
  | _, [] => false
  end.
Definition space_before_close (c : hcfg) : bool :=
  match dt_pub c with [] => false | p => has_prefix_units xhtml_doctype_prefix p end.

(* attributes *)
Definition ser_attr_b (c : hcfg) (elem : str) (b : str) (a : str * str) : option (str * str) :=
  let (name, value) := a in
  if (match value with [] => true | _ => eq_nocase name value end) && attr_is aflag_ATTREMPTY elem name
  then Some (32 :: acc_name c name, b)
  else
    match (if attr_is aflag_ATTRURL elem name then Some (write_uri_b c b value) else write_attr_b b value) with
    | Some (v, b') => Some (32 :: acc_name c name ++ [61; 34] ++ v ++ [34], b')
    | None => None
    end.
Fixpoint ser_attrs_b (c : hcfg) (elem : str) (b : str) (l : list (str * str)) : option (str * str) :=
  match l with
  | [] => Some ([], b)
  | a :: l' => match ser_attr_b c elem b a with
               | Some p => bind_b p (fun b' => ser_attrs_b c elem b' l')
               | None => None
               end
  end.
(* FormatterToXML::processAttribute(name, value) *)
Fixpoint ser_attrs_xml_b (c : hcfg) (b : str) (l : list (str * str)) : option (str * str) :=
  match l with
  | [] => Some ([], b)
  | (name, value) :: l' =>
      match write_attr_b b value with
      | Some (v, b1) => bind_b (32 :: acc_name c name ++ [61; 34] ++ v ++ [34], b1) (fun b' => ser_attrs_xml_b c b' l')
      | None => None
      end
  end.

Definition meta_tag_b (c : hcfg) (b : str) : str * str :=
  let p := acc_content_b c b (enc_name c) in (meta_string ++ fst p ++ [34; 62], snd p).

(* one node: result = (units written, the parent's `open` afterwards, the scratch string afterwards) *)
Fixpoint ser_node_b (clr res : bool) (c : hcfg) (top inscript raw open : bool) (ns : list (str * str)) (b : str) (n : hnode)
  : option (str * bool * str) :=
  match n with
  | HText s =>
      match s with
      | [] => Some ([], open, b)
      | _ => match (if inscript then Some (acc_content_b c b s) else if raw then write_norm_b c b s else write_chars_b c b s) with
             | Some (o, b') => Some (pte open ++ o, false, b')
             | None => None
             end
      end
  | HComment s => Some (pte open ++ [60; 33; 45; 45] ++ acc_name c s ++ [45; 45; 62], false, b)
  | HPI t d =>
      match (match d with
             | [] => Some ([], b)
             | d0 :: _ => match (if pi_data_is_escaped then write_chars_b c b d else Some (acc_content_b c b d)) with
                          | Some (o, b') => Some ((if is_xml_ws d0 then [] else [32]) ++ o, b')
                          | None => None
                          end
             end) with
      | Some (o, b') => Some (pte open ++ [60; 63] ++ acc_name c t ++ o ++ [62] ++ (if top then newline else []), false, b')
      | None => None
      end
  | HEl name attrs kids =>
      let ns' := decls attrs ++ ns in
      let hb := push_has_ns clr res ns' name b in
      let ser_kids := (fix ser_kids (top' ins' raw' : bool) (l : list hnode) (op : bool) (bk : str) : option (str * bool * str) :=
                   match l with
                   | [] => Some ([], op, bk)
                   | k :: l' => match ser_node_b clr res c top' ins' raw' op ns' bk k with
                                | Some (o, op1, b1) => match ser_kids top' ins' raw' l' op1 b1 with
                                                       | Some (o', op2, b2) => Some (o ++ o', op2, b2)
                                                       | None => None
                                                       end
                                | None => None
                                end
                   end) in
      if fst hb then
        (* FormatterToXML::startElement / endElement; no HTML stack is pushed: the children see the same level / script / raw *)
        match ser_attrs_xml_b c (snd hb) attrs with
        | None => None
        | Some (ao, b1) =>
            match ser_kids top inscript raw kids true b1 with
            | None => None
            | Some (ko, open_end, b2) =>
                Some (pte open ++ [60] ++ acc_name c name ++ ao ++ ko ++
                      (if open_end then (if space_before_close c then [32] else []) ++ [47; 62] else [60; 47] ++ acc_name c name ++ [62]), false, b2)
            end
        end
      else
        match ser_attrs_b c name (snd hb) attrs with
        | None => None
        | Some (ao, b1) =>
            let head := elem_is flag_HEADELEM name in
            let mt := if head && negb (omit_meta c) then meta_tag_b c b1 else ([], b1) in
            let o1 := pte open ++ [60] ++ acc_name c name ++ ao in
            let o2 := if head then 62 :: fst mt else [] in
            let inscript' := if elem_is flag_SCRIPTELEM name then true else inscript in
            let raw' := elem_is flag_RAW name in
            match ser_kids false inscript' raw' kids (negb head) (snd mt) with
            | None => None
            | Some (ko, open_end, b2) =>
                let empty := elem_is flag_EMPTY name in
                let etag := [60; 47] ++ acc_name c name ++ [62] in
                let o3 := if open_end then (if empty then [62] else 62 :: etag) else (if empty then [] else etag) in
                Some (o1 ++ o2 ++ ko ++ o3, false, b2)
            end
        end
  end.

Fixpoint ser_list_b (clr res : bool) (c : hcfg) (top inscript raw : bool) (ns : list (str * str)) (l : list hnode) (op : bool) (b : str)
  : option (str * bool * str) :=
  match l with
  | [] => Some ([], op, b)
  | k :: l' => match ser_node_b clr res c top inscript raw op ns b k with
               | Some (o, op1, b1) => match ser_list_b clr res c top inscript raw ns l' op1 b1 with
                                      | Some (o', op2, b2) => Some (o ++ o', op2, b2)
                                      | None => None
                                      end
               | None => None
               end
  end.

(* startDocument clears the scratch string; the DOCTYPE line; the events; endDocument *)
Definition serialize_html_b (clr res : bool) (c : hcfg) (doc : list hnode) : option (str * str) :=
  match ser_list_b clr res c true false false [] doc false [] with
  | Some (o, _, b) => Some (doctype_line c ++ o, b)
  | None => None
  end.

(* no namespace declaration anywhere: every element takes the HTML path whatever the resolver *)
Definition no_decl_attrs (attrs : list (str * str)) : bool := match decls attrs with [] => true | _ => false end.
Fixpoint no_decls (n : hnode) : bool :=
  match n with
  | HEl _ attrs kids => no_decl_attrs attrs && forallb no_decls kids
  | _ => true
  end.
