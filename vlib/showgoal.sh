#!/bin/sh
# usage: showgoal.sh File.v LINE  — print the goals just before LINE (debug helper)
f=$1; n=$2
t=/tmp/_dbg_$$.v
head -n $((n-1)) "$f" > $t
echo "Show. Abort." >> $t
cd "$(dirname "$f")" && timeout 300 coqc -Q . XV $t 2>&1 | tail -${3:-40}
rm -f $t /tmp/_dbg_$$.vo /tmp/_dbg_$$.glob /tmp/_dbg_$$.vok /tmp/_dbg_$$.vos /tmp/._dbg_$$.aux
