(* C14 — basic facts about addResultAttribute and the hazards (used by NsfixWhole.v).  The former
   one-instruction theorem for xsl:attribute is subsumed by the whole-program theorem. *)
From Coq Require Import List NArith Bool Lia ZifyBool ZifyNat ZifyN.
Require Import XV.GenNsfix XV.NsfixDefs XV.NsfixModel.
Import ListNotations.
Local Open Scope N_scope.

Lemma add_attribute_in : forall l a, In a (add_attribute l a).
Proof.
  induction l as [|b r IH]; simpl; intros a; auto.
  destruct (qname_eqb (a_name b) (a_name a)); simpl; auto.
Qed.

Lemma cons_neq_self : forall {A} (x : A) l, x :: l <> l.
Proof. intros A x l H. apply (f_equal (@length A)) in H. simpl in H. lia. Qed.

Lemma app_cons_neq_self : forall {A} (l1 : list A) x l, l1 ++ x :: l <> l.
Proof. intros A l1 x l H. apply (f_equal (@length A)) in H. rewrite app_length in H. simpl in H. lia. Qed.

Lemma add_result_attr_hz : forall s n v r, hz (add_result_attr s n v r) = hz s.
Proof.
  intros s [[[]|] l] v r; unfold add_result_attr; cbn [fst snd];
    repeat match goal with
           | |- context [match ?x with _ => _ end] => destruct x
           | |- context [if ?x then _ else _] => destruct x
           end; reflexivity.
Qed.

Lemma add_result_attr_pend : forall s n v r, pend (add_result_attr s n v r) = pend s.
Proof.
  intros s [[[]|] l] v r; unfold add_result_attr; cbn [fst snd];
    repeat match goal with
           | |- context [match ?x with _ => _ end] => destruct x
           | |- context [if ?x then _ else _] => destruct x
           end; reflexivity.
Qed.

Lemma add_result_attr_plain : forall s n v r, decl_prefix n = None ->
  add_result_attr s n v r = set_pattrs s (add_attr_x (stk s) (pattrs s) (mkAttr n v r)).
Proof.
  intros s [[[]|] []] v r H; simpl in H; try discriminate; reflexivity.
Qed.

(* emit_attr only ever adds hazards *)
Lemma emit_attr_hz_mono : forall s n v r, exists l, hz (emit_attr s n v r) = l ++ hz s.
Proof.
  intros. unfold emit_attr. rewrite add_result_attr_hz. unfold add_hz_if, add_hz.
  repeat match goal with |- context [if ?x then _ else _] => destruct x end; cbn [hz];
    [exists [HDeclAttr; HK17] | exists [HDeclAttr] | exists [HK17] | exists []]; reflexivity.
Qed.

Lemma decl_prefix_prefixed : forall q L, q <> AXmlns -> decl_prefix (Some q, L) = None.
Proof. intros [] L H; try reflexivity. contradiction. Qed.

Lemma declare_prefix_hz : forall s a u, hz (declare_prefix s a u) = hz s.
Proof. intros. apply add_result_attr_hz. Qed.

Lemma plain_not_xmlns : forall a, plain_atom a = true -> a <> AXmlns.
Proof. intros a H E. subst. discriminate. Qed.

