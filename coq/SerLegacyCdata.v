(* SerLegacyCdata.v — C04, part "legacy": a CDATA section written by the legacy serializer
   (cdata() + writeNormalizedChars(), SerLegacyDefs.lg_write_cdata) is read back by the model XML
   reader as the original string — for every string of Chars when the source has the repair
   fixes/C04/10-K-new-7 (lc_cdfix), and under the exact guard "no CR; version 1.1: no NEL, LSEP,
   control character" when it has not. *)
From Coq Require Import NArith List Bool Lia ZifyBool ZifyNat ZifyN.
Require Import XV.GenSerLegacy XV.SerDefs XV.XmlParseDefs XV.SerEscModel XV.SerLegacyDefs XV.SerLegacyModel
               XV.SerLegacyModel2.
Import ListNotations.
Local Open Scope N_scope.

(* characters that a parser does not read back from a literal inside a CDATA section *)
Definition lg_cd_esc (v11 : bool) (c : N) : bool :=
  (c =? 13) || (v11 && ((c =? 8232) || x_in 127 159 c || ((c <? 32) && negb (c =? 9) && negb (c =? 10)))).

Definition lg_cd_guard (g : lcfg) (s : list N) : bool :=
  lc_cdfix g || forallb (fun c => negb (lg_cd_esc (lc_v11 g) c)) s.

Section Cdata.
  Variable g : lcfg.
  Hypothesis Hm : lg_max_ok (lc_max g) = true.
  Let v11 := lc_v11 g.
  Let maxc := lc_max g.
  Let ref := lg_ref_in_cdata g.

  Definition clo (first : bool) : list N := if first then [] else lg_cdata_close.

  Lemma maxc_127 : 127 <= lc_max g.
  Proof. unfold lg_max_ok in Hm. lia. Qed.

  Lemma ref_char : forall c, xml_char v11 c = true ->
    ref c = (lc_max g <? c) || (lc_cdfix g && lg_cd_esc v11 c).
  Proof.
    intros c Hx. unfold ref, lg_ref_in_cdata, lg_cd_esc, x_in. fold v11. change lg_lsep with 8232.
    unfold xml_char, x_in in Hx. destruct v11, (lc_cdfix g); lia.
  Qed.

  Lemma norm_split : forall r first,
    lg_norm g (93 :: 93 :: 62 :: r) first = lg_lift lg_cdata_split (lg_norm g r false).
  Proof.
    intros r first. pose proof maxc_127 as M. cbn [lg_norm]. change (93 =? 13) with false. change (93 =? 10) with false.
    cbn [andb]. assert (E : lg_ref_in_cdata g 93 = false).
    { unfold lg_ref_in_cdata. change lg_lsep with 8232. destruct (lc_cdfix g), (lc_v11 g); lia. }
    rewrite E. reflexivity.
  Qed.

  Lemma norm_newline : forall r first, lg_norm g (10 :: r) first = lg_lift [10] (lg_norm g r false).
  Proof. intros r first. cbn [lg_norm]. reflexivity. Qed.

  Lemma first_cond_ref : forall c r, lg_ref_in_cdata g c = true ->
    ((c =? 13) && (match r with n :: _ => n =? 10 | [] => false end)
     && negb (lc_cdfix g && lg_ref_in_cdata g c)) = false.
  Proof.
    intros c r H. pose proof maxc_127 as M. rewrite H. destruct (c =? 13) eqn:E; [|reflexivity].
    unfold lg_ref_in_cdata in H. destruct (lc_cdfix g); [rewrite andb_false_r; reflexivity|]. lia.
  Qed.

  Lemma norm_ref : forall c r first, xml_char v11 c = true -> x_high c = false -> x_low c = false ->
    ref c = true ->
    lg_norm g (c :: r) first = lg_lift (clo first ++ charref c ++ lg_reopen r) (lg_norm g r false).
  Proof.
    intros c r first Hx Hh Hl Hr. unfold ref in Hr. cbn [lg_norm]. rewrite (first_cond_ref c r Hr), Hr.
    assert (E10 : (c =? 10) = false).
    { destruct (c =? 10) eqn:E; [|reflexivity]. pose proof maxc_127. unfold lg_ref_in_cdata in Hr.
      change lg_lsep with 8232 in Hr. lia. }
    rewrite E10.
    assert (Et : (lc_cdfix g && (c <? 32) && negb (c =? 13) && negb (lc_v11 g)) = false).
    { pose proof maxc_127. unfold lg_ref_in_cdata in Hr. change lg_lsep with 8232 in Hr.
      fold v11. unfold xml_char, x_in in Hx. destruct v11, (lc_cdfix g); lia. }
    rewrite Et, lg_high_x, Hh, lg_low_x, Hl, andb_false_r. reflexivity.
  Qed.

  Lemma norm_refpair : forall hi lo r first, x_high hi = true -> x_low lo = true -> (lc_max g <? hi) = true ->
    lg_norm g (hi :: lo :: r) first =
    lg_lift (clo first ++ charref (decode_pair hi lo) ++ lg_reopen r) (lg_norm g r false).
  Proof.
    intros hi lo r first Hh Hl Hmax. assert (Hr : lg_ref_in_cdata g hi = true) by (unfold lg_ref_in_cdata; rewrite Hmax; reflexivity).
    assert (Hh' := Hh). unfold x_high, x_in in Hh'.
    cbn [lg_norm]. rewrite (first_cond_ref hi (lo :: r) Hr), Hr.
    assert (E10 : (hi =? 10) = false) by lia. rewrite E10.
    assert (Et : (hi <? 32) = false) by lia. rewrite Et, andb_false_r. cbn [andb].
    rewrite lg_high_x, Hh, lg_low_x, Hl, (lg_decode_pair _ _ Hh Hl). reflexivity.
  Qed.

  Lemma sur_not_ref : forall c, x_high c = true \/ x_low c = true -> (lc_max g <? c) = false ->
    lg_ref_in_cdata g c = false /\ (c =? 13) = false /\ (c =? 10) = false /\ (c =? 93) = false.
  Proof.
    intros c H E. unfold lg_ref_in_cdata. rewrite E. change lg_lsep with 8232.
    unfold x_high, x_low, x_in in H. destruct (lc_cdfix g), (lc_v11 g); lia.
  Qed.

  Lemma norm_rawpair : forall hi lo r first, x_high hi = true -> x_low lo = true -> (lc_max g <? hi) = false ->
    lg_norm g (hi :: lo :: r) first = lg_lift [hi; lo] (lg_norm g r false).
  Proof.
    intros hi lo r first Hh Hl Hmax.
    assert (Hmax2 : (lc_max g <? lo) = false).
    { unfold lg_max_ok in Hm. unfold x_high, x_low, x_in in *. lia. }
    destruct (sur_not_ref hi (or_introl Hh) Hmax) as (R1 & A1 & B1 & C1).
    destruct (sur_not_ref lo (or_intror Hl) Hmax2) as (R2 & A2 & B2 & C2).
    cbn [lg_norm]. rewrite A1, B1, C1, R1, A2, B2, C2, R2. cbn [andb].
    rewrite !lg_sur_x, !lg_high_x, !lg_low_x, Hh, Hl. cbn [orb andb]. rewrite orb_true_r.
    unfold lg_put. rewrite Hmax, Hmax2.
    destruct (lc_surfix g); cbn [andb app]; destruct (lg_norm g r false); reflexivity.
  Qed.

  Lemma norm_lit : forall c r first, x_high c = false -> x_low c = false -> ref c = false ->
    (c =? 10) = false -> (c =? 13) = false -> split3 (c :: r) = false ->
    lg_norm g (c :: r) first = lg_lift [c] (lg_norm g r false).
  Proof.
    intros c r first Hh Hl Hr E10 E13 Es. unfold ref in Hr. cbn [lg_norm]. rewrite E13, E10, Hr. cbn [andb].
    assert (Em : (lc_max g <? c) = false) by (unfold lg_ref_in_cdata in Hr; lia).
    assert (Eo : lg_lift (lg_put g c) (lg_norm g r false) = lg_lift [c] (lg_norm g r false)).
    { unfold lg_put. rewrite Em. reflexivity. }
    rewrite lg_sur_x, Hh, Hl, andb_false_r.
    destruct (c =? 93) eqn:E93; [|exact Eo].
    destruct r as [|a [|b r'']]; try exact Eo.
    cbn [split3] in Es. rewrite E93 in Es. cbn [andb] in Es. rewrite Es. exact Eo.
  Qed.

  (* ---- the reader ---------------------------------------------------------------------------- *)
  Lemma scan_refpair : forall hi lo rest f, x_high hi = true -> x_low lo = true ->
    scan_content v11 (S f) false (charref (decode_pair hi lo) ++ rest) =
    option_map (fun t => hi :: lo :: t) (scan_content v11 f false rest).
  Proof.
    intros hi lo rest f Hh Hl. pose proof (decode_char v11 hi lo Hh Hl) as Hx.
    unfold charref. cbn [app scan_content]. change (38 =? 38) with true. cbv iota.
    rewrite <- app_assoc. cbn [app]. rewrite parse_ref_charref by exact Hx.
    rewrite (units_of_decode _ _ Hh Hl). destruct (scan_content v11 f false rest); reflexivity.
  Qed.

  Lemma ref_plain : forall c, 32 <= c -> c < 127 -> ref c = false.
  Proof.
    intros c H1 H2. pose proof maxc_127 as M. unfold ref, lg_ref_in_cdata. change lg_lsep with 8232.
    destruct (lc_cdfix g), (lc_v11 g); lia.
  Qed.

  Lemma ref_10 : ref 10 = false.
  Proof.
    pose proof maxc_127 as M. unfold ref, lg_ref_in_cdata. change lg_lsep with 8232.
    destruct (lc_cdfix g), (lc_v11 g); lia.
  Qed.

  Lemma ref_low_of_high : forall hi lo, x_high hi = true -> x_low lo = true ->
    (lc_max g <? lo) = (lc_max g <? hi).
  Proof. intros hi lo Hh Hl. unfold lg_max_ok in Hm. unfold x_high, x_low, x_in in *. lia. Qed.

  Lemma lit_facts : forall c, xml_char v11 c = true -> lg_cd_esc v11 c = false ->
    literal_ok v11 c = true /\ eolfree v11 c = true /\ (c =? 13) = false.
  Proof.
    intros c Hx Hne. unfold literal_ok, restricted_char, eolfree. rewrite Hx.
    unfold lg_cd_esc, x_in in *. unfold xml_char, x_in in Hx. destruct v11; lia.
  Qed.

  Lemma guard_esc : forall c r, xml_char v11 c = true -> ref c = false -> lg_cd_guard g (c :: r) = true ->
    lg_cd_esc v11 c = false.
  Proof.
    intros c r Hx Rc Hg. rewrite (ref_char c Hx) in Rc. unfold lg_cd_guard in Hg. cbn [forallb] in Hg. fold v11 in Hg.
    destruct (lc_cdfix g); lia.
  Qed.

  Definition end_out (s : list N) (o : bool) : bool :=
    match s with [] => o | c :: r => ref (lg_last r c) end.

  Definition next_o (c : N) (r : list N) : bool := match r with [] => ref c | _ => false end.

  Lemma end_out_cons : forall c r o, end_out (c :: r) o = end_out r (next_o c r).
  Proof. intros c [|d r] o; reflexivity. Qed.

  Lemma end_out_cons2 : forall c d r o, end_out (c :: d :: r) o = end_out r (next_o d r).
  Proof. intros c d [|e r] o; reflexivity. Qed.

  Lemma reopen_scan : forall r f rest, (length (lg_reopen r) < f)%nat ->
    scan_content v11 f false (lg_reopen r ++ rest) =
    scan_content v11 (if lg_nonempty r then pred f else f) (lg_nonempty r) rest.
  Proof.
    intros [|d r] f rest Hf; cbn [lg_reopen lg_nonempty app]; [reflexivity|].
    destruct f as [|f]; [cbn in Hf; lia|]. apply scan_open.
  Qed.

  Lemma cdata_main : forall n s first o, (length s <= n)%nat -> wf_text v11 s = true -> small s = true ->
    lg_cd_guard g s = true ->
    (match s with [] => True | c :: _ => o = first && ref c end) ->
    exists body, lg_norm g s first = Ok body /\ forallb (eolfree v11) body = true /\
      (o = false -> inv s (body ++ cls (end_out s o))) /\
      forall f, (length (body ++ cls (end_out s o)) < f)%nat ->
        scan_content v11 f (negb o) (body ++ cls (end_out s o)) = Some s.
  Proof.
    induction n as [|n IH]; intros s first o Hlen Hw Hsm Hg Ho.
    { destruct s; [|clear -Hlen; cbn in Hlen; lia]. exists []. split; [reflexivity|]. split; [reflexivity|].
      split; [intros ->; split; intros H; discriminate H|].
      intros f Hf. cbn [end_out] in *. destruct o; cbn [app cls length] in Hf; [destruct f as [|f]; [clear -Hf; lia|reflexivity]|].
      do 2 (destruct f as [|f]; [clear -Hf; unfold s_cdata_close in Hf; cbn [length] in Hf; lia|]). reflexivity. }
    destruct s as [|c r].
    { exists []. split; [reflexivity|]. split; [reflexivity|].
      split; [intros ->; split; intros H; discriminate H|].
      intros f Hf. cbn [end_out] in *. destruct o; cbn [app cls length] in Hf; [destruct f as [|f]; [clear -Hf; lia|reflexivity]|].
      do 2 (destruct f as [|f]; [clear -Hf; unfold s_cdata_close in Hf; cbn [length] in Hf; lia|]). reflexivity. }
    assert (Hgr : forall r', (exists p, c :: r = p ++ r') -> lg_cd_guard g r' = true).
    { clear -Hg. intros r' [p Hp]. unfold lg_cd_guard in *. destruct (lc_cdfix g); [reflexivity|]. cbn [orb] in *.
      rewrite Hp, forallb_app in Hg. apply andb_true_iff in Hg. apply Hg. }
    assert (Hsr : forall r', (exists p, c :: r = p ++ r') -> small r' = true).
    { clear -Hsm. intros r' [p Hp]. unfold small in *. rewrite Hp, forallb_app in Hsm. apply andb_true_iff in Hsm. apply Hsm. }
    pose proof maxc_127 as M127.
    destruct (split3 (c :: r)) eqn:Es.
    - (* "]]>" *)
      destruct r as [|a [|b r]]; try discriminate. cbn [split3] in Es.
      assert (c = 93 /\ a = 93 /\ b = 62) as (-> & -> & ->) by (clear -Es; lia).
      assert (Hw' : wf_text v11 r = true).
      { cbn [wf_text] in Hw. change (x_high 93) with false in Hw. change (x_low 93) with false in Hw.
        change (x_high 62) with false in Hw. change (x_low 62) with false in Hw. cbv iota in Hw.
        repeat (apply andb_true_iff in Hw; destruct Hw as [_ Hw]). exact Hw. }
      assert (R93 : ref 93 = false) by (apply ref_plain; clear; lia).
      assert (R62 : ref 62 = false) by (apply ref_plain; clear; lia).
      rewrite R93, andb_false_r in Ho. subst o.
      assert (No : next_o 62 r = false) by (destruct r; [exact R62|reflexivity]).
      destruct (IH r false (next_o 62 r) ltac:(clear -Hlen; cbn [length] in Hlen; lia) Hw'
                  (Hsr r (ex_intro _ [93; 93; 62] eq_refl)) (Hgr r (ex_intro _ [93; 93; 62] eq_refl))
                  ltac:(destruct r; [exact I|reflexivity])) as (body & Hp & He & _ & Hsc).
      rewrite norm_split, Hp. cbn [lg_lift].
      replace (end_out (93 :: 93 :: 62 :: r) false) with (end_out r (next_o 62 r))
        by (destruct r; reflexivity).
      rewrite No in *. cbn [negb] in Hsc.
      eexists. split; [reflexivity|]. split.
      { rewrite forallb_app, He. destruct v11; reflexivity. }
      split.
      { intros _. split; intros H; discriminate H. }
      intros f Hf. rewrite !app_length in Hf. change (length lg_cdata_split) with 15%nat in Hf.
      rewrite <- app_assoc. cbn [negb].
      do 5 (destruct f as [|f]; [clear -Hf; lia|]).
      change (lg_cdata_split ++ body ++ cls (end_out r false))
        with ([93; 93] ++ s_cdata_close ++ s_cdata_open ++ 62 :: (body ++ cls (end_out r false))).
      rewrite scan_cdata_split. rewrite Hsc by (rewrite app_length; clear -Hf; lia). reflexivity.
    - cbn [wf_text] in Hw. destruct (x_high c) eqn:Eh.
      + (* surrogate pair *)
        destruct r as [|lo r]; [discriminate|]. apply andb_true_iff in Hw. destruct Hw as [El Hw].
        assert (Hh' := Eh). assert (Hl' := El). unfold x_high, x_low, x_in in Hh', Hl'.
        pose proof (Hsr r (ex_intro _ [c; lo] eq_refl)) as Hsr'.
        pose proof (Hgr r (ex_intro _ [c; lo] eq_refl)) as Hgr'.
        rewrite end_out_cons2.
        destruct (lc_max g <? c) eqn:Emax.
        * (* written as one reference, outside the section *)
          assert (Rc : ref c = true) by (unfold ref, lg_ref_in_cdata; rewrite Emax; reflexivity).
          assert (Rl : ref lo = true).
          { unfold ref, lg_ref_in_cdata. rewrite (ref_low_of_high c lo Eh El), Emax. reflexivity. }
          rewrite Rc, andb_true_r in Ho. subst o.
          destruct (IH r false (next_o lo r) ltac:(clear -Hlen; cbn [length] in Hlen; lia) Hw Hsr' Hgr'
                      ltac:(destruct r; [exact I|reflexivity])) as (body & Hp & He & _ & Hsc).
          rewrite norm_refpair, Hp by assumption. cbn [lg_lift].
          pose proof (decode_char v11 c lo Eh El) as Hx.
          eexists. split; [reflexivity|]. split.
          { rewrite !forallb_app, He, charref_eolfree. destruct first, r, v11; reflexivity. }
          split.
          { intros ->. cbn [clo app]. split; intros H; discriminate H. }
          intros f Hf. rewrite !app_length in Hf. pose proof (charref_length (decode_pair c lo)) as Hcl.
          rewrite <- !app_assoc.
          assert (Step : forall f', (length (lg_reopen r) + length (body ++ cls (end_out r (next_o lo r))) + 1 < f')%nat ->
                    scan_content v11 f' false (charref (decode_pair c lo) ++ lg_reopen r ++ body ++ cls (end_out r (next_o lo r)))
                    = Some (c :: lo :: r)).
          { intros f' Hf'. destruct f' as [|f']; [clear -Hf'; lia|]. rewrite scan_refpair by assumption.
            rewrite reopen_scan by (clear -Hf'; lia). destruct r as [|d r].
            - cbn [lg_nonempty next_o] in *. rewrite Rl in *. cbn [negb] in Hsc. rewrite Hsc; [reflexivity|].
              cbn [lg_reopen length] in Hf'. clear -Hf'. lia.
            - cbn [lg_nonempty next_o] in *. cbn [negb] in Hsc. rewrite Hsc; [reflexivity|].
              change (length (lg_reopen (d :: r))) with 9%nat in Hf'. clear -Hf'. cbn [pred]. lia. }
          destruct first; cbn [clo negb app].
          -- apply Step. clear -Hf Hcl. cbn [clo length] in Hf. rewrite app_length. lia.
          -- destruct f as [|f]; [clear -Hf; lia|].
             change (lg_cdata_close ++ charref (decode_pair c lo) ++ lg_reopen r ++ body ++ cls (end_out r (next_o lo r)))
               with (s_cdata_close ++ (charref (decode_pair c lo) ++ lg_reopen r ++ body ++ cls (end_out r (next_o lo r)))).
             rewrite scan_close. apply Step. clear -Hf Hcl. change (length (clo false)) with 3%nat in Hf. rewrite app_length. lia.
        * (* both units as they are, inside the section *)
          assert (Emax2 : (lc_max g <? lo) = false) by (rewrite (ref_low_of_high c lo Eh El); exact Emax).
          destruct (sur_not_ref c (or_introl Eh) Emax) as (Rc & _ & _ & E93).
          destruct (sur_not_ref lo (or_intror El) Emax2) as (Rl & _ & _ & _).
          fold ref in Rc, Rl. rewrite Rc, andb_false_r in Ho. subst o.
          assert (No : next_o lo r = false) by (destruct r; [exact Rl|reflexivity]).
          destruct (IH r false (next_o lo r) ltac:(clear -Hlen; cbn [length] in Hlen; lia) Hw Hsr' Hgr'
                      ltac:(destruct r; [exact I|reflexivity])) as (body & Hp & He & _ & Hsc).
          rewrite norm_rawpair, Hp by assumption. cbn [lg_lift]. rewrite No in *. cbn [negb] in Hsc.
          eexists. split; [reflexivity|]. split.
          { cbn [app forallb]. rewrite He. clear -Hh' Hl'. unfold eolfree. destruct v11; lia. }
          split.
          { intros _. cbn [app]. split; intros H; exfalso.
            - cbn [st1] in H. clear -H Hh'. lia.
            - cbn [st2] in H. clear -H Hh'. lia. }
          intros f Hf. cbn [app length] in Hf. cbn [negb app].
          destruct f as [|f]; [clear -Hf; lia|].
          rewrite scan_cdata_pair by assumption. rewrite Hsc by (clear -Hf; lia). reflexivity.
      + destruct (x_low c) eqn:El; [discriminate|]. apply andb_true_iff in Hw. destruct Hw as [Hx Hw].
        pose proof (Hsr r (ex_intro _ [c] eq_refl)) as Hsr'.
        pose proof (Hgr r (ex_intro _ [c] eq_refl)) as Hgr'.
        assert (Hc16 : c < 65536) by (clear -Hsm; unfold small in Hsm; cbn [forallb] in Hsm; lia).
        rewrite end_out_cons.
        destruct (c =? 10) eqn:E10.
        { (* line feed *)
          apply N.eqb_eq in E10. subst c.
          pose proof ref_10 as R10.
          rewrite R10, andb_false_r in Ho. subst o.
          assert (No : next_o 10 r = false) by (destruct r; [exact R10|reflexivity]).
          destruct (IH r false (next_o 10 r) ltac:(clear -Hlen; cbn [length] in Hlen; lia) Hw Hsr' Hgr'
                      ltac:(destruct r; [exact I|reflexivity])) as (body & Hp & He & _ & Hsc).
          rewrite norm_newline, Hp. cbn [lg_lift]. rewrite No in *. cbn [negb] in Hsc.
          eexists. split; [reflexivity|]. split.
          { cbn [app forallb]. rewrite He. destruct v11; reflexivity. }
          split.
          { intros _. apply (inv_head _ 10 (body ++ cls (end_out r false))); reflexivity. }
          intros f Hf. cbn [app length] in Hf. destruct f as [|f]; [clear -Hf; lia|]. cbn [app negb].
          rewrite scan_newline. rewrite Hsc by (clear -Hf; lia). reflexivity. }
        destruct (ref c) eqn:Rc.
        { (* leaves the section as a reference *)
          rewrite andb_true_r in Ho. subst o.
          destruct (IH r false (next_o c r) ltac:(clear -Hlen; cbn [length] in Hlen; lia) Hw Hsr' Hgr'
                      ltac:(destruct r; [exact I|reflexivity])) as (body & Hp & He & _ & Hsc).
          rewrite norm_ref, Hp by assumption. cbn [lg_lift].
          eexists. split; [reflexivity|]. split.
          { rewrite !forallb_app, He, charref_eolfree. destruct first, r, v11; reflexivity. }
          split.
          { intros ->. cbn [clo app]. split; intros H; discriminate H. }
          intros f Hf. rewrite !app_length in Hf. pose proof (charref_length c) as Hcl.
          rewrite <- !app_assoc.
          assert (Step : forall f', (length (lg_reopen r) + length (body ++ cls (end_out r (next_o c r))) + 1 < f')%nat ->
                    scan_content v11 f' false (charref c ++ lg_reopen r ++ body ++ cls (end_out r (next_o c r)))
                    = Some (c :: r)).
          { intros f' Hf'. destruct f' as [|f']; [clear -Hf'; lia|]. rewrite scan_ref by assumption.
            rewrite reopen_scan by (clear -Hf'; lia). destruct r as [|d r].
            - cbn [lg_nonempty next_o] in *. rewrite Rc in *. cbn [negb] in Hsc. rewrite Hsc; [reflexivity|].
              cbn [lg_reopen length] in Hf'. clear -Hf'. lia.
            - cbn [lg_nonempty next_o] in *. cbn [negb] in Hsc. rewrite Hsc; [reflexivity|].
              change (length (lg_reopen (d :: r))) with 9%nat in Hf'. clear -Hf'. cbn [pred]. lia. }
          destruct first; cbn [clo negb app].
          - apply Step. clear -Hf Hcl. cbn [clo length] in Hf. rewrite app_length. lia.
          - destruct f as [|f]; [clear -Hf; lia|].
            change (lg_cdata_close ++ charref c ++ lg_reopen r ++ body ++ cls (end_out r (next_o c r)))
              with (s_cdata_close ++ (charref c ++ lg_reopen r ++ body ++ cls (end_out r (next_o c r)))).
            rewrite scan_close. apply Step. clear -Hf Hcl. change (length (clo false)) with 3%nat in Hf. rewrite app_length. lia. }
        (* an ordinary character, inside the section *)
        rewrite andb_false_r in Ho. subst o.
        pose proof (guard_esc c r Hx Rc Hg) as Hne.
        destruct (lit_facts c Hx Hne) as (Hlit & Heol & E13).
        assert (No : next_o c r = false) by (destruct r; [exact Rc|reflexivity]).
        destruct (IH r false (next_o c r) ltac:(clear -Hlen; cbn [length] in Hlen; lia) Hw Hsr' Hgr'
                    ltac:(destruct r; [exact I|reflexivity])) as (body & Hp & He & Hinv & Hsc).
        rewrite norm_lit, Hp by assumption. cbn [lg_lift]. rewrite No in *. cbn [negb] in Hsc.
        destruct (Hinv eq_refl) as [I1 I2].
        assert (Hsafe : starts_with [93; 93; 62] (c :: body ++ cls (end_out r false)) = None).
        { apply bracket_safe. destruct (c =? 93) eqn:E93; [|reflexivity]. cbn [andb].
          destruct (st2 (body ++ cls (end_out r false))) eqn:E2; [|reflexivity].
          specialize (I2 eq_refl). apply N.eqb_eq in E93. subst c.
          destruct r as [|a [|b r]]; cbn [st2] in I2; try discriminate.
          cbn [split3] in Es. change (93 =? 93) with true in Es. cbn [andb] in Es. congruence. }
        eexists. split; [reflexivity|]. split.
        { cbn [app forallb]. rewrite He, Heol. reflexivity. }
        split.
        { intros _. cbn [app]. split; intros H.
          - exact H.
          - rewrite st2_cons in *. apply andb_true_iff in H. destruct H as [H1 H2].
            rewrite H1, (I1 H2). reflexivity. }
        intros f Hf. cbn [app length] in Hf. cbn [app negb].
        destruct f as [|f]; [clear -Hf; lia|].
        rewrite scan_cdata_lit; auto. rewrite Hsc by (clear -Hf; lia). reflexivity.
  Qed.

  Theorem legacy_cdata_roundtrip_guarded : forall s, wf_text v11 s = true -> small s = true ->
    lg_cd_guard g s = true ->
    exists bs, lg_write_cdata g s = Ok bs /\ parse_content v11 bs = Some s.
  Proof.
    intros s Hw Hsm Hg. destruct s as [|c r].
    { exists []. split; reflexivity. }
    destruct (cdata_main (length (c :: r)) (c :: r) true (ref c) (le_n _) Hw Hsm Hg eq_refl)
      as (body & Hp & He & _ & Hsc).
    unfold lg_write_cdata. rewrite Hp. fold ref. cbn [end_out] in Hsc.
    eexists. split; [reflexivity|].
    unfold parse_content. rewrite eol_norm_free.
    - destruct (ref c); cbn [negb app] in *.
      + apply Hsc. unfold cls. unfold lt. apply le_n.
      + change (lg_cdata_open ++ body ++ (if ref (lg_last r c) then [] else lg_cdata_close))
          with (s_cdata_open ++ (body ++ cls (ref (lg_last r c)))).
        rewrite scan_open. apply Hsc. rewrite (app_length s_cdata_open). unfold s_cdata_open. cbn [length].
        clear. lia.
    - rewrite !forallb_app, He. destruct (ref c), (ref (lg_last r c)), v11; reflexivity.
  Qed.
End Cdata.
