(* model side of the C03 "errors" correspondence (props/C03_errors.py).
   lines:  <id> V <n> <start> <table>     lazy evaluation of top-level variable <start>; table = per variable
                                          the comma-separated references, variables separated by ';', '-' = none
           <id> A <n> <start> <table>     the same for attribute sets (nothing stored)
           <id> T graph <start> <table>   template instantiation with the generated limit
           <id> T ladder <k>              template k instantiates k-1 ... 0 (a chain of k+1 instantiations)
           <id> X <depth>                 XPath parser nesting counter at <depth>
   output: <id> ok <high-water mark> | <id> circ <variable> <stack depth at the throw> | <id> deep <variable> <stack depth>
           (nesting limit of the variant that has one) | <id> err <high-water mark>
           | <id> fuel | <id> accept | <id> refuse *)
let table_of (s : string) : nat list array =
  let rows = String.split_on_char ';' s in
  Array.of_list (List.map (fun r ->
    if r = "-" || r = "" then []
    else List.map (fun x -> nat_of_int (int_of_string x)) (String.split_on_char ',' r)) rows)

let fn_of (t : nat list array) : nat -> nat list =
  fun v -> let i = int_of_nat v in if i < Array.length t then t.(i) else []

let show_g (r : gres) : string =
  match r with
  | GOk s -> Printf.sprintf "ok %d" (int_of_nat s.g_hw)
  | GCirc (s, w) -> Printf.sprintf "circ %d %d" (int_of_nat w) (List.length s.g_guard)
  | GDeep (s, w) -> Printf.sprintf "deep %d %d" (int_of_nat w) (List.length s.g_guard)
  | GFuel -> "fuel"

let show_t (r : tres) : string =
  match r with
  | TOk s -> Printf.sprintf "ok %d" (int_of_n s.t_hw)
  | TErr s -> Printf.sprintf "err %d" (int_of_n s.t_hw)
  | TFuel -> "fuel"

let ladder : nat -> nat list = fun k -> match k with O -> [] | S k' -> [k']

let () =
  let ic = if Array.length Sys.argv > 1 then open_in Sys.argv.(1) else stdin in
  let tfuel = S (nat_of_int (int_of_n template_nesting_limit)) in
  iter_lines ic (fun line ->
    match split_ws line with
    | id :: "V" :: n :: v :: t :: _ ->
        let n = nat_of_int (int_of_string n) in
        Printf.printf "%s %s\n" id
          (show_g (g_eval variable_guard_search variable_value_stored variable_dlimit (fn_of (table_of t)) (S n) g_init (nat_of_int (int_of_string v))))
    | id :: "A" :: n :: v :: t :: _ ->
        let n = nat_of_int (int_of_string n) in
        Printf.printf "%s %s\n" id
          (show_g (g_eval attribute_set_guard_search attribute_set_value_stored None (fn_of (table_of t)) (S n) g_init (nat_of_int (int_of_string v))))
    | id :: "T" :: "graph" :: v :: t :: _ ->
        Printf.printf "%s %s\n" id
          (show_t (t_call template_limit_cmp template_nesting_limit (fn_of (table_of t)) tfuel (t_init template_stack_initial) (nat_of_int (int_of_string v))))
    | id :: "T" :: "ladder" :: k :: _ ->
        Printf.printf "%s %s\n" id
          (show_t (t_call template_limit_cmp template_nesting_limit ladder tfuel (t_init template_stack_initial) (nat_of_int (int_of_string k))))
    | id :: "X" :: d :: _ ->
        Printf.printf "%s %s\n" id
          (if nesting_refused xpath_nesting_cmp xpath_nesting_limit (n_of_int (int_of_string d)) then "refuse" else "accept")
    | _ -> ())
