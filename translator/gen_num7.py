"""C17 — facts of XSLT/ElemNumber.cpp, XSLT/CountersTable.cpp and PlatformSupport/XalanNumberFormat.cpp
consumed by coq/Num7FmtDefs.v / Num7CountDefs.v (GenNum7.v): the alphabetic and roman tables, the
roman limit, the buffer length, the error string, and the recognised shape of int2alphaCount,
toRoman, the getFormattedNumber switch, applyGrouping, countNode / getPreviouslyCounted /
appendBtoFList and the navigation functions.  Fail closed."""
import re
import srcfacts
from srcfacts import AnchorError, need, read, strip_comments, function_body, HEADER


def _squeeze(s):
    s = re.sub(r"\s+", " ", s).strip()
    return re.sub(r"(?<![A-Za-z0-9_]) | (?![A-Za-z0-9_])", "", s)


def _norm(s):
    return _squeeze(strip_comments(s))


def lit(snippet):
    parts = re.split(r"(@INT@|@ANY@)", snippet)
    rx = ""
    for p in parts:
        if p == "@INT@":
            rx += r"(\d+)"
        elif p == "@ANY@":
            rx += r".*?"
        else:
            rx += re.escape(_squeeze(p)) if p.strip() else ""
    return rx


def _unicode_consts():
    t = strip_comments(read("PlatformSupport/XalanUnicode.hpp"))
    env = {}
    for m in re.finditer(r"static\s+const\s+XalanDOMChar\s+(\w+)\s*=\s*(0x[0-9A-Fa-f]+|\d+)\s*;", t):
        env[m.group(1)] = int(m.group(2), 0)
    if "charLetter_A" not in env:
        raise AnchorError("XalanUnicode.hpp: character constants not recognised")
    return env


def _chars(txt, env, what):
    out = []
    for e in [x.strip() for x in txt.split(",") if x.strip()]:
        mm = re.fullmatch(r"XalanUnicode::(\w+)", e)
        if mm:
            if mm.group(1) not in env:
                raise AnchorError("%s: unknown character constant %s" % (what, e))
            out.append(env[mm.group(1)])
        elif re.fullmatch(r"0x[0-9A-Fa-f]+|\d+", e):
            out.append(int(e, 0))
        else:
            raise AnchorError("%s: unexpected table entry %r" % (what, e))
    return out


def _zstr(txt, env, what):
    cs = _chars(txt, env, what)
    if not cs or cs[-1] != 0 or 0 in cs[:-1]:
        raise AnchorError(what + ": not a 0-terminated character array")
    return cs[:-1]


def coq_nlist(xs):
    return "[" + "; ".join("%d" % x for x in xs) + "]%N"


def gen_num7():
    env = _unicode_consts()
    src = read("XSLT/ElemNumber.cpp")
    cpp = strip_comments(src)
    ct = read("XSLT/CountersTable.cpp")
    cth = strip_comments(read("XSLT/CountersTable.hpp"))
    nf = read("PlatformSupport/XalanNumberFormat.cpp")
    facts = {}

    # --- tables ------------------------------------------------------------------------------
    m = need(r"ElemNumber::s_alphaCountTable\s*\[\s*\]\s*=\s*\{(.*?)\}\s*;", cpp, "s_alphaCountTable")
    alpha = _zstr(m.group(1), env, "s_alphaCountTable")
    need(r"#\s*define\s+ELEMNUMBER_SIZE\s*\(\s*str\s*\)\s*\(\(sizeof\(str\)\s*/\s*sizeof\(str\[0\]\)\s*-\s*1\)\)", src, "ELEMNUMBER_SIZE = element count - 1")
    need(r"ElemNumber::s_alphaCountTableSize\s*=\s*ELEMNUMBER_SIZE\(s_alphaCountTable\)", cpp, "s_alphaCountTableSize")
    m = need(r"ElemNumber::s_errorString\s*\[\s*\]\s*=\s*\{(.*?)\}\s*;", cpp, "s_errorString")
    err = _zstr(m.group(1), env, "s_errorString")
    m = need(r"ElemNumber::s_romanConvertTable\s*\[\s*\]\s*=\s*\{(.*?)\}\s*;\s*const\s+size_t\s+ElemNumber::s_romanConvertTableSize", cpp, "s_romanConvertTable")
    roman = []
    body = m.group(1)
    ents = re.findall(r"\{\s*(\d+)\s*,\s*\{([^{}]*)\}\s*,\s*(\d+)\s*,\s*\{([^{}]*)\}\s*\}", body)
    if not ents or len(ents) != body.count("{") // 3:
        raise AnchorError("s_romanConvertTable: entries not recognised")
    for pv, pl, qv, ql in ents:
        roman.append((int(pv), _zstr(pl, env, "roman post letter"), int(qv), _zstr(ql, env, "roman pre letter")))
    dh = strip_comments(read("XSLT/DecimalToRoman.hpp"))
    need(r"ValueType\s+m_postValue\s*;\s*XalanDOMChar\s+m_postLetter\s*\[[^\]]*\]\s*;\s*ValueType\s+m_preValue\s*;\s*XalanDOMChar\s+m_preLetter", dh,
         "DecimalToRoman field order (postValue, postLetter, preValue, preLetter)")

    # --- int2alphaCount ----------------------------------------------------------------------
    b = _norm(function_body(src, r"ElemNumber::int2alphaCount\s*\([^)]*\)\s*\{", "int2alphaCount"))
    need(lit("const CountType radix = length;"), b, "int2alphaCount: radix = length")
    m = need(lit("const size_t buflen = @INT@;"), b, "int2alphaCount: buflen")
    buflen = int(m.group(1))
    need(lit("XalanDOMString::size_type charPos = buflen - 1;"), b, "int2alphaCount: charPos = buflen - 1")
    need(lit("size_t lookupIndex = 1;"), b, "int2alphaCount: lookupIndex = 1")
    need(lit("CountType correction = 0;"), b, "int2alphaCount: correction = 0")
    need(lit("do { correction = ((lookupIndex == 0) || (correction != 0 && lookupIndex == radix - 1 )) ? (radix - 1) : 0;"
             " lookupIndex = (val + correction) % radix; val = (val / radix);"
             " if (lookupIndex == 0 && val == 0) { break; }"
             " buf[charPos--] = table[lookupIndex]; } while (val > 0);"
             " theResult.assign(buf + charPos + 1, buflen - charPos - 1);"), b, "int2alphaCount: the do/while loop (correction, lookupIndex, shift, leading-zero break, emit)")

    # --- toRoman -----------------------------------------------------------------------------
    b = _norm(function_body(src, r"ElemNumber::toRoman\s*\([^)]*\)\s*\{", "toRoman"))
    m = need(lit("if(val == 0) { theResult = XalanUnicode::charDigit_0; } else if (val > @INT@) {"), b, "toRoman: 0 and the upper limit")
    roman_limit = int(m.group(1))
    # above the limit: either the error string, or (like 0) the decimal representation
    if re.search(lit("else if (val > @INT@) { theResult = s_errorString; } else {"), b):
        roman_overflow_decimal = False
    elif re.search(lit("else if (val > @INT@) { theResult.clear(); NumberToDOMString(static_cast<XMLUInt64>(val), theResult); } else {"), b):
        roman_overflow_decimal = True
    else:
        raise AnchorError("toRoman: the branch for values above the limit is neither the error string nor the decimal representation")
    need(lit("size_t place = 0; DecimalToRoman::ValueType localValue = val;"
             " do { @ANY@ const DecimalToRoman& theCurrent = s_romanConvertTable[place];"
             " while (localValue >= theCurrent.m_postValue) { theResult += theCurrent.m_postLetter; localValue -= theCurrent.m_postValue; }"
             " if (prefixesAreOK) { if (localValue >= theCurrent.m_preValue) { theResult += theCurrent.m_preLetter; localValue -= theCurrent.m_preValue; } }"
             " ++place; } while (localValue > 0);"), b, "toRoman: the conversion loop")

    # --- getFormattedNumber ------------------------------------------------------------------
    b = _norm(function_body(src, r"ElemNumber::getFormattedNumber\s*\([^)]*\)\s*const\s*\{", "getFormattedNumber"))
    need(lit("switch(numberType) { case XalanUnicode::charLetter_A: int2alphaCount(listElement, s_alphaCountTable, s_alphaCountTableSize, theResult); break;"
             " case XalanUnicode::charLetter_a: { int2alphaCount(listElement, s_alphaCountTable, s_alphaCountTableSize, theResult); toLowerCaseASCII(theResult); } break;"
             " case XalanUnicode::charLetter_I: toRoman(listElement, true, theResult); break;"
             " case XalanUnicode::charLetter_i: toRoman(listElement, true, theResult); toLowerCaseASCII(theResult); break;"), b,
         "getFormattedNumber: cases A, a, I, i")
    need(lit("default: { @ANY@ formatter->format(static_cast<XMLUInt64>(listElement), theResult);"
             " const XalanDOMString::size_type lengthNumString = theResult.length();"
             " if (numberWidth > lengthNumString) { const XalanDOMString::size_type nPadding = numberWidth - lengthNumString; @ANY@"
             " formatter->format(0, padString); @ANY@"
             " for (XalanDOMString::size_type i = 0; i < nPadding; i++) { theResult.insert(0, padString); } } } break;"), b,
         "getFormattedNumber: decimal with padding")
    unsupported = sorted(int(x, 16) for x in re.findall(r"case 0x([0-9A-Fa-f]+):", b))

    # --- formatNumberList ----------------------------------------------------------------------
    b = _norm(function_body(src, r"ElemNumber::formatNumberList\s*\([^)]*\)\s*const\s*\{", "formatNumberList"))
    need(lit("XalanDOMChar numberType = XalanUnicode::charDigit_1; XalanDOMString::size_type numberWidth = 1;"), b, "formatNumberList: defaults '1', width 1")
    need(lit("if (formatValue.empty() == true) { formatValue = XalanUnicode::charDigit_1; }"), b, "formatNumberList: empty format is '1'")
    need(lit("if (theVectorSize > 0) { if (!isXMLLetterOrDigit((*it)[0])) { leaderStrIt = it; ++it; }"
             " if (theVectorSize > 1) { if (!isXMLLetterOrDigit(tokenVector.back()[0])) { --trailerStrIt; } } }"), b, "formatNumberList: leader / trailer")
    need(lit("for (NodeRefListBase::size_type i = 0; i < theListLength; i++) {"
             " if (it != trailerStrIt) { @ANY@ numberWidth = it->length(); numberType = (*it)[numberWidth - 1]; ++it; }"
             " if (it != trailerStrIt) { @ANY@ sepStringIt = it; ++it; }"
             " getFormattedNumber( executionContext, numberType, numberWidth, theList[i], theIntermediateResult);"
             " theResult += theIntermediateResult;"
             " if (i < theListLength - 1) { if (sepStringIt != endIt) { theResult += *sepStringIt; } else { theResult += XalanUnicode::charFullStop; }"
             " theIntermediateResult.clear(); } }"
             " if (trailerStrIt != endIt) { theResult += *trailerStrIt; }"), b, "formatNumberList: the token / separator loop")

    # --- applyGrouping -------------------------------------------------------------------------
    b = _norm(function_body(nf, r"XalanNumberFormat::applyGrouping\s*\([^)]*\)\s*\{", "applyGrouping"))
    need(lit("if (m_isGroupingUsed == false || m_groupingSize == 0) { result = value; }"), b, "applyGrouping: no grouping")
    need(lit("const XalanDOMString::size_type bufsize = len + len / m_groupingSize + 2;"), b, "applyGrouping: buffer size")
    need(lit("for (XalanDOMString::size_type i = 0, ix = len - 1; i < len && p > buffer; i++, ix--) { const XalanDOMChar c = value[ix];"
             " if (i && !(i% m_groupingSize)) { for (long j = long(m_groupingSeparator.length() - 1); j >= 0 && p > buffer; j--) *p-- = m_groupingSeparator[j]; }"
             " *p-- = c; } result = ++p;"), b, "applyGrouping: the right-to-left loop")
    b = _norm(function_body(src, r"ElemNumber::getNumberFormatter\s*\([^)]*\)\s*const\s*\{", "getNumberFormatter"))
    need(lit("if (!digitGroupSepValue.empty() && !nDigitsPerGroupValue.empty()) { formatter->setGroupingUsed(true);"
             " formatter->setGroupingSeparator(digitGroupSepValue); formatter->setGroupingSize(DOMStringToUnsignedLong(nDigitsPerGroupValue)); }"), b,
         "getNumberFormatter: grouping only when both attributes are non-empty")

    # --- CountersTable -------------------------------------------------------------------------
    c = _norm(ct)
    need(lit("appendBtoFList( CountersTable::NodeVectorType& flist, const CountersTable::NodeVectorType& blist) {"
             " @ANY@ copy( blist.rbegin(), blist.rend(), back_inserter(flist)); }"), c, "appendBtoFList: appends the reversed backwards list")
    b = _norm(function_body(ct, r"Counter::getPreviouslyCounted\s*\([^)]*\)\s*const\s*\{", "getPreviouslyCounted"))
    need(lit("CountType result = 0; for(NodeVectorType::size_type i = n; i > 0; --i) { const XalanNode* const countedNode = m_countNodes[i - 1];"
             " if(node == countedNode) { result = CountType(i) + m_countNodesStartCount; break; }"
             " if(executionContext.isNodeAfter(*node, *countedNode)) { break; } } return result;"), b, "getPreviouslyCounted: backwards scan")
    if len(re.findall(r"m_countNodesStartCount\s*\(\s*0\s*\)", cth)) < 2 or re.search(r"m_countNodesStartCount\s*(=|\+=|\+\+)[^=]", cth + strip_comments(ct)):
        raise AnchorError("m_countNodesStartCount is no longer constantly 0")
    b = _norm(function_body(ct, r"CountersTable::countNode\s*\([^)]*\)\s*\{", "countNode"))
    need(lit("CountType count = 0; CounterVectorType& counters = m_countersVector[numberElem.getID()];"
             " const CounterVectorType::size_type nCounters = counters.size();"
             " XalanNode* target = numberElem.getTargetNode(support, node);"
             " if(0 != target) { for(CounterVectorType::size_type i = 0; i < nCounters; i++) { const Counter& counter = counters[i];"
             " count = counter.getPreviouslyCounted(support, target); if(count > 0) { return count; } }"
             " count = 0; for(; 0 != target; target = numberElem.getPreviousNode(support, target)) {"
             " if(0 != count) { for(CounterVectorType::size_type i = 0; i < nCounters; ++i) { Counter& counter = counters[i];"
             " const Counter::NodeVectorType::size_type cacheLen = counter.m_countNodes.size(); @ANY@"
             " if(cacheLen > 0 && counter.m_countNodes[cacheLen - 1] == target) { count += CountType(cacheLen) + counter.m_countNodesStartCount;"
             " if(cacheLen > 0) { appendBtoFList(counter.m_countNodes, m_newFound); } m_newFound.clear(); return count; } } }"
             " m_newFound.push_back(target); ++count; }"
             " counters.resize(counters.size() + 1); Counter& counter = counters.back(); counter.m_numberElem = &numberElem;"
             " appendBtoFList(counter.m_countNodes, m_newFound); m_newFound.clear(); } return count;"), b, "countNode: cache lookup, backwards walk, append")

    # --- navigation ----------------------------------------------------------------------------
    b = _norm(function_body(src, r"ElemNumber::getPreviousNode\s*\([^)]*\)\s*const\s*\{", "getPreviousNode"))
    need(lit("if (eAny == m_level) { const XPath* const fromMatchPattern = m_fromMatchPattern; while(0 != pos) {"
             " XalanNode* next = pos->getPreviousSibling(); if(0 == next) { next = pos->getParentNode(); }"
             " else { XalanNode* child = next; while(0 != child) { child = next->getLastChild(); if(0 != child) next = child; } }"
             " pos = next;"
             " if(0 != pos && 0 != fromMatchPattern && fromMatchPattern->getMatchScore( pos, *this, executionContext) != XPath::eMatchScoreNone) { pos = 0; break; }"
             " if(0 != pos && (0 == countMatchPattern || countMatchPattern->getMatchScore( pos, *this, executionContext) != XPath::eMatchScoreNone)) { break; } } }"
             " else { while (0 != pos) { pos = pos->getPreviousSibling();"
             " if (0 != pos && (0 == countMatchPattern || countMatchPattern->getMatchScore( pos, *this, executionContext) != XPath::eMatchScoreNone)) { break; } } } return pos;"),
         b, "getPreviousNode: level any walk / sibling walk")
    b = _norm(function_body(src, r"ElemNumber::findAncestor\s*\([^)]*\)\s*const\s*\{", "findAncestor"))
    need(lit("while (contextCopy != 0) { if (0 != fromMatchPattern) { if (fromMatchPattern->getMatchScore( contextCopy, *this, executionContext) != XPath::eMatchScoreNone) { break; } }"
             " if (0 != countMatchPattern) { if(countMatchPattern->getMatchScore( contextCopy, *this, executionContext) != XPath::eMatchScoreNone) { break; } }"
             " contextCopy = DOMServices::getParentOfNode(*contextCopy); } return contextCopy;"), b, "findAncestor")
    b = _norm(function_body(src, r"ElemNumber::findPrecedingOrAncestorOrSelf\s*\([^)]*\)\s*const\s*\{", "findPrecedingOrAncestorOrSelf"))
    need(lit("while (thePos != 0) { if (0 != fromMatchPattern && thePos != context) { if (fromMatchPattern->getMatchScore( thePos, *this, executionContext) != XPath::eMatchScoreNone) { thePos = 0; break; } }"
             " if (0 != countMatchPattern) { if (countMatchPattern->getMatchScore( thePos, *this, executionContext) != XPath::eMatchScoreNone) { break; } }"
             " XalanNode* const previousSibling = thePos->getPreviousSibling(); if (previousSibling == 0) { thePos = DOMServices::getParentOfNode(*thePos); }"
             " else { thePos = previousSibling; XalanNode* lastChild = thePos->getLastChild(); while (lastChild != 0) { thePos = lastChild; lastChild = thePos->getLastChild(); } } }"
             " return thePos;"), b, "findPrecedingOrAncestorOrSelf")
    b = _norm(function_body(src, r"ElemNumber::getMatchingAncestors\s*\([^)]*\)\s*const\s*\{", "getMatchingAncestors"))
    need(lit("const XalanNode* const theStartNode = node;"
             " while (0 != node) { if (0 != m_fromMatchPattern && node != theStartNode && m_fromMatchPattern->getMatchScore( node, *this, executionContext) != XPath::eMatchScoreNone)"
             " { break; } @ANY@"
             " if(countMatchPattern->getMatchScore(node, *this, executionContext) != XPath::eMatchScoreNone) { ancestors.addNode(node); if (stopAtFirstFound) { break; } }"
             " node = DOMServices::getParentOfNode(*node); }"), b, "getMatchingAncestors")
    m = need(r"ElemNumber::s_atString\s*\[\s*\]\s*=\s*\{(.*?)\}\s*;", cpp, "s_atString")
    if _zstr(m.group(1), env, "s_atString") != [0x40]:
        raise AnchorError("s_atString is not \"@\"")
    b = _norm(function_body(src, r"ElemNumber::getCountMatchPattern\s*\([^)]*\)\s*const\s*\{", "getCountMatchPattern"))
    need(lit("theMatchPatternString.get().assign(s_atString); theMatchPatternString.get().append(theNodeName);"), b, "getCountMatchPattern: '@' + attribute name")
    need(lit("theMatchPatternString.get() = s_piString; theMatchPatternString.get().append(1, XalanUnicode::charApostrophe);"
             " theMatchPatternString.get().append(contextNode->getNodeName()); theMatchPatternString.get().append(1, XalanUnicode::charApostrophe);"
             " theMatchPatternString.get().append(1, XalanUnicode::charRightParenthesis);"), b, "getCountMatchPattern: processing-instruction('target')")
    b = _norm(function_body(src, r"ElemNumber::getTargetNode\s*\([^)]*\)\s*const\s*\{", "getTargetNode"))
    need(lit("if (eAny == m_level) { target = findPrecedingOrAncestorOrSelf( executionContext, m_fromMatchPattern, countMatchPattern, sourceNode); }"
             " else { target = findAncestor( executionContext, m_fromMatchPattern, countMatchPattern, sourceNode); } return target;"), b, "getTargetNode")
    b = _norm(function_body(src, r"inline\s+void\s+ElemNumber::getCountString\s*\([^)]*\)\s*const\s*\{", "getCountString (list)"))
    need(lit("for (NodeRefListBase::size_type i = 0; i < numberListLength; i++) { XalanNode* const target = ancestors.item(numberListLength - i - 1);"
             " numberList[i] = ctable.countNode( executionContext, *this, target); }"), b, "getCountString: ancestors numbered outermost first")

    out = HEADER
    out += "From Coq Require Import List NArith.\nImport ListNotations.\n\n"
    out += "(* ElemNumber::s_alphaCountTable without the terminator (index 0 is the letter for a zero digit) *)\n"
    out += "Definition alpha_table : list N := %s.\n\n" % coq_nlist(alpha)
    out += "(* int2alphaCount: buflen *)\nDefinition alpha_buflen : N := %d%%N.\n\n" % buflen
    out += "(* ElemNumber::s_errorString *)\nDefinition error_string : list N := %s.\n\n" % coq_nlist(err)
    out += "(* ElemNumber::s_romanConvertTable: (postValue, postLetter, preValue, preLetter) *)\n"
    out += "Definition roman_table : list (N * list N * N * list N) :=\n  [" + ";\n   ".join(
        "(%d%%N, %s, %d%%N, %s)" % (a, coq_nlist(b_), c_, coq_nlist(d_)) for a, b_, c_, d_ in roman) + "].\n\n"
    out += "(* toRoman: values above this have no roman numeral *)\nDefinition roman_limit : N := %d%%N.\n\n" % roman_limit
    out += "(* toRoman above the limit: true = the decimal representation (as for 0), false = the error string *)\n"
    out += "Definition roman_overflow_decimal : bool := %s.\n\n" % ("true" if roman_overflow_decimal else "false")
    out += "(* getFormattedNumber: format letters that raise NumberingFormatNotSupported *)\n"
    out += "Definition unsupported_types : list N := %s.\n" % coq_nlist(unsupported)
    facts.update({"alpha_table_len": len(alpha), "buflen": buflen, "roman_entries": len(roman), "roman_limit": roman_limit, "roman_overflow_decimal": roman_overflow_decimal,
                  "unsupported": unsupported})
    return out, facts


GENERATORS = {"GenNum7": gen_num7}
