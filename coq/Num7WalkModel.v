(* C17: the walks of ElemNumber over the zipper compute the counts of XSLT 1.0 section 7.7,
   for every tree, every node and every count / from predicate on labels (explicit count pattern). *)
From Coq Require Import List Arith Bool Lia.
Require Import XV.Num7CountDefs XV.Num7CacheModel.
Import ListNotations.

Section WalkProofs.
  Variable A : Type.
  Variables cnt frm : A -> bool.
  Definition patc : A -> A -> bool := fun _ x => cnt x.

  Notation loc := (loc A).
  Notation cm := (count_matching A cnt).
  Notation tuf := (take_until_from A frm).
  Notation bef l := (before A (snd l)).

  Lemma rev_flat_map_rev : forall l : list (tree A), rev (flat_map (pre A) (rev l)) = flat_map (rpre A) l.
  Proof.
    induction l as [|x l IH]; [reflexivity|].
    cbn [rev flat_map]. rewrite flat_map_app. cbn [flat_map]. rewrite app_nil_r, rev_app_distr, IH. reflexivity.
  Qed.

  Lemma size_pos : forall t : tree A, 1 <= size A t.
  Proof. intros [a k]. unfold size. cbn. lia. Qed.

  (* descending along last children ends on the last node of the subtree in document order *)
  Lemma dive_rdoc : forall f t c, size A t <= f -> rdoc A (dive A f (t, c)) = rpre A t ++ before A c.
  Proof.
    induction f as [|f IH]; intros t c H.
    - pose proof (size_pos t). lia.
    - destruct t as [a kids]. cbn [dive]. unfold last_child. cbn [fst snd kids_of label].
      destruct (rev kids) as [|k rl] eqn:E.
      + assert (kids = []) by (rewrite <- (rev_involutive kids), E; reflexivity). subst kids. reflexivity.
      + assert (Hk : kids = rev rl ++ [k]) by (rewrite <- (rev_involutive kids), E; reflexivity). subst kids.
        rewrite IH.
        * unfold rpre. cbn [pre before rev]. rewrite flat_map_app. cbn [flat_map]. rewrite app_nil_r, rev_app_distr.
          rewrite rev_flat_map_rev. unfold rpre. rewrite <- !app_assoc. reflexivity.
        * unfold size in *. cbn [pre length] in H. rewrite flat_map_app, app_length in H. cbn [flat_map] in H.
          rewrite app_nil_r in H. lia.
  Qed.

  (* one step backwards = the next label of the reverse document order *)
  Lemma step_back_spec : forall l : loc,
    match step_back A l with
    | Some l' => bef l = rdoc A l'
    | None => bef l = []
    end.
  Proof.
    intros [t c]. unfold step_back, prev_sibling, parent. cbn [fst snd].
    destruct c as [|lf a up r]; [reflexivity|].
    destruct lf as [|s lf].
    - reflexivity.
    - rewrite dive_rdoc by (cbn [fst]; lia). cbn [before flat_map]. rewrite <- app_assoc. reflexivity.
  Qed.

  Lemma cm_cons : forall x l, cm (x :: l) = if cnt x then S (cm l) else cm l.
  Proof. intros. unfold count_matching. cbn [filter]. destruct (cnt x); reflexivity. Qed.

  Lemma find_back_spec : forall f src (l : loc), pos A l <= f ->
    match find_back A patc frm f src l with
    | None => cm (tuf (bef l)) = 0
    | Some l' => cnt (lab A l') = true /\ cm (tuf (bef l)) = S (cm (tuf (bef l'))) /\ pos A l' < pos A l
    end.
  Proof.
    induction f as [|f IH]; intros src l H.
    - cbn [find_back]. unfold pos in H. destruct (bef l); [reflexivity|cbn in H; lia].
    - cbn [find_back]. pose proof (step_back_spec l) as Sp. destruct (step_back A l) as [l'|].
      + unfold pos in *. rewrite Sp in *. unfold rdoc in *. cbn [length take_until_from] in *.
        fold (lab A l'). destruct (frm (lab A l')); [reflexivity|].
        unfold patc at 1. destruct (cnt (lab A l')) eqn:Ec.
        * rewrite cm_cons, Ec. repeat split; lia.
        * assert (Hf : length (bef l') <= f) by lia. specialize (IH src l' Hf).
          destruct (find_back A patc frm f src l') as [l''|].
          -- destruct IH as [I1 [I2 I3]]. rewrite cm_cons, Ec. repeat split; [exact I1|exact I2|lia].
          -- rewrite cm_cons, Ec. exact IH.
      + rewrite Sp. reflexivity.
  Qed.

  Lemma prev_any_dec : forall x y : loc, prev_any A patc frm x = Some y -> pos A y < pos A x.
  Proof.
    intros x y H. unfold prev_any in H.
    pose proof (find_back_spec (S (pos A x)) (lab A x) x (Nat.le_succ_diag_r _)) as Sp.
    rewrite H in Sp. apply Sp.
  Qed.

  Notation chain_any := (chainf loc (prev_any A patc frm) (pos A)).

  Lemma chain_any_len : forall n (l : loc), pos A l < n -> length (chain_any l) = S (cm (tuf (bef l))).
  Proof.
    induction n as [|n IH]; intros l H; [lia|].
    rewrite (chainf_unfold loc (prev_any A patc frm) (pos A) prev_any_dec). cbn [length]. f_equal.
    unfold prev_any. pose proof (find_back_spec (S (pos A l)) (lab A l) l (Nat.le_succ_diag_r _)) as Sp.
    destruct (find_back A patc frm (S (pos A l)) (lab A l) l) as [l'|].
    - destruct Sp as [_ [S2 S3]]. rewrite IH by lia. rewrite S2. reflexivity.
    - rewrite Sp. reflexivity.
  Qed.

  Lemma target_any_fuel : forall n t : loc, target_any A patc frm n = Some t -> pos A t < S (pos A n).
  Proof.
    intros n t H. unfold target_any in H. unfold patc at 1 in H. destruct (cnt (lab A n)).
    - inversion H; subst. lia.
    - pose proof (find_back_spec (S (pos A n)) (lab A n) n (Nat.le_succ_diag_r _)) as Sp. rewrite H in Sp.
      destruct Sp as [_ [_ S3]]. lia.
  Qed.

  (* level="any": target + chain = the declarative count *)
  Lemma brute_any : forall l : loc,
    brute loc (target_any A patc frm) (prev_any A patc frm) (pos A) l = spec_any A frm cnt l.
  Proof.
    intros l. unfold brute, target_any, spec_any. unfold patc at 1. rewrite cm_cons.
    destruct (cnt (lab A l)) eqn:Ec.
    - apply (chain_any_len (S (pos A l))). lia.
    - pose proof (find_back_spec (S (pos A l)) (lab A l) l (Nat.le_succ_diag_r _)) as Sp.
      destruct (find_back A patc frm (S (pos A l)) (lab A l) l) as [t|].
      + destruct Sp as [_ [S2 S3]]. rewrite (chain_any_len (S (pos A t))) by lia. rewrite S2. reflexivity.
      + rewrite Sp. reflexivity.
  Qed.

  (* ------------------------------------------------------------------------------------------
     level="single" / "multiple" *)
  Notation lsib l := (left_siblings A (snd l)).
  Definition info (l : loc) : A * list A := (lab A l, lsib l).

  Lemma rpre_len : forall t : tree A, 1 <= length (rpre A t).
  Proof. intros. unfold rpre. rewrite rev_length. apply size_pos. Qed.

  Lemma prev_sib_c_spec : forall lf src t a up r,
    match prev_sib_c A patc src t lf a up r with
    | None => cm (map (label A) lf) = 0
    | Some l' => cnt (lab A l') = true /\ cm (map (label A) lf) = S (cm (lsib l'))
                 /\ pos A l' < length (flat_map (rpre A) lf) + S (length (before A up))
    end.
  Proof.
    induction lf as [|s lf IH]; intros src t a up r; [reflexivity|].
    cbn [prev_sib_c map flat_map]. rewrite cm_cons, app_length. pose proof (rpre_len s) as Hs.
    unfold patc at 1. destruct (cnt (label A s)) eqn:Ec.
    - unfold pos, lab. cbn [fst snd left_siblings before]. rewrite app_length. cbn [length].
      repeat split; [exact Ec|lia].
    - specialize (IH src s a up (t :: r)). destruct (prev_sib_c A patc src s lf a up (t :: r)) as [l'|].
      + destruct IH as [I1 [I2 I3]]. repeat split; [exact I1|exact I2|lia].
      + exact IH.
  Qed.

  Lemma pos_ctx : forall (t : tree A) lf a up r,
    pos A (t, Ctx lf a up r) = length (flat_map (rpre A) lf) + S (length (before A up)).
  Proof. intros. unfold pos. cbn [snd before]. rewrite app_length. reflexivity. Qed.

  Lemma prev_sib_dec : forall x y : loc, prev_sib A patc x = Some y -> pos A y < pos A x.
  Proof.
    intros [t c] y H. unfold prev_sib in H. cbn [fst snd] in H. destruct c as [|lf a up r]; [discriminate|].
    pose proof (prev_sib_c_spec lf (lab A (t, Ctx lf a up r)) t a up r) as Sp. rewrite H in Sp.
    rewrite pos_ctx. apply Sp.
  Qed.

  Notation chain_sib := (chainf loc (prev_sib A patc) (pos A)).

  Lemma chain_sib_len : forall n (l : loc), pos A l < n -> length (chain_sib l) = S (cm (lsib l)).
  Proof.
    induction n as [|n IH]; intros l H; [lia|].
    rewrite (chainf_unfold loc (prev_sib A patc) (pos A) prev_sib_dec). cbn [length]. f_equal.
    destruct l as [t c]. unfold prev_sib. cbn [fst snd]. destruct c as [|lf a up r]; [reflexivity|].
    pose proof (prev_sib_c_spec lf (lab A (t, Ctx lf a up r)) t a up r) as Sp.
    destruct (prev_sib_c A patc (lab A (t, Ctx lf a up r)) t lf a up r) as [l'|].
    - destruct Sp as [_ [S2 S3]]. rewrite IH by (rewrite pos_ctx in H; lia). cbn [left_siblings]. rewrite S2. reflexivity.
    - cbn [left_siblings]. rewrite Sp. reflexivity.
  Qed.

  Lemma find_ancestor_c_pos : forall c src t l',
    find_ancestor_c A patc frm src t c = Some l' -> pos A l' <= length (before A c).
  Proof.
    induction c as [|lf a up IH r]; intros src t l' H; cbn [find_ancestor_c] in H.
    - destruct (frm (label A t) || patc src (label A t)); [|discriminate]. inversion H. reflexivity.
    - destruct (frm (label A t) || patc src (label A t)).
      + inversion H. reflexivity.
      + apply IH in H. cbn [before]. rewrite app_length. cbn [length]. lia.
  Qed.

  Lemma target_sib_fuel : forall n t : loc, target_sib A patc frm n = Some t -> pos A t < S (pos A n).
  Proof.
    intros n t H. unfold target_sib, find_ancestor in H. apply find_ancestor_c_pos in H. unfold pos at 2. lia.
  Qed.

  Lemma target_sib_self : forall l : loc, cnt (lab A l) = true -> target_sib A patc frm l = Some l.
  Proof.
    intros [t c] H. unfold target_sib, find_ancestor. cbn [fst snd]. unfold lab in H. cbn [fst] in H.
    destruct c; cbn [find_ancestor_c]; unfold patc; rewrite H, orb_true_r; reflexivity.
  Qed.

  Lemma brute_sib : forall l : loc, cnt (lab A l) = true ->
    brute loc (target_sib A patc frm) (prev_sib A patc) (pos A) l = number_of A cnt (info l).
  Proof.
    intros l H. unfold brute. rewrite target_sib_self by exact H.
    rewrite (chain_sib_len (S (pos A l))) by lia. reflexivity.
  Qed.

  (* the proper ancestors, innermost first, with their preceding siblings *)
  Definition up_chain (t : tree A) (c : ctx A) : list (A * list A) :=
    match c with
    | Top => []
    | Ctx lf a up r => anc_chain A (Node a (rev lf ++ t :: r)) up
    end.

  Lemma anc_chain_unfold : forall t c, anc_chain A t c = (label A t, left_siblings A c) :: up_chain t c.
  Proof. intros t [|lf a up r]; reflexivity. Qed.

  Definition cntf (x : A * list A) : bool := cnt (fst x).

  Lemma ma_up_multi : forall c t src,
    map info (ma_up A patc frm false src t c) = filter cntf (cut_at_from A frm (up_chain t c))
    /\ Forall (fun l => cnt (lab A l) = true) (ma_up A patc frm false src t c).
  Proof.
    induction c as [|lf a up IH r]; intros t src; [split; [reflexivity|constructor]|].
    cbn [ma_up up_chain]. rewrite anc_chain_unfold. cbn [cut_at_from fst label].
    destruct (frm a); [split; [reflexivity|constructor]|].
    destruct (IH (Node a (rev lf ++ t :: r)) src) as [I1 I2].
    cbn [filter]. unfold cntf at 1. cbn [fst]. change (patc src a) with (cnt a). destruct (cnt a) eqn:Ec.
    - split; [cbn [map]; rewrite I1; reflexivity|constructor; [exact Ec|exact I2]].
    - split; assumption.
  Qed.

  Lemma ma_up_single : forall c t src,
    map info (ma_up A patc frm true src t c) = firstn 1 (filter cntf (cut_at_from A frm (up_chain t c)))
    /\ Forall (fun l => cnt (lab A l) = true) (ma_up A patc frm true src t c).
  Proof.
    induction c as [|lf a up IH r]; intros t src; [split; [reflexivity|constructor]|].
    cbn [ma_up up_chain]. rewrite anc_chain_unfold. cbn [cut_at_from fst label].
    destruct (frm a); [split; [reflexivity|constructor]|].
    destruct (IH (Node a (rev lf ++ t :: r)) src) as [I1 I2].
    cbn [filter]. unfold cntf at 1. cbn [fst]. change (patc src a) with (cnt a). destruct (cnt a) eqn:Ec.
    - split; [reflexivity|constructor; [exact Ec|constructor]].
    - split; assumption.
  Qed.

  Lemma searched_unfold : forall l : loc, searched A frm l = info l :: cut_at_from A frm (up_chain (fst l) (snd l)).
  Proof. intros [t c]. unfold searched. cbn [fst snd]. rewrite anc_chain_unfold. reflexivity. Qed.

  Lemma matching_multi : forall l : loc,
    map info (matching_ancestors A patc frm false l) = filter cntf (searched A frm l)
    /\ Forall (fun x => cnt (lab A x) = true) (matching_ancestors A patc frm false l).
  Proof.
    intros l. unfold matching_ancestors. rewrite searched_unfold. cbn [filter]. unfold cntf at 1, info at 2. cbn [fst].
    destruct (ma_up_multi (snd l) (fst l) (lab A l)) as [I1 I2].
    change (patc (lab A l) (lab A l)) with (cnt (lab A l)). destruct (cnt (lab A l)) eqn:Ec.
    - split; [cbn [map]; rewrite I1; reflexivity|constructor; assumption].
    - split; assumption.
  Qed.

  Lemma matching_single : forall l : loc,
    map info (matching_ancestors A patc frm true l) = firstn 1 (filter cntf (searched A frm l))
    /\ Forall (fun x => cnt (lab A x) = true) (matching_ancestors A patc frm true l).
  Proof.
    intros l. unfold matching_ancestors. rewrite searched_unfold. cbn [filter]. unfold cntf at 1, info at 2. cbn [fst].
    destruct (ma_up_single (snd l) (fst l) (lab A l)) as [I1 I2].
    change (patc (lab A l) (lab A l)) with (cnt (lab A l)). destruct (cnt (lab A l)) eqn:Ec.
    - split; [reflexivity|constructor; [exact Ec|constructor]].
    - split; assumption.
  Qed.

  (* ------------------------------------------------------------------------------------------
     with the counters table, over all histories *)
  Variable leqb : loc -> loc -> bool.
  Hypothesis leqb_spec : forall a b, leqb a b = true <-> a = b.

  Definition fuel_of (l : loc) : nat := S (pos A l).
  Definition inv_any := inv loc (prev_any A patc frm) (pos A).
  Definition inv_sib := inv loc (prev_sib A patc) (pos A).

  Lemma cn_any_ok : forall tbl l, inv_any tbl ->
    exists tbl', cn_any A patc frm leqb tbl l = Some (tbl', spec_any A frm cnt l) /\ inv_any tbl'.
  Proof.
    intros tbl l Hi. rewrite <- brute_any.
    exact (count_node_ok loc leqb (lafter A) (target_any A patc frm) (prev_any A patc frm) (pos A) fuel_of
             leqb_spec prev_any_dec target_any_fuel tbl l Hi).
  Qed.

  Lemma cn_sib_ok : forall tbl l, inv_sib tbl -> cnt (lab A l) = true ->
    exists tbl', cn_sib A patc frm leqb tbl l = Some (tbl', number_of A cnt (info l)) /\ inv_sib tbl'.
  Proof.
    intros tbl l Hi Hc. rewrite <- (brute_sib l Hc).
    exact (count_node_ok loc leqb (lafter A) (target_sib A patc frm) (prev_sib A patc) (pos A) fuel_of
             leqb_spec prev_sib_dec target_sib_fuel tbl l Hi).
  Qed.

  Lemma count_list_ok : forall ls tbl, inv_sib tbl -> Forall (fun x => cnt (lab A x) = true) ls ->
    exists tbl', count_list A patc frm leqb tbl ls = Some (tbl', map (fun x => number_of A cnt (info x)) ls) /\ inv_sib tbl'.
  Proof.
    induction ls as [|l ls IH]; intros tbl Hi Hf; [exists tbl; split; [reflexivity|exact Hi]|].
    inversion Hf; subst. cbn [count_list map].
    destruct (cn_sib_ok tbl l Hi H1) as [tbl1 [E1 I1]]. rewrite E1.
    destruct (IH tbl1 I1 H2) as [tbl2 [E2 I2]]. rewrite E2. exists tbl2. split; [reflexivity|exact I2].
  Qed.

  Definition any_list (l : loc) : list nat := let n := spec_any A frm cnt l in if n =? 0 then [] else [n].

  Lemma number_any_ok : forall tbl l, inv_any tbl ->
    exists tbl', number_list A patc frm leqb 2 tbl l = Some (tbl', any_list l) /\ inv_any tbl'.
  Proof.
    intros tbl l Hi. cbn [number_list]. destruct (cn_any_ok tbl l Hi) as [tbl' [E I]]. rewrite E.
    exists tbl'. split; [reflexivity|exact I].
  Qed.

  Lemma number_multiple_ok : forall tbl l, inv_sib tbl ->
    exists tbl', number_list A patc frm leqb 1 tbl l = Some (tbl', spec_multiple A frm cnt l) /\ inv_sib tbl'.
  Proof.
    intros tbl l Hi. cbn [number_list Nat.eqb]. destruct (matching_multi l) as [M1 M2].
    destruct (count_list_ok (rev (matching_ancestors A patc frm false l)) tbl Hi) as [tbl' [E I]].
    - apply Forall_rev. exact M2.
    - rewrite E. exists tbl'. split; [|exact I]. f_equal. f_equal.
      unfold spec_multiple. fold cntf. rewrite <- M1, map_rev, map_map. reflexivity.
  Qed.

  Lemma number_single_ok : forall tbl l, inv_sib tbl ->
    exists tbl', number_list A patc frm leqb 0 tbl l = Some (tbl', spec_single A frm cnt l) /\ inv_sib tbl'.
  Proof.
    intros tbl l Hi. cbn [number_list Nat.eqb]. destruct (matching_single l) as [M1 M2].
    destruct (count_list_ok (rev (matching_ancestors A patc frm true l)) tbl Hi) as [tbl' [E I]].
    - apply Forall_rev. exact M2.
    - rewrite E. exists tbl'. split; [|exact I]. f_equal. f_equal.
      rewrite map_rev, <- (map_map info (number_of A cnt)), M1.
      unfold spec_single. fold cntf. destruct (filter cntf (searched A frm l)) as [|x [|y r]]; reflexivity.
  Qed.

  Lemma run_history_ok : forall level (I : table loc -> Prop) (sp : loc -> list nat),
    (forall tbl l, I tbl -> exists tbl', number_list A patc frm leqb level tbl l = Some (tbl', sp l) /\ I tbl') ->
    forall h tbl, I tbl -> exists tbl', run_history A patc frm leqb level tbl h = Some (tbl', map sp h) /\ I tbl'.
  Proof.
    intros level I sp Hstep. induction h as [|l h IH]; intros tbl Hi; [exists tbl; split; [reflexivity|exact Hi]|].
    cbn [run_history map]. destruct (Hstep tbl l Hi) as [tbl1 [E1 I1]]. rewrite E1.
    destruct (IH tbl1 I1) as [tbl2 [E2 I2]]. rewrite E2. exists tbl2. split; [reflexivity|exact I2].
  Qed.

  Theorem history_any : forall h, exists tbl, run_history A patc frm leqb 2 [] h = Some (tbl, map any_list h).
  Proof.
    intros h. destruct (run_history_ok 2 inv_any any_list number_any_ok h [] (Forall_nil _)) as [tbl [E _]].
    exists tbl. exact E.
  Qed.

  Theorem history_multiple : forall h, exists tbl,
    run_history A patc frm leqb 1 [] h = Some (tbl, map (spec_multiple A frm cnt) h).
  Proof.
    intros h. destruct (run_history_ok 1 inv_sib (spec_multiple A frm cnt) number_multiple_ok h [] (Forall_nil _)) as [tbl [E _]].
    exists tbl. exact E.
  Qed.

  Theorem history_single : forall h, exists tbl,
    run_history A patc frm leqb 0 [] h = Some (tbl, map (spec_single A frm cnt) h).
  Proof.
    intros h. destruct (run_history_ok 0 inv_sib (spec_single A frm cnt) number_single_ok h [] (Forall_nil _)) as [tbl [E _]].
    exists tbl. exact E.
  Qed.
End WalkProofs.
