// C19 oracle, part 3: objects handed to a XalanTransformer that were built on OTHER MemoryManagers than the
// transformer's.  Every party gets its own ledger manager; all ledgers share one table of live blocks, so a
// deallocate() reaching the wrong manager is recognised as such (with the manager that does own the block).
//
//   mem_multi <scenario> <xsl> <xml>
//   scenario: plain | xerceswrap | xerceswrap_rev | stwrap | compiled_other | io_objects | function | mixed
// prints
//   scenario=<s> rc=<api status> outlen=<bytes of output> outhash=<fnv1a of output>
//   MGR <name> allocs=<n> outstanding=<n at the end of its owner's life> foreign=<n> double=<n>
//       intransform=<allocations made while XalanTransformer::transform() ran> cross=<name of the manager that owns
//       the first foreign block, or -> <manager it was allocated by>>
//   SITE <name> <signature>   for every manager but the transformer's: the distinct call-stack signatures of the
//       allocations it served while transform() ran (what the application's objects do on behalf of a transformation)
// (one MGR line per manager; "outstanding" is sampled right after the owner of the manager was destroyed).
// Public headers only.
#include "common.hpp"
#include "mem_sym.hpp"
#include <map>
#include <set>
#include <new>
#include <xercesc/framework/MemoryManager.hpp>
#include <xercesc/framework/LocalFileInputSource.hpp>
#include <xercesc/parsers/XercesDOMParser.hpp>
#include <xalanc/XalanTransformer/XalanTransformer.hpp>
#include <xalanc/XalanTransformer/XercesDOMWrapperParsedSource.hpp>
#include <xalanc/XalanTransformer/XalanSourceTreeWrapperParsedSource.hpp>
#include <xalanc/XalanTransformer/XalanCompiledStylesheet.hpp>
#include <xalanc/XalanTransformer/XalanParsedSource.hpp>
#include <xalanc/XercesParserLiaison/XercesParserLiaison.hpp>
#include <xalanc/XercesParserLiaison/XercesDOMSupport.hpp>
#include <xalanc/XalanSourceTree/XalanSourceTreeParserLiaison.hpp>
#include <xalanc/XalanSourceTree/XalanSourceTreeDOMSupport.hpp>
#include <xalanc/XalanSourceTree/XalanSourceTreeDocument.hpp>
#include <xalanc/XPath/Function.hpp>
#include <xalanc/XPath/XObjectFactory.hpp>
#include <xalanc/XSLT/XSLTInputSource.hpp>
#include <xalanc/XSLT/XSLTResultTarget.hpp>

using namespace xalanc;

struct Ledger;
static std::map<void*, Ledger*> g_live;     // every block handed out by any ledger that is still outstanding
static std::set<void*> g_freed;             // blocks given back (kept: never returned to malloc, so addresses are unique)
static bool g_inTransform = false;

struct Ledger : public xercesc::MemoryManager {
    std::string name;
    unsigned long allocs, foreign, dbl, intransform, outstandingAtEnd;
    std::string cross;
    bool sampled, census;
    std::set<std::string> sites;   // signatures of the allocations made while transform() ran (census managers only)
    explicit Ledger(const char* n) : name(n), allocs(0), foreign(0), dbl(0), intransform(0), outstandingAtEnd(0), sampled(false), census(true) {}
    void* allocate(XMLSize_t n) {
        void* p = std::malloc(n ? n : 1);
        if (p == 0) throw std::bad_alloc();
        g_live[p] = this;
        ++allocs;
        if (g_inTransform) {
            ++intransform;
            if (census) {
                std::vector<std::string> names;
                stackNames(__builtin_return_address(0), names, 10);
                sites.insert(joinNames(names, 10));
            }
        }
        return p;
    }
    void deallocate(void* p) {
        if (p == 0) return;
        std::map<void*, Ledger*>::iterator i = g_live.find(p);
        if (i == g_live.end()) {
            if (g_freed.count(p)) ++dbl; else { ++foreign; if (cross.empty()) cross = "?"; }
            return;
        }
        if (i->second != this) {
            // allocated by another ledger: a foreign free for this manager; the owner keeps the block outstanding
            ++foreign;
            if (cross.empty()) cross = i->second->name;
            return;
        }
        g_live.erase(i);
        g_freed.insert(p);      // quarantined, not handed back to malloc
    }
    xercesc::MemoryManager* getExceptionMemoryManager() { return this; }
    unsigned long outstanding() const {
        unsigned long n = 0;
        for (std::map<void*, Ledger*>::const_iterator i = g_live.begin(); i != g_live.end(); ++i) if (i->second == this) ++n;
        return n;
    }
    void sample() { outstandingAtEnd = outstanding(); sampled = true; }
    void report() {
        if (!sampled) sample();
        std::printf("MGR %s allocs=%lu outstanding=%lu foreign=%lu double=%lu intransform=%lu cross=%s\n", name.c_str(), allocs,
                    outstandingAtEnd, foreign, dbl, intransform, cross.empty() ? "-" : cross.c_str());
        if (census)
            for (std::set<std::string>::const_iterator i = sites.begin(); i != sites.end(); ++i)
                std::printf("SITE %s %s\n", name.c_str(), i->c_str());
    }
};

struct InTransform { InTransform() { g_inTransform = true; } ~InTransform() { g_inTransform = false; } };

static unsigned long fnv(const std::string& s)
{
    unsigned long h = 2166136261UL;
    for (size_t i = 0; i < s.size(); ++i) { h ^= (unsigned char) s[i]; h *= 16777619UL; h &= 0xffffffffUL; }
    return h;
}

// an extension function whose copies live on whatever manager clone() is given
class FunctionTwice : public Function {
public:
    virtual XObjectPtr execute(XPathExecutionContext& executionContext, XalanNode* context,
                               const XObjectArgVectorType& args, const Locator* locator) const
    {
        if (args.size() != 1) generalError(executionContext, context, locator);
        return executionContext.getXObjectFactory().createNumber(2 * args[0]->num(executionContext));
    }
    using Function::execute;
    virtual FunctionTwice* clone(MemoryManager& theManager) const { return XalanCopyConstruct(theManager, *this); }
protected:
    const XalanDOMString& getError(XalanDOMString& theResult) const { theResult.assign("twice() accepts one argument"); return theResult; }
private:
    FunctionTwice& operator=(const FunctionTwice&);
};

static int run(const std::string& sc, const char* xsl, const char* xml, std::string& out, std::vector<Ledger*>& mgrs)
{
    std::ostringstream os;
    int rc = -99;
    Ledger* A = new Ledger("transformer");
    A->census = false;      // only allocations that the OTHER managers serve while transform() runs are listed
    mgrs.push_back(A);
    if (sc == "plain") {
        {
            XalanTransformer t(*A);
            InTransform it;
            rc = t.transform(XSLTInputSource(xml), XSLTInputSource(xsl), XSLTResultTarget(os));
        }
        A->sample();
    }
    else if (sc == "xerceswrap" || sc == "xerceswrap_rev" || sc == "mixed") {
        Ledger* B = new Ledger("liaison"); mgrs.push_back(B);
        Ledger* C = new Ledger("wrapper"); mgrs.push_back(C);
        const bool rev = sc == "xerceswrap_rev";
        {
            const XalanDOMString theURI(xml, *C);
            const xercesc::LocalFileInputSource theInputSource(theURI.c_str());
            XercesParserLiaison::DOMParserType theParser;
            theParser.setDoNamespaces(true);      // as XalanTransformer::parseSource does for its own Xerces DOM sources
            theParser.parse(theInputSource);
            XercesParserLiaison theLiaison(*B);
            XercesDOMSupport theSupport(theLiaison);
            {
                const XercesDOMWrapperParsedSource theWrapper(theParser.getDocument(), theLiaison, theSupport, theURI, *C);
                if (rev) {
                    // the transformer on the process default manager, the application's objects on ledgers
                    XalanTransformer t;
                    InTransform it;
                    rc = t.transform(theWrapper, XSLTInputSource(xsl), XSLTResultTarget(os));
                }
                else {
                    XalanTransformer t(*A);
                    {
                        InTransform it;
                        rc = t.transform(theWrapper, XSLTInputSource(xsl), XSLTResultTarget(os));
                    }
                    if (sc == "mixed") {
                        // the same transformer then takes a plain source, and the wrapper again
                        std::ostringstream os2;
                        InTransform it;
                        int rc2 = t.transform(XSLTInputSource(xml), XSLTInputSource(xsl), XSLTResultTarget(os2));
                        int rc3 = t.transform(theWrapper, XSLTInputSource(xsl), XSLTResultTarget(os2));
                        if (rc == 0) rc = rc2 != 0 ? rc2 : rc3;
                    }
                }
                A->sample();
            }
        }
        B->sample();
    }
    else if (sc == "stwrap") {
        Ledger* B = new Ledger("liaison"); mgrs.push_back(B);
        Ledger* C = new Ledger("wrapper"); mgrs.push_back(C);
        {
            const XalanDOMString theURI(xml, *C);
            const xercesc::LocalFileInputSource theInputSource(theURI.c_str());
            XalanSourceTreeParserLiaison theLiaison(*B);
            XalanSourceTreeDOMSupport theSupport(theLiaison);
            XalanDocument* const theDocument = theLiaison.parseXMLStream(theInputSource, theURI);
            XalanSourceTreeDocument* const theSTDocument = theLiaison.mapDocument(theDocument);
            {
                XalanSourceTreeWrapperParsedSource theWrapper(theSTDocument, theLiaison, theSupport, theURI, *C);
                {
                    XalanTransformer t(*A);
                    InTransform it;
                    rc = t.transform(theWrapper, XSLTInputSource(xsl), XSLTResultTarget(os));
                }
                A->sample();
            }
        }
        B->sample();
    }
    else if (sc == "compiled_other") {
        Ledger* B = new Ledger("other-transformer"); mgrs.push_back(B);
        {
            XalanTransformer t2(*B);
            const XalanCompiledStylesheet* cs = 0;
            const XalanParsedSource* ps = 0;
            rc = t2.compileStylesheet(XSLTInputSource(xsl), cs);
            if (rc == 0) rc = t2.parseSource(XSLTInputSource(xml), ps);
            if (rc == 0) {
                {
                    XalanTransformer t(*A);
                    InTransform it;
                    rc = t.transform(*ps, cs, XSLTResultTarget(os));
                    // and once more, so that caches of the first run are exercised
                    std::ostringstream os2;
                    const int rc2 = t.transform(*ps, cs, XSLTResultTarget(os2));
                    if (rc == 0) rc = rc2;
                }
                A->sample();
            }
            else A->sample();
        }
        B->sample();
    }
    else if (sc == "io_objects") {
        Ledger* C = new Ledger("inputs"); mgrs.push_back(C);
        Ledger* D = new Ledger("target"); mgrs.push_back(D);
        {
            const XSLTInputSource theSource(xml, *C);
            const XSLTInputSource theStylesheet(xsl, *C);
            const XSLTInputSource theCopy(theStylesheet, *C);
            XSLTResultTarget theTarget(os, *D);
            {
                XalanTransformer t(*A);
                InTransform it;
                rc = t.transform(theSource, theCopy, theTarget);
            }
            A->sample();
        }
        C->sample(); D->sample();
    }
    else if (sc == "function") {
        Ledger* F = new Ledger("function-owner"); mgrs.push_back(F);
        {
            const XalanDOMString ns("http://verif.example/ext", *F);
            const XalanDOMString nm("twice", *F);
            const FunctionTwice fn;
            {
                XalanTransformer t(*A);
                t.installExternalFunction(ns, nm, fn);
                {
                    InTransform it;
                    rc = t.transform(XSLTInputSource(xml), XSLTInputSource(xsl), XSLTResultTarget(os));
                }
                t.uninstallExternalFunction(ns, nm);
                t.installExternalFunction(ns, nm, fn);      // left installed: released by the destructor
            }
            A->sample();
        }
        F->sample();
    }
    else {
        std::fprintf(stderr, "unknown scenario %s\n", sc.c_str());
        return -98;
    }
    out = os.str();
    return rc;
}

int main(int argc, char** argv)
{
    if (argc != 4) { std::fprintf(stderr, "usage: mem_multi <scenario> <xsl> <xml>\n"); return 2; }
    xercesc::XMLPlatformUtils::Initialize();
    XalanTransformer::initialize();
    std::vector<Ledger*> mgrs;
    std::string out;
    int rc = -99;
    {
        // warm-up on the default manager (one-time lazy initialisation must not be charged to a ledger)
        XalanTransformer t; std::ostringstream os;
        t.transform(XSLTInputSource(argv[3]), XSLTInputSource(argv[2]), XSLTResultTarget(os));
    }
    try { rc = run(argv[1], argv[2], argv[3], out, mgrs); }
    catch (const std::exception& e) { std::printf("EXCEPTION %s\n", e.what()); rc = -97; }
    catch (...) { std::printf("EXCEPTION unknown\n"); rc = -97; }
    std::printf("scenario=%s rc=%d outlen=%lu outhash=%08lx\n", argv[1], rc, (unsigned long) out.size(), fnv(out));
    for (size_t i = 0; i < mgrs.size(); ++i) mgrs[i]->report();
    std::fflush(stdout);
    XalanTransformer::terminate();
    xercesc::XMLPlatformUtils::Terminate();
    return 0;
}
