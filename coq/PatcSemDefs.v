(* PatcSemDefs.v — C09 part "compile": how a compiled pattern (XpAst.pattern, the op codes the pattern compiler wrote) and a
   compiled expression (XpAst.expr) are read by the matcher model and by the specification of PatDefs.v.  Definitions only.

   An interpretation gives the node tests, the predicates and the id()/key() node-sets their meaning on PatDefs' node
   table; the matcher of PatDefs.v is run on the step codes THE COMPILER WROTE (msteps_of: MATCH_ATTRIBUTE -> MAttr,
   MATCH_IMMEDIATE_ANCESTOR -> MImm, MATCH_ANY_ANCESTOR -> MAny, FROM_ROOT -> MRoot, ...), the specification on the path the
   EXPRESSION compiler produced for the same tokens (path_of_expr: child / attribute steps, a descendant-or-self::node()
   step turns the next separator into '//'). *)
From Coq Require Import List NArith Bool Arith.
Import ListNotations.
Require Import XV.XpAst XV.XpcParseDefs XV.PatcDefs XV.PatcPrintDefs.
Require XV.PatDefs.

Record interp := mkI {
  i_test : ntest -> PatDefs.ntest;
  i_pred : pred -> PatDefs.predi;
  i_fn : expr -> nat -> bool
}.

Definition sstep_of (I : interp) (s : pstep) : PatDefs.sstep :=
  match s with (k, t, ps) => PatDefs.mkS (is_attr_kind k) (i_test I t) (map (i_pred I) ps) end.
Definition sep_behind (s : pstep) : PatDefs.sep := if is_any (fst (fst s)) then PatDefs.SDesc else PatDefs.SChild.
Fixpoint ssteps_of (I : interp) (first : PatDefs.sep) (l : list pstep) : list (PatDefs.sep * PatDefs.sstep) :=
  match l with
  | [] => []
  | s :: r => (first, sstep_of I s) :: ssteps_of I (sep_behind s) r
  end.
(* the compiled pattern read back as the surface path it was compiled from *)
Definition path_of_lp (I : interp) (a : lpattern) : PatDefs.path :=
  let (h, r) := split_head a in
  match h with
  | HdRel => PatDefs.mkPath PatDefs.HRel (ssteps_of I PatDefs.SChild r)
  | HdRoot => PatDefs.mkPath PatDefs.HAbs (ssteps_of I PatDefs.SChild r)
  | HdAnyP => PatDefs.mkPath PatDefs.HAbs (ssteps_of I PatDefs.SDesc r)
  | HdFn f => PatDefs.mkPath (PatDefs.HFunc (i_fn I f)) (ssteps_of I PatDefs.SChild r)
  | HdFnAny f => PatDefs.mkPath (PatDefs.HFunc (i_fn I f)) (ssteps_of I PatDefs.SDesc r)
  end.

(* the op codes of the compiled pattern, handed to the matcher *)
Definition mstep_of (I : interp) (D : PatDefs.doc) (acc : list PatDefs.mstep) (left : option PatDefs.mstep) (s : pstep)
  : PatDefs.mstep :=
  match s with (k, t, ps) =>
    match k with
    | PkAttribute => PatDefs.MAttr (i_test I t) (map (i_pred I) ps)
    | PkAnyAncestor => PatDefs.MAny (i_test I t) (map (i_pred I) ps) (PatDefs.left_check D acc left)
    | _ => PatDefs.MImm (i_test I t) (map (i_pred I) ps)
    end
  end.
Fixpoint msteps_of (I : interp) (D : PatDefs.doc) (acc : list PatDefs.mstep) (left : option PatDefs.mstep) (l : list pstep)
  : list PatDefs.mstep :=
  match l with
  | [] => []
  | s :: r => let m := mstep_of I D acc left s in m :: msteps_of I D (acc ++ [m]) (Some m) r
  end.
Definition mhead_of (I : interp) (h : phead) : list PatDefs.mstep :=
  match h with
  | HdRel => [] | HdRoot => [PatDefs.MRoot] | HdAnyP => [PatDefs.MAnyWP]
  | HdFn f => [PatDefs.MFunc (i_fn I f)] | HdFnAny f => [PatDefs.MFunc (i_fn I f); PatDefs.MAnyFn]
  end.
Definition compiled_of (I : interp) (D : PatDefs.doc) (a : lpattern) : list PatDefs.mstep :=
  let (h, r) := split_head a in
  let hd := mhead_of I h in hd ++ msteps_of I D hd (PatDefs.last_step hd) r.
(* XPath::getMatchScore <> eMatchScoreNone on the compiled pattern *)
Definition pattern_matches (I : interp) (D : PatDefs.doc) (P : pattern) (n : nat) : bool :=
  existsb (fun a => snd (PatDefs.step_pattern D (compiled_of I D a) n)) P.

(* location steps of a compiled expression as the steps of a path *)
Fixpoint esteps_path (I : interp) (sp : PatDefs.sep) (l : list step) : option (list (PatDefs.sep * PatDefs.sstep)) :=
  match l with
  | [] => match sp with PatDefs.SChild => Some [] | PatDefs.SDesc => None end
  | (AxDescendantOrSelf, TNode, []) :: r =>
      match sp with PatDefs.SChild => esteps_path I PatDefs.SDesc r | PatDefs.SDesc => None end
  | (AxChild, t, ps) :: r =>
      option_map (cons (sp, PatDefs.mkS false (i_test I t) (map (i_pred I) ps))) (esteps_path I PatDefs.SChild r)
  | (AxAttribute, t, ps) :: r =>
      option_map (cons (sp, PatDefs.mkS true (i_test I t) (map (i_pred I) ps))) (esteps_path I PatDefs.SChild r)
  | _ => None
  end.
Definition path_of_expr (I : interp) (e : expr) : option PatDefs.path :=
  match e with
  | EPath None [] ((AxRoot, TRoot, []) :: st) => option_map (PatDefs.mkPath PatDefs.HAbs) (esteps_path I PatDefs.SChild st)
  | EPath None [] st => option_map (PatDefs.mkPath PatDefs.HRel) (esteps_path I PatDefs.SChild st)
  | EPath (Some f) [] st => option_map (PatDefs.mkPath (PatDefs.HFunc (i_fn I f))) (esteps_path I PatDefs.SChild st)
  | EFunc _ _ => Some (PatDefs.mkPath (PatDefs.HFunc (i_fn I e)) [])
  | _ => None
  end.
Definition alts_of (e : expr) : list expr := match e with EUnion l => l | _ => [e] end.
(* "N has an ancestor-or-self A such that evaluating the expression with A as context selects N" *)
Definition expr_selects (I : interp) (D : PatDefs.doc) (e : expr) (n : nat) : Prop :=
  exists x p a, In x (alts_of e) /\ path_of_expr I x = Some p /\ In a (PatDefs.aos D n) /\ In n (PatDefs.sel_path D p a).
