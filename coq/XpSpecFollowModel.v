(* XpSpecFollowModel.v — the following and preceding walks of the interpreter model
   (XPath::findFollowing / findPreceeding: navigation by first child / next sibling / parent, from
   an attribute node too) return exactly the nodes of the declarative axes of XpSpecDefs.v
   ("after / before the context node in document order, not a descendant / ancestor, not an
   attribute or namespace node"), in document order / reverse document order. *)
From Coq Require Import NArith List Bool Arith Lia Relations Sorted Operators_Properties.
Require Import XV.XpAst XV.DomDefs XV.NumDefs XV.XpDefs XV.DomModel XV.DomDescModel XV.XpModel
               XV.XpSpecDefs XV.XpSpecLayoutModel XV.XpSpecAxesModel.
Import ListNotations.

(* the pre-order walk of [preceding], named *)
Definition pre_go (d : doc) (n : nat) (stop : option nat) : nat -> option nat -> list nat :=
  fix go (fuel : nat) (pos : option nat) : list nat :=
    match fuel, pos with
    | S f, Some p =>
        if Nat.eqb p n then [] else
        p :: (if match stop with Some sp => Nat.eqb p sp | None => false end then []
              else go f (match first_child d p with
                         | Some ch => Some ch
                         | None => next_preorder_up d (S (length d)) 0 p
                         end))
    | _, _ => []
    end.

Lemma preceding_unfold d n :
  preceding d n =
  rev (filter (fun p => negb (existsb (Nat.eqb p) (ancestors_from d (S (length d)) (parent_of d n))))
              (pre_go d n (if is_attr_kind (n_kind (get d n))
                           then match parent_of d n with Some p => Some p | None => None end else None)
                      (S (length d)) (Some 0))).
Proof. reflexivity. Qed.

Lemma nonattrb_true d x : nonattrb d x = true <-> is_attr_kind (n_kind (get d x)) = false.
Proof. unfold nonattrb. destruct (is_attr_kind (n_kind (get d x))); split; intros H; try reflexivity; discriminate. Qed.

Section Follow.
  Variable d : doc.
  Variable sz : nat -> nat.
  Hypothesis Hsz0 : sz 0 = length d.
  Hypothesis HL : forall n, n < length d -> node_layout d sz n.
  Hypothesis Hroot : n_parent (get d 0) = None.
  Hypothesis Hroot_kind : is_attr_kind (n_kind (get d 0)) = false.
  Hypothesis Hdoc : forall n, n < length d -> (n_kind (get d n) = KDoc <-> n = 0).

  Let Hwf : wf d := wf_of_layout d sz Hsz0 HL.
  Let Hpar := par_lt d sz Hsz0 HL Hroot.
  Let len := length d.
  Let na (n : nat) : nat := length (n_attrs (get d n)).
  Let e (n : nat) : nat := n + sz n.                    (* end of the subtree interval *)
  Let nxt (n : nat) : nat := S n + na n.                (* first table entry after the attributes *)

  Ltac ul := unfold nxt, e, na, len in *; lia.

  (* non-attribute nodes of [lo, hi) *)
  Definition NA (lo hi : nat) : list nat := filter (nonattrb d) (seq lo (hi - lo)).

  Lemma NA_In lo hi x : In x (NA lo hi) <-> lo <= x < hi /\ nonattrb d x = true.
  Proof. unfold NA. rewrite filter_In, in_seq. split; intros [A B]; (split; [lia | exact B]). Qed.

  Lemma NA_split lo mid hi : lo <= mid <= hi -> NA lo hi = NA lo mid ++ NA mid hi.
  Proof.
    intros H. unfold NA. replace (hi - lo) with ((mid - lo) + (hi - mid)) by lia.
    rewrite seq_app, filter_app. replace (lo + (mid - lo)) with mid by lia. reflexivity.
  Qed.

  Lemma NA_cons lo hi : lo < hi -> nonattrb d lo = true -> NA lo hi = lo :: NA (S lo) hi.
  Proof.
    intros H Hk. unfold NA. replace (hi - lo) with (S (hi - S lo)) by lia. cbn [seq filter]. rewrite Hk. reflexivity.
  Qed.

  Lemma NA_empty lo : NA lo lo = [].
  Proof. unfold NA. rewrite Nat.sub_diag. reflexivity. Qed.

  Lemma NA_attrs p : p < len -> NA (S p) (nxt p) = [].
  Proof.
    intros Hp. unfold NA, nxt. replace (S p + na p - S p) with (na p) by lia.
    apply (attrs_filtered d sz Hsz0 HL p (na p) Hp (le_n _)).
  Qed.

  Lemma NA_sorted lo hi : StronglySorted lt (NA lo hi).
  Proof. unfold NA. apply ss_filter, ss_seq. Qed.

  Lemma nxt_le p : p < len -> nxt p <= e p /\ e p <= len.
  Proof. intros Hp. pose proof (sz_ge d sz HL p Hp). pose proof (inside d sz Hsz0 HL p Hp). unfold nxt, e, na, len. lia. Qed.

  (* between a node and [nxt] there are attribute nodes only *)
  Lemma below_nxt_is_attr p x : p < len -> p < x < nxt p -> nonattrb d x = false.
  Proof.
    intros Hp Hx. apply (kind_of_attr d sz Hsz0 HL p). rewrite (nl_attrs _ _ _ (HL p Hp)). apply in_seq.
    ul.
  Qed.

  Lemma has_child_nonattr p c : In c (n_children (get d p)) -> nonattrb d p = true.
  Proof.
    intros Hc. destruct (child_facts d sz Hsz0 HL p c Hc) as [Hp _].
    destruct (Nat.eq_dec p 0) as [->|Hne]; [unfold nonattrb; rewrite Hroot_kind; reflexivity|].
    destruct (has_parent d sz Hsz0 HL p) as [q [Hq|Hq]]; [lia| |].
    - destruct (attr_facts d sz Hsz0 HL q p Hq) as [_ [_ [_ [_ [_ [_ [Hnc _]]]]]]]. rewrite Hnc in Hc. destruct Hc.
    - apply (kind_of_child d sz Hsz0 HL q p Hq).
  Qed.

  Lemma has_attr_nonattr p a : In a (n_attrs (get d p)) -> nonattrb d p = true.
  Proof.
    intros Ha. destruct (attr_facts d sz Hsz0 HL p a Ha) as [Hp _].
    destruct (Nat.eq_dec p 0) as [->|Hne]; [unfold nonattrb; rewrite Hroot_kind; reflexivity|].
    destruct (has_parent d sz Hsz0 HL p) as [q [Hq|Hq]]; [lia| |].
    - destruct (attr_facts d sz Hsz0 HL q p Hq) as [_ [_ [_ [_ [_ [_ [_ Hna]]]]]]]. rewrite Hna in Ha. destruct Ha.
    - apply (kind_of_child d sz Hsz0 HL q p Hq).
  Qed.

  (* a non-attribute node other than the root is a child of its parent *)
  Lemma nonattr_is_child n : 0 < n < len -> nonattrb d n = true ->
    exists p, In n (n_children (get d p)) /\ parent_of d n = Some p.
  Proof.
    intros Hn Hk. destruct (has_parent d sz Hsz0 HL n Hn) as [p [Hp|Hp]].
    - rewrite (kind_of_attr d sz Hsz0 HL p n Hp) in Hk. discriminate.
    - exists p. split; [exact Hp|]. unfold parent_of. apply (child_facts d sz Hsz0 HL p n Hp).
  Qed.

  (* the next sibling is where the subtree interval ends, when the parent's goes on *)
  Lemma next_sibling_layout p n : In n (n_children (get d p)) ->
    e n <= e p /\
    next_sibling d n = (if e n <? e p then Some (e n) else None) /\
    (e n < e p -> In (e n) (n_children (get d p))).
  Proof.
    intros Hin. destruct (in_split _ _ Hin) as [pre [post Hc]].
    destruct (child_facts d sz Hsz0 HL p n Hin) as [Hp [_ [Hle _]]].
    pose proof (nl_children _ _ _ (HL p Hp)) as Hch. rewrite Hc in Hch.
    destruct (chain_split _ _ _ _ _ _ Hch) as [_ Hpost].
    rewrite (next_sibling_spec d Hwf p pre n post Hc). fold (e n) in Hpost. fold (e p) in Hpost, Hle.
    split; [exact Hle|]. destruct post as [|y r]; cbn [chain hd_error] in *.
    - rewrite Hpost, Nat.ltb_irrefl. split; [reflexivity | lia].
    - destruct Hpost as [-> Hr].
      assert (Hy : In (e n) (n_children (get d p))) by (rewrite Hc; apply in_or_app; right; right; left; reflexivity).
      destruct (child_facts d sz Hsz0 HL p (e n) Hy) as [_ [_ [H2 [_ [H4 _]]]]].
      assert (Hlt : e n < e p) by (ul).
      apply Nat.ltb_lt in Hlt. rewrite Hlt. split; [reflexivity | intros _; exact Hy].
  Qed.

  (** ** the climb of findFollowing *)
  Lemma following_up_nonattr : forall n fuel, n < len -> nonattrb d n = true -> n < fuel ->
    following_up d fuel n = (if e n <? len then Some (e n) else None) /\
    (e n < len -> nonattrb d (e n) = true).
  Proof.
    induction n as [n IH] using lt_wf_ind. intros fuel Hn Hk Hf.
    destruct fuel as [|f]; [lia|]. cbn [following_up].
    assert (Hak : is_attr_kind (n_kind (get d n)) = false) by (apply nonattrb_true; exact Hk).
    rewrite Hak.
    destruct (Nat.eq_dec n 0) as [->|Hne].
    - unfold next_sibling, parent_of. rewrite Hak, Hroot. unfold e. rewrite Hsz0. fold len.
      rewrite Nat.ltb_irrefl. split; [reflexivity | cbn; lia].
    - destruct (nonattr_is_child n) as [p [Hin Hp]]; [unfold len in *; lia | exact Hk |].
      destruct (next_sibling_layout p n Hin) as [Hle [Hns Hnext]].
      destruct (child_facts d sz Hsz0 HL p n Hin) as [Hpl [Hpn _]].
      destruct (nxt_le p Hpl) as [_ Hep]. rewrite Hns.
      destruct (e n <? e p) eqn:E.
      + apply Nat.ltb_lt in E. assert (Hl : e n <? len = true) by (apply Nat.ltb_lt; lia). rewrite Hl.
        split; [reflexivity|]. intros _. apply (kind_of_child d sz Hsz0 HL p (e n)). apply Hnext. exact E.
      + apply Nat.ltb_ge in E. assert (Heq : e n = e p) by lia. rewrite Hp.
        destruct (nkind_eqb (n_kind (get d p)) KDoc) eqn:Ek.
        * apply nkind_eqb_eq in Ek. apply (Hdoc p Hpl) in Ek. subst p.
          assert (Hl : e n <? len = false) by (apply Nat.ltb_ge; rewrite Heq; unfold e, len; rewrite Hsz0; lia).
          rewrite Hl. split; [reflexivity|]. apply Nat.ltb_ge in Hl. lia.
        * rewrite Heq. apply IH; [lia | exact Hpl | eapply has_child_nonattr; exact Hin | lia].
  Qed.

  Lemma following_up_attr p a fuel : In a (n_attrs (get d p)) -> a < fuel ->
    following_up d fuel a = (if nxt p <? len then Some (nxt p) else None) /\
    (nxt p < len -> nonattrb d (nxt p) = true).
  Proof.
    intros Ha Hf. destruct (attr_facts d sz Hsz0 HL p a Ha) as [Hp [Hpa [_ [Hlink [Hk _]]]]].
    destruct fuel as [|f]; [lia|]. cbn [following_up]. rewrite Hk. unfold parent_of at 1. rewrite Hlink.
    pose proof (nl_children _ _ _ (HL p Hp)) as Hch. fold (na p) in Hch. fold (nxt p) in Hch. fold (e p) in Hch.
    destruct (nxt_le p Hp) as [Hne Hel].
    unfold first_child. destruct (n_children (get d p)) as [|c r] eqn:Ec; cbn [hd_error chain] in *.
    - unfold parent_of. rewrite Hlink.
      destruct (nkind_eqb (n_kind (get d p)) KDoc) eqn:Ek.
      + apply nkind_eqb_eq in Ek. apply (Hdoc p Hp) in Ek. subst p.
        assert (Hl : nxt 0 <? len = false) by (apply Nat.ltb_ge; rewrite Hch; unfold e, len; rewrite Hsz0; lia).
        rewrite Hl. split; [reflexivity|]. apply Nat.ltb_ge in Hl. lia.
      + rewrite Hch. apply following_up_nonattr; [exact Hp | eapply has_attr_nonattr; exact Ha | lia].
    - destruct Hch as [-> Hr].
      assert (Hc : In (nxt p) (n_children (get d p))) by (rewrite Ec; left; reflexivity).
      destruct (child_facts d sz Hsz0 HL p (nxt p) Hc) as [_ [_ [_ [Hcl _]]]].
      assert (Hl : nxt p <? len = true) by (apply Nat.ltb_lt; exact Hcl). rewrite Hl.
      split; [reflexivity|]. intros _. apply (kind_of_child d sz Hsz0 HL p _ Hc).
  Qed.

  (* one step of the document-order walk from a non-attribute node p: the next non-attribute node *)
  Lemma first_child_layout p : p < len ->
    match first_child d p with
    | Some c => c = nxt p /\ c < len /\ nonattrb d c = true
    | None => nxt p = e p
    end.
  Proof.
    intros Hp. pose proof (nl_children _ _ _ (HL p Hp)) as Hch. fold (na p) in Hch. fold (nxt p) in Hch. fold (e p) in Hch.
    unfold first_child. destruct (n_children (get d p)) as [|c r] eqn:Ec; cbn [hd_error chain] in *.
    - exact Hch.
    - destruct Hch as [-> _].
      assert (Hc : In (nxt p) (n_children (get d p))) by (rewrite Ec; left; reflexivity).
      destruct (child_facts d sz Hsz0 HL p (nxt p) Hc) as [_ [_ [_ [Hcl _]]]].
      split; [reflexivity|]. split; [exact Hcl | apply (kind_of_child d sz Hsz0 HL p _ Hc)].
  Qed.

  Lemma following_walk_none fuel : following_walk d fuel None = [].
  Proof. destruct fuel; reflexivity. Qed.

  Lemma following_walk_eq : forall k p fuel, len - p <= k -> p < len -> nonattrb d p = true -> len - p <= fuel ->
    following_walk d fuel (Some p) = NA p len.
  Proof.
    induction k as [|k IH]; intros p fuel Hk Hp Hna Hf; [lia|].
    destruct fuel as [|f]; [lia|]. cbn [following_walk].
    rewrite (NA_cons p len Hp Hna). f_equal.
    destruct (nxt_le p Hp) as [Hne Hel].
    rewrite (NA_split (S p) (nxt p) len) by (ul). rewrite (NA_attrs p Hp). cbn [app].
    pose proof (first_child_layout p Hp) as Hfc.
    destruct (first_child d p) as [c|].
    - destruct Hfc as [-> [Hcl Hck]]. apply IH; [ul | exact Hcl | exact Hck | ul].
    - rewrite Hfc. destruct (following_up_nonattr p (S (length d)) Hp Hna) as [Hfu Hnk]; [unfold len in Hp; lia|].
      rewrite Hfu. destruct (e p <? len) eqn:E.
      + apply Nat.ltb_lt in E. apply IH; [ul | exact E | apply Hnk; exact E | ul].
      + apply Nat.ltb_ge in E. rewrite following_walk_none. assert (e p = len) by lia. rewrite H. rewrite NA_empty. reflexivity.
  Qed.

  (** ** following *)
  Theorem following_walk_correct n : n < len -> walk_correct d AxFollowing n (following d n).
  Proof.
    intros Hn. unfold following.
    assert (Hcases : exists start, n < start <= len /\
               following_up d (S (length d)) n = (if start <? len then Some start else None) /\
               (start < len -> nonattrb d start = true) /\
               (forall x, n < x < start -> nonattrb d x = true -> descendant d n x) /\
               (forall x, descendant d n x -> x < start)).
    { destruct (nonattrb d n) eqn:Ek.
      - exists (e n). destruct (following_up_nonattr n (S (length d)) Hn Ek) as [A B]; [unfold len in Hn; lia|].
        destruct (nxt_le n Hn) as [H1 H2]. split; [ul|]. split; [exact A|]. split; [exact B|]. split.
        + intros x Hx Hxk. apply (descendant_iff d sz Hsz0 HL n x Hn). split; [exact Hx | exact Hxk].
        + intros x Hx. apply (descendant_iff d sz Hsz0 HL n x Hn) in Hx. unfold e. lia.
      - assert (Hn0 : n <> 0) by (intros ->; unfold nonattrb in Ek; rewrite Hroot_kind in Ek; discriminate).
        destruct (has_parent d sz Hsz0 HL n) as [p [Hp|Hp]]; [unfold len in Hn; lia | |
          rewrite (kind_of_child d sz Hsz0 HL p n Hp) in Ek; discriminate].
        destruct (attr_facts d sz Hsz0 HL p n Hp) as [Hpl [Hpa [_ [_ [_ [Hs1 _]]]]]].
        exists (nxt p). destruct (following_up_attr p n (S (length d)) Hp) as [A B]; [unfold len in Hn; lia|].
        destruct (nxt_le p Hpl) as [H1 H2]. split; [ul|]. split; [exact A|]. split; [exact B|]. split.
        + intros x Hx Hxk. rewrite (below_nxt_is_attr p x Hpl) in Hxk; [discriminate | lia].
        + intros x Hx. apply (descendant_iff d sz Hsz0 HL n x Hn) in Hx. lia. }
    destruct Hcases as [start [Hst [Hfu [Hsk [Hd1 Hd2]]]]]. rewrite Hfu.
    assert (Hlist : following_walk d (S (length d)) (if start <? len then Some start else None) = NA start len).
    { destruct (start <? len) eqn:E.
      - apply Nat.ltb_lt in E. apply (following_walk_eq (len - start)); [lia | exact E | apply Hsk; exact E | unfold len; lia].
      - apply Nat.ltb_ge in E. rewrite following_walk_none. replace start with len by lia. rewrite NA_empty. reflexivity. }
    rewrite Hlist. split.
    - apply axis_ordered_fwd; [reflexivity | apply NA_sorted].
    - intros x. rewrite NA_In. cbn [axis_rel]. unfold following_ax, is_node, doc_before, non_attr. fold len. split.
      + intros [Hx Hxk]. split; [lia|]. split; [lia|]. split.
        * intros Hdx. specialize (Hd2 x Hdx). lia.
        * apply nonattrb_true; exact Hxk.
      + intros [Hx [Hlt [Hnd Hxk]]]. assert (Hxk' : nonattrb d x = true) by (apply nonattrb_true; exact Hxk).
        split; [|exact Hxk']. split; [|exact Hx].
        destruct (Nat.lt_ge_cases x start) as [Hlt2|Hge]; [|exact Hge]. exfalso. apply Hnd. apply Hd1; [lia | exact Hxk'].
  Qed.

  (** ** the climb of findPreceeding's document-order walk *)
  Lemma preorder_up_nonattr : forall n fuel, n < len -> nonattrb d n = true -> n < fuel ->
    next_preorder_up d fuel 0 n = (if e n <? len then Some (e n) else None).
  Proof.
    induction n as [n IH] using lt_wf_ind. intros fuel Hn Hk Hf.
    destruct fuel as [|f]; [lia|]. cbn [next_preorder_up].
    destruct (Nat.eqb_spec n 0) as [->|Hne].
    - unfold e. rewrite Hsz0. fold len. rewrite Nat.ltb_irrefl. reflexivity.
    - destruct (nonattr_is_child n) as [p [Hin Hp]]; [lia | exact Hk |].
      destruct (next_sibling_layout p n Hin) as [Hle [Hns Hnext]].
      destruct (child_facts d sz Hsz0 HL p n Hin) as [Hpl [Hpn _]].
      destruct (nxt_le p Hpl) as [_ Hep]. rewrite Hns.
      destruct (e n <? e p) eqn:E.
      + apply Nat.ltb_lt in E. assert (Hl : e n <? len = true) by (apply Nat.ltb_lt; lia). rewrite Hl. reflexivity.
      + apply Nat.ltb_ge in E. assert (Heq : e n = e p) by lia. rewrite Hp.
        destruct (Nat.eqb_spec p 0) as [->|Hp0].
        * assert (Hl : e n <? len = false) by (apply Nat.ltb_ge; rewrite Heq; unfold e, len; rewrite Hsz0; lia).
          rewrite Hl. reflexivity.
        * rewrite Heq. apply IH; [lia | exact Hpl | eapply has_child_nonattr; exact Hin | lia].
  Qed.

  (* the walk from p up to (excluding) a later non-attribute node t lists the non-attribute nodes of [p, t) *)
  Lemma advance p t : p < t -> t < len -> nonattrb d p = true -> nonattrb d t = true ->
    exists q, (match first_child d p with Some ch => Some ch | None => next_preorder_up d (S (length d)) 0 p end) = Some q /\
              p < q <= t /\ q < len /\ nonattrb d q = true /\ NA (S p) q = [].
  Proof.
    intros Hpt Ht Hpk Htk. assert (Hp : p < len) by lia.
    assert (Hnt : nxt p <= t).
    { destruct (Nat.lt_ge_cases t (nxt p)) as [Hlt|Hge]; [|exact Hge].
      rewrite (below_nxt_is_attr p t Hp) in Htk; [discriminate | lia]. }
    exists (nxt p). pose proof (first_child_layout p Hp) as Hfc.
    destruct (first_child d p) as [c|].
    - destruct Hfc as [-> [Hcl Hck]]. split; [reflexivity|]. split; [ul|].
      split; [exact Hcl|]. split; [exact Hck | apply NA_attrs; exact Hp].
    - rewrite (preorder_up_nonattr p (S (length d)) Hp Hpk) by (unfold len in Hp; lia).
      rewrite <- Hfc. assert (Hl : nxt p <? len = true) by (apply Nat.ltb_lt; lia). rewrite Hl.
      split; [reflexivity|]. split; [ul|]. split; [lia|]. split; [|apply NA_attrs; exact Hp].
      destruct (following_up_nonattr p (S (length d)) Hp Hpk) as [_ B]; [unfold len in Hp; lia|].
      rewrite Hfc. apply B. rewrite <- Hfc. lia.
  Qed.

  (* context a non-attribute node n: the walk stops at n *)
  Lemma pre_go_plain n : n < len -> nonattrb d n = true ->
    forall k p fuel, n - p <= k -> p <= n -> nonattrb d p = true -> n - p < fuel ->
    pre_go d n None fuel (Some p) = NA p n.
  Proof.
    intros Hn Hnk. induction k as [|k IH]; intros p fuel Hk Hp Hpk Hf.
    - assert (p = n) by lia. subst p. destruct fuel as [|f]; [lia|]. cbn [pre_go]. rewrite Nat.eqb_refl, NA_empty. reflexivity.
    - destruct fuel as [|f]; [lia|]. cbn [pre_go].
      destruct (Nat.eqb_spec p n) as [->|Hne]; [rewrite NA_empty; reflexivity|].
      destruct (advance p n) as [q [Hq [Hpq [Hql [Hqk Hgap]]]]]; [lia | exact Hn | exact Hpk | exact Hnk |].
      rewrite Hq, (NA_cons p n) by (try lia; exact Hpk). f_equal.
      rewrite (NA_split (S p) q n) by lia. rewrite Hgap. cbn [app].
      apply IH; [lia | lia | exact Hqk | lia].
  Qed.

  (* context an attribute node n of sp: the walk stops after sp *)
  Lemma pre_go_attr n sp : sp < len -> nonattrb d sp = true -> nonattrb d n = false ->
    forall k p fuel, sp - p <= k -> p <= sp -> nonattrb d p = true -> sp - p < fuel ->
    pre_go d n (Some sp) fuel (Some p) = NA p (S sp).
  Proof.
    intros Hs Hsk Hnk. induction k as [|k IH]; intros p fuel Hk Hp Hpk Hf.
    - assert (p = sp) by lia. subst p. destruct fuel as [|f]; [lia|]. cbn [pre_go].
      destruct (Nat.eqb_spec sp n) as [->|Hne]; [congruence|]. rewrite Nat.eqb_refl.
      rewrite (NA_cons sp (S sp)) by (try lia; exact Hsk). rewrite NA_empty. reflexivity.
    - destruct fuel as [|f]; [lia|]. cbn [pre_go].
      destruct (Nat.eqb_spec p n) as [->|Hne]; [congruence|].
      rewrite (NA_cons p (S sp)) by (try lia; exact Hpk). f_equal.
      destruct (Nat.eqb_spec p sp) as [->|Hps]; [rewrite NA_empty; reflexivity|].
      destruct (advance p sp) as [q [Hq [Hpq [Hql [Hqk Hgap]]]]]; [lia | exact Hs | exact Hpk | exact Hsk |].
      rewrite Hq. rewrite (NA_split (S p) q (S sp)) by lia. rewrite Hgap. cbn [app].
      apply IH; [lia | lia | exact Hqk | lia].
  Qed.

  (** ** preceding *)
  Theorem preceding_walk_correct n : n < len -> walk_correct d AxPreceding n (preceding d n).
  Proof.
    intros Hn. rewrite preceding_unfold.
    destruct (ancestors_walk d sz Hsz0 HL Hroot n (S (length d))) as [_ [_ Hanc]]; [unfold len in Hn; lia|].
    set (anc := ancestors_from d (S (length d)) (parent_of d n)) in *.
    assert (H0k : nonattrb d 0 = true) by (unfold nonattrb; rewrite Hroot_kind; reflexivity).
    assert (Hwalk : exists hi, hi <= len /\
              pre_go d n (if is_attr_kind (n_kind (get d n))
                          then match parent_of d n with Some p => Some p | None => None end else None)
                     (S (length d)) (Some 0) = NA 0 hi /\
              forall x, nonattrb d x = true -> ~ ancestor d n x -> (x < hi <-> x < n)).
    { destruct (is_attr_kind (n_kind (get d n))) eqn:Ek.
      - assert (Hn0 : n <> 0) by (intros ->; rewrite Hroot_kind in Ek; discriminate).
        destruct (has_parent d sz Hsz0 HL n) as [p [Hp|Hp]]; [unfold len in Hn; lia | |
          destruct (child_facts d sz Hsz0 HL p n Hp) as [_ [_ [_ [_ [_ [_ Hc]]]]]]; congruence].
        destruct (attr_facts d sz Hsz0 HL p n Hp) as [Hpl [Hpa [_ [Hlink _]]]].
        unfold parent_of. rewrite Hlink. exists (S p). split; [unfold len; lia|]. split.
        + apply (pre_go_attr n p Hpl (has_attr_nonattr p n Hp)) with (k := p); try lia; try exact H0k.
          unfold nonattrb. rewrite Ek. reflexivity.
        + intros x Hxk Hxa. split; [lia|]. intros Hx.
          destruct (Nat.lt_ge_cases x (S p)) as [Hlt|Hge]; [exact Hlt|]. exfalso.
          destruct (Nat.eq_dec x p) as [->|Hne]; [lia|].
          rewrite (below_nxt_is_attr p x Hpl) in Hxk; [discriminate | ul].
      - exists n. split; [lia|]. split; [|tauto].
        apply (pre_go_plain n Hn) with (k := n); try lia; try exact H0k. unfold nonattrb. rewrite Ek. reflexivity. }
    destruct Hwalk as [hi [Hhi [-> Hcut]]]. split.
    - apply axis_ordered_rev; [reflexivity|]. apply ss_rev, ss_filter, NA_sorted.
    - intros x. rewrite <- in_rev, filter_In, NA_In, negb_true_iff.
      cbn [axis_rel]. unfold preceding_ax, is_node, doc_before, non_attr. fold len.
      assert (Hex : existsb (Nat.eqb x) anc = false <-> ~ ancestor d n x).
      { rewrite <- (Hanc x). split.
        - intros Hf Hin. assert (Ht : existsb (Nat.eqb x) anc = true) by (apply existsb_exists; exists x; split; [exact Hin | apply Nat.eqb_refl]). congruence.
        - intros Hnin. destruct (existsb (Nat.eqb x) anc) eqn:Ee; [|reflexivity]. exfalso. apply Hnin.
          apply existsb_exists in Ee. destruct Ee as [y [Hy Hxy]]. apply Nat.eqb_eq in Hxy. subst. exact Hy. }
      rewrite Hex. split.
      + intros [[[_ Hx] Hxk] Hna]. pose proof (proj1 (Hcut x Hxk Hna) Hx) as Hxn.
        split; [lia|]. split; [exact Hxn|]. split; [exact Hna|].
        apply nonattrb_true; exact Hxk.
      + intros [Hx [Hlt [Hna Hxk]]]. assert (Hxk' : nonattrb d x = true) by (apply nonattrb_true; exact Hxk).
        split; [|exact Hna]. split; [|exact Hxk']. split; [lia|]. apply (Hcut x Hxk' Hna). exact Hlt.
  Qed.
End Follow.
