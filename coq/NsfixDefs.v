(* C14 — namespace fix-up of the result tree: executable model of the code as it is, and the
   independent specification (a namespace-aware reader of the emitted events).
   Definitions only (no proofs) so that extraction works when a proof breaks.

   Modelled C++ (xalanc/XSLT, DOMSupport): XalanNamespacesStack (addDeclaration/pushContext/popContext,
   getNamespaceForPrefix, getPrefixForNamespace), XSLTEngineImpl::addResultAttribute /
   startElement / flushPending / endElement / getUniqueNamespaceValue / isPendingResultPrefix,
   AttributeListImpl::addAttribute (replace by qualified name), ElemAttribute::startElement +
   endElement, ElemElement::startElement (+fixupDefaultNamespace), ElemLiteralResult::startElement
   + evaluateAVTs, NamespacesHandler (constructor, processExcludeResultPrefixes,
   outputResultNamespaces).  Not modelled (second wave, covered by the oracle only):
   namespace-alias, attribute sets, illegal element names; of xsl:copy / xsl:copy-of only the
   ancestor walk of copyNamespaceAttributes (copy_ns_offered) is modelled.

   Strings are abstracted to atoms: the code only compares prefixes/URIs for equality, tests
   emptiness, tests the literal strings "xmlns" / "xml" (as prefixes), and invents "ns<N>".
   State of the code: with the repairs of K3, K16, KN1, KN2, KN3, KN4, KN5, KN8 applied. *)
From Coq Require Import List NArith Bool.
Require Import XV.GenNsfix.
Import ListNotations.
Local Open Scope N_scope.

(* ---------------------------------------------------------------------------------------- *)
(* names *)

Inductive atom : Type :=
| AXmlns                (* the string "xmlns" *)
| AXml                  (* the string "xml" *)
| AXmlish (n : N)       (* a name that starts with "xml" but is neither of the two above (no
                           longer special since the KN3 repair; kept as a generator class) *)
| AUser (n : N)         (* any other name that is not of the form ns<decimal> *)
| AGen (n : N).         (* the string "ns" ++ decimal n : what getUniqueNamespaceValue invents *)

Definition atom_eqb (a b : atom) : bool :=
  match a, b with
  | AXmlns, AXmlns => true
  | AXml, AXml => true
  | AXmlish x, AXmlish y => N.eqb x y
  | AUser x, AUser y => N.eqb x y
  | AGen x, AGen y => N.eqb x y
  | _, _ => false
  end.

Definition pfx := option atom.            (* None = no prefix / the default namespace *)

Definition pfx_eqb (a b : pfx) : bool :=
  match a, b with
  | None, None => true
  | Some x, Some y => atom_eqb x y
  | _, _ => false
  end.

Definition uri := N.                      (* 0 = the empty string *)
Definition uXML : uri := 1.               (* http://www.w3.org/XML/1998/namespace *)
Definition uXMLNS : uri := 2.             (* http://www.w3.org/2000/xmlns/ *)
Definition uXSLT : uri := 3.              (* http://www.w3.org/1999/XSL/Transform *)

Definition qname := (pfx * atom)%type.    (* prefix, local part *)
Definition ename := (uri * atom)%type.    (* expanded name; uri 0 = no namespace *)

Definition qname_eqb (a b : qname) : bool := pfx_eqb (fst a) (fst b) && atom_eqb (snd a) (snd b).
Definition ename_eqb (a b : ename) : bool := N.eqb (fst a) (fst b) && atom_eqb (snd a) (snd b).

(* ---------------------------------------------------------------------------------------- *)
(* attributes, events *)

Record attr : Type := mkAttr {
  a_name : qname;
  a_val : N;              (* attribute value; for a declaration attribute: the namespace URI *)
  a_req : ename           (* ghost: the expanded name the instruction asked for *)
}.

(* which attribute names are namespace declarations, and for which prefix (XML Namespaces) *)
Definition decl_prefix (q : qname) : option pfx :=
  match q with
  | (None, AXmlns) => Some None
  | (Some AXmlns, p) => Some (Some p)
  | _ => None
  end.

Inductive event : Type :=
| EStart (q : qname) (req : ename) (attrs : list attr)
| EEnd
| EText.

(* ---------------------------------------------------------------------------------------- *)
(* XalanNamespacesStack: one context per open result element, innermost first; in a context the
   newest declaration first (the C++ vectors are searched from the back). Contexts are created
   lazily in C++; a context that was never created is an empty list here. *)

Definition ctx := list (pfx * uri).

Fixpoint ctx_lookup (p : pfx) (c : ctx) : option uri :=
  match c with
  | [] => None
  | (p', u) :: r => if pfx_eqb p p' then Some u else ctx_lookup p r
  end.

Fixpoint stk_lookup (p : pfx) (s : list ctx) : option uri :=
  match s with
  | [] => None
  | c :: r => match ctx_lookup p c with Some u => Some u | None => stk_lookup p r end
  end.

Fixpoint ctx_prefix_for (u : uri) (c : ctx) : option pfx :=
  match c with
  | [] => None
  | (p, u') :: r => if N.eqb u u' then Some p else ctx_prefix_for u r
  end.

Fixpoint stk_prefix_for (u : uri) (s : list ctx) : option pfx :=
  match s with
  | [] => None
  | c :: r => match ctx_prefix_for u c with Some p => Some p | None => stk_prefix_for u r end
  end.

Definition all_empty (s : list ctx) : bool :=
  forallb (fun c => match c with [] => true | _ => false end) s.

(* XalanNamespacesStack::getNamespaceForPrefix (the class XSLTEngineImpl::m_resultNamespacesStack
   really has; XSLT/ResultNamespacesStack.cpp is an unused twin): "xml" and "xmlns" are answered
   first; otherwise nothing at all when no context exists (m_stackPosition == m_stackBegin) *)
Definition ns_for_prefix (s : list ctx) (p : pfx) : option uri :=
  match p with
  | Some AXml => Some uXML
  | Some AXmlns => Some uXMLNS
  | _ => if all_empty s then None else stk_lookup p s
  end.

(* XalanNamespacesStack::getPrefixForNamespace: the first declaration with that URI, innermost
   context first; nothing if that prefix has been re-bound to another URI in a nearer context *)
Definition prefix_for_ns (s : list ctx) (u : uri) : option pfx :=
  if all_empty s then None
  else match stk_prefix_for u s with
       | Some p => match ns_for_prefix s p with
                   | Some w => if N.eqb w u then Some p else None
                   | None => None
                   end
       | None => None
       end.

Definition add_decl (p : pfx) (u : uri) (s : list ctx) : list ctx :=
  match s with
  | [] => []                               (* no open element: C++ asserts; not reachable *)
  | c :: r => ((p, u) :: c) :: r
  end.

(* ---------------------------------------------------------------------------------------- *)
(* state of the engine *)

Inductive hazard : Type :=
| HK17           (* two pending attributes with different qualified names, one expanded name *)
| HDeclAttr      (* xsl:attribute whose final name is xmlns or xmlns:.. : creates a declaration *)
| HElemEmptyNs   (* xsl:element name="p:l" namespace="" with p declared in the stylesheet *)
| HLateLiteral   (* literal attribute added after attribute sets: its prefix was re-bound meanwhile *)
| HUnsupported.  (* outside the modelled language *)

Record st : Type := mkSt {
  stk : list ctx;
  pend : option (qname * ename);           (* pending element name (+ghost) *)
  pattrs : list attr;                      (* pending attribute list, oldest first *)
  ctr : N;                                 (* m_uniqueNSValue *)
  out : list event;                        (* emitted events, newest first *)
  hz : list hazard
}.

Definition init_st : st := mkSt [] None [] unique_counter_start [] [].

Definition set_stk (s : st) (k : list ctx) := mkSt k (pend s) (pattrs s) (ctr s) (out s) (hz s).
Definition set_pattrs (s : st) (l : list attr) := mkSt (stk s) (pend s) l (ctr s) (out s) (hz s).
Definition add_hz (s : st) (h : hazard) := mkSt (stk s) (pend s) (pattrs s) (ctr s) (out s) (h :: hz s).
Definition add_hz_if (b : bool) (h : hazard) (s : st) := if b then add_hz s h else s.

(* AttributeListImpl::addAttribute: same qualified name => value replaced in place, else appended *)
Fixpoint add_attribute (l : list attr) (a : attr) : list attr :=
  match l with
  | [] => [a]
  | b :: r => if qname_eqb (a_name b) (a_name a) then a :: r else b :: add_attribute r a
  end.

Definition no_req : ename := (0, AXmlns).

(* K17 repair (GenNsfix.k17_fixed): an ordinary attribute with a prefix is stored under the name of
   a pending attribute that has the same local part and another prefix bound to the same namespace
   (findAttributeWithSameExpandedName), so that its value replaces that attribute's *)
Definition same_exp (k : list ctx) (n : qname) (b : attr) : bool :=
  match n, a_name b with
  | (Some x, l), (Some y, l') =>
      atom_eqb l l' && negb (atom_eqb x y) && negb (atom_eqb y AXmlns)
      && match ns_for_prefix k (Some x), ns_for_prefix k (Some y) with
         | Some u, Some w => N.eqb u w
         | _, _ => false
         end
  | _, _ => false
  end.

Definition merge_target (k : list ctx) (l : list attr) (n : qname) : option qname :=
  match find (same_exp k n) l with Some b => Some (a_name b) | None => None end.

Definition add_attr_x (k : list ctx) (l : list attr) (a : attr) : list attr :=
  if k17_fixed then
    match merge_target k l (a_name a) with
    | Some n' => add_attribute l (mkAttr n' (a_val a) (a_req a))
    | None => add_attribute l a
    end
  else add_attribute l a.

(* XSLTEngineImpl::addResultAttribute(pending attributes, aname, value, fromCopy=false) *)
Definition add_result_attr (s : st) (name : qname) (v : N) (req : ename) : st :=
  let keep := set_pattrs s (add_attribute (pattrs s) (mkAttr name v req)) in
  let declare p := set_stk keep (add_decl p v (stk s)) in
  match name with
  | (Some AXmlns, AXml) => s                                   (* "xmlns:xml" is never written *)
  | (None, AXmlns) =>                                          (* "xmlns" *)
      let cur := ns_for_prefix (stk s) None in
      if negb (N.eqb v 0) then
        match cur with
        | Some c => if N.eqb c v then s else declare None
        | None => declare None
        end
      else
        match cur with
        | Some c => if negb (N.eqb c 0) then declare None else s
        | None => s
        end
  | (Some AXmlns, p) =>                                        (* "xmlns:p" *)
      match ns_for_prefix (stk s) (Some p) with
      | None => declare (Some p)
      | Some u => if N.eqb u v then s else declare (Some p)
      end
  | _ => set_pattrs s (add_attr_x (stk s) (pattrs s) (mkAttr name v req))
  end.

(* XSLTEngineImpl::flushPending (the part that concerns the pending start tag) *)
Definition flush (s : st) : st :=
  match pend s with
  | Some (q, req) => mkSt (stk s) None [] (ctr s) (EStart q req (pattrs s) :: out s) (hz s)
  | None => s                                  (* the pending attribute list is NOT cleared *)
  end.

(* XSLTEngineImpl::startElement(name) *)
Definition start_elem (s : st) (q : qname) (req : ename) : st :=
  let s1 := flush s in
  mkSt ([] :: stk s1) (Some (q, req)) (pattrs s1) (ctr s1) (out s1) (hz s1).

(* XSLTEngineImpl::endElement; an end with no open element is ignored (not a program) *)
Definition end_elem (s : st) : st :=
  match stk s with
  | [] => s
  | _ :: _ =>
      let s1 := flush s in
      mkSt (tl (stk s1)) None (pattrs s1) (ctr s1) (EEnd :: out s1) (hz s1)
  end.

Definition text (s : st) : st :=
  let s1 := flush s in
  mkSt (stk s1) (pend s1) (pattrs s1) (ctr s1) (EText :: out s1) (hz s1).

(* XSLTEngineImpl::isPendingResultPrefix *)
Definition attr_uses_prefix (p : atom) (a : attr) : bool :=
  match fst (a_name a) with
  | Some AXmlns => atom_eqb p AXmlns || atom_eqb p (snd (a_name a))   (* used, or declared *)
  | Some q => atom_eqb p q
  | None => false
  end.

Definition is_pending_prefix (s : st) (p : atom) : bool :=
  (match pend s with
   | Some ((Some q, _), _) => atom_eqb p q
   | _ => false
   end) || existsb (attr_uses_prefix p) (pattrs s).

(* XSLTEngineImpl::getUniqueNamespaceValue: do { c = "ns" + counter++ } while (c is bound).
   Fuel: one more than the number of declarations in the stack always suffices (NsfixModel). *)
Fixpoint unique_loop (fuel : nat) (k : list ctx) (c : N) : N :=
  match fuel with
  | O => c
  | S f => match ns_for_prefix k (Some (AGen c)) with
           | None => c
           | Some _ => unique_loop f k (c + unique_counter_step)
           end
  end.

Definition gen_unique (s : st) : atom * st :=
  let c := unique_loop (S (length (concat (stk s)))) (stk s) (ctr s) in
  (AGen c, mkSt (stk s) (pend s) (pattrs s) (c + unique_counter_step) (out s) (hz s)).

(* ---------------------------------------------------------------------------------------- *)
(* the instructions (a program is a flat, normally well-nested, list of these) *)

Inductive op : Type :=
| OText
| OEnd
(* xsl:attribute: name, evaluated namespace attribute (None = absent), the stylesheet's namespace
   for the name's prefix (None = undeclared), value *)
| OAttr (name : qname) (nsattr : option uri) (sns : option uri) (v : N)
(* the same instruction as a member of an xsl:attribute-set *)
| OSetAttr (name : qname) (nsattr : option uri) (sns : option uri) (v : N)
(* xsl:element: name, evaluated namespace attribute, stylesheet namespace of the prefix, the
   stylesheet's default namespace at the instruction, and at its parent (0 = none) *)
| OElem (name : qname) (nsattr : option uri) (sns : option uri) (sdef : option uri) (pdef : uri)
(* literal result element: name, in-scope stylesheet namespaces (innermost element first, each
   element's declarations in document order), URIs designated by exclude-result-prefixes in
   scope, literal attributes *)
| OLre (name : qname) (inscope : list (pfx * uri)) (excl : list uri) (attrs : list (qname * N))
(* the same element with xsl:use-attribute-sets, in two steps (see lre_open / lre_attrs_late) *)
| OLreOpen (name : qname) (inscope : list (pfx * uri)) (excl : list uri) (attrs : list (qname * N))
| OLreAttrs (inscope : list (pfx * uri)) (attrs : list (qname * N)).

(* ---- requested expanded names (specification side; XSLT 1.0 sections 7.1.1-7.1.3) ---- *)

Definition inscope_ns (inscope : list (pfx * uri)) (p : pfx) : option uri :=
  match p with
  | Some AXml => Some uXML
  | _ => ctx_lookup p inscope
  end.

Definition req_lre_elem (name : qname) (inscope : list (pfx * uri)) : ename :=
  (match inscope_ns inscope (fst name) with Some u => u | None => 0 end, snd name).

Definition req_lre_attr (name : qname) (inscope : list (pfx * uri)) : ename :=
  (match fst name with
   | None => 0
   | p => match inscope_ns inscope p with Some u => u | None => 0 end
   end, snd name).

Definition req_elem (name : qname) (nsattr sns sdef : option uri) : ename :=
  (match nsattr with
   | Some u => u
   | None => match fst name with
             | None => match sdef with Some d => d | None => 0 end
             | Some AXml => uXML
             | Some _ => match sns with Some u => u | None => 0 end
             end
   end, snd name).

Definition req_attr (name : qname) (nsattr sns : option uri) : ename :=
  (match nsattr with
   | Some u => u
   | None => match fst name with
             | None => 0
             | Some AXml => uXML
             | Some _ => match sns with Some u => u | None => 0 end
             end
   end, snd name).

(* ---- xsl:attribute ---- *)

(* ElemAttribute::endElement -> addResultAttribute(attrName, value); the K17 and declaration
   hazards are noted here *)
Definition emit_attr (s : st) (name : qname) (v : N) (req : ename) : st :=
  let clash := existsb (fun a => match decl_prefix (a_name a) with
                                 | Some _ => false
                                 | None => ename_eqb (a_req a) req && negb (qname_eqb (a_name a) name)
                                 end) (pattrs s) in
  let isdecl := match decl_prefix name with Some _ => true | None => false end in
  add_result_attr (add_hz_if isdecl HDeclAttr (add_hz_if (clash && negb k17_fixed) HK17 s)) name v req.

Definition declare_prefix (s : st) (p : atom) (u : uri) : st :=
  add_result_attr s (Some AXmlns, p) u no_req.

(* xsl:attribute with a namespace: no usable prefix is bound to the URI, so a declaration is
   generated for the prefix of the name (unless it is xmlns, or xml with a foreign URI, or bound to
   another URI and in use on the pending element) or for an invented prefix.
   nr (KN10 repair, GenNsfix.kn10_fixed, for an xsl:attribute of an attribute set): a prefix bound
   to another URI is never re-bound, in use or not *)
Definition attr_new_decl (nr : bool) (s : st) (P : pfx) (L : atom) (u : uri) (v : N) (req : ename) : st :=
  let keep_user :=
    match P with
    | Some AXmlns => None
    | Some p =>
        if atom_eqb p AXml && negb (N.eqb u uXML) then None
        else
        match ns_for_prefix (stk s) (Some p) with
        | Some w => if negb (N.eqb w u) && (nr || is_pending_prefix s p) then None else Some p
        | None => Some p
        end
    | None => None
    end in
  match keep_user with
  | Some p =>
      let s1 := declare_prefix s p u in
      emit_attr s1 (Some p, L) v req
  | None =>
      let (g, s1) := gen_unique s in
      let s2 := declare_prefix s1 g u in
      emit_attr s2 (Some g, L) v req
  end.

Definition exec_attr (inset : bool) (s : st) (name : qname) (nsattr sns : option uri) (v : N) : st :=
  let P := fst name in
  let L := snd name in
  let req := req_attr name nsattr sns in
  match nsattr with
  | Some u =>
      match pend s with
      | None => s                                              (* warning, attribute dropped *)
      | Some _ =>
          if N.eqb u 0 then emit_attr s (None, L) v req
          else
            match prefix_for_ns (stk s) u with
            | Some (Some q) =>
                if match P with None => true | Some p => atom_eqb p q end
                then emit_attr s (Some q, L) v req
                else attr_new_decl (kn10_fixed && inset) s P L u v req
            | _ => attr_new_decl (kn10_fixed && inset) s P L u v req
            end
      end
  | None =>
      match pend s with
      | None => s                                              (* warning, attribute dropped *)
      | Some _ =>
          if qname_eqb name (None, AXmlns) then s             (* name="xmlns": dropped *)
          else
            match P with
            | None => emit_attr s name v req
            | Some AXml | Some AXmlns =>
                (* "don't try to create a namespace declaration for anything that starts with
                   xml: or xmlns:" *)
                emit_attr s name v req
            | Some p =>
                match sns with
                | None => s                                    (* prefix not declared: dropped *)
                | Some n =>
                    let conflict := match ns_for_prefix (stk s) (Some p) with
                                    | Some w => negb (N.eqb n w)
                                    | None => false
                                    end in
                    let (p', s1) := if conflict then gen_unique s else (p, s) in
                    if N.eqb n 0 then s1
                    else
                      (* a declaration unless the prefix itself is bound to the namespace *)
                      let bound := match ns_for_prefix (stk s1) (Some p') with
                                   | Some w => N.eqb w n
                                   | None => false
                                   end in
                      if bound then emit_attr s1 (Some p', L) v req
                      else emit_attr (declare_prefix s1 p' n) (Some p', L) v req
                end
            end
      end
  end.

(* ---- xsl:element ---- *)

Definition declare_default (s : st) (u : uri) : st := add_result_attr s (None, AXmlns) u no_req.

(* xsl:element whose (remaining) name has no prefix *)
Definition elem_unprefixed (s : st) (name : qname) (req : ename) (nsattr sdef : option uri) (pdef : uri) : st :=
  let ens0 := match nsattr with Some u => u | None => 0 end in
  let s1 := start_elem s name req in
  match nsattr with
  | None =>                                                (* fixupDefaultNamespace *)
      match ns_for_prefix (stk s1) None, sdef with
      | Some c, None => declare_default s1 0
      | Some c, Some d => if N.eqb c d then s1 else declare_default s1 d
      | None, Some d => declare_default s1 d
      | None, None => s1
      end
  | Some _ =>
      if negb (N.eqb ens0 0) then
        match ns_for_prefix (stk s1) None with
        | Some c => if N.eqb c ens0 then s1 else declare_default s1 ens0
        | None => declare_default s1 ens0
        end
      else
        if negb (N.eqb pdef 0) || (match ns_for_prefix (stk s1) None with Some _ => true | None => false end)
        then declare_default s1 0 else s1
  end.

Definition exec_elem (s : st) (name : qname) (nsattr sns sdef : option uri) (pdef : uri) : st :=
  let P := fst name in
  let L := snd name in
  let req := req_elem name nsattr sns sdef in
  let ens0 := match nsattr with Some u => u | None => 0 end in
  match P with
  | None => elem_unprefixed s name req nsattr sdef pdef
  | Some p =>
      match sns, N.eqb ens0 0, nsattr with
      | None, true, None =>
          (* illegal element name: not modelled *)
          add_hz (start_elem s name req) HUnsupported
      | None, true, Some _ =>
          (* undeclared prefix and namespace="": the prefix is stripped *)
          elem_unprefixed s (None, L) req nsattr sdef pdef
      | _, _, _ =>
          if kn6_fixed && match nsattr, sns with
                          | Some 0, Some _ => negb (atom_eqb p AXmlns)
                          | _, _ => false
                          end
          then
            (* KN6 repair: namespace="" with a declared prefix: the prefix is dropped *)
            elem_unprefixed s (None, L) req nsattr sdef pdef
          else
          if negb (N.eqb ens0 0) && (atom_eqb p AXmlns || (atom_eqb p AXml && negb (N.eqb ens0 uXML)))
          then
            (* reserved prefix that cannot be bound to the requested namespace: dropped, the
               element gets the namespace through a default namespace declaration *)
            elem_unprefixed s (None, L) req nsattr sdef pdef
          else
          let ens := match sns with
                     | Some n => if N.eqb ens0 0 && negb (atom_eqb p AXmlns) then n else ens0
                     | None => ens0
                     end in
          let h1 := match nsattr, sns with
                    | Some 0, Some _ => negb (atom_eqb p AXmlns)
                    | _, _ => false
                    end in
          let h2 := match p with
                    | AXmlns => true
                    | AXml => negb (N.eqb ens uXML)
                    | _ => false
                    end in
          let h3 := N.eqb ens 0 in                     (* a prefix bound to "" : not a stylesheet *)
          let s1 := start_elem (add_hz_if (h2 || h3) HUnsupported (add_hz_if h1 HElemEmptyNs s)) name req in
          match ns_for_prefix (stk s1) (Some p) with
          | Some w => if N.eqb w ens then s1 else declare_prefix s1 p ens
          | None => declare_prefix s1 p ens
          end
      end
  end.

Fixpoint nodup_by {A} (eqb : A -> A -> bool) (l : list A) : bool :=
  match l with
  | [] => true
  | x :: r => negb (existsb (eqb x) r) && nodup_by eqb r
  end.

(* ---- literal result element ---- *)

Definition mem_uri (u : uri) (l : list uri) : bool := existsb (N.eqb u) l.
Definition mem_pfx (p : pfx) (l : list pfx) : bool := existsb (pfx_eqb p) l.

(* NamespacesHandler constructor: first (innermost) declaration per prefix wins *)
Fixpoint dedupe (l : list (pfx * uri)) (seen : list pfx) : list (pfx * uri) :=
  match l with
  | [] => []
  | (p, u) :: r => if mem_pfx p seen then dedupe r seen else (p, u) :: dedupe r (p :: seen)
  end.

(* AVTPrefixChecker::isActive: only attribute names with a colon are looked at *)
Definition attr_prefix_active (p : pfx) (attrs : list (qname * N)) : bool :=
  match p with
  | None => false
  | Some _ => existsb (fun a => pfx_eqb p (fst (fst a))) attrs
  end.

(* m_namespaceDeclarations after the constructor and processExcludeResultPrefixes *)
Definition lre_decls (name : qname) (inscope : list (pfx * uri)) (excl : list uri)
           (attrs : list (qname * N)) : list (pfx * uri) :=
  filter (fun d => let '(p, u) := d in
            negb (N.eqb u uXSLT) && negb (N.eqb u uXML)
            && (negb (mem_uri u excl) || pfx_eqb p (fst name) || attr_prefix_active p attrs))
         (dedupe inscope []).

(* NamespacesHandler::outputResultNamespaces, one declaration *)
Definition output_ns (s : st) (d : pfx * uri) : st :=
  let '(p, u) := d in
  let name : qname := match p with None => (None, AXmlns) | Some a => (Some AXmlns, a) end in
  match ns_for_prefix (stk s) p with
  | Some w => if N.eqb w u then s else add_result_attr s name u no_req
  | None => add_result_attr s name u no_req
  end.

(* sanity of the stylesheet-side arguments of a literal result element (what a stylesheet that
   parses can give): no binding of xml/xmlns, no xmlns:p="", the element's and the literal
   attributes' prefixes are declared and not in the XSLT/XML namespace (such names are XSLT
   elements/attributes, not literal ones), no literal xmlns attribute, no two literal attributes
   with one expanded name.  Anything else is flagged HUnsupported. *)
Definition special_uri (u : uri) : bool := N.eqb u uXSLT || N.eqb u uXML.

Definition inscope_entry_ok (d : pfx * uri) : bool :=
  match fst d with
  | None => true
  | Some AXml | Some AXmlns => false
  | Some _ => negb (N.eqb (snd d) 0)
  end.

Definition name_prefix_ok (inscope : list (pfx * uri)) (p : pfx) (is_elem : bool) : bool :=
  match p with
  | None => if is_elem
            then match ctx_lookup None inscope with Some d => negb (special_uri d) | None => true end
            else true
  | Some AXml => true
  | Some AXmlns => false
  | Some _ => match ctx_lookup p inscope with Some u => negb (special_uri u) | None => false end
  end.

Definition lre_wf (name : qname) (inscope : list (pfx * uri)) (attrs : list (qname * N)) : bool :=
  forallb inscope_entry_ok inscope
  && name_prefix_ok inscope (fst name) true
  && forallb (fun a => match decl_prefix (fst a) with
                       | Some _ => false
                       | None => name_prefix_ok inscope (fst (fst a)) false
                       end) attrs
  && nodup_by ename_eqb (map (fun a => req_lre_attr (fst a) inscope) attrs).

(* the default-namespace check of ElemLiteralResult::startElement for an unprefixed name *)
Definition lre_fixup (s : st) (name : qname) (inscope : list (pfx * uri)) : st :=
  match fst name with
  | Some _ => s
  | None =>
      match ns_for_prefix (stk s) None with
      | Some c =>
          match ctx_lookup None (dedupe inscope []) with
          | None => declare_default s 0
          | Some d => if N.eqb c d then s else declare_default s d
          end
      | None => s
      end
  end.

(* evaluateAVTs *)
Definition lre_attrs (s : st) (inscope : list (pfx * uri)) (attrs : list (qname * N)) : st :=
  fold_left (fun s a => add_result_attr s (fst a) (snd a) (req_lre_attr (fst a) inscope)) attrs s.

(* ElemLiteralResult::startElement up to and including the default-namespace check: start tag
   pending, the element's namespace declarations written *)
Definition lre_open (s : st) (name : qname) (inscope : list (pfx * uri)) (excl : list uri)
           (attrs : list (qname * N)) : st :=
  let req := req_lre_elem name inscope in
  let s1 := start_elem (add_hz_if (negb (lre_wf name inscope attrs)) HUnsupported s) name req in
  let s2 := fold_left output_ns (lre_decls name inscope excl attrs) s1 in
  lre_fixup s2 name inscope.

(* a literal result element without xsl:use-attribute-sets: the literal attributes follow at once *)
Definition exec_lre (s : st) (name : qname) (inscope : list (pfx * uri)) (excl : list uri)
           (attrs : list (qname * N)) : st :=
  lre_attrs (lre_open s name inscope excl attrs) inscope attrs.

(* with xsl:use-attribute-sets the attribute sets are instantiated AFTER the declarations and
   BEFORE the literal attributes (ElemUse::getFirstChildElemToExecute / getNextChildElemToExecute:
   evaluateAVTs runs when the last attribute set is done).  A program then is
   OLreOpen; OAttr ... (the xsl:attribute instructions of the sets); OLreAttrs.
   By then a literal attribute's prefix may have been re-bound on the pending element by an
   xsl:attribute of a set (it was neither used nor declared on the start tag yet): HLateLiteral. *)
Definition late_attr (s : st) (inscope : list (pfx * uri)) (a : qname * N) : st :=
  match pend s with
  | None => add_hz s HUnsupported                              (* not a program *)
  | Some _ =>
      let name := fst a in
      let req := req_lre_attr name inscope in
      let mismatch :=
        match fst name with
        | None | Some AXml => false
        | Some x => match ns_for_prefix (stk s) (Some x) with
                    | Some w => negb (N.eqb w (fst req)) || N.eqb w 0
                    | None => true
                    end
        end in
      emit_attr (add_hz_if mismatch HLateLiteral s) name (snd a) req
  end.

Definition lre_attrs_late (s : st) (inscope : list (pfx * uri)) (attrs : list (qname * N)) : st :=
  fold_left (fun s a => late_attr s inscope a) attrs s.

(* ---------------------------------------------------------------------------------------- *)
(* XSLTEngineImpl::copyNamespaceAttributes (xsl:copy / xsl:copy-of of a source element): the
   declaration attributes of the copied element and of its ancestors are offered to
   addResultNamespace, nearest element first; an attribute NAME already seen on a nearer element is
   skipped (m_attributeNamesVisited, cleared once, after the walk - GenNsfix anchors that).
   A level is the list of (prefix, uri) of the xmlns attributes of one source element. *)
Fixpoint copy_ns_level (attrs : list (pfx * uri)) (visited : list pfx) : list (pfx * uri) * list pfx :=
  match attrs with
  | [] => ([], visited)
  | (p, u) :: r =>
      if mem_pfx p visited then copy_ns_level r visited
      else let (o, v) := copy_ns_level r (p :: visited) in ((p, u) :: o, v)
  end.

Fixpoint copy_ns_walk (levels : list (list (pfx * uri))) (visited : list pfx) : list (pfx * uri) :=
  match levels with
  | [] => []
  | l :: r => let (o, v) := copy_ns_level l visited in o ++ copy_ns_walk r v
  end.

Definition copy_ns_offered (levels : list (list (pfx * uri))) : list (pfx * uri) :=
  copy_ns_walk levels [].

Definition exec_op (s : st) (o : op) : st :=
  match o with
  | OText => text s
  | OEnd => end_elem s
  | OAttr name nsattr sns v => exec_attr false s name nsattr sns v
  | OSetAttr name nsattr sns v => exec_attr true s name nsattr sns v
  | OElem name nsattr sns sdef pdef => exec_elem s name nsattr sns sdef pdef
  | OLre name inscope excl attrs => exec_lre s name inscope excl attrs
  | OLreOpen name inscope excl attrs => lre_open s name inscope excl attrs
  | OLreAttrs inscope attrs => lre_attrs_late s inscope attrs
  end.

Definition run_from (s : st) (ops : list op) : st := fold_left exec_op ops s.
Definition run (ops : list op) : st := run_from init_st ops.

(* the events in emission order, and the guard of the partial theorem *)
Definition events (s : st) : list event := rev (out s).
Definition guard_ok (ops : list op) : bool :=
  match hz (run ops) with [] => true | _ => false end.

(* ---------------------------------------------------------------------------------------- *)
(* specification: a namespace-aware reader of the emitted events (independent of the stack) *)

Fixpoint attrs_lookup (p : pfx) (l : list attr) : option uri :=
  match l with
  | [] => None
  | a :: r => match decl_prefix (a_name a) with
              | Some p' => if pfx_eqb p p' then Some (a_val a) else attrs_lookup p r
              | None => attrs_lookup p r
              end
  end.

Definition scope := list (list attr).     (* attribute lists of the open elements, innermost first *)

Fixpoint scope_lookup (p : pfx) (sc : scope) : option uri :=
  match sc with
  | [] => None
  | l :: r => match attrs_lookup p l with Some u => Some u | None => scope_lookup p r end
  end.

(* namespace URI a prefix of an ELEMENT name denotes; None = error (unbound / reserved) *)
Definition resolve_prefix (sc : scope) (p : pfx) : option uri :=
  match p with
  | None => Some (match scope_lookup None sc with Some u => u | None => 0 end)
  | Some AXml => Some uXML
  | Some AXmlns => None
  | Some _ => match scope_lookup p sc with
              | Some u => if N.eqb u 0 then None else Some u
              | None => None
              end
  end.

Definition resolve_elem (sc : scope) (q : qname) : option ename :=
  match resolve_prefix sc (fst q) with Some u => Some (u, snd q) | None => None end.

Definition resolve_attr (sc : scope) (q : qname) : option ename :=
  match fst q with
  | None => Some (0, snd q)
  | p => match resolve_prefix sc p with Some u => Some (u, snd q) | None => None end
  end.

Definition opt_ename_eqb (a : option ename) (b : ename) : bool :=
  match a with Some x => ename_eqb x b | None => false end.

Definition decl_ok (p : pfx) (u : uri) : bool :=
  match p with
  | None => true
  | Some AXmlns => false
  | Some AXml => false
  | Some _ => negb (N.eqb u 0)
  end.

Definition plain_attrs (l : list attr) : list attr :=
  filter (fun a => match decl_prefix (a_name a) with Some _ => false | None => true end) l.

(* one start tag: the element and every attribute resolve to the requested expanded names, the
   declarations are legal, no qualified name twice, no expanded name twice *)
Definition check_start (sc : scope) (q : qname) (req : ename) (attrs : list attr) : bool :=
  let sc' := attrs :: sc in
  opt_ename_eqb (resolve_elem sc' q) req
  && forallb (fun a => match decl_prefix (a_name a) with
                       | Some p => decl_ok p (a_val a)
                       | None => opt_ename_eqb (resolve_attr sc' (a_name a)) (a_req a)
                       end) attrs
  && nodup_by qname_eqb (map a_name attrs)
  && nodup_by ename_eqb (map a_req (plain_attrs attrs)).

Definition chk_step (sc : option scope) (e : event) : option scope :=
  match sc with
  | None => None
  | Some sc =>
      match e with
      | EStart q req attrs => if check_start sc q req attrs then Some (attrs :: sc) else None
      | EEnd => match sc with _ :: r => Some r | [] => None end
      | EText => Some sc
      end
  end.

Definition chk_run (evs : list event) : option scope := fold_left chk_step evs (Some []).

Definition wellformed (evs : list event) : bool :=
  match chk_run evs with Some _ => true | None => false end.

(* the compile-time clause: what an LRE may declare *)
Definition lre_decl_allowed (name : qname) (excl : list uri) (attrs : list (qname * N)) (d : pfx * uri) : bool :=
  negb (N.eqb (snd d) uXSLT) && negb (N.eqb (snd d) uXML)
  && (negb (mem_uri (snd d) excl) || pfx_eqb (fst d) (fst name)
      || attr_prefix_active (fst d) attrs).
