(* XpSpecSubstrAuxModel.v -- facts about the IEEE double operations used by substring()
   (d_add, d_sub, d_le, d_lt, d_of_nat, d_round, d_to_nat_trunc), derived from Flocq's
   correctness theorems through the SpecFloat <-> Binary bridge (SF2B / B2SF). *)
From Coq Require Import ZArith Lia Reals SpecFloat List Bool Lra.
From Flocq Require Import Core IEEE754.BinarySingleNaN.
Require Import XV.GenNum XV.NumDefs XV.NumModel XV.NumFlocq XV.XpAst XV.DomDefs XV.XpDefs.
Local Open Scope Z_scope.

Notation bfloat := (binary_float prec emax).

Global Instance dfexp_valid : Valid_exp dfexp := fexp_correct prec emax prec_gt_0_dbl.
Global Instance dfexp_monotone : Monotone_exp dfexp := fexp_monotone prec emax.

(** * SpecFloat operations are Flocq's operations in mode_NE *)

Lemma binary_normalize_equiv : forall m e sz,
  SpecFloat.binary_normalize prec emax m e sz
  = B2SF (BinarySingleNaN.binary_normalize prec emax _ _ mode_NE m e sz).
Proof.
  intros [|p|p] e sz; simpl; try reflexivity;
  rewrite B2SF_SF2B; apply binary_round_equiv.
Qed.

Lemma SFadd_Bplus : forall x y : bfloat,
  SFadd prec emax (B2SF x) (B2SF y) = B2SF (Bplus mode_NE x y).
Proof.
  intros [sx|sx| |sx mx ex Hx] [sy|sy| |sy my ey Hy]; try reflexivity;
  try (simpl; destruct (Bool.eqb _ _); reflexivity).
  apply binary_normalize_equiv.
Qed.

Lemma SFsub_Bminus : forall x y : bfloat,
  SFsub prec emax (B2SF x) (B2SF y) = B2SF (Bminus mode_NE x y).
Proof.
  intros [sx|sx| |sx mx ex Hx] [sy|sy| |sy my ey Hy]; try reflexivity;
  try (simpl; destruct (Bool.eqb _ _); reflexivity).
  unfold Bminus. rewrite <- binary_normalize_equiv. unfold Fplus_naive.
  cbn [B2SF SFsub]. cbv zeta.
  f_equal. destruct sy; cbn [negb cond_Zopp]; lia.
Qed.

(** * finite valid doubles and their real value *)

Definition fin (x : dbl) (v : R) : Prop :=
  valid_binary prec emax x = true /\ is_finite_SF x = true /\ SF2R radix2 x = v.

Lemma fin_B : forall x v, fin x v ->
  exists bx : bfloat, x = B2SF bx /\ is_finite bx = true /\ B2R bx = v.
Proof.
  intros x v (V & F & E). exists (SF2B x V).
  rewrite B2SF_SF2B, is_finite_SF2B, B2R_SF2B. auto.
Qed.

Lemma B_fin : forall bx : bfloat, is_finite bx = true -> fin (B2SF bx) (B2R bx).
Proof.
  intros bx F. split; [apply valid_binary_B2SF|].
  split; [now rewrite is_finite_SF_B2SF | apply SF2R_B2SF].
Qed.

Lemma fin_le : forall x y vx vy, fin x vx -> fin y vy -> d_le x y = Rle_bool vx vy.
Proof.
  intros x y vx vy Hx Hy.
  destruct (fin_B _ _ Hx) as (bx & -> & Fx & <-).
  destruct (fin_B _ _ Hy) as (by_ & -> & Fy & <-).
  exact (Bleb_correct _ _ bx by_ Fx Fy).
Qed.

Lemma fin_lt : forall x y vx vy, fin x vx -> fin y vy -> d_lt x y = Rlt_bool vx vy.
Proof.
  intros x y vx vy Hx Hy.
  destruct (fin_B _ _ Hx) as (bx & -> & Fx & <-).
  destruct (fin_B _ _ Hy) as (by_ & -> & Fy & <-).
  exact (Bltb_correct _ _ bx by_ Fx Fy).
Qed.

Lemma Bsign_true_le0 : forall bx : bfloat, is_finite bx = true -> Bsign bx = true -> (B2R bx <= 0)%R.
Proof.
  intros [s|s| |s m e H]; simpl; try discriminate; try lra.
  intros _ ->. apply F2R_le_0. simpl. lia.
Qed.

Lemma Bsign_false_ge0 : forall bx : bfloat, is_finite bx = true -> Bsign bx = false -> (0 <= B2R bx)%R.
Proof.
  intros [s|s| |s m e H]; simpl; try discriminate; try lra.
  intros _ ->. apply F2R_ge_0. simpl. lia.
Qed.

Definition bigR : R := bpow radix2 emax.

(* the result of an addition / subtraction of finite doubles *)
Definition arith_result (r : dbl) (v : R) : Prop :=
  fin r (rnd v) \/
  (r = S754_infinity false /\ (bigR <= rnd v)%R) \/
  (r = S754_infinity true /\ (rnd v <= - bigR)%R).

Lemma overflow_sign : forall (s : bool) (vx vy : R),
  ((if s then vx <= 0 else 0 <= vx) ->
   (if s then vy <= 0 else 0 <= vy) ->
   bigR <= Rabs (rnd (vx + vy)) ->
   if s then rnd (vx + vy) <= - bigR else bigR <= rnd (vx + vy))%R.
Proof.
  intros s vx vy Hx Hy Hb.
  assert (Hz : rnd 0 = 0%R) by (apply round_0; auto with typeclass_instances).
  destruct s.
  - assert (rnd (vx + vy) <= 0)%R.
    { rewrite <- Hz. apply round_le; auto with typeclass_instances; lra. }
    rewrite Rabs_left1 in Hb by assumption. lra.
  - assert (0 <= rnd (vx + vy))%R.
    { rewrite <- Hz. apply round_le; auto with typeclass_instances; lra. }
    rewrite Rabs_pos_eq in Hb by assumption. lra.
Qed.

Lemma fin_add : forall x y vx vy, fin x vx -> fin y vy -> arith_result (d_add x y) (vx + vy).
Proof.
  intros x y vx vy Hx Hy.
  destruct (fin_B _ _ Hx) as (bx & -> & Fx & <-).
  destruct (fin_B _ _ Hy) as (by_ & -> & Fy & <-).
  unfold d_add. rewrite SFadd_Bplus.
  generalize (Bplus_correct prec emax _ _ mode_NE bx by_ Fx Fy).
  change (round_mode mode_NE) with ZnearestE.
  destruct (Rlt_bool_spec (Rabs (rnd (B2R bx + B2R by_))) (bpow radix2 emax)) as [Hlt|Hge].
  - intros (E & F & _). left. rewrite <- E. now apply B_fin.
  - intros (E & S). rewrite E. right.
    assert (Hs := overflow_sign (Bsign bx) (B2R bx) (B2R by_)).
    destruct (Bsign bx) eqn:Sx; [right|left]; (split; [reflexivity|]); apply Hs; auto.
    + now apply Bsign_true_le0.
    + apply Bsign_true_le0; congruence.
    + now apply Bsign_false_ge0.
    + apply Bsign_false_ge0; congruence.
Qed.

Lemma fin_sub : forall x y vx vy, fin x vx -> fin y vy -> arith_result (d_sub x y) (vx - vy).
Proof.
  intros x y vx vy Hx Hy.
  destruct (fin_B _ _ Hx) as (bx & -> & Fx & <-).
  destruct (fin_B _ _ Hy) as (by_ & -> & Fy & <-).
  unfold d_sub. rewrite SFsub_Bminus.
  generalize (Bminus_correct prec emax _ _ mode_NE bx by_ Fx Fy).
  change (round_mode mode_NE) with ZnearestE.
  destruct (Rlt_bool_spec (Rabs (rnd (B2R bx - B2R by_))) (bpow radix2 emax)) as [Hlt|Hge].
  - intros (E & F & _). left. rewrite <- E. now apply B_fin.
  - intros (E & S). rewrite E. right.
    assert (Hs := overflow_sign (Bsign bx) (B2R bx) (- B2R by_)).
    unfold Rminus.
    destruct (Bsign bx) eqn:Sx; [right|left]; (split; [reflexivity|]); apply Hs; auto.
    + now apply Bsign_true_le0.
    + assert (0 <= B2R by_)%R by (apply Bsign_false_ge0; auto; destruct (Bsign by_); auto; discriminate). lra.
    + now apply Bsign_false_ge0.
    + assert (B2R by_ <= 0)%R by (apply Bsign_true_le0; auto; destruct (Bsign by_); auto; discriminate). lra.
Qed.

(** * integers up to 2^53 are doubles *)

Notation M53 := 9007199254740992 (only parsing).   (* 2^53 *)

Lemma M53_pow : 2 ^ 53 = M53.  Proof. reflexivity. Qed.

Lemma int_format : forall z, Z.abs z <= M53 -> generic_format radix2 dfexp (IZR z).
Proof.
  intros z Hz.
  change dfexp with (FLT_exp (3 - emax - prec) prec). apply generic_format_FLT.
  destruct (Z.eq_dec (Z.abs z) M53) as [E|NE].
  - exists (Float radix2 (Z.sgn z) 53).
    + unfold F2R. cbn [Fnum Fexp]. rewrite <- (IZR_Zpower radix2 53) by lia.
      rewrite <- mult_IZR. f_equal. change (radix2 ^ 53) with M53. lia.
    + cbn [Fnum]. change (radix2 ^ prec) with M53. lia.
    + cbn [Fexp]. unfold emax, prec. lia.
  - exists (Float radix2 z 0).
    + unfold F2R. cbn [Fnum Fexp]. simpl. ring.
    + cbn [Fnum]. change (radix2 ^ prec) with M53. lia.
    + cbn [Fexp]. unfold emax, prec. lia.
Qed.

Lemma rnd_int : forall z, Z.abs z <= M53 -> rnd (IZR z) = IZR z.
Proof. intros z Hz. apply round_generic; auto with typeclass_instances. now apply int_format. Qed.

Lemma M53_lt_bigR : (IZR M53 < bigR)%R.
Proof.
  unfold bigR. change M53 with (radix2 ^ 53). rewrite IZR_Zpower by lia.
  apply bpow_lt. unfold emax. lia.
Qed.

Lemma small_lt_bigR : forall z, Z.abs z <= M53 -> (Rabs (IZR z) < bigR)%R.
Proof.
  intros z Hz. rewrite <- abs_IZR. apply Rle_lt_trans with (IZR M53).
  now apply IZR_le. apply M53_lt_bigR.
Qed.

Definition isint (x : dbl) (X : Z) : Prop := fin x (IZR X).

Definition atleast (x : dbl) (K : Z) : Prop :=
  x = S754_infinity false \/ exists v, fin x v /\ (IZR K <= v)%R.
Definition atmost (x : dbl) (K : Z) : Prop :=
  x = S754_infinity true \/ exists v, fin x v /\ (v <= IZR K)%R.

Lemma isint_finite : forall x X, isint x X -> is_finite_SF x = true.
Proof. intros x X (_ & F & _). exact F. Qed.

Lemma isint_zero : forall s, isint (S754_zero s) 0.
Proof. intros s. repeat split. Qed.

Lemma fin_binary_round : forall s p, Z.pos p <= M53 ->
  isint (SpecFloat.binary_round prec emax s p 0) (cond_Zopp s (Z.pos p)).
Proof.
  intros s p Hp.
  rewrite binary_round_equiv.
  generalize (binary_round_correct prec emax _ _ mode_NE s p 0).
  cbv zeta. change (round_mode mode_NE) with ZnearestE.
  replace (F2R (Float radix2 (cond_Zopp s (Z.pos p)) 0)) with (IZR (cond_Zopp s (Z.pos p)))
    by (unfold F2R; cbn [Fnum Fexp]; simpl bpow; ring).
  assert (Ha : Z.abs (cond_Zopp s (Z.pos p)) <= M53) by (destruct s; simpl; lia).
  rewrite rnd_int by exact Ha.
  rewrite Rlt_bool_true by (now apply small_lt_bigR).
  intros (V & E & F & _). repeat split; assumption.
Qed.

Lemma isint_of_Z : forall s z, Z.abs z <= M53 -> isint (of_Z s z) z.
Proof.
  intros s [|p|p] Hz; cbn [of_Z].
  - apply isint_zero.
  - apply (fin_binary_round false p). lia.
  - apply (fin_binary_round true p). lia.
Qed.

Lemma isint_of_nat : forall n, Z.of_nat n <= M53 -> isint (d_of_nat n) (Z.of_nat n).
Proof.
  intros n Hn. unfold d_of_nat.
  change (long_to_double (Z.of_nat n)) with (of_Z false (Z.of_nat n)).
  apply isint_of_Z. lia.
Qed.

Lemma isint_one : isint d_one 1.
Proof.
  repeat split. unfold d_one, SF2R, F2R. cbn [Fnum Fexp cond_Zopp].
  change (Z.pos 4503599627370496) with (radix2 ^ 52). rewrite IZR_Zpower by lia.
  rewrite <- bpow_plus. reflexivity.
Qed.

(** * comparisons *)

Lemma isint_le : forall x y X Y, isint x X -> isint y Y -> d_le x y = (X <=? Y).
Proof.
  intros x y X Y Hx Hy. rewrite (fin_le _ _ _ _ Hx Hy).
  destruct (Rle_bool_spec (IZR X) (IZR Y)) as [H|H]; symmetry.
  - apply Z.leb_le. now apply le_IZR.
  - apply Z.leb_gt. now apply lt_IZR.
Qed.

Lemma isint_lt : forall x y X Y, isint x X -> isint y Y -> d_lt x y = (X <? Y).
Proof.
  intros x y X Y Hx Hy. rewrite (fin_lt _ _ _ _ Hx Hy).
  destruct (Rlt_bool_spec (IZR X) (IZR Y)) as [H|H]; symmetry.
  - apply Z.ltb_lt. now apply lt_IZR.
  - apply Z.ltb_ge. now apply le_IZR.
Qed.

Lemma atleast_cmp : forall x y K Y, atleast x K -> isint y Y -> Y < K ->
  d_le x y = false /\ d_lt y x = true /\ d_le y x = true.
Proof.
  intros x y K Y [->|(v & Hx & Hv)] Hy HY.
  - destruct Hy as (_ & F & _). destruct y; try discriminate; repeat split.
  - rewrite (fin_le _ _ _ _ Hx Hy), (fin_lt _ _ _ _ Hy Hx), (fin_le _ _ _ _ Hy Hx).
    apply IZR_lt in HY.
    rewrite Rle_bool_false, Rlt_bool_true, Rle_bool_true by lra. auto.
Qed.

Lemma atmost_cmp : forall x y K Y, atmost x K -> isint y Y -> K <= Y ->
  d_le x y = true /\ d_lt y x = false.
Proof.
  intros x y K Y [->|(v & Hx & Hv)] Hy HY.
  - destruct Hy as (_ & F & _). destruct y; try discriminate; repeat split.
  - rewrite (fin_le _ _ _ _ Hx Hy), (fin_lt _ _ _ _ Hy Hx).
    apply IZR_le in HY.
    rewrite Rle_bool_true, Rlt_bool_false by lra. auto.
Qed.

Lemma atleast_not_lt : forall x y K Y, atleast x K -> isint y Y -> Y <= K ->
  d_lt y x = false -> isint x K /\ Y = K.
Proof.
  intros x y K Y [->|(v & Hx & Hv)] Hy HY.
  - destruct Hy as (_ & F & _). destruct y; discriminate.
  - rewrite (fin_lt _ _ _ _ Hy Hx). apply IZR_le in HY.
    destruct (Rlt_bool_spec (IZR Y) v) as [H|H]; [discriminate|]. intros _.
    assert (E : v = IZR K) by lra. subst v. split; [exact Hx|].
    apply eq_IZR. lra.
Qed.

(** * additions and subtractions *)

Lemma arith_exact : forall r T, arith_result r (IZR T) -> Z.abs T <= M53 -> isint r T.
Proof.
  intros r T H HT. unfold arith_result in H. rewrite rnd_int in H by exact HT.
  assert (Hb := small_lt_bigR T HT).
  destruct H as [H|[(_ & H)|(_ & H)]]; [exact H| |].
  - apply Rabs_def2 in Hb. lra.
  - apply Rabs_def2 in Hb. lra.
Qed.

Lemma arith_atleast : forall r v K, arith_result r v -> (IZR K <= v)%R -> Z.abs K <= M53 ->
  atleast r K.
Proof.
  intros r v K H Hv HK.
  assert (Hr : (IZR K <= rnd v)%R).
  { rewrite <- (rnd_int K HK). apply round_le; auto with typeclass_instances. }
  assert (Hb := small_lt_bigR K HK). apply Rabs_def2 in Hb.
  destruct H as [H|[(E & H)|(_ & H)]].
  - right. exists (rnd v). auto.
  - left. exact E.
  - lra.
Qed.

Lemma arith_atmost : forall r v K, arith_result r v -> (v <= IZR K)%R -> Z.abs K <= M53 ->
  atmost r K.
Proof.
  intros r v K H Hv HK.
  assert (Hr : (rnd v <= IZR K)%R).
  { rewrite <- (rnd_int K HK). apply round_le; auto with typeclass_instances. }
  assert (Hb := small_lt_bigR K HK). apply Rabs_def2 in Hb.
  destruct H as [H|[(_ & H)|(E & H)]].
  - right. exists (rnd v). auto.
  - lra.
  - left. exact E.
Qed.

(* the sum / difference of two integer-valued doubles, seen from integers of magnitude <= 2^53 *)
Definition approx (r : dbl) (T : Z) : Prop :=
  (Z.abs T <= M53 /\ isint r T) \/ (M53 < T /\ atleast r M53) \/ (T < - M53 /\ atmost r (- M53)).

Lemma arith_approx : forall r T, arith_result r (IZR T) -> approx r T.
Proof.
  intros r T H. unfold approx.
  destruct (Z_le_gt_dec (Z.abs T) M53) as [Hs|Hb].
  - left. split; [exact Hs|]. now apply arith_exact.
  - destruct (Z_lt_le_dec 0 T).
    + right; left. split; [lia|]. apply (arith_atleast r (IZR T)); auto. apply IZR_le; lia. simpl; lia.
    + right; right. split; [lia|]. apply (arith_atmost r (IZR T)); auto. apply IZR_le; lia. simpl; lia.
Qed.

Lemma isint_add : forall x y X Y, isint x X -> isint y Y -> approx (d_add x y) (X + Y).
Proof.
  intros x y X Y Hx Hy. apply arith_approx. rewrite plus_IZR. now apply fin_add.
Qed.

Lemma isint_sub : forall x y X Y, isint x X -> isint y Y -> approx (d_sub x y) (X - Y).
Proof.
  intros x y X Y Hx Hy. apply arith_approx. rewrite minus_IZR. now apply fin_sub.
Qed.

Lemma atleast_sub : forall x y K Y, atleast x K -> isint y Y -> Z.abs (K - Y) <= M53 ->
  atleast (d_sub x y) (K - Y).
Proof.
  intros x y K Y [->|(v & Hx & Hv)] Hy HK.
  - left. destruct Hy as (_ & F & _). destruct y; try discriminate; reflexivity.
  - apply (arith_atleast _ (v - IZR Y)); auto. now apply fin_sub.
    rewrite minus_IZR. lra.
Qed.

(** * round() yields an integer-valued double ([d_round_spec] of NumModel.v says which one) *)

Lemma valid_mantissa_bound : forall s m e,
  valid_binary prec emax (S754_finite s m e) = true -> Z.pos m < M53.
Proof.
  intros s m e V. cbn [valid_binary] in V. unfold bounded in V.
  apply andb_prop in V. destruct V as [C _].
  unfold canonical_mantissa in C. apply Zeq_bool_eq in C.
  unfold SpecFloat.fexp, SpecFloat.emin, prec, emax in C.
  destruct (digits2_pos_bounds m) as [_ Hm].
  assert (Hd : Z.pos (digits2_pos m) <= 53) by lia.
  apply Z.lt_le_trans with (1 := Hm).
  rewrite <- M53_pow. apply Z.pow_le_mono_r; lia.
Qed.

Lemma finite_value_int : forall s m e, 0 <= e ->
  SF2R radix2 (S754_finite s m e) = IZR (cond_Zopp s (Z.pos m) * 2 ^ e).
Proof.
  intros s m e He. unfold SF2R, F2R. cbn [Fnum Fexp].
  rewrite mult_IZR. now rewrite (IZR_Zpower radix2).
Qed.

Lemma d_round_nonfinite : forall x, is_finite_SF x = false -> d_round x = x.
Proof. intros [s|s| |s m e]; try reflexivity; discriminate. Qed.

Lemma d_round_int : forall x, valid_binary prec emax x = true -> is_finite_SF x = true ->
  exists A, isint (d_round x) A.
Proof.
  intros [s|s| |s m e] V F; try discriminate.
  - exists 0. apply isint_zero.
  - destruct (Z_lt_le_dec e 0) as [He|He].
    + rewrite d_round_spec by exact He.
      eexists. apply isint_of_Z.
      assert (Hm := valid_mantissa_bound s m e V).
      assert (Hd : 2 <= 2 ^ (- e)).
      { change 2 with (2 ^ 1) at 1. apply Z.pow_le_mono_r; lia. }
      unfold round_Z_spec. set (d := 2 ^ (- e)) in *.
      assert (Hs : - M53 < signed s m < M53) by (destruct s; simpl; lia).
      apply Z.abs_le. split.
      * apply Z.div_le_lower_bound; lia.
      * apply Z.div_le_upper_bound; lia.
    + exists (cond_Zopp s (Z.pos m) * 2 ^ e).
      assert (E : d_round (S754_finite s m e) = S754_finite s m e).
      { unfold d_round. destruct (0 <=? e) eqn:E; [reflexivity|]. apply Z.leb_gt in E. lia. }
      rewrite E. repeat split; [exact V|]. now apply finite_value_int.
Qed.

(** * size_type(x) for an integer-valued x >= 0 *)

Lemma trunc_isint : forall x X, isint x X -> 0 <= X -> d_to_nat_trunc x = Z.to_nat X.
Proof.
  intros [s|s| |s m e] X (V & F & E) HX; try discriminate.
  - simpl in E. apply eq_IZR in E. subst X. reflexivity.
  - destruct s.
    + exfalso. assert (H : (SF2R radix2 (S754_finite true m e) < 0)%R).
      { unfold SF2R. apply F2R_lt_0. simpl. lia. }
      rewrite E in H. apply lt_IZR in H. lia.
    + cbn [d_to_nat_trunc]. destruct (0 <=? e) eqn:He.
      * apply Z.leb_le in He. rewrite finite_value_int in E by exact He.
        apply eq_IZR in E. cbn [cond_Zopp] in E. now rewrite E.
      * apply Z.leb_gt in He. f_equal.
        unfold SF2R, F2R in E. cbn [Fnum Fexp cond_Zopp] in E.
        assert (Hp : 0 < 2 ^ (- e)) by (apply Z.pow_pos_nonneg; lia).
        assert (Em : Z.pos m = X * 2 ^ (- e)).
        { apply eq_IZR. rewrite mult_IZR. change 2 with (radix_val radix2).
          rewrite IZR_Zpower by lia. rewrite <- E, Rmult_assoc, <- bpow_plus.
          replace (e + - e) with 0 by lia. simpl. ring. }
        rewrite Em. apply Z.div_mul. lia.
Qed.
