(* C05 part "targets": the builder machines against the big-step reading of an item tree (flush discipline and
   element stack), lemmas. *)
From Coq Require Import List NArith Bool Lia.
Import ListNotations.
Require Import XV.GenTargets XV.TargetsDefs.

(* ---- induction over item trees ---- *)
Section ItemInd.
  Variable P : item -> Prop.
  Hypothesis Hel : forall n a body, Forall P body -> P (IElem n a body).
  Hypothesis Hc : forall s, P (IChars s).
  Hypothesis Hr : forall s, P (IRaw s).
  Hypothesis Hd : forall s, P (ICdata s).
  Hypothesis Hm : forall s, P (IComment s).
  Hypothesis Hp : forall t d, P (IPI t d).
  Hypothesis Hi : forall s, P (IIws s).
  Hypothesis Hn : forall n, P (IEntRef n).
  Fixpoint item_ind2 (i : item) : P i :=
    match i with
    | IElem n a body =>
        Hel n a body ((fix go (l : list item) : Forall P l :=
                         match l with [] => Forall_nil P | x :: r => Forall_cons x (item_ind2 x) (go r) end) body)
    | IChars s => Hc s
    | IRaw s => Hr s
    | ICdata s => Hd s
    | IComment s => Hm s
    | IPI t d => Hp t d
    | IIws s => Hi s
    | IEntRef n => Hn n
    end.
End ItemInd.

(* ---- merge_text ---- *)
Definition is_text (n : tnode) : bool := match n with TText _ => true | _ => false end.
Definition txt (b : str) : list tnode := match b with [] => [] | _ => [TText b] end.

Lemma mt_nil_text : forall l, merge_text (TText [] :: l) = merge_text l.
Proof. reflexivity. Qed.

Lemma mt_node : forall n l, is_text n = false -> merge_text (n :: l) = n :: merge_text l.
Proof. intros n l H. destruct n; try reflexivity. discriminate. Qed.

Lemma mt_text_text : forall a b l, merge_text (TText a :: TText b :: l) = merge_text (TText (a ++ b) :: l).
Proof.
  intros a b l. destruct a as [|x a]; [reflexivity|].
  destruct b as [|y b].
  - rewrite app_nil_r. reflexivity.
  - cbn [merge_text app]. destruct (merge_text l) as [|h r]; [reflexivity|].
    destruct h; try reflexivity. cbn. rewrite <- app_assoc. reflexivity.
Qed.

Lemma mt_text_node : forall a n l, is_text n = false -> merge_text (TText a :: n :: l) = txt a ++ n :: merge_text l.
Proof. intros a n l H. destruct n; try discriminate; destruct a; reflexivity. Qed.

Lemma mt_text_end : forall a, merge_text [TText a] = txt a.
Proof. destruct a; reflexivity. Qed.

(* ---- the level view of the machine: (buffer, children of the current parent) ---- *)
Definition lvl := (str * list tnode)%type.

Definition lappend (t : target) (m : mode) (top : bool) (n : tnode) (l : lvl) : option lvl :=
  if accepts t m top n (snd l) then Some (fst l, n :: snd l) else None.

Definition lflush (t : target) (m : mode) (top : bool) (l : lvl) : option lvl :=
  match fst l with [] => Some l | b => lappend t m top (TText b) ([], snd l) end.

Definition lchars (t : target) (m : mode) (top : bool) (c : str) (l : lvl) : option lvl :=
  match t, m, top with
  | STREE, MDoc, true => if all_ws c then Some l else None
  | _, _, _ => Some (fst l ++ c, snd l)
  end.

Definition with_lvl (s : st) (l : lvl) : st := mkSt (fst l) (snd l) (ctx s).
Definition lvl_of (s : st) : lvl := (buf s, cur s).
Definition top_of (s : st) : bool := is_nil (ctx s).

Lemma append_lvl : forall t m n s,
  append t m n s = match lappend t m (top_of s) n (lvl_of s) with Some l => Some (with_lvl s l) | None => None end.
Proof. intros. unfold append, lappend, top_of, lvl_of, with_lvl. cbn. destruct (accepts _ _ _ _ _); reflexivity. Qed.

Lemma flush_lvl : forall t m s,
  flush t m s = match lflush t m (top_of s) (lvl_of s) with Some l => Some (with_lvl s l) | None => None end.
Proof.
  intros. unfold flush, lflush, lvl_of. cbn [fst snd]. destruct s as [b c k]; cbn [buf cur ctx].
  destruct b; [reflexivity|]. rewrite append_lvl. reflexivity.
Qed.

Lemma flush_ctx : forall t m s s', flush t m s = Some s' -> ctx s' = ctx s.
Proof.
  intros t m s s' H. rewrite flush_lvl in H. destruct (lflush _ _ _ _); [|discriminate]. inversion H; reflexivity.
Qed.

Lemma lflush_fst : forall t m top l l', lflush t m top l = Some l' -> fst l' = [].
Proof.
  intros t m top [b c] l' H. unfold lflush, lappend in H. cbn [fst snd] in H. destruct b.
  - inversion H; reflexivity.
  - destruct (accepts _ _ _ _ _); inversion H; reflexivity.
Qed.

Lemma lflush_inner : forall t m l, lflush t m false l = Some ([], txt (fst l) ++ snd l).
Proof. intros t m [b c]. unfold lflush, lappend, accepts. cbn. destruct b; reflexivity. Qed.

(* ---- big-step reading of an item at one level ---- *)
Definition lnode (t : target) (m : mode) (top : bool) (n : tnode) (l : lvl) : option lvl :=
  bind (lflush t m top l) (lappend t m top n).

Fixpoint proc (t : target) (m : mode) (res : resolver) (top : bool) (i : item) (l : lvl) : option lvl :=
  match i with
  | IElem n a body =>
      bind (lflush t m top l) (fun l1 =>
        if accepts t m top (TElem n (elem_ns res n) (t_attrs t res a) []) (snd l1) then
          bind ((fix go (b : list item) (li : lvl) : option lvl :=
                   match b with [] => Some li | x :: r => bind (proc t m res false x li) (go r) end) body ([], []))
               (fun l2 => bind (lflush t m false l2)
                  (fun l3 => Some ([], TElem n (elem_ns res n) (t_attrs t res a) (rev (snd l3)) :: snd l1)))
        else None)
  | IChars c => lchars t m top c l
  | IRaw c => match t with
              | XDOM => lnode t m top (TCdata c) l
              | STREE => bind (lnode t m top (TPI pi_marker_target pi_marker_data) l) (lchars t m top c)
              end
  | ICdata c => match t with
                | XDOM => lnode t m top (TCdata c) l
                | STREE => if s_cdata_is_characters then lchars t m top c l else Some l
                end
  | IComment c => lnode t m top (TComment c) l
  | IPI a b => lnode t m top (TPI a b) l
  | IIws c => match t, m, top with
              | STREE, MDoc, true => Some l
              | _, _, _ => lnode t m top (TIws c) l
              end
  | IEntRef n => match t with XDOM => lnode t m top (TEntRef n) l | STREE => Some l end
  end.

Fixpoint procs (t : target) (m : mode) (res : resolver) (top : bool) (b : list item) (l : lvl) : option lvl :=
  match b with [] => Some l | x :: r => bind (proc t m res top x l) (procs t m res top r) end.

Lemma proc_elem : forall t m res top n a body l,
  proc t m res top (IElem n a body) l =
  bind (lflush t m top l) (fun l1 =>
    if accepts t m top (TElem n (elem_ns res n) (t_attrs t res a) []) (snd l1) then
      bind (procs t m res false body ([], []))
           (fun l2 => bind (lflush t m false l2)
              (fun l3 => Some ([], TElem n (elem_ns res n) (t_attrs t res a) (rev (snd l3)) :: snd l1)))
    else None).
Proof.
  intros. cbn [proc]. destruct (lflush t m top l) as [l1|]; [|reflexivity]. cbn [bind].
  destruct (accepts _ _ _ _ _); [|reflexivity].
  f_equal. generalize (@nil N, @nil tnode). induction body as [|x r IH]; intro p; [reflexivity|].
  cbn [procs]. destruct (proc t m res false x p); [apply IH|reflexivity].
Qed.

Lemma bind_some : forall (A B : Type) (o : option A) (f : A -> option B), bind o f = match o with Some x => f x | None => None end.
Proof. reflexivity. Qed.

Lemma run_app : forall t m res a b s,
  run_from t m res (a ++ b) s = bind (run_from t m res a s) (run_from t m res b).
Proof.
  intros t m res a. induction a as [|e a IH]; intros b s; [reflexivity|].
  cbn [app run_from]. destruct (step t m res e s); [apply IH|reflexivity].
Qed.

Lemma with_lvl_id : forall s, with_lvl s (lvl_of s) = s.
Proof. destruct s; reflexivity. Qed.

Lemma top_with : forall s l, top_of (with_lvl s l) = top_of s.
Proof. reflexivity. Qed.

Lemma lvl_with : forall s l, lvl_of (with_lvl s l) = l.
Proof. intros s [b c]; reflexivity. Qed.

Lemma with_with : forall s l l', with_lvl (with_lvl s l) l' = with_lvl s l'.
Proof. reflexivity. Qed.

(* a node-creating event: flush, then append *)
Lemma flush_append : forall t m n s,
  bind (flush t m s) (append t m n) =
  match lnode t m (top_of s) n (lvl_of s) with Some l => Some (with_lvl s l) | None => None end.
Proof.
  intros. unfold lnode. rewrite flush_lvl. destruct (lflush t m (top_of s) (lvl_of s)) as [l1|]; [|reflexivity].
  cbn [bind]. rewrite append_lvl, top_with, lvl_with. destruct (lappend _ _ _ _ _); reflexivity.
Qed.

Lemma s_chars_lvl : forall m c s,
  s_chars m c s = match lchars STREE m (top_of s) c (lvl_of s) with Some l => Some (with_lvl s l) | None => None end.
Proof.
  intros m c [b k x]. unfold s_chars, lchars, top_of, lvl_of, with_lvl, add_chars. cbn.
  destruct m, x; cbn; try reflexivity. destruct (all_ws c); reflexivity.
Qed.

Ltac opt_cases := repeat match goal with |- context [match ?o with Some _ => _ | None => _ end] => destruct o; cbn [bind]; try reflexivity end.

(* one item = its big-step reading, in any state *)
Lemma run_item : forall t m res i rest s,
  run_from t m res (flat i ++ rest) s =
  match proc t m res (top_of s) i (lvl_of s) with
  | Some l => run_from t m res rest (with_lvl s l)
  | None => None
  end.
Proof.
  intros t m res i. induction i as [n a body H|c|c|c|c|pa pb|c|nm] using item_ind2; intros rest s.
  - (* element *)
    rewrite proc_elem. cbn [flat app run_from].
    assert (Hstart : step t m res (EvStart n a) s =
                     bind (flush t m s) (push t m n (elem_ns res n) (t_attrs t res a))) by (destruct t; reflexivity).
    rewrite Hstart, flush_lvl. destruct (lflush t m (top_of s) (lvl_of s)) as [l1|] eqn:Hf; [|reflexivity].
    cbn [bind]. pose proof (lflush_fst _ _ _ _ _ Hf) as Hb.
    unfold push. cbn [with_lvl ctx cur buf]. fold (top_of s).
    destruct (accepts t m (top_of s) (TElem n (elem_ns res n) (t_attrs t res a) []) (snd l1)); [|reflexivity].
    cbn [bind]. rewrite Hb.
    set (s2 := mkSt [] [] ((n, elem_ns res n, t_attrs t res a, snd l1) :: ctx s)).
    (* the body *)
    assert (Hbody : forall body rest' s', top_of s' = false -> Forall (fun i => forall rest s,
                run_from t m res (flat i ++ rest) s =
                match proc t m res (top_of s) i (lvl_of s) with Some l => run_from t m res rest (with_lvl s l) | None => None end) body ->
              run_from t m res (flat_map flat body ++ rest') s' =
              match procs t m res false body (lvl_of s') with Some l => run_from t m res rest' (with_lvl s' l) | None => None end).
    { clear. induction body as [|x r IH]; intros rest' s' Ht HF.
      - cbn. rewrite with_lvl_id. reflexivity.
      - inversion HF as [|? ? Hx Hr]; subst. cbn [flat_map procs]. rewrite <- app_assoc, Hx, Ht.
        destruct (proc t m res false x (lvl_of s')) as [l|]; [|reflexivity]. cbn [bind].
        rewrite IH by (auto). rewrite lvl_with. destruct (procs t m res false r l); reflexivity. }
    rewrite <- app_assoc. rewrite (Hbody body _ s2 eq_refl H). change (lvl_of s2) with (@nil N, @nil tnode).
    destruct (procs t m res false body ([], [])) as [l2|]; [|reflexivity]. cbn [bind app run_from].
    assert (Hend : step t m res (EvEnd n) (with_lvl s2 l2) = bind (flush t m (with_lvl s2 l2)) pop).
    { destruct t; [|reflexivity]. cbn [step x_step]. unfold x_flush_endElement, flush_if.
      destruct (flush XDOM m (with_lvl s2 l2)) as [s3|] eqn:E; [|reflexivity]. cbn [bind].
      rewrite (flush_ctx _ _ _ _ E). reflexivity. }
    rewrite Hend, flush_lvl, top_with. change (top_of s2) with false. rewrite lvl_with, lflush_inner. cbn [bind].
    unfold pop, with_lvl, s2. cbn [ctx cur buf fst snd close_frame]. reflexivity.
  - (* characters *)
    cbn [flat app run_from proc]. destruct t.
    + cbn. destruct s; reflexivity.
    + cbn [step s_step]. unfold s_flush_characters, flush_if. cbn [bind]. rewrite s_chars_lvl.
      destruct (lchars STREE m (top_of s) c (lvl_of s)); reflexivity.
  - (* raw *)
    cbn [flat app run_from proc]. destruct t.
    + cbn [step x_step]. unfold x_flush_charactersRaw, x_cdata, x_flush_cdata, flush_if.
      rewrite flush_lvl. unfold lnode.
      destruct (lflush XDOM m (top_of s) (lvl_of s)) as [l1|] eqn:Hf; [|reflexivity]. cbn [bind].
      pose proof (lflush_fst _ _ _ _ _ Hf) as Hb.
      assert (Hff : flush XDOM m (with_lvl s l1) = Some (with_lvl s l1)).
      { unfold flush. cbn [with_lvl buf]. rewrite Hb. reflexivity. }
      rewrite Hff. cbn [bind]. rewrite append_lvl, top_with, lvl_with. destruct (lappend _ _ _ _ _); reflexivity.
    + cbn [step s_step]. unfold s_flush_charactersRaw, flush_if.
      assert (E : forall s, bind (flush STREE m s) (fun s1 => bind (append STREE m (TPI pi_marker_target pi_marker_data) s1) (s_chars m c)) =
                  bind (bind (flush STREE m s) (append STREE m (TPI pi_marker_target pi_marker_data))) (s_chars m c)).
      { intro s'. destruct (flush STREE m s'); reflexivity. }
      rewrite E, flush_append. destruct (lnode STREE m (top_of s) _ (lvl_of s)) as [l1|]; [|reflexivity]. cbn [bind].
      rewrite s_chars_lvl, top_with, lvl_with. destruct (lchars _ _ _ _ _); reflexivity.
  - (* cdata *)
    cbn [flat app run_from proc]. destruct t.
    + cbn [step x_step]. unfold x_cdata, x_flush_cdata, flush_if. rewrite flush_append.
      destruct (lnode _ _ _ _ _); reflexivity.
    + cbn [step s_step]. unfold s_flush_cdata, flush_if. cbn [bind]. destruct s_cdata_is_characters.
      * rewrite s_chars_lvl. destruct (lchars _ _ _ _ _); reflexivity.
      * cbn [bind]. rewrite with_lvl_id. reflexivity.
  - (* comment *)
    cbn [flat app run_from proc]. destruct t; cbn [step x_step s_step];
      unfold x_flush_comment, s_flush_comment, flush_if; rewrite flush_append; destruct (lnode _ _ _ _ _); reflexivity.
  - (* processing instruction *)
    cbn [flat app run_from proc]. destruct t; cbn [step x_step s_step];
      unfold x_flush_processingInstruction, s_flush_processingInstruction, flush_if; rewrite flush_append;
      destruct (lnode _ _ _ _ _); reflexivity.
  - (* ignorable white space *)
    cbn [flat app run_from proc]. destruct t.
    + cbn [step x_step]. unfold x_flush_ignorableWhitespace, flush_if. rewrite flush_append.
      destruct m, (top_of s); destruct (lnode _ _ _ _ _); reflexivity.
    + cbn [step s_step]. unfold top_of. destruct m, (ctx s) eqn:Ec; cbn [is_nil bind];
        try (rewrite with_lvl_id; reflexivity);
        unfold s_flush_ignorableWhitespace, flush_if; rewrite flush_append; unfold top_of; rewrite Ec; cbn [is_nil];
        destruct (lnode _ _ _ _ _); reflexivity.
  - (* entity reference *)
    cbn [flat app run_from proc]. destruct t.
    + cbn [step x_step]. unfold x_flush_entityReference, flush_if. rewrite flush_append. destruct (lnode _ _ _ _ _); reflexivity.
    + cbn. rewrite with_lvl_id. reflexivity.
Qed.

Lemma run_items : forall t m res body rest s,
  run_from t m res (flat_map flat body ++ rest) s =
  match procs t m res (top_of s) body (lvl_of s) with
  | Some l => run_from t m res rest (with_lvl s l)
  | None => None
  end.
Proof.
  intros t m res body. induction body as [|x r IH]; intros rest s.
  - cbn. rewrite with_lvl_id. reflexivity.
  - cbn [flat_map procs]. rewrite <- app_assoc, run_item.
    destruct (proc t m res (top_of s) x (lvl_of s)) as [l|]; [|reflexivity]. cbn [bind].
    rewrite IH, lvl_with, top_with. reflexivity.
Qed.
