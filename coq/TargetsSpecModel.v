(* C05 part "targets": the big-step reading of an item tree = the structural specification (merge_text over the
   per-item images), and the assembled theorems about whole scripts. *)
From Coq Require Import List NArith Bool Lia.
Import ListNotations.
Require Import XV.GenTargets XV.TargetsDefs XV.TargetsModel.

Lemma bind_assoc : forall (A B C : Type) (o : option A) (f : A -> option B) (g : B -> option C),
  bind (bind o f) g = bind o (fun x => bind (f x) g).
Proof. intros. destruct o; reflexivity. Qed.

Lemma rev_txt : forall b, rev (txt b) = txt b.
Proof. destruct b; reflexivity. Qed.

Lemma rev_txt_node : forall b n (M c : list tnode), rev (txt b ++ n :: M) ++ c = rev M ++ n :: txt b ++ c.
Proof.
  intros. rewrite rev_app_distr. cbn [rev]. rewrite rev_txt, <- !app_assoc. reflexivity.
Qed.

(* a level where nothing is refused: inside an element, or anywhere in fragment mode *)
Definition free (m : mode) (top : bool) : bool := negb top || match m with MFrag => true | MDoc => false end.

Lemma accepts_free : forall t m top n c, free m top = true -> accepts t m top n c = true.
Proof. intros t m top n c H. unfold accepts, free in *. destruct top, m; try reflexivity; discriminate. Qed.

Lemma lflush_free : forall t m top b c, free m top = true -> lflush t m top (b, c) = Some ([], txt b ++ c).
Proof.
  intros t m top b c H. unfold lflush, lappend. cbn [fst snd]. destruct b; [reflexivity|].
  rewrite accepts_free by exact H. reflexivity.
Qed.

Lemma lnode_free : forall t m top n b c, free m top = true -> lnode t m top n (b, c) = Some ([], n :: txt b ++ c).
Proof.
  intros. unfold lnode. rewrite lflush_free by assumption. cbn [bind]. unfold lappend. cbn [fst snd].
  rewrite accepts_free by assumption. reflexivity.
Qed.

Lemma lchars_free : forall t m top s b c, free m top = true -> lchars t m top s (b, c) = Some (b ++ s, c).
Proof. intros t m top s b c H. unfold lchars, free in *. destruct t, m, top; try reflexivity; discriminate. Qed.

Lemma top_chars_free : forall m top s, free m top = true -> top_chars m top s = [TText s].
Proof. intros m top s H. unfold top_chars, free in *. destruct m, top; try reflexivity; discriminate. Qed.

Definition goal_at (t : target) (m : mode) (res : resolver) (top : bool) (items : list item) (b : str) (c : list tnode) : Prop :=
  bind (procs t m res top items (b, c)) (lflush t m top) =
  Some ([], rev (merge_text (TText b :: flat_map (img t m res top) items)) ++ c).

Definition Qfree (t : target) (m : mode) (res : resolver) (items : list item) : Prop :=
  forall top, free m top = true -> forall b c, goal_at t m res top items b c.

(* after a node: continue with an empty buffer *)
Lemma after_node : forall t m res top rest n b c L,
  is_text n = false ->
  goal_at t m res top rest [] (n :: txt b ++ c) ->
  flat_map (img t m res top) rest = L ->
  bind (procs t m res top rest ([], n :: txt b ++ c)) (lflush t m top) =
  Some ([], rev (merge_text (TText b :: n :: L)) ++ c).
Proof.
  intros t m res top rest n b c L Hn HR HL. unfold goal_at in HR. etransitivity; [exact HR|]. rewrite HL, mt_nil_text.
  rewrite (mt_text_node b n L Hn). rewrite rev_txt_node. reflexivity.
Qed.

Lemma elem_step : forall t m res (n : str) (a : attrs) body,
  Qfree t m res body ->
  bind (procs t m res false body ([], [])) (fun l2 => bind (lflush t m false l2)
     (fun l3 => Some (@nil N, TElem n (elem_ns res n) (t_attrs t res a) (rev (snd l3)) :: @nil tnode))) =
  Some ([], [TElem n (elem_ns res n) (t_attrs t res a) (merge_text (flat_map (img t m res false) body))]).
Proof.
  intros t m res n a body HQ. rewrite <- bind_assoc. rewrite (HQ false eq_refl [] []). cbn [bind snd].
  rewrite mt_nil_text, app_nil_r, rev_involutive. reflexivity.
Qed.

Lemma elem_step' : forall t m res (n : str) (a : attrs) body (k : list tnode),
  Qfree t m res body ->
  bind (procs t m res false body ([], [])) (fun l2 => bind (lflush t m false l2)
     (fun l3 => Some (@nil N, TElem n (elem_ns res n) (t_attrs t res a) (rev (snd l3)) :: k))) =
  Some ([], TElem n (elem_ns res n) (t_attrs t res a) (merge_text (flat_map (img t m res false) body)) :: k).
Proof.
  intros t m res n a body k HQ. rewrite <- bind_assoc. rewrite (HQ false eq_refl [] []). cbn [bind snd].
  rewrite mt_nil_text, app_nil_r, rev_involutive. reflexivity.
Qed.

Lemma P_free : forall t m res i rest, Qfree t m res rest -> Qfree t m res (i :: rest).
Proof.
  intros t m res i. induction i as [n a body H|s|s|s|s|pa pb|s|nm] using item_ind2;
    intros rest HR top Hfree b c; unfold goal_at; cbn [procs flat_map].
  - (* element *)
    assert (HQ : Qfree t m res body).
    { clear - H. induction body as [|x r IH].
      - intros top Hf b c. unfold goal_at. cbn [procs flat_map bind]. rewrite lflush_free by exact Hf.
        rewrite mt_text_end, rev_txt. reflexivity.
      - inversion H as [|? ? Hx Hr]; subst. apply Hx. apply IH. exact Hr. }
    rewrite proc_elem, lflush_free by exact Hfree. cbn [bind snd]. rewrite accepts_free by exact Hfree.
    rewrite (elem_step' t m res n a body (txt b ++ c) HQ). cbn [bind img app].
    apply after_node; [reflexivity|apply HR; exact Hfree|reflexivity].
  - (* characters *)
    cbn [proc]. rewrite lchars_free by exact Hfree. cbn [bind]. rewrite (HR top Hfree (b ++ s) c).
    cbn [img]. destruct t; [|rewrite top_chars_free by exact Hfree]; cbn [app]; rewrite mt_text_text; reflexivity.
  - (* raw *)
    cbn [proc img]. destruct t.
    + rewrite lnode_free by exact Hfree. cbn [bind app]. apply after_node; [reflexivity|apply HR; exact Hfree|reflexivity].
    + rewrite lnode_free by exact Hfree. cbn [bind]. rewrite lchars_free by exact Hfree. cbn [bind app].
      rewrite top_chars_free by exact Hfree. cbn [app].
      rewrite (HR top Hfree s _). rewrite mt_text_node by reflexivity. rewrite rev_txt_node. reflexivity.
  - (* cdata *)
    cbn [proc img]. destruct t.
    + rewrite lnode_free by exact Hfree. cbn [bind app]. apply after_node; [reflexivity|apply HR; exact Hfree|reflexivity].
    + destruct s_cdata_is_characters.
      * rewrite lchars_free by exact Hfree. cbn [bind]. rewrite (HR top Hfree (b ++ s) c).
        rewrite top_chars_free by exact Hfree. cbn [app]. rewrite mt_text_text. reflexivity.
      * cbn [bind app]. apply HR. exact Hfree.
  - (* comment *)
    cbn [proc img]. rewrite lnode_free by exact Hfree. cbn [bind app].
    apply after_node; [reflexivity|apply HR; exact Hfree|reflexivity].
  - (* processing instruction *)
    cbn [proc img]. rewrite lnode_free by exact Hfree. cbn [bind app].
    apply after_node; [reflexivity|apply HR; exact Hfree|reflexivity].
  - (* ignorable white space *)
    assert (E : proc t m res top (IIws s) (b, c) = lnode t m top (TIws s) (b, c) /\ img t m res top (IIws s) = [TIws s]).
    { unfold free in Hfree. cbn [proc img]. destruct t, m, top; try (split; reflexivity); discriminate. }
    destruct E as [E1 E2]. rewrite E1, E2, lnode_free by exact Hfree. cbn [bind app].
    apply after_node; [reflexivity|apply HR; exact Hfree|reflexivity].
  - (* entity reference *)
    cbn [proc img]. destruct t.
    + rewrite lnode_free by exact Hfree. cbn [bind app]. apply after_node; [reflexivity|apply HR; exact Hfree|reflexivity].
    + cbn [bind app]. apply HR. exact Hfree.
Qed.

Lemma Q_free_all : forall t m res items, Qfree t m res items.
Proof.
  intros t m res items. induction items as [|x r IH].
  - intros top Hf b c. unfold goal_at. cbn [procs flat_map bind]. rewrite lflush_free by exact Hf.
    rewrite mt_text_end, rev_txt. reflexivity.
  - apply P_free. exact IH.
Qed.

(* ---- the top level of a document ---- *)
Definition inv (t : target) (b : str) : Prop := match t with XDOM => all_ws b = true | STREE => b = [] end.

Lemma existsb_txt : forall b c, existsb is_elem (txt b ++ c) = existsb is_elem c.
Proof. destruct b; reflexivity. Qed.

Lemma lflush_doc : forall t b c, inv t b -> lflush t MDoc true (b, c) = Some ([], txt b ++ c).
Proof.
  intros t b c H. unfold lflush, lappend, accepts. cbn [fst snd negb orb]. destruct b as [|x b]; [reflexivity|].
  destruct t; cbn in H.
  - cbn [root_ok is_empty negb andb]. unfold all_ws. cbn [forallb]. rewrite H. reflexivity.
  - discriminate.
Qed.

Lemma lnode_doc : forall t n b c, inv t b -> root_ok t MDoc n (txt b ++ c) = true ->
  lnode t MDoc true n (b, c) = Some ([], n :: txt b ++ c).
Proof.
  intros t n b c H Hr. unfold lnode. rewrite lflush_doc by exact H. cbn [bind]. unfold lappend, accepts.
  cbn [fst snd negb orb]. rewrite Hr. reflexivity.
Qed.

Lemma inv_nil : forall t, inv t [].
Proof. destruct t; reflexivity. Qed.

Lemma top_doc : forall t res items b c,
  top_ok_go t (existsb is_elem c) items = true -> inv t b ->
  goal_at t MDoc res true items b c.
Proof.
  intros t res items. induction items as [|i rest IH]; intros b c Hok Hinv; unfold goal_at.
  - cbn [procs flat_map bind]. rewrite lflush_doc by exact Hinv. rewrite mt_text_end, rev_txt. reflexivity.
  - cbn [procs flat_map]. destruct i as [n a body|s|s|s|s|pa pb|s|nm]; cbn [top_ok_go] in Hok.
    + (* the document element *)
      apply andb_prop in Hok. destruct Hok as [Hseen Hok].
      rewrite proc_elem, lflush_doc by exact Hinv. cbn [bind snd]. unfold accepts. cbn [negb orb root_ok].
      rewrite existsb_txt, Hseen.
      rewrite (elem_step' t MDoc res n a body (txt b ++ c) (Q_free_all t MDoc res body)). cbn [bind img app].
      apply after_node; [reflexivity| |reflexivity].
      apply IH; [|apply inv_nil]. cbn [existsb is_elem orb]. exact Hok.
    + (* characters: white space *)
      apply andb_prop in Hok. destruct Hok as [Hws Hok]. cbn [proc img]. destruct t.
      * cbn [lchars bind app]. rewrite (IH (b ++ s) c Hok).
        -- rewrite mt_text_text. reflexivity.
        -- cbn in *. unfold all_ws in *. rewrite forallb_app, Hinv, Hws. reflexivity.
      * cbn [lchars]. rewrite Hws. cbn [bind top_chars app]. apply IH; assumption.
    + (* raw *)
      destruct t; [discriminate|]. apply andb_prop in Hok. destruct Hok as [Hws Hok]. cbn [proc img].
      rewrite lnode_doc by (exact Hinv || reflexivity). cbn [bind lchars]. rewrite Hws. cbn [bind top_chars app].
      apply after_node; [reflexivity| |reflexivity]. apply IH; [|apply inv_nil]. cbn [existsb is_elem orb].
      rewrite existsb_txt. exact Hok.
    + (* cdata *)
      destruct t; [discriminate|]. apply andb_prop in Hok. destruct Hok as [Hws Hok]. cbn [proc img].
      destruct s_cdata_is_characters.
      * cbn [lchars]. rewrite Hws. cbn [bind top_chars app]. apply IH; assumption.
      * cbn [bind app]. apply IH; assumption.
    + (* comment *)
      cbn [proc img]. rewrite lnode_doc by (exact Hinv || reflexivity). cbn [bind app].
      apply after_node; [reflexivity| |reflexivity]. apply IH; [|apply inv_nil]. cbn [existsb is_elem orb].
      rewrite existsb_txt. exact Hok.
    + (* processing instruction *)
      cbn [proc img]. rewrite lnode_doc by (exact Hinv || reflexivity). cbn [bind app].
      apply after_node; [reflexivity| |reflexivity]. apply IH; [|apply inv_nil]. cbn [existsb is_elem orb].
      rewrite existsb_txt. exact Hok.
    + (* ignorable white space *)
      apply andb_prop in Hok. destruct Hok as [Hws Hok]. cbn [proc img]. destruct t.
      * rewrite lnode_doc by (exact Hinv || (cbn [root_ok]; exact Hws)). cbn [bind app].
        apply after_node; [reflexivity| |reflexivity]. apply IH; [|apply inv_nil]. cbn [existsb is_elem orb].
        rewrite existsb_txt. exact Hok.
      * cbn [bind app]. apply IH; assumption.
    + (* entity reference *)
      destruct t; [discriminate|]. cbn [proc img bind app]. apply IH; assumption.
Qed.

(* the source-tree builder never holds text at the top of a document *)
Lemma s_doc_buf : forall res items c l,
  procs STREE MDoc res true items ([], c) = Some l -> fst l = [].
Proof.
  intros res items. induction items as [|i rest IH]; intros c l H.
  - inversion H; reflexivity.
  - cbn [procs] in H. destruct (proc STREE MDoc res true i ([], c)) as [l1|] eqn:E; [|discriminate]. cbn [bind] in H.
    assert (Hl1 : fst l1 = []).
    { destruct i as [n a body|s|s|s|s|pa pb|s|nm].
      - rewrite proc_elem in E. cbn [lflush fst bind snd] in E.
        destruct (accepts _ _ _ _ _); [|discriminate].
        destruct (procs STREE MDoc res false body ([], [])) as [l2|]; [|discriminate]. cbn [bind] in E.
        destruct (lflush STREE MDoc false l2); [|discriminate]. inversion E; reflexivity.
      - cbn in E. destruct (all_ws s); inversion E; reflexivity.
      - cbn [proc lnode lflush fst bind] in E. unfold lappend in E. cbn [fst snd] in E.
        destruct (accepts _ _ _ _ _); [|discriminate]. cbn [bind lchars] in E. destruct (all_ws s); inversion E; reflexivity.
      - cbn [proc] in E. destruct s_cdata_is_characters.
        + cbn in E. destruct (all_ws s); inversion E; reflexivity.
        + inversion E; reflexivity.
      - cbn [proc lnode lflush fst bind] in E. unfold lappend in E. destruct (accepts _ _ _ _ _); inversion E; reflexivity.
      - cbn [proc lnode lflush fst bind] in E. unfold lappend in E. destruct (accepts _ _ _ _ _); inversion E; reflexivity.
      - inversion E; reflexivity.
      - inversion E; reflexivity. }
    destruct l1 as [b1 c1]. cbn in Hl1. subst b1. eapply IH. exact H.
Qed.

(* ---- whole scripts ---- *)
Lemma start_doc : forall t m res, step t m res EvStartDoc st0 = Some st0.
Proof. destruct t; reflexivity. Qed.

Theorem builds_den_t : forall t m res items,
  top_ok t m items = true ->
  run_target t m res (script items) = Some (den_t t m res items).
Proof.
  intros t m res items Hok. unfold run_target, script. cbn [run_from]. rewrite start_doc. cbn [bind].
  rewrite run_items. change (top_of st0) with true. change (lvl_of st0) with (@pair str (list tnode) [] []).
  assert (G : goal_at t m res true items [] []).
  { destruct m.
    - apply top_doc; [exact Hok|apply inv_nil].
    - apply Q_free_all. reflexivity. }
  unfold goal_at in G.
  match goal with |- context [procs ?a ?b ?c ?d ?e ?f] => destruct (procs a b c d e f) as [l|] eqn:E end; [|discriminate G].
  cbn [bind] in G.
  rewrite mt_nil_text, app_nil_r in G. fold (den_t t m res items) in G.
  cbn [run_from].
  assert (F : step t m res EvEndDoc (with_lvl st0 l) = Some (with_lvl st0 ([], rev (den_t t m res items)))).
  { destruct t, m; cbn [step x_step s_step]; unfold x_flush_endDocument, s_flush_endDocument_frag, s_flush_endDocument_doc, flush_if;
      try (rewrite flush_lvl, top_with, lvl_with; change (top_of st0) with true; rewrite G; reflexivity).
    (* source tree, document mode: no flush, and nothing to flush *)
    pose proof (s_doc_buf _ _ _ _ E) as Hb. destruct l as [b c]. cbn in Hb. subst b. cbn in G. inversion G. reflexivity. }
  rewrite F. cbn [bind]. unfold result, with_lvl, st0, unwind. cbn. rewrite rev_involutive. reflexivity.
Qed.
