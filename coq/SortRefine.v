(* C16 — the sort as coded (caches threaded through the comparator, insertion sort) equals the
   cache-free insertion sort, which is the generic stable sort of SortOrder.v. *)
From Coq Require Import ZArith List Bool Arith Lia Permutation Sorted.
Import ListNotations.
Require Import XV.GenSort XV.SortDefs XV.SortOrder XV.SortCache XV.SortModel.

Section Refine.
  Variable coll : str -> case_order -> str -> str -> comparison.
  Variable keys : list skey.
  Variable nnodes : nat.
  Variable nev : nat -> nat -> Z.
  Variable sev : nat -> nat -> str.

  Definition caches_ok (st : caches) : Prop :=
    cache_ok Z num_dummy_test 0%Z (length keys) nnodes nev (c_num st) /\
    cache_ok str str_dummy_test [] (length keys) nnodes sev (c_str st).

  Lemma caches_ok_empty : caches_ok empty_caches.
  Proof. split; apply cache_ok_empty. Qed.

  Lemma get_number_ok : forall st k p, caches_ok st -> k < length keys -> p < nnodes ->
      fst (get_number keys nnodes nev st k p) = nev k p /\ caches_ok (snd (get_number keys nnodes nev st k p)).
  Proof.
    intros st k p [ON OS] Hk Hp. unfold get_number.
    pose proof (cache_get_transparent Z sentinel_bits num_dummy_test 0%Z (length keys) nnodes nev num_dummy_ok
                                      (c_num st) k p ON Hk Hp) as [HV HC].
    destruct (cache_get Z sentinel_bits num_dummy_test 0%Z (length keys) nnodes nev (c_num st) k p) as [v c].
    cbn [fst snd] in *. split; [exact HV|]. split; [exact HC | exact OS].
  Qed.

  Lemma get_string_ok : forall st k p, caches_ok st -> k < length keys -> p < nnodes ->
      fst (get_string keys nnodes sev st k p) = sev k p /\ caches_ok (snd (get_string keys nnodes sev st k p)).
  Proof.
    intros st k p [ON OS] Hk Hp. unfold get_string.
    pose proof (cache_get_transparent str [] str_dummy_test [] (length keys) nnodes sev str_dummy_ok
                                      (c_str st) k p OS Hk Hp) as [HV HC].
    destruct (cache_get str [] str_dummy_test [] (length keys) nnodes sev (c_str st) k p) as [v c].
    cbn [fst snd] in *. split; [exact HV|]. split; [exact ON | exact HC].
  Qed.

  Definition in_range (e : entry) : Prop := e_pos e < nnodes.

  Theorem compare_st_pure : forall ks ki a b st,
      caches_ok st -> ki + length ks <= length keys -> in_range a -> in_range b ->
      fst (compare_st coll keys nnodes nev sev ks ki a b st) = compare_from coll nev sev ks ki a b /\
      caches_ok (snd (compare_st coll keys nnodes nev sev ks ki a b st)).
  Proof.
    induction ks as [|k rest IH]; intros ki a b st OK Hki Ha Hb.
    - simpl. split; [reflexivity | exact OK].
    - cbn [compare_st compare_from]. cbn [length] in Hki.
      assert (Hk : ki < length keys) by lia.
      unfold key_compare. destruct (k_num k).
      + pose proof (get_number_ok st ki (e_pos a) OK Hk Ha) as [V1 O1].
        destruct (get_number keys nnodes nev st ki (e_pos a)) as [x st1]. cbn [fst snd] in V1, O1.
        pose proof (get_number_ok st1 ki (e_pos b) O1 Hk Hb) as [V2 O2].
        destruct (get_number keys nnodes nev st1 ki (e_pos b)) as [y st2]. cbn [fst snd] in V2, O2.
        subst x y. destruct (num_compare (nev ki (e_pos a)) (nev ki (e_pos b))).
        * apply IH; [exact O2 | lia | exact Ha | exact Hb].
        * split; [reflexivity | exact O2].
        * split; [reflexivity | exact O2].
      + pose proof (get_string_ok st ki (e_pos a) OK Hk Ha) as [V1 O1].
        destruct (get_string keys nnodes sev st ki (e_pos a)) as [x st1]. cbn [fst snd] in V1, O1.
        pose proof (get_string_ok st1 ki (e_pos b) O1 Hk Hb) as [V2 O2].
        destruct (get_string keys nnodes sev st1 ki (e_pos b)) as [y st2]. cbn [fst snd] in V2, O2.
        subst x y. destruct (coll (k_lang k) (k_case k) (sev ki (e_pos a)) (sev ki (e_pos b))).
        * apply IH; [exact O2 | lia | exact Ha | exact Hb].
        * split; [reflexivity | exact O2].
        * split; [reflexivity | exact O2].
  Qed.

  Lemma insert_st_pure : forall x l st,
      caches_ok st -> in_range x -> Forall in_range l ->
      fst (insert_st coll keys nnodes nev sev x l st) = insert coll keys nev sev x l /\
      caches_ok (snd (insert_st coll keys nnodes nev sev x l st)).
  Proof.
    induction l as [|y t IH]; intros st OK Hx Hl.
    - simpl. split; [reflexivity | exact OK].
    - inversion Hl as [|? ? Hy Ht]; subst. cbn [insert_st insert].
      pose proof (compare_st_pure keys 0 y x st OK (Nat.le_refl _) Hy Hx) as [V O].
      destruct (compare_st coll keys nnodes nev sev keys 0 y x st) as [r st1]. cbn [fst snd] in V, O.
      subst r. unfold cmp. destruct (is_lt (compare_from coll nev sev keys 0 y x)).
      + pose proof (IH st1 O Hx Ht) as [V2 O2].
        destruct (insert_st coll keys nnodes nev sev x t st1) as [t' st2]. cbn [fst snd] in *.
        subst t'. split; [reflexivity | exact O2].
      + split; [reflexivity | exact O].
  Qed.

  Lemma insert_in_range : forall x l, in_range x -> Forall in_range l -> Forall in_range (insert coll keys nev sev x l).
  Proof.
    induction l as [|y t IH]; intros Hx Hl; simpl.
    - constructor; [exact Hx | constructor].
    - inversion Hl; subst. destruct (is_lt (cmp coll keys nev sev y x)).
      + constructor; [assumption | apply IH; assumption].
      + constructor; [exact Hx | exact Hl].
  Qed.

  Theorem isort_st_pure : forall l st,
      caches_ok st -> Forall in_range l ->
      fst (isort_st coll keys nnodes nev sev l st) = isort coll keys nev sev l /\
      caches_ok (snd (isort_st coll keys nnodes nev sev l st)) /\
      Forall in_range (isort coll keys nev sev l).
  Proof.
    induction l as [|x t IH]; intros st OK Hl.
    - simpl. split; [reflexivity|]. split; [exact OK | constructor].
    - inversion Hl as [|? ? Hx Ht]; subst. cbn [isort_st isort].
      pose proof (IH st OK Ht) as (V & O & R).
      destruct (isort_st coll keys nnodes nev sev t st) as [t' st1]. cbn [fst snd] in *. subst t'.
      pose proof (insert_st_pure x _ st1 O Hx R) as [V2 O2].
      split; [exact V2|]. split; [exact O2|]. apply insert_in_range; assumption.
  Qed.

  (* the cache-free insertion sort is the generic one *)
  Lemma insert_generic : forall x l, insert coll keys nev sev x l = ins entry (cmp coll keys nev sev) x l.
  Proof. induction l as [|y t IH]; simpl; [reflexivity|]. rewrite IH. reflexivity. Qed.

  Lemma isort_generic : forall l, isort coll keys nev sev l = isort_g entry (cmp coll keys nev sev) l.
  Proof. induction l as [|x t IH]; simpl; [reflexivity|]. rewrite IH. apply insert_generic. Qed.
End Refine.

(* entries built from the selected node list *)
Lemma entries_from_range : forall nodes i n, i + length nodes <= n -> Forall (in_range n) (entries_from i nodes).
Proof.
  induction nodes as [|x t IH]; intros i n H; simpl; constructor.
  - unfold in_range. simpl in *. lia.
  - apply IH. simpl in H. lia.
Qed.

Lemma entries_from_nodes : forall nodes i, map e_node (entries_from i nodes) = nodes.
Proof. induction nodes; intros; simpl; [reflexivity | f_equal; apply IHnodes]. Qed.

Lemma entries_from_pos_sorted : forall nodes i,
    StronglySorted (fun a b => e_pos a < e_pos b) (entries_from i nodes) /\
    Forall (fun e => i <= e_pos e) (entries_from i nodes).
Proof.
  induction nodes as [|x t IH]; intros i; simpl.
  - split; constructor.
  - destruct (IH (S i)) as [S1 F1]. split.
    + constructor; [exact S1|]. eapply Forall_impl; [|exact F1]. simpl. intros. lia.
    + constructor; [simpl; lia|]. eapply Forall_impl; [|exact F1]. simpl. intros. lia.
Qed.
