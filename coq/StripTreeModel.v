(* C13 — the tree part of StripDefs.v: consulting the strip decision at every observation point
   (the code) is the same as observing the physically stripped tree with no decision at all.

   All statements are closed under the global context (Print Assumptions at the end). *)
From Coq Require Import String List NArith Bool Arith Lia.
Import ListNotations.
Require Import XV.StripDefs.
Open Scope list_scope.

(* ------------------------------------------------------------------------------------------------ *)
(* induction over the nested inductive [node] *)

Fixpoint node_ind' (P : node -> Prop)
  (HE : forall n a ks, Forall P ks -> P (Elem n a ks))
  (HT : forall d, P (Text d))
  (HC : forall d, P (Comment d))
  (HP : forall t d, P (PI t d))
  (x : node) : P x :=
  match x with
  | Elem n a ks =>
      HE n a ks
        ((fix go (l : list node) : Forall P l :=
            match l with
            | [] => Forall_nil P
            | k :: r => Forall_cons k (node_ind' P HE HT HC HP k) (go r)
            end) ks)
  | Text d => HT d
  | Comment d => HC d
  | PI t d => HP t d
  end.

(* ------------------------------------------------------------------------------------------------ *)
(* list facts *)

Lemma filter_all_true {A} (f : A -> bool) (l : list A) :
  (forall x, f x = true) -> filter f l = l.
Proof.
  intros H. induction l as [|a l IH]; simpl; [reflexivity|]. rewrite H, IH. reflexivity.
Qed.

Lemma filter_map_comm {A B} (f : A -> B) (p : B -> bool) (l : list A) :
  filter p (map f l) = map f (filter (fun x => p (f x)) l).
Proof.
  induction l as [|a l IH]; simpl; [reflexivity|].
  destruct (p (f a)); simpl; rewrite IH; reflexivity.
Qed.

Lemma map_flat_map {A B C} (f : B -> C) (g : A -> list B) (l : list A) :
  map f (flat_map g l) = flat_map (fun x => map f (g x)) l.
Proof.
  induction l as [|a l IH]; simpl; [reflexivity|]. rewrite map_app, IH. reflexivity.
Qed.

Lemma flat_map_map {A B C} (f : A -> B) (g : B -> list C) (l : list A) :
  flat_map g (map f l) = flat_map (fun x => g (f x)) l.
Proof.
  induction l as [|a l IH]; simpl; [reflexivity|]. rewrite IH. reflexivity.
Qed.

Lemma flat_map_ext_Forall {A B} (g h : A -> list B) (l : list A) :
  Forall (fun x => g x = h x) l -> flat_map g l = flat_map h l.
Proof.
  induction 1 as [|a l Ha _ IH]; simpl; [reflexivity|]. rewrite Ha, IH. reflexivity.
Qed.

Lemma map_ext_F {A B} (g h : A -> B) (l : list A) :
  Forall (fun x => g x = h x) l -> map g l = map h l.
Proof.
  induction 1 as [|a l Ha _ IH]; simpl; [reflexivity|]. rewrite Ha, IH. reflexivity.
Qed.

Lemma Forall_flat_map_intro {A B} (P : B -> Prop) (g : A -> list B) (l : list A) :
  Forall (fun x => Forall P (g x)) l -> Forall P (flat_map g l).
Proof.
  induction 1 as [|a l Ha _ IH]; simpl; [constructor|]. apply Forall_app. split; assumption.
Qed.

Lemma nth_error_map' {A B} (f : A -> B) (l : list A) (n : nat) :
  nth_error (map f l) n = option_map f (nth_error l n).
Proof.
  revert n. induction l as [|a l IH]; intros [|n]; simpl; auto.
Qed.

(* ------------------------------------------------------------------------------------------------ *)
(* 1. the decision does not change under removal *)

Lemma stripped_rs : forall st pn x, stripped st pn (remove_stripped st x) = stripped st pn x.
Proof. intros st pn x. destruct x; reflexivity. Qed.

Lemma visible_rs : forall st pn x, visible st pn (remove_stripped st x) = visible st pn x.
Proof. intros st pn x. unfold visible. rewrite stripped_rs. reflexivity. Qed.

Lemma is_text_rs : forall st x, is_text (remove_stripped st x) = is_text x.
Proof. intros st x. destruct x; reflexivity. Qed.

Lemma is_elem_rs : forall st x, is_elem (remove_stripped st x) = is_elem x.
Proof. intros st x. destruct x; reflexivity. Qed.

Lemma test_node_rs : forall st t x, test_node t (remove_stripped st x) = test_node t x.
Proof. intros st t x. destruct x; destruct t; reflexivity. Qed.

Lemma stripped_no_strip : forall pn x, stripped no_strip pn x = false.
Proof. intros pn x. destruct x; simpl; try reflexivity. apply andb_false_r. Qed.

Lemma visible_no_strip : forall pn x, visible no_strip pn x = true.
Proof. intros pn x. unfold visible. rewrite stripped_no_strip. reflexivity. Qed.

Lemma ctx_visible_no_strip : forall c, ctx_visible no_strip c = true.
Proof. intros c. apply visible_no_strip. Qed.

Lemma keep_visible_no_strip : forall l, keep_visible no_strip l = l.
Proof. intros l. apply filter_all_true. apply ctx_visible_no_strip. Qed.

Lemma filter_visible_no_strip : forall pn l, filter (visible no_strip pn) l = l.
Proof. intros pn l. apply filter_all_true. apply visible_no_strip. Qed.

(* ------------------------------------------------------------------------------------------------ *)
(* strip_list *)

Lemma strip_list_eq : forall st pn l,
  strip_list st pn l = map (remove_stripped st) (filter (visible st pn) l).
Proof.
  intros st pn l. unfold strip_list. rewrite filter_map_comm. f_equal.
  apply filter_ext. intros x. apply visible_rs.
Qed.

Lemma strip_list_app : forall st pn a b,
  strip_list st pn (a ++ b) = strip_list st pn a ++ strip_list st pn b.
Proof. intros st pn a b. unfold strip_list. rewrite map_app, filter_app. reflexivity. Qed.

Lemma strip_list_cons_vis : forall st pn k l, visible st pn k = true ->
  strip_list st pn (k :: l) = remove_stripped st k :: strip_list st pn l.
Proof. intros st pn k l H. unfold strip_list. simpl. rewrite visible_rs, H. reflexivity. Qed.

Lemma strip_list_cons_invis : forall st pn k l, visible st pn k = false ->
  strip_list st pn (k :: l) = strip_list st pn l.
Proof. intros st pn k l H. unfold strip_list. simpl. rewrite visible_rs, H. reflexivity. Qed.

Lemma strip_list_length : forall st pn l,
  length (strip_list st pn l) = length (filter (visible st pn) l).
Proof. intros st pn l. rewrite strip_list_eq. apply map_length. Qed.

Lemma rs_elem : forall st n a ks,
  remove_stripped st (Elem n a ks) = Elem n a (strip_list st n ks).
Proof. reflexivity. Qed.

(* ------------------------------------------------------------------------------------------------ *)
(* 2. children *)

Lemma rs_children : forall st x,
  children no_strip (remove_stripped st x) = map (remove_stripped st) (children st x).
Proof.
  intros st x. destruct x; try reflexivity.
  rewrite rs_elem. cbn [children]. rewrite filter_visible_no_strip. apply strip_list_eq.
Qed.

(* ------------------------------------------------------------------------------------------------ *)
(* a scheme for the observations defined by flat_map over the children *)

Lemma flat_map_strip {B} (g h : node -> list B) st n ks :
  Forall (fun k => stripped st n k = false -> g (remove_stripped st k) = h k) ks ->
  (forall k, stripped st n k = true -> h k = []) ->
  flat_map g (strip_list st n ks) = flat_map h ks.
Proof.
  intros HF Hs. induction HF as [|k r Hk _ IH]; [reflexivity|].
  destruct (stripped st n k) eqn:E.
  - rewrite strip_list_cons_invis by (unfold visible; rewrite E; reflexivity).
    simpl. rewrite (Hs k E). simpl. exact IH.
  - rewrite strip_list_cons_vis by (unfold visible; rewrite E; reflexivity).
    simpl. rewrite (Hk eq_refl), IH. reflexivity.
Qed.

(* ------------------------------------------------------------------------------------------------ *)
(* 3. string-value *)

Lemma sv_stripped : forall st pn k, stripped st pn k = true -> sv st pn k = [].
Proof.
  intros st pn k H. destruct k; simpl in *; try discriminate. rewrite H. reflexivity.
Qed.

Lemma rs_sv : forall st pn x, stripped st pn x = false ->
  sv no_strip pn (remove_stripped st x) = sv st pn x.
Proof.
  intros st pn x. revert pn. induction x using node_ind'; intros pn Hs.
  - rewrite rs_elem. cbn [sv]. apply flat_map_strip.
    + eapply Forall_impl; [|exact H]. intros k Hk. apply Hk.
    + apply sv_stripped.
  - simpl in *. rewrite Hs. unfold no_strip. rewrite andb_false_r. reflexivity.
  - reflexivity.
  - reflexivity.
Qed.

Lemma rs_string_value : forall st pn x, stripped st pn x = false ->
  string_value no_strip pn (remove_stripped st x) = string_value st pn x.
Proof.
  intros st pn x Hs. destruct x; try reflexivity.
  - unfold string_value. rewrite rs_elem. rewrite <- rs_elem. apply rs_sv. exact Hs.
  - apply (rs_sv st pn (Text data) Hs).
Qed.

(* ------------------------------------------------------------------------------------------------ *)
(* 4. copy *)

Lemma copy_events_stripped : forall st pn k, stripped st pn k = true -> copy_events st pn k = [].
Proof.
  intros st pn k H. destruct k; simpl in *; try discriminate. rewrite H. reflexivity.
Qed.

Lemma rs_copy_events : forall st pn x, stripped st pn x = false ->
  copy_events no_strip pn (remove_stripped st x) = copy_events st pn x.
Proof.
  intros st pn x. revert pn. induction x using node_ind'; intros pn Hs.
  - rewrite rs_elem. cbn [copy_events]. f_equal. f_equal. apply flat_map_strip.
    + eapply Forall_impl; [|exact H]. intros k Hk. apply Hk.
    + apply copy_events_stripped.
  - simpl in *. rewrite Hs. unfold no_strip. rewrite andb_false_r. reflexivity.
  - reflexivity.
  - reflexivity.
Qed.

(* ------------------------------------------------------------------------------------------------ *)
(* 5. descendant-or-self *)

Lemma dos_unfold : forall st pn x,
  desc_or_self st pn x =
  if stripped st pn x then [] else
  x :: match x with
       | Elem n _ ks => flat_map (desc_or_self st n) ks
       | _ => []
       end.
Proof. intros st pn x. destruct x; reflexivity. Qed.

Lemma dos_stripped : forall st pn k, stripped st pn k = true -> desc_or_self st pn k = [].
Proof. intros st pn k H. rewrite dos_unfold, H. reflexivity. Qed.

Lemma rs_desc_or_self : forall st pn x, stripped st pn x = false ->
  desc_or_self no_strip pn (remove_stripped st x) =
  map (remove_stripped st) (desc_or_self st pn x).
Proof.
  intros st pn x. revert pn. induction x using node_ind'; intros pn Hs;
    rewrite (dos_unfold st), (dos_unfold no_strip), stripped_no_strip, Hs.
  - rewrite rs_elem. cbn [map]. rewrite <- rs_elem. f_equal.
    rewrite map_flat_map. apply flat_map_strip.
    + eapply Forall_impl; [|exact H]. intros k Hk. apply Hk.
    + intros k Hk. rewrite dos_stripped by exact Hk. reflexivity.
  - reflexivity.
  - reflexivity.
  - reflexivity.
Qed.

Lemma rs_desc_or_self_length : forall st pn x, stripped st pn x = false ->
  length (desc_or_self no_strip pn (remove_stripped st x)) = length (desc_or_self st pn x).
Proof. intros st pn x Hs. rewrite rs_desc_or_self by exact Hs. apply map_length. Qed.

Lemma rs_desc_or_self_texts : forall st pn x, stripped st pn x = false ->
  length (filter is_text (desc_or_self no_strip pn (remove_stripped st x))) =
  length (filter is_text (desc_or_self st pn x)).
Proof.
  intros st pn x Hs. rewrite rs_desc_or_self by exact Hs.
  rewrite filter_map_comm, map_length. f_equal. apply filter_ext. intros y. apply is_text_rs.
Qed.

(* ------------------------------------------------------------------------------------------------ *)
(* 6. removal with no declarations; removal twice *)

Lemma rs_no_strip : forall x, remove_stripped no_strip x = x.
Proof.
  induction x using node_ind'; try reflexivity.
  simpl. rewrite filter_visible_no_strip. f_equal.
  induction H as [|k r Hk _ IH]; simpl; [reflexivity|]. rewrite Hk, IH. reflexivity.
Qed.

Lemma rs_idempotent : forall st x,
  remove_stripped st (remove_stripped st x) = remove_stripped st x.
Proof.
  intros st. induction x using node_ind'; try reflexivity.
  rewrite rs_elem, rs_elem. f_equal.
  induction H as [|k r Hk _ IH]; [reflexivity|].
  destruct (visible st n k) eqn:E.
  - rewrite (strip_list_cons_vis _ _ _ _ E).
    rewrite strip_list_cons_vis by (rewrite visible_rs; exact E).
    rewrite Hk, IH. reflexivity.
  - rewrite (strip_list_cons_invis _ _ _ _ E). exact IH.
Qed.
