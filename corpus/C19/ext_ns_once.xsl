<?xml version="1.0"?>
<xsl:stylesheet version="1.0" xmlns:xsl="http://www.w3.org/1999/XSL/Transform"
                xmlns:e1="http://verif.example/ext-elements"
                extension-element-prefixes="e1">
  <xsl:template match="/">
    <out><xsl:value-of select="count(//*)"/></out>
  </xsl:template>
</xsl:stylesheet>
