(* ExtractForms.v - C05: extraction of the executable models for the correspondence run. *)
Require Import ExtrOcamlBasic.
Require Import XV.FormsDefs.
Extraction "extracted/forms_model.ml" build_sax norm wrap chunks orun narrow_ok.
