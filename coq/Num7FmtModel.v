(* C17, formatting half: proofs about Num7FmtDefs. *)
From Coq Require Import List NArith ZArith Bool Lia ZifyBool ZifyNat ZifyN.
Require Import XV.GenNum7 XV.Num7FmtDefs.
Import ListNotations.
Open Scope N_scope.
Ltac Zify.zify_post_hook ::= Z.div_mod_to_equations.

(* ---------------------------------------------------------------------------------------------
   int2alphaCount *)
Definition borrow (li corr : N) : N :=
  if (li =? 0) || (negb (corr =? 0) && (li =? 26 - 1)) then 1 else 0.

Lemma bij_value_snoc : forall pre d, bij_value 26 (pre ++ [d]) = bij_value 26 pre * 26 + bij_digit_value 26 d.
Proof. intros. unfold bij_value. rewrite fold_left_app. reflexivity. Qed.

Lemma pow2_succ : forall f, 2 ^ N.of_nat (S f) = 2 * 2 ^ N.of_nat f.
Proof. intros. rewrite Nat2N.inj_succ, N.pow_succ_r'. reflexivity. Qed.

Lemma alpha_loop_ok : forall f val li corr acc,
  borrow li corr <= val -> val < 2 ^ N.of_nat f ->
  exists pre, alpha_loop (S f) 26 val li corr acc = Some (pre ++ acc)
              /\ bij_value 26 pre = val - borrow li corr
              /\ Forall (fun d => d < 26) pre
              /\ (length pre <= S f)%nat.
Proof.
  induction f as [|f IH]; intros val li corr acc Hb Hlt.
  - cbn [N.of_nat N.pow] in Hlt. assert (val = 0) by lia. subst val.
    assert (Hb0 : borrow li corr = 0) by lia.
    exists []. cbn [alpha_loop]. unfold borrow in Hb0.
    destruct ((li =? 0) || (negb (corr =? 0) && (li =? 26 - 1))) eqn:E; [discriminate|].
    cbn. repeat split; auto. 
  - rewrite pow2_succ in Hlt. set (P := 2 ^ N.of_nat f) in *.
    cbn [alpha_loop]. unfold borrow in *.
    set (bb := (li =? 0) || (negb (corr =? 0) && (li =? 26 - 1))) in *.
    set (corr' := if bb then 26 - 1 else 0).
    set (li' := (val + corr') mod 26).
    set (val' := val / 26).
    destruct ((li' =? 0) && (val' =? 0)) eqn:Estop.
    + exists []. split; [reflexivity|]. split; [|split; [constructor|cbn; lia]].
      cbn. subst li' val' corr'. destruct bb; lia.
    + destruct (0 <? val') eqn:Epos.
      * assert (Hlt' : val' < P) by (subst val'; lia).
        assert (Hb' : borrow li' corr' <= val') by (unfold borrow; destruct ((li' =? 0) || (negb (corr' =? 0) && (li' =? 26 - 1))); lia).
        destruct (IH val' li' corr' (li' :: acc) Hb' Hlt') as [pre [He [Hv [Hd Hl]]]].
        exists (pre ++ [li']). rewrite <- app_assoc. split; [exact He|].
        split; [|split].
        -- rewrite bij_value_snoc, Hv. unfold borrow, bij_digit_value.
           subst li' val' corr'. change (26 - 1) with 25 in *.
           destruct bb.
           ++ change (25 =? 0) with false. cbn [negb andb].
              destruct ((val + 25) mod 26 =? 0) eqn:E1; destruct ((val + 25) mod 26 =? 25) eqn:E3; cbn [orb]; lia.
           ++ change (0 =? 0) with true. cbn [negb andb].
              destruct ((val + 0) mod 26 =? 0) eqn:E1; cbn [orb]; lia.
        -- apply Forall_app. split; [exact Hd|]. constructor; [|constructor]. subst li'. lia.
        -- rewrite app_length. cbn. lia.
      * exists [li']. split; [reflexivity|]. split; [|split].
        -- cbn. unfold bij_digit_value. subst li' val' corr'. destruct bb; destruct ((val + (26 - 1)) mod 26 =? 0) eqn:E1;
             destruct ((val + 0) mod 26 =? 0) eqn:E2; lia.
        -- constructor; [|constructor]. subst li'. lia.
        -- cbn. lia.
Qed.

Lemma size_bound : forall n, n < 2 ^ N.of_nat (N.to_nat (N.size n)).
Proof. intros. rewrite N2Nat.id. apply N.size_gt. Qed.

Lemma alpha_indices_ok : forall val,
  exists pre, alpha_indices 26 val = Some pre /\ bij_value 26 pre = val
              /\ Forall (fun d => d < 26) pre /\ (length pre <= S (N.to_nat (N.size val)))%nat.
Proof.
  intros. unfold alpha_indices, alpha_fuel.
  destruct (alpha_loop_ok (N.to_nat (N.size val)) val 1 0 []) as [pre [He [Hv [Hd Hl]]]].
  - cbn. lia.
  - apply size_bound.
  - exists pre. rewrite app_nil_r in He. repeat split; auto. rewrite Hv. cbn. lia.
Qed.

Definition table_ok (tbl : list N) : bool :=
  (length tbl =? 26)%nat &&
  forallb (fun i => (nth i tbl 0 - 64 =? bij_digit_value 26 (N.of_nat i)) && is_upper (nth i tbl 0)) (seq 0 26).

Lemma alpha_table_ok : table_ok alpha_table = true.
Proof. vm_compute. reflexivity. Qed.

Lemma decode_map : forall tbl pre a, table_ok tbl = true -> Forall (fun d => d < 26) pre ->
  fold_left (fun a c => a * 26 + (c - 64)) (map (fun i => nth (N.to_nat i) tbl 0) pre) a
  = fold_left (fun a d => a * 26 + bij_digit_value 26 d) pre a
  /\ forallb is_upper (map (fun i => nth (N.to_nat i) tbl 0) pre) = true.
Proof.
  intros tbl pre a Ht. revert a. induction pre as [|d pre IH]; intros a Hd; [split; reflexivity|].
  inversion Hd as [|d0 pre0 Hd1 Hd2]; subst. cbn [map fold_left forallb].
  unfold table_ok in Ht. apply andb_prop in Ht. destruct Ht as [_ Ht].
  rewrite forallb_forall in Ht. specialize (Ht (N.to_nat d)).
  assert (Hin : In (N.to_nat d) (seq 0 26)) by (apply in_seq; lia).
  apply Ht in Hin. rewrite N2Nat.id in Hin. apply andb_prop in Hin. destruct Hin as [T1 T2].
  apply N.eqb_eq in T1. rewrite T1, T2. destruct (IH (a * 26 + bij_digit_value 26 d) Hd2) as [I1 I2].
  split; [exact I1|exact I2].
Qed.

Lemma alpha_roundtrip_l : forall n,
  exists s, int2alpha alpha_table n = Some s /\ alpha_decode s = n /\ forallb is_upper s = true
            /\ (length s <= S (N.to_nat (N.size n)))%nat.
Proof.
  intros. unfold int2alpha.
  assert (Hlen : N.of_nat (length alpha_table) = 26) by (vm_compute; reflexivity).
  rewrite Hlen. destruct (alpha_indices_ok n) as [pre [He [Hv [Hd Hl]]]]. rewrite He.
  eexists. split; [reflexivity|].
  destruct (decode_map alpha_table pre 0 alpha_table_ok Hd) as [D1 D2].
  unfold alpha_decode. rewrite D1. split; [exact Hv|]. split; [exact D2|]. rewrite map_length. exact Hl.
Qed.

Lemma size_le_64 : forall n, n < 2 ^ 64 -> (N.to_nat (N.size n) <= 64)%nat.
Proof.
  intros n H. destruct n as [|p]; [cbn; lia|].
  assert (N.size (N.pos p) <= 64); [|lia].
  rewrite N.size_log2 by discriminate. apply N.log2_lt_pow2 in H; lia.
Qed.

(* lower-case variant decodes after upper-casing *)
Lemma upper_lower : forall s, forallb is_upper s = true -> to_upper_ascii (to_lower_ascii s) = s.
Proof.
  unfold to_upper_ascii, to_lower_ascii.
  induction s as [|c s IH]; intros H; [reflexivity|]. cbn [forallb] in H. apply andb_prop in H. destruct H as [H1 H2].
  cbn [map]. rewrite IH by exact H2. rewrite H1. f_equal. unfold is_upper in H1.
  destruct ((97 <=? c + 32) && (c + 32 <=? 122)) eqn:E; lia.
Qed.

(* ---------------------------------------------------------------------------------------------
   toRoman: finite domain 1..roman_limit *)
Definition roman_ok (k : nat) : bool :=
  match to_roman (N.of_nat k) with
  | Some s => Z.eqb (roman_decode s) (Z.of_nat k) && forallb (fun c => negb (roman_letter_value c =? 0)) s
              && Z.eqb (roman_text_decode s) (Z.of_nat k)
  | None => false
  end.

Lemma roman_sweep : forallb roman_ok (seq 1 (N.to_nat roman_limit)) = true.
Proof. vm_compute. reflexivity. Qed.

Lemma roman_roundtrip_l : forall n, 1 <= n <= roman_limit ->
  exists s, to_roman n = Some s /\ roman_decode s = Z.of_N n.
Proof.
  intros n H. pose proof roman_sweep as S. rewrite forallb_forall in S.
  specialize (S (N.to_nat n)). assert (Hin : In (N.to_nat n) (seq 1 (N.to_nat roman_limit))) by (apply in_seq; lia).
  apply S in Hin. unfold roman_ok in Hin. rewrite N2Nat.id in Hin.
  destruct (to_roman n) as [s|]; [|discriminate]. apply andb_prop in Hin. destruct Hin as [Hin _].
  apply andb_prop in Hin. destruct Hin as [H1 _].
  exists s. split; [reflexivity|]. apply Z.eqb_eq in H1. rewrite H1. lia.
Qed.

Lemma roman_text_roundtrip_l : forall n, 1 <= n <= roman_limit ->
  exists s, to_roman n = Some s /\ roman_text_decode s = Z.of_N n.
Proof.
  intros n H. pose proof roman_sweep as S. rewrite forallb_forall in S.
  specialize (S (N.to_nat n)). assert (Hin : In (N.to_nat n) (seq 1 (N.to_nat roman_limit))) by (apply in_seq; lia).
  apply S in Hin. unfold roman_ok in Hin. rewrite N2Nat.id in Hin.
  destruct (to_roman n) as [s|]; [|discriminate]. apply andb_prop in Hin. destruct Hin as [_ H1].
  exists s. split; [reflexivity|]. apply Z.eqb_eq in H1. rewrite H1. lia.
Qed.

(* ---------------------------------------------------------------------------------------------
   decimal, grouping, padding *)
Definition value_rev (l : list N) : N := fold_right (fun c a => a * 10 + (c - 48)) 0 l.

Lemma dec_value_rev : forall l, dec_value (rev l) = value_rev l.
Proof. intros. unfold dec_value, value_rev. rewrite fold_left_rev_right with (f := fun c a => a * 10 + (c - 48)) (l := rev l) at 1 || idtac.
  rewrite <- (rev_involutive l) at 2. rewrite fold_left_rev_right. reflexivity. Qed.

Lemma digits_rev_ok : forall f n, n < 2 ^ N.of_nat f ->
  value_rev (digits_rev (S f) n) = n /\ forallb is_digit (digits_rev (S f) n) = true.
Proof.
  induction f as [|f IH]; intros n H.
  - cbn [N.of_nat N.pow] in H. assert (n = 0) by lia. subst. cbn. split; reflexivity.
  - rewrite pow2_succ in H. set (P := 2 ^ N.of_nat f) in *.
    change (digits_rev (S (S f)) n) with ((48 + n mod 10) :: (if n / 10 =? 0 then [] else digits_rev (S f) (n / 10))).
    destruct (n / 10 =? 0) eqn:E.
    + unfold value_rev, is_digit. cbn [fold_right forallb]. split; lia.
    + assert (Hq : n / 10 < P) by lia. destruct (IH (n / 10) Hq) as [I1 I2].
      unfold value_rev in *. cbn [fold_right forallb]. rewrite I1, I2.
      unfold is_digit. split; lia.
Qed.

Lemma decimal_rev_ok : forall n, value_rev (decimal_rev n) = n /\ forallb is_digit (decimal_rev n) = true.
Proof. intros. unfold decimal_rev, dec_fuel. apply digits_rev_ok. apply size_bound. Qed.

Lemma filter_group : forall sepc gs l i, forallb is_digit l = true -> is_digit sepc = false ->
  filter (fun c => negb (c =? sepc)) (group_rev gs [sepc] i l) = l.
Proof.
  intros sepc gs l. induction l as [|c l IH]; intros i Hl Hs; [reflexivity|].
  cbn in Hl. apply andb_prop in Hl. destruct Hl as [Hc Hl].
  cbn [group_rev]. rewrite filter_app. cbn [filter].
  assert (Hne : (c =? sepc) = false) by (apply N.eqb_neq; intros ->; congruence).
  rewrite Hne. cbn [negb]. rewrite IH by assumption.
  destruct (negb (i =? 0) && (i mod gs =? 0)); cbn; [rewrite N.eqb_refl; reflexivity|reflexivity].
Qed.

Lemma filter_digits : forall sepc l, forallb is_digit l = true -> is_digit sepc = false ->
  filter (fun c => negb (c =? sepc)) l = l.
Proof.
  intros sepc l. induction l as [|c l IH]; intros Hl Hs; [reflexivity|].
  cbn in Hl. apply andb_prop in Hl. destruct Hl as [Hc Hl]. cbn.
  assert (Hne : (c =? sepc) = false) by (apply N.eqb_neq; intros ->; congruence).
  rewrite Hne. cbn. rewrite IH; auto.
Qed.

Lemma filter_rev : forall (A : Type) (p : A -> bool) l, filter p (rev l) = rev (filter p l).
Proof. intros A p l. induction l as [|x l IH]; [reflexivity|]. cbn. rewrite filter_app, IH. cbn. destruct (p x); [reflexivity|apply app_nil_r]. Qed.

Definition grouping_ok (grouping : option (str * N)) (sepc : N) : Prop :=
  match grouping with None => True | Some (sep, _) => sep = [sepc] end.

Lemma format_u64_decode : forall grouping sepc n, grouping_ok grouping sepc -> is_digit sepc = false ->
  decimal_decode sepc (format_u64 grouping n) = n.
Proof.
  intros grouping sepc n Hg Hs. destruct (decimal_rev_ok n) as [V D].
  unfold decimal_decode, format_u64. destruct grouping as [[sep gs]|].
  - cbn in Hg. subst sep. destruct (gs =? 0).
    + unfold decimal. rewrite filter_rev, filter_digits by assumption. rewrite dec_value_rev. exact V.
    + rewrite filter_rev, filter_group by assumption. rewrite dec_value_rev. exact V.
  - unfold decimal. rewrite filter_rev, filter_digits by assumption. rewrite dec_value_rev. exact V.
Qed.

Lemma dec_value_zeros : forall k s, dec_value (repeat 48 k ++ s) = dec_value s.
Proof.
  intros. unfold dec_value. rewrite fold_left_app. f_equal.
  induction k as [|k IH]; [reflexivity|]. cbn. exact IH.
Qed.

Lemma format_u64_zero : forall grouping, match grouping with Some (_, _) | None => format_u64 grouping 0 = [48] end.
Proof. intros [[sep gs]|]; cbn; [destruct (gs =? 0); reflexivity|reflexivity]. Qed.

Lemma concat_repeat_single : forall (c : N) k, concat (repeat [c] k) = repeat c k.
Proof. induction k as [|k IH]; [reflexivity|]. cbn. rewrite IH. reflexivity. Qed.

Lemma format_decimal_decode : forall grouping sepc width n, grouping_ok grouping sepc -> is_digit sepc = false ->
  decimal_decode sepc (format_decimal grouping width n) = n.
Proof.
  intros grouping sepc width n Hg Hs. unfold format_decimal.
  destruct (N.of_nat (length (format_u64 grouping n)) <? width).
  - assert (Hz : format_u64 grouping 0 = [48]) by (pose proof (format_u64_zero grouping) as Z; destruct grouping as [[? ?]|]; exact Z).
    rewrite Hz, concat_repeat_single. unfold decimal_decode. rewrite filter_app.
    assert (Hf : filter (fun c => negb (c =? sepc)) (repeat 48 (N.to_nat (width - N.of_nat (length (format_u64 grouping n)))))
                 = repeat 48 (N.to_nat (width - N.of_nat (length (format_u64 grouping n))))).
    { apply filter_digits; [|exact Hs]. generalize (N.to_nat (width - N.of_nat (length (format_u64 grouping n)))).
      induction n0 as [|k IH]; [reflexivity|]. cbn. exact IH. }
    rewrite Hf, dec_value_zeros. apply format_u64_decode; assumption.
  - apply format_u64_decode; assumption.
Qed.

(* ---------------------------------------------------------------------------------------------
   toRoman above the limit: the two variants of /repo (GenNum7.roman_overflow_decimal) *)
Lemma forallb_rev : forall (A : Type) (p : A -> bool) l, forallb p (rev l) = forallb p l.
Proof.
  intros A p l. induction l as [|x l IH]; [reflexivity|]. cbn [rev forallb].
  rewrite forallb_app, IH. cbn [forallb]. rewrite andb_true_r. apply andb_comm.
Qed.

Lemma decimal_text : forall n, forallb is_digit (decimal n) = true /\ dec_value (decimal n) = n.
Proof.
  intros n. destruct (decimal_rev_ok n) as [V D]. unfold decimal. rewrite forallb_rev, dec_value_rev. split; assumption.
Qed.

(* repaired code: every n >= 1 decodes, the decimal fallback included *)
Lemma roman_full_if : roman_overflow_decimal = true ->
  forall n, 1 <= n -> exists s, to_roman n = Some s /\ roman_text_decode s = Z.of_N n.
Proof.
  intros Hv n Hn. destruct (n <=? roman_limit) eqn:E.
  - apply roman_text_roundtrip_l. lia.
  - unfold to_roman. destruct (n =? 0) eqn:E0; [lia|]. destruct (roman_limit <? n) eqn:E1; [|lia].
    rewrite Hv. exists (decimal n). split; [reflexivity|].
    destruct (decimal_text n) as [D V]. unfold roman_text_decode. rewrite D, V. reflexivity.
Qed.

(* unrepaired code: 4000 prints the error string *)
Lemma roman_refuted_if : roman_overflow_decimal = false ->
  exists n, 1 <= n /\ to_roman n = Some error_string /\ roman_text_decode error_string <> Z.of_N n.
Proof.
  intros Hv. exists 4000. split; [lia|]. split.
  - unfold to_roman. rewrite Hv. vm_compute. reflexivity.
  - vm_compute. discriminate.
Qed.
