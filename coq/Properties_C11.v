(* Properties_C11.v — C11: an expression has one value, whichever way the caller asks for it.
   Statements closed by [exact] and their assumptions.

   GenExec.v is regenerated from /repo on every run (clang AST of XPath.cpp): arm_generic, arm_bool,
   arm_num, arm_str, arm_chars, arm_nodes give, for each of the six XPath::executeMore switches and
   each op-code, the arm that runs (helper, overload, conversion; ADefault where the switch has no
   case).  ExecDefs.execs interprets these tables; XpDefs.eval is the generic interpreter model of
   C02.  [forget] drops the kind of an error: "both fail" is agreement. *)
From Coq Require Import ZArith NArith List Bool SpecFloat.
Require Import XV.NumDefs XV.XpAst XV.DomDefs XV.XpDefs XV.XpModel XV.ExecArms XV.GenExec XV.ExecShapes XV.ExecDefs XV.ExecModel.
Import ListNotations.

(** * the tables: every op-code, every switch *)

(* the generic switch wraps a bool / double / string helper in the matching factory call and
   returns an XObjectPtr helper as it is *)
Theorem exec_generic_table_ok : forall op, generic_arm_ok (arm_generic op) = true.
Proof. exact generic_table_ok. Qed.
Print Assumptions exec_generic_table_ok.

(* for EVERY op-code the arm of the specialised switch calls the helper the generic switch calls
   (or its overload for this result type) under the conversion XPath 1.0 prescribes from that
   helper's result type: boolean() for the bool switch, number() for the double switch, string() for
   the string and character-event switches; the node-list switch keeps a returned object (checked to
   be a node-set after the switch), fills the list, or raises "not a node-set" for helpers whose
   result is a boolean, number or string.  An op-code without a generic case has none here either.
   A case missing from one switch, or carrying another helper or conversion, makes this false. *)
Theorem exec_bool_table_ok : forall op, spec_arm_ok EnBool (arm_generic op) (arm_bool op) = true.
Proof. exact (spec_table_ok EnBool). Qed.
Print Assumptions exec_bool_table_ok.

Theorem exec_num_table_ok : forall op, spec_arm_ok EnNum (arm_generic op) (arm_num op) = true.
Proof. exact (spec_table_ok EnNum). Qed.
Print Assumptions exec_num_table_ok.

Theorem exec_str_table_ok : forall op, spec_arm_ok EnStr (arm_generic op) (arm_str op) = true.
Proof. exact (spec_table_ok EnStr). Qed.
Print Assumptions exec_str_table_ok.

Theorem exec_chars_table_ok : forall op, spec_arm_ok EnChars (arm_generic op) (arm_chars op) = true.
Proof. exact (spec_table_ok EnChars). Qed.
Print Assumptions exec_chars_table_ok.

Theorem exec_nodelist_table_ok : forall op, spec_arm_ok EnNodes (arm_generic op) (arm_nodes op) = true.
Proof. exact (spec_table_ok EnNodes). Qed.
Print Assumptions exec_nodelist_table_ok.

Theorem exec_nodelist_checks_returned_object : nodes_post_check = true.
Proof. exact nodes_post_check_present. Qed.
Print Assumptions exec_nodelist_checks_returned_object.

(* the bodies of the helper overloads mirrored by hand in ExecDefs.v (Or .. functionSum, the
   overload sets of Union / literal / numberlit / group / locationPath, getNumericOperand,
   findNodeSet) are the ones the model was written from *)
Theorem exec_helper_bodies_as_modelled : helper_shapes = pinned_shapes.
Proof. exact helper_bodies_as_modelled. Qed.
Print Assumptions exec_helper_bodies_as_modelled.

(* the op-code under which the model looks a function call up in the tables is the one
   XPathProcessorImpl assigns (s_functionTable, FunctionCall(), replaceOpCode: regenerated) *)
Theorem exec_fn_opcode_follows_compiler : forall name args, fn_opcode name args = compiler_fn_opcode name args.
Proof. exact fn_opcode_follows_compiler_lemma. Qed.
Print Assumptions exec_fn_opcode_follows_compiler.

(** * one value: all expressions, all contexts, all recursion depths, six entry points at once *)

(* vars_ordered c (XpModel): the node-set variables bound in the context are in document order
   without duplicates, as every node-set the interpreter itself produces is
   (Properties_C02.nodeset_results_ordered) *)
Theorem exec_six_entry_points_agree : forall fuel c e, vars_ordered c -> agrees (execs fuel) (eval fuel) c e.
Proof. exact execs_agree. Qed.
Print Assumptions exec_six_entry_points_agree.

Theorem exec_generic_eq : forall c e, vars_ordered c ->
  forget (exec_generic c e) = forget (eval_top c e).
Proof. exact exec_generic_agrees. Qed.
Print Assumptions exec_generic_eq.

Theorem exec_bool_eq : forall c e, vars_ordered c ->
  forget (exec_bool c e) = option_map to_boolean (forget (exec_generic c e)).
Proof. intros c e Hc. rewrite exec_generic_agrees by exact Hc. exact (exec_bool_agrees c e Hc). Qed.
Print Assumptions exec_bool_eq.

Theorem exec_num_eq : forall c e, vars_ordered c ->
  forget (exec_num c e) = option_map (to_number c) (forget (exec_generic c e)).
Proof. intros c e Hc. rewrite exec_generic_agrees by exact Hc. exact (exec_num_agrees c e Hc). Qed.
Print Assumptions exec_num_eq.

(* the string entry point appends string(value) to what the caller's buffer held *)
Theorem exec_str_eq : forall c e buf, vars_ordered c ->
  forget (exec_str c e buf) = option_map (fun v => buf ++ to_string c v) (forget (exec_generic c e)).
Proof. intros c e buf Hc. rewrite exec_generic_agrees by exact Hc. exact (exec_str_agrees c e buf Hc). Qed.
Print Assumptions exec_str_eq.

(* the listener receives the characters of string(value) after what it had received *)
Theorem exec_chars_eq : forall c e acc, vars_ordered c ->
  forget (exec_chars c e acc) = option_map (fun v => acc ++ to_string c v) (forget (exec_generic c e)).
Proof. intros c e acc Hc. rewrite exec_generic_agrees by exact Hc. exact (exec_chars_agrees c e acc Hc). Qed.
Print Assumptions exec_chars_eq.

(* the node-list entry point delivers exactly the generic node-set, and fails when the generic
   value is not a node-set (or the generic evaluation fails) *)
Theorem exec_nodelist_eq : forall c e, vars_ordered c ->
  forget (exec_nodelist c e) = obind (forget (exec_generic c e)) (fun v => forget (as_nodes v)).
Proof. intros c e Hc. rewrite exec_generic_agrees by exact Hc. exact (exec_nodelist_agrees c e Hc). Qed.
Print Assumptions exec_nodelist_eq.

Theorem exec_generic_then_specialised : forall c e v, vars_ordered c -> exec_generic c e = Ok v ->
  exec_bool c e = Ok (to_boolean v) /\
  exec_num c e = Ok (to_number c v) /\
  (forall buf, exec_str c e buf = Ok (buf ++ to_string c v)) /\
  (forall acc, exec_chars c e acc = Ok (acc ++ to_string c v)) /\
  (forall l, v = VNodes l -> exec_nodelist c e = Ok l) /\
  (is_nodes v = false -> forget (exec_nodelist c e) = None).
Proof. exact generic_then_specialised. Qed.
Print Assumptions exec_generic_then_specialised.

Theorem exec_specialised_then_generic : forall c e, vars_ordered c ->
  (forall b, exec_bool c e = Ok b -> exists v, exec_generic c e = Ok v /\ to_boolean v = b) /\
  (forall x, exec_num c e = Ok x -> exists v, exec_generic c e = Ok v /\ to_number c v = x) /\
  (forall buf s, exec_str c e buf = Ok s -> exists v, exec_generic c e = Ok v /\ buf ++ to_string c v = s) /\
  (forall acc s, exec_chars c e acc = Ok s -> exists v, exec_generic c e = Ok v /\ acc ++ to_string c v = s) /\
  (forall l, exec_nodelist c e = Ok l -> exec_generic c e = Ok (VNodes l)).
Proof. exact specialised_then_generic. Qed.
Print Assumptions exec_specialised_then_generic.

(* two parts of one attribute value template evaluated into one buffer (AVTPartXPath::evaluate) *)
Theorem exec_avt_parts_concatenate : forall c e1 e2 v1 v2 buf, vars_ordered c ->
  exec_generic c e1 = Ok v1 -> exec_generic c e2 = Ok v2 ->
  (do b1 <- exec_str c e1 buf; exec_str c e2 b1) = Ok (buf ++ to_string c v1 ++ to_string c v2).
Proof. exact avt_parts_concatenate. Qed.
Print Assumptions exec_avt_parts_concatenate.

(** * the hypotheses are satisfiable, the statements are not vacuous, the hypothesis is needed *)
(* <a x="1"><b>2</b><b>1</b><!--c--></a>, context node a, $v = the two b elements *)
Definition ex_doc : doc :=
  build_doc [TElem [97]%N [([120]%N, [49]%N)] [TElem [98]%N [] [TTextN [50]%N]; TElem [98]%N [] [TTextN [49]%N]; TCommentN [99]%N]].
Definition ex_ctx : ctx := mkCtx ex_doc 1 [1] [([], [118]%N, VNodes [4; 6])] (fun _ _ => false).

Example ex_vars_ordered : vars_ordered ex_ctx.
Proof.
  intros ns l v H. unfold ex_ctx in H. cbn [cx_vars lookup_var] in H.
  destruct (str_eqb [] ns && str_eqb [118%N] l); [|discriminate].
  inversion H; subst. repeat constructor.
Qed.

Definition ex_b : expr := EPath None [] [(AxChild, TName NsEmpty (Some [98]%N), [])].      (* b *)
Definition ex_count : expr := EFunc s_count [EGroup (EUnion [EVar [] [118]%N; ex_b])].     (* count(($v | b)) *)
Definition ex_sum : expr := EPlus (ENumLit [48;48;55]%N) (EFunc s_string_length [ex_b]).  (* 007 + string-length(b) *)

(* b through the six entry points: node-set [4;6], true, 2, "2", "2", [4;6] *)
Example ex_path_six :
  exec_generic ex_ctx ex_b = Ok (VNodes [4; 6]) /\ exec_bool ex_ctx ex_b = Ok true /\
  forget (exec_num ex_ctx ex_b) = Some (to_number ex_ctx (VStr [50]%N)) /\
  exec_str ex_ctx ex_b [120]%N = Ok [120; 50]%N /\ exec_chars ex_ctx ex_b [] = Ok [50]%N /\
  exec_nodelist ex_ctx ex_b = Ok [4; 6].
Proof. vm_compute. repeat split; reflexivity. Qed.

(* a number-valued expression: string entry point gives "8", node-list entry point fails *)
Example ex_number_six :
  exec_str ex_ctx ex_sum [] = Ok [56]%N /\ exec_bool ex_ctx ex_sum = Ok true /\
  forget (exec_nodelist ex_ctx ex_sum) = None /\
  exec_str ex_ctx (ENumLit [48;48;55]%N) [] = Ok [55]%N /\
  exec_num ex_ctx ex_count = exec_num ex_ctx (ENumLit [50]%N).
Proof. vm_compute. repeat split; reflexivity. Qed.

(* without the hypothesis on the variables the statement fails: with $v bound to a list holding a
   node twice, count(($v)) is 1 through the interpreter (group merges in document order) while
   the generic model XpDefs.eval counts 2 *)
Example ex_unordered_variable_breaks_agreement :
  let c := mkCtx ex_doc 1 [1] [([], [118]%N, VNodes [4; 4])] (fun _ _ => false) in
  let e := EFunc s_count [EGroup (EVar [] [118]%N)] in
  forget (exec_generic c e) <> forget (eval_top c e).
Proof. vm_compute. discriminate. Qed.
