(* model side of the C04 correspondence: same line protocol as harness/ser.cpp.
   Output: "<id> ok <u:units>" | "<id> err <code>" | "<id> oob"
   (units = bytes for UTF-8, UTF-16 code units for the other encodings). *)
let ascii (s : string) : n list = List.init (String.length s) (fun i -> n_of_int (Char.code s.[i]))

let rec events (t : string list) : event list =
  match t with
  | [] -> []
  | "S" :: name :: n :: r ->
      let n = int_of_string n in
      let rec attrs k r acc =
        if k = 0 then (List.rev acc, r) else
        match r with
        | a :: v :: r' -> attrs (k - 1) r' ((u16_of_token a, u16_of_token v) :: acc)
        | _ -> failwith "bad script" in
      let (al, r') = attrs n r [] in
      EStart (u16_of_token name, al) :: events r'
  | "E" :: name :: r -> EEnd (u16_of_token name) :: events r
  | "T" :: s :: r -> EText (u16_of_token s) :: events r
  | "C" :: s :: r -> ECdata (u16_of_token s) :: events r
  | "M" :: s :: r -> EComment (u16_of_token s) :: events r
  | "P" :: a :: b :: r -> EPI (u16_of_token a, u16_of_token b) :: events r
  | _ -> failwith "bad script"

let () =
  let ic = if Array.length Sys.argv > 1 then open_in Sys.argv.(1) else stdin in
  iter_lines ic (fun line ->
    match split_ws line with
    | id :: enc :: ver :: rest when String.length id > 0 && id.[0] <> '#' ->
        (try
          let v11 = (ver = "1.1") in
          let indent = ref (-1) in
          let rec flags r = match r with
            | "-L" :: r' -> flags r'
            | f :: r' when String.length f > 2 && String.sub f 0 2 = "-I" ->
                indent := int_of_string (String.sub f 2 (String.length f - 2)); flags r'
            | _ -> r in
          let rest = flags rest in
          let family = match enc with
            | "UTF-8" -> fam_of EncUtf8 | "UTF-16" -> fam_of EncUtf16
            | "ISO-8859-1" -> fam_of EncLatin1 | "US-ASCII" -> fam_of EncAscii
            (* transcoder-backed writer, every code point representable *)
            | "UTF-32" | "UTF8" -> fam_other rep_all
            | _ -> failwith "encoding" in
          let r =
            if !indent >= 0 then serialize_indent_fast family v11 (ascii enc) (n_of_int !indent) (events rest)
            else match enc with
            | "UTF-8" -> serialize_fast EncUtf8 v11 (ascii ver) (ascii enc) (events rest)
            | "UTF-16" -> serialize_fast EncUtf16 v11 (ascii ver) (ascii enc) (events rest)
            | "ISO-8859-1" -> serialize_fast EncLatin1 v11 (ascii ver) (ascii enc) (events rest)
            | "US-ASCII" -> serialize_fast EncAscii v11 (ascii ver) (ascii enc) (events rest)
            | _ -> serialize_other_fast rep_all v11 (ascii ver) (ascii enc) (events rest) in
          (match r with
           | Ok l -> Printf.printf "%s ok %s\n" id (token_of_u16 l)
           | Oob -> Printf.printf "%s oob\n" id
           | Thrown c -> Printf.printf "%s err %d\n" id (int_of_n c))
        with Failure m -> Printf.printf "%s badscript\n" id)
    | _ -> ())
