(* C02, extension part: "the bundled EXSLT and xalan: extension functions obey their published definitions"
   (and id() from the core library).  Theorems about the Gallina models of XpxDefs.v, which follow the C++
   statement by statement and take their tables / decisions from GenXpx.v (regenerated from /repo on every run).
   Node lists are strictly ascending lists of document-order indices (that XPath hands such lists to a function
   is C12's property); numbers are NaN or an order-preserving image of a double.  No axioms. *)
From Coq Require Import List NArith ZArith Bool Arith Lia.
Require Import XV.GenXpx XV.XpxDefs XV.XpxModel XV.XpxDistinct XV.XpxMath XV.XpxStr XV.XpxTok.
Require Import XV.XpCpDefs XV.XpxCpDefs XV.XpxCpModel.
Import ListNotations.

(* ---- set:difference / xalan:difference, set:intersection / xalan:intersection ---------------------------- *)

Theorem difference_members : forall l1 l2 x, In x (difference l1 l2) <-> In x l1 /\ ~ In x l2.
Proof. exact difference_spec. Qed.
Print Assumptions difference_members.

Theorem intersection_members : forall l1 l2 x, In x (intersection l1 l2) <-> In x l1 /\ In x l2.
Proof. exact intersection_spec. Qed.
Print Assumptions intersection_members.

(* document order, no duplicates — whatever the order of the arguments *)
Theorem difference_in_document_order : forall l1 l2, sorted (difference l1 l2).
Proof. exact difference_sorted. Qed.
Print Assumptions difference_in_document_order.

Theorem intersection_in_document_order : forall l1 l2, sorted (intersection l1 l2).
Proof. exact intersection_sorted. Qed.
Print Assumptions intersection_in_document_order.

Theorem difference_is_filter : forall l1 l2, sorted l1 -> difference l1 l2 = filter (fun n => negb (mem n l2)) l1.
Proof. exact difference_filter. Qed.
Print Assumptions difference_is_filter.

Theorem intersection_is_filter : forall l1 l2, sorted l1 -> intersection l1 l2 = filter (fun n => mem n l2) l1.
Proof. exact intersection_filter. Qed.
Print Assumptions intersection_is_filter.

(* as LISTS: the nodes come in document order, not in the order of either argument *)
Theorem intersection_commutes : forall l1 l2, intersection l1 l2 = intersection l2 l1.
Proof. exact intersection_comm. Qed.
Print Assumptions intersection_commutes.

Theorem difference_intersection_partition_first : forall l1 l2 x,
  In x l1 <-> In x (difference l1 l2) \/ In x (intersection l1 l2).
Proof. exact difference_intersection_partition. Qed.
Print Assumptions difference_intersection_partition_first.

Example difference_example : difference [1; 3; 5; 7]%N [7; 3]%N = [1; 5]%N /\ intersection [5; 1; 3]%N [3; 9; 5]%N = [3; 5]%N.
Proof. vm_compute. split; reflexivity. Qed.

(* ---- set:has-same-node, xalan:hasSameNodes ---------------------------------------------------------------- *)

Theorem has_same_node_iff_common_node : forall l1 l2, has_same_node l1 l2 = true <-> exists x, In x l1 /\ In x l2.
Proof. exact has_same_node_spec. Qed.
Print Assumptions has_same_node_iff_common_node.

Theorem has_same_node_iff_intersection_nonempty : forall l1 l2, has_same_node l1 l2 = true <-> intersection l1 l2 <> [].
Proof. exact has_same_node_intersection. Qed.
Print Assumptions has_same_node_iff_intersection_nonempty.

Theorem has_same_nodes_iff_equal_sets_partial : forall l1 l2, NoDup l1 -> NoDup l2 ->
  (has_same_nodes l1 l2 = true <-> forall x, In x l1 <-> In x l2).
Proof. exact has_same_nodes_spec. Qed.
Print Assumptions has_same_nodes_iff_equal_sets_partial.

(* without duplicate-freeness the length test is not a set comparison (node-sets never contain duplicates: C12) *)
Theorem has_same_nodes_iff_equal_sets_refuted :
  exists l1 l2, has_same_nodes l1 l2 = true /\ ~ (forall x, In x l1 <-> In x l2).
Proof.
  exists [1; 1]%N, [1; 2]%N. split; [vm_compute; reflexivity|]. intros H.
  assert (In 2%N [1; 1]%N) by (apply H; right; left; reflexivity). cbn in H0. intuition discriminate.
Qed.
Print Assumptions has_same_nodes_iff_equal_sets_refuted.

(* ---- set:leading / set:trailing ------------------------------------------------------------------------------ *)

Theorem leading_members : forall l1 n l2 x, In n l1 -> (In x (leading l1 (n :: l2)) <-> In x l1 /\ (x < n)%N).
Proof. exact leading_spec. Qed.
Print Assumptions leading_members.

Theorem trailing_members : forall l1 n l2 x, In n l1 -> (In x (trailing l1 (n :: l2)) <-> In x l1 /\ (n < x)%N).
Proof. exact trailing_spec. Qed.
Print Assumptions trailing_members.

(* the first node of the second argument splits the first argument; it belongs to neither part *)
Theorem leading_boundary_trailing : forall l1 n l2, sorted l1 -> In n l1 ->
  leading l1 (n :: l2) ++ n :: trailing l1 (n :: l2) = l1.
Proof. exact leading_trailing_split. Qed.
Print Assumptions leading_boundary_trailing.

Theorem leading_empty_second : forall l1, leading l1 [] = l1.
Proof. exact leading_empty2. Qed.
Print Assumptions leading_empty_second.

Theorem trailing_empty_second : forall l1, trailing l1 [] = l1.
Proof. exact trailing_empty2. Qed.
Print Assumptions trailing_empty_second.

Theorem leading_boundary_not_contained : forall l1 n l2, ~ In n l1 -> l1 <> [] -> leading l1 (n :: l2) = [].
Proof. exact leading_not_contained. Qed.
Print Assumptions leading_boundary_not_contained.

Theorem trailing_boundary_not_contained : forall l1 n l2, ~ In n l1 -> l1 <> [] -> trailing l1 (n :: l2) = [].
Proof. exact trailing_not_contained. Qed.
Print Assumptions trailing_boundary_not_contained.

Example leading_example : leading [1; 3; 5; 7]%N [5; 6]%N = [1; 3]%N /\ trailing [1; 3; 5; 7]%N [5; 6]%N = [7]%N
                          /\ leading [1; 3]%N [2]%N = [] /\ sorted [1; 3; 5; 7]%N.
Proof. vm_compute. repeat split; intros; intuition (subst; reflexivity || discriminate). Qed.

(* ---- set:distinct / xalan:distinct ------------------------------------------------------------------------------ *)

Section DistinctTheorems.
  Variable K : Type.
  Variable keqb : K -> K -> bool.
  Hypothesis keqb_eq : forall a b, keqb a b = true <-> a = b.
  Variable sv : N -> K.                      (* string-value of a node *)

  (* exactly the FIRST node in document order of every string-value class *)
  Theorem distinct_keeps_first_of_class : forall l x, sorted l ->
    (In x (distinct K keqb sv l) <-> In x l /\ forall y, In y l -> sv y = sv x -> (x <= y)%N).
  Proof. intros; eapply distinct_first_of_class; eassumption. Qed.

  Theorem distinct_in_document_order : forall l, sorted l -> sorted (distinct K keqb sv l).
  Proof. intros; eapply distinct_sorted; eassumption. Qed.

  Theorem distinct_is_idempotent : forall l, sorted l -> distinct K keqb sv (distinct K keqb sv l) = distinct K keqb sv l.
  Proof. intros; eapply distinct_idempotent; eassumption. Qed.

  Theorem distinct_represents_every_value : forall l y, sorted l -> In y l ->
    exists x, In x (distinct K keqb sv l) /\ sv x = sv y.
  Proof. intros; eapply distinct_covers; eassumption. Qed.

  Theorem distinct_values_are_distinct : forall l, sorted l -> NoDup (map sv (distinct K keqb sv l)).
  Proof. intros; eapply distinct_values_NoDup; eassumption. Qed.
End DistinctTheorems.
Print Assumptions distinct_keeps_first_of_class.
Print Assumptions distinct_in_document_order.
Print Assumptions distinct_is_idempotent.
Print Assumptions distinct_represents_every_value.
Print Assumptions distinct_values_are_distinct.

(* the instance the extracted model runs: strings of code units *)
Theorem distinct_tbl_keeps_first_of_class : forall tbl l x, sorted l ->
  (In x (distinct_tbl tbl l) <-> In x l /\ forall y, In y l -> sv_of tbl y = sv_of tbl x -> (x <= y)%N).
Proof. intros tbl. exact (distinct_first_of_class (list N) str_eqb str_eqb_eq (sv_of tbl)). Qed.
Print Assumptions distinct_tbl_keeps_first_of_class.

Example distinct_example :
  distinct_tbl [(1, [97]); (2, [98]); (3, [97]); (4, []); (5, [98])]%N [1; 2; 3; 4; 5]%N = [1; 2; 4]%N.
Proof. vm_compute. reflexivity. Qed.

(* ---- math:min / math:max ----------------------------------------------------------------------------------------- *)

Theorem min_of_empty_is_NaN : math_min [] = XNaN /\ math_max [] = XNaN.
Proof. split; reflexivity. Qed.
Print Assumptions min_of_empty_is_NaN.

Theorem min_propagates_NaN : forall l, has_nan l = true -> math_min l = XNaN.
Proof. intros l. exact (find_value_nan gen_min_greater l). Qed.
Print Assumptions min_propagates_NaN.

Theorem max_propagates_NaN : forall l, has_nan l = true -> math_max l = XNaN.
Proof. intros l. exact (find_value_nan gen_max_greater l). Qed.
Print Assumptions max_propagates_NaN.

Theorem min_is_least : forall l, has_nan l = false -> l <> [] ->
  exists m, math_min l = XV m /\ In (XV m) l /\ forall v, In (XV v) l -> (m <= v)%Z.
Proof. intros l H Hne. exact (find_value_spec gen_min_greater l H Hne). Qed.
Print Assumptions min_is_least.

Theorem max_is_greatest : forall l, has_nan l = false -> l <> [] ->
  exists m, math_max l = XV m /\ In (XV m) l /\ forall v, In (XV v) l -> (v <= m)%Z.
Proof. intros l H Hne. exact (find_value_spec gen_max_greater l H Hne). Qed.
Print Assumptions max_is_greatest.

Example max_example : math_max [XV 3; XV 7; XV (-2)] = XV 7%Z /\ math_min [XV 3; XV 7; XV (-2)] = XV (-2)%Z
                      /\ math_max [XV 3; XNaN; XV 9] = XNaN /\ math_max [XNaN; XV 1] = XNaN.
Proof. vm_compute. repeat split; reflexivity. Qed.

(* ---- math:highest / math:lowest --------------------------------------------------------------------------------- *)

Theorem highest_are_the_nodes_with_the_max : forall l x, has_nan (map snd l) = false ->
  (In x (math_highest l) <-> exists v, In (x, XV v) l /\ math_max (map snd l) = XV v).
Proof. intros l x H. exact (find_nodes_m_spec gen_highest_greater l x H). Qed.
Print Assumptions highest_are_the_nodes_with_the_max.

Theorem lowest_are_the_nodes_with_the_min : forall l x, has_nan (map snd l) = false ->
  (In x (math_lowest l) <-> exists v, In (x, XV v) l /\ math_min (map snd l) = XV v).
Proof. intros l x H. exact (find_nodes_m_spec gen_lowest_greater l x H). Qed.
Print Assumptions lowest_are_the_nodes_with_the_min.

Theorem highest_lowest_empty_on_NaN : forall l, has_nan (map snd l) = true -> math_highest l = [] /\ math_lowest l = [].
Proof. intros l H. split; apply find_nodes_m_nan; exact H. Qed.
Print Assumptions highest_lowest_empty_on_NaN.

Theorem highest_lowest_in_document_order : forall l, sorted (math_highest l) /\ sorted (math_lowest l).
Proof. intros l. split; apply find_nodes_m_sorted. Qed.
Print Assumptions highest_lowest_in_document_order.

Example highest_example : math_highest [(1, XV 3); (2, XV 7); (3, XV 1); (4, XV 7)]%N = [2; 4]%N
                          /\ math_lowest [(1, XV 3); (2, XV 7); (3, XV 1); (4, XV 7)]%N = [3]%N.
Proof. vm_compute. split; reflexivity. Qed.

(* ---- str:padding ---------------------------------------------------------------------------------------------------- *)

Theorem padding_has_the_requested_length : forall n pad, pad <> [] -> length (padding n pad) = n.
Proof. exact padding_length. Qed.
Print Assumptions padding_has_the_requested_length.

Theorem padding_repeats_the_string : forall n pad i dflt, pad <> [] -> i < n ->
  nth i (padding n pad) dflt = nth (i mod length pad) pad dflt.
Proof. exact padding_nth. Qed.
Print Assumptions padding_repeats_the_string.

Theorem padding_of_empty_string_is_empty : forall n, padding n [] = [].
Proof. exact padding_empty_pad. Qed.
Print Assumptions padding_of_empty_string_is_empty.

Example padding_example : padding 5 [97; 98]%N = [97; 98; 97; 98; 97]%N /\ padding 3 gen_padding_default = [32; 32; 32]%N.
Proof. vm_compute. split; reflexivity. Qed.

(* ---- str:align ------------------------------------------------------------------------------------------------------ *)

Theorem align_result_has_the_length_of_the_padding : forall t p m, length (align t p m) = length p.
Proof. exact align_length. Qed.
Print Assumptions align_result_has_the_length_of_the_padding.

Theorem align_replaces_a_range_of_the_padding : forall t p m, length t <= length p ->
  align t p m = firstn (align_start (length t) (length p) m) p ++ t
                ++ skipn (align_start (length t) (length p) m + length t) p.
Proof. exact align_replaces. Qed.
Print Assumptions align_replaces_a_range_of_the_padding.

Theorem align_center_is_balanced : forall lt lp, lt <= lp ->
  let l := align_start lt lp ACenter in let r := lp - lt - l in r = l \/ r = S l.
Proof. exact align_center_balance. Qed.
Print Assumptions align_center_is_balanced.

Theorem align_truncates_a_long_target : forall t p m, length p < length t -> align t p m = firstn (length p) t.
Proof. exact align_truncates. Qed.
Print Assumptions align_truncates_a_long_target.

(* the third argument: 'left' | 'right' | 'center', anything else = left.  The code as found compares only the first
   |keyword| code units, so 'centered' centres (finding K-C02x-3).  GenXpx.gen_align_exact_keyword records which
   comparison /repo has now; the three statements below are true for both forms, so the proof leg keeps checking
   when the repair is committed: the guarded statement always, the full statement exactly for the repaired form. *)
Theorem align_keyword_prefix_form_refuted : exists a, align_mode_gen false a <> spec_mode a.
Proof. exact align_mode_prefix_refuted. Qed.
Print Assumptions align_keyword_prefix_form_refuted.

Theorem align_keyword_partial : forall a, align_guard a = true -> align_mode_of a = spec_mode a.
Proof. exact align_mode_partial. Qed.
Print Assumptions align_keyword_partial.

Theorem align_keyword_exact_form_full : forall a, align_mode_gen true a = spec_mode a.
Proof. exact align_mode_exact_full. Qed.
Print Assumptions align_keyword_exact_form_full.

Theorem align_keyword_as_found : (gen_align_exact_keyword = true /\ forall a, align_mode_of a = spec_mode a)
  \/ (gen_align_exact_keyword = false /\ exists a, align_mode_of a <> spec_mode a).
Proof. exact align_mode_full_or_refuted. Qed.
Print Assumptions align_keyword_as_found.

Example align_example :
  align [97; 98]%N [49; 50; 51; 52; 53; 54; 55]%N ACenter = [49; 50; 97; 98; 53; 54; 55]%N
  /\ align_guard gen_align_right = true /\ align_guard [108; 101; 102; 116]%N = true /\ align_mode_of [] = ALeft.
Proof. vm_compute. repeat split; reflexivity. Qed.

(* ---- str:padding / str:align on characters (K6x and its repair) --------------------------------------------------------

   The theorems above measure in list elements: they are about code units for the functions as found
   (XpxDefs.padding / align) and say nothing true about characters once a surrogate pair is present.  XpxCpDefs.padding_cp /
   align_cp are the repaired functions (lengths = length() - countPairs(), cuts = unitsOf()); `chars s` is the list of the
   characters of s, each with its one or two code units; `well_formed s`: every surrogate is half of a pair (all an XML
   parser delivers).  GenXpx.gen_exslt_padding_align_count_characters says which form THIS tree has. *)

Theorem padding_has_n_characters : forall n pad, pad <> [] -> well_formed pad = true ->
  cp_length (padding_cp n pad) = n
  /\ (forall i d, i < n -> nth i (chars (padding_cp n pad)) d = nth (i mod cp_length pad) (chars pad) d)
  /\ well_formed (padding_cp n pad) = true.
Proof. exact padding_cp_spec. Qed.
Print Assumptions padding_has_n_characters.

(* the form of the result: whole copies of the padding string, the last one cut after r whole characters *)
Theorem padding_is_a_prefix_of_the_repeated_string : forall n pad, pad <> [] -> 0 < n ->
  exists q r, padding_cp n pad = concat (repeat pad q) ++ concat (firstn r (chars pad))
              /\ q * cp_length pad + r = n /\ r <= cp_length pad.
Proof. exact padding_cp_shape. Qed.
Print Assumptions padding_is_a_prefix_of_the_repeated_string.

Theorem padding_of_empty_string_is_empty_characters : forall n, padding_cp n [] = [].
Proof. exact padding_cp_empty_pad. Qed.
Print Assumptions padding_of_empty_string_is_empty_characters.

(* the hypothesis is needed (a lone low surrogate first, a lone high one last), and satisfiable *)
Theorem padding_needs_well_formed_refuted : exists pad, pad <> [] /\ cp_length (padding_cp 4 pad) <> 4.
Proof. exact padding_cp_needs_well_formed. Qed.
Print Assumptions padding_needs_well_formed_refuted.

Theorem align_keeps_length_of_template : forall t p m, well_formed t = true -> well_formed p = true ->
  cp_length (align_cp t p m) = cp_length p /\ well_formed (align_cp t p m) = true.
Proof. exact align_cp_length. Qed.
Print Assumptions align_keeps_length_of_template.

(* left / right / center placement, by characters (align_start and its balance: align_center_is_balanced above) *)
Theorem align_places_the_target_by_characters : forall t p m,
  well_formed t = true -> well_formed p = true -> cp_length t <= cp_length p ->
  chars (align_cp t p m) = firstn (align_start (cp_length t) (cp_length p) m) (chars p) ++ chars t
                           ++ skipn (align_start (cp_length t) (cp_length p) m + cp_length t) (chars p).
Proof. exact align_cp_replaces. Qed.
Print Assumptions align_places_the_target_by_characters.

Theorem align_truncates_a_long_target_by_characters : forall t p m, cp_length p < cp_length t ->
  chars (align_cp t p m) = firstn (cp_length p) (chars t).
Proof. exact align_cp_truncates. Qed.
Print Assumptions align_truncates_a_long_target_by_characters.

(* strings without a surrogate pair: the repaired functions are the functions as found, unit for unit *)
Theorem padding_no_pairs_same_as_before : forall n pad, count_pairs pad = 0 -> padding_cp n pad = padding n pad.
Proof. exact padding_cp_no_pairs. Qed.
Print Assumptions padding_no_pairs_same_as_before.

Theorem align_no_pairs_same_as_before : forall t p m, count_pairs t = 0 -> count_pairs p = 0 -> align_cp t p m = align t p m.
Proof. exact align_cp_no_pairs. Qed.
Print Assumptions align_no_pairs_same_as_before.

(* K6x: the functions as found on 'a' + U+1D4B3 and on U+1D4B3 / 'abc' *)
Theorem padding_before_fix_witness :
  well_formed k6x_pad = true /\ well_formed (padding_gen false 2 k6x_pad) = false /\ cp_length (padding_gen false 3 k6x_pad) <> 3.
Proof. exact padding_units_witness. Qed.
Print Assumptions padding_before_fix_witness.

Theorem align_before_fix_witness :
  well_formed k6x_target = true /\ well_formed k6x_template = true
  /\ cp_length (align_gen false k6x_target k6x_template ALeft) <> cp_length k6x_template.
Proof. exact align_units_witness. Qed.
Print Assumptions align_before_fix_witness.

Theorem padding_align_this_tree :
  (gen_exslt_padding_align_count_characters = true /\ padding_ok padding_tree /\ align_ok align_tree)
  \/ (gen_exslt_padding_align_count_characters = false /\ ~ padding_ok padding_tree /\ ~ align_ok align_tree).
Proof. exact padding_align_tree. Qed.
Print Assumptions padding_align_this_tree.

Example padding_align_characters_example :
  padding_cp 3 k6x_pad = k6x_pad ++ [97]%N /\ well_formed k6x_pad = true /\ k6x_pad <> []
  /\ align_cp k6x_target k6x_template ARight = [97; 98]%N ++ k6x_target
  /\ align_cp k6x_target k6x_template ACenter = [97]%N ++ k6x_target ++ [99]%N
  /\ count_pairs k6x_template = 0 /\ padding_cp 5 k6x_target = k6x_target ++ k6x_target ++ k6x_target ++ k6x_target ++ k6x_target.
Proof. vm_compute. repeat split; try reflexivity. discriminate. Qed.

(* ---- id(): the tokenizer ---------------------------------------------------------------------------------------------- *)

(* what FunctionID feeds to getElementById is exactly the list of maximal white-space-free runs *)
Theorem id_tokens_are_the_maximal_runs : forall s, tokenization gen_id_delims s (id_tokens s).
Proof. exact id_tokens_tokenization. Qed.
Print Assumptions id_tokens_are_the_maximal_runs.

Theorem id_tokens_are_determined : forall s ts, tokenization gen_id_delims s ts -> id_tokens s = ts.
Proof. exact id_tokens_only. Qed.
Print Assumptions id_tokens_are_determined.

Theorem id_tokens_contain_no_delimiter : forall s t, In t (id_tokens s) ->
  t <> [] /\ forall c, In c t -> is_delim gen_id_delims c = false.
Proof. exact id_tokens_clean. Qed.
Print Assumptions id_tokens_contain_no_delimiter.

Theorem id_tokens_reconstruct_the_string : forall s,
  concat (id_tokens s) = filter (fun c => negb (is_delim gen_id_delims c)) s.
Proof. exact id_tokens_concat. Qed.
Print Assumptions id_tokens_reconstruct_the_string.

Theorem id_count_tokens_is_exact : forall s, count_tokens gen_id_delims s = length (id_tokens s).
Proof. exact id_count. Qed.
Print Assumptions id_count_tokens_is_exact.

Theorem id_splits_on_xml_white_space : forall c, is_delim gen_id_delims c = true <-> (c = 32 \/ c = 9 \/ c = 10 \/ c = 13)%N.
Proof. exact id_delims_are_xml_space. Qed.
Print Assumptions id_splits_on_xml_white_space.

Theorem id_selects_by_token : forall ids s x,
  In x (id_nodes ids s) <-> exists t, In t (id_tokens s) /\ lookup_id ids t = Some x.
Proof. exact id_nodes_spec. Qed.
Print Assumptions id_selects_by_token.

Theorem id_in_document_order : forall ids s, sorted (id_nodes ids s).
Proof. exact id_nodes_sorted. Qed.
Print Assumptions id_in_document_order.

Example id_example : id_tokens [32; 105; 50; 9; 10; 105; 51; 160; 120; 13]%N = [[105; 50]; [105; 51; 160; 120]]%N
                     /\ id_tokens [32; 32]%N = [] /\ id_tokens [] = [].
Proof. vm_compute. repeat split; reflexivity. Qed.
