(* Extraction of the xpx models (C02, extension part) for the correspondence driver. ExtrOcamlBasic only. *)
Require Import ExtrOcamlBasic.
Require Import XV.GenXpx XV.XpxDefs.
Extraction "extracted/xpx_model.ml"
  difference intersection has_same_node has_same_nodes leading trailing distinct_tbl
  math_min math_max math_highest math_lowest padding align align_mode_of gen_padding_default
  id_tokens id_nodes.
