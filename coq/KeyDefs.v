(* KeyDefs.v — executable model of xsl:key / key() as coded in xalan-c (C15), and the
   independent specification.  Definitions only.

   Anchors:  XSLT/KeyTable.cpp  (constructor: non-recursive pre-order walk, each node then the
             attributes of an element; processKeyDeclaration; getNodeSetByKey),
             XSLT/StylesheetRoot.cpp getNodeSetByKey (per-document cache, lazily filled),
             XSLT/FunctionKey.cpp execute (string / node-set second argument),
             XSLT/Stylesheet.cpp postConstruction (declarations of imports appended),
             XPath/MutableNodeRefList.cpp addNodeInDocOrder (index ordered insertion, the
             binary search itself is property C12's business: here it is its functional
             meaning on an index-sorted list, plus the coded "same as last node" shortcut).
   Pattern matching (match=) and expression evaluation (use=) are abstract functions of the
   node: they belong to other properties (C09/C10, C02). *)
From Coq Require Import List NArith Bool Arith.
Require Import XV.GenKey.
Import ListNotations.

(* ------------------------------------------------------------------------------------------ *)
(* strings (code units) *)

Definition str := list N.

Fixpoint str_eqb (a b : str) : bool :=
  match a, b with
  | [], [] => true
  | x :: a', y :: b' => N.eqb x y && str_eqb a' b'
  | _, _ => false
  end.

Definition str_empty (a : str) : bool := match a with [] => true | _ => false end.

(* ------------------------------------------------------------------------------------------ *)
(* documents: a rose tree; nodes are addressed by the path from the start node of the walk
   (the document node), innermost step first *)

Inductive kind := KDoc | KElem | KText | KComment | KPI.

Definition is_elem (k : kind) : bool := match k with KElem => true | _ => false end.

Inductive tree := T (k : kind) (nattr : nat) (kids : list tree).

Definition kids_of (t : tree) : list tree := match t with T _ _ ks => ks end.

Definition rpath := list nat.

Inductive node := NSelf (p : rpath) | NAttr (p : rpath) (j : nat).

Fixpoint rpath_eqb (a b : rpath) : bool :=
  match a, b with
  | [], [] => true
  | x :: a', y :: b' => Nat.eqb x y && rpath_eqb a' b'
  | _, _ => false
  end.

Definition node_eqb (a b : node) : bool :=
  match a, b with
  | NSelf p, NSelf q => rpath_eqb p q
  | NAttr p i, NAttr q j => rpath_eqb p q && Nat.eqb i j
  | _, _ => false
  end.

Fixpoint size (t : tree) : nat :=
  match t with
  | T k na kids => 1 + (if is_elem k then na else 0) + fold_right (fun c s => size c + s) 0 kids
  end.

(* subtree at a path given root first / innermost first *)
Fixpoint fsub (t : tree) (p : list nat) : option tree :=
  match p with
  | [] => Some t
  | i :: r => match nth_error (kids_of t) i with Some c => fsub c r | None => None end
  end.

Definition sub (t : tree) (p : rpath) : option tree := fsub t (rev p).

(* ------------------------------------------------------------------------------------------ *)
(* the construction walk of KeyTable::KeyTable *)

(* attrs = pos->getAttributes() only when pos is an ELEMENT_NODE *)
Definition nattrs (t : tree) (pos : rpath) : nat :=
  match sub t pos with
  | Some (T k na _) => if is_elem k then na else 0
  | None => 0
  end.

(* "for (i = 0; i < nNodes; ++i) { <process testNode>; if (attrs && nodeIndex < nAttrNodes)
   { testNode = attrs->item(nodeIndex); ++nodeIndex; } }" *)
Fixpoint attr_loop (n : nat) (pos : rpath) (test : node) (nodeIndex nAttr : nat) : list node :=
  match n with
  | 0 => []
  | S m => test :: (if nodeIndex <? nAttr
                    then attr_loop m pos (NAttr pos nodeIndex) (S nodeIndex) nAttr
                    else attr_loop m pos test nodeIndex nAttr)
  end.

Definition visit (t : tree) (pos : rpath) : list node :=
  let na := nattrs t pos in attr_loop (1 + na) pos (NSelf pos) 0 na.

(* the inner "while (0 == nextNode)" loop, entered when pos has no first child: next sibling,
   else up to the parent and again; stops at the start node.  Structural in the path. *)
Fixpoint climb (t : tree) (pos : rpath) : option rpath :=
  match pos with
  | [] => None                                   (* startNode == pos *)
  | i :: q => match sub t (S i :: q) with
              | Some _ => Some (S i :: q)        (* pos->getNextSibling() *)
              | None => climb t q                (* pos = pos->getParentNode() *)
              end
  end.

Definition next_pos (t : tree) (pos : rpath) : option rpath :=
  match sub t pos with
  | Some (T _ _ (_ :: _)) => Some (0 :: pos)     (* pos->getFirstChild() *)
  | _ => climb t pos
  end.

(* the outer "while (0 != pos)" loop, with a state updated at every visited node *)
Fixpoint walkf {S : Type} (step : S -> node -> S) (fuel : nat) (t : tree) (pos : rpath) (s : S)
  : option S :=
  match fuel with
  | 0 => None
  | S f => let s' := fold_left step (visit t pos) s in
           match next_pos t pos with
           | None => Some s'
           | Some q => walkf step f t q s'
           end
  end.

(* the visiting sequence *)
Definition walk (fuel : nat) (t : tree) (pos : rpath) (acc : list node) : option (list node) :=
  walkf (fun a n => a ++ [n]) fuel t pos acc.

(* specification: document order = recursive pre-order, an element's attributes right after it *)
Fixpoint all_nodes (t : tree) (p : rpath) : list node :=
  match t with
  | T k na kids =>
      (NSelf p :: map (NAttr p) (seq 0 (if is_elem k then na else 0))) ++
      (fix go (ks : list tree) (i : nat) : list node :=
         match ks with
         | [] => []
         | c :: r => all_nodes c (i :: p) ++ go r (S i)
         end) kids 0
  end.

Definition doc_nodes (t : tree) : list node := all_nodes t [].

Definition valid_node (t : tree) (n : node) : bool :=
  match n with
  | NSelf p => match sub t p with Some _ => true | None => false end
  | NAttr p j => j <? nattrs t p
  end.

(* getIndex(): position in document order (assigned by the source tree builder) *)
Fixpoint index_of (n : node) (l : list node) : nat :=
  match l with
  | [] => 0
  | x :: r => if node_eqb n x then 0 else S (index_of n r)
  end.

Definition idx (t : tree) (n : node) : nat := index_of n (doc_nodes t).

(* ------------------------------------------------------------------------------------------ *)
(* key declarations and the table *)

(* value of the use expression at a node: a non-node-set converted to a string, or the
   string-values of the nodes of a node-set (in the order of the node list) *)
Inductive uval := UStr (s : str) | UNodes (vs : list str).

Record decl := Decl { dname : str; dmatch : node -> bool; duse : node -> uval }.

(* a declaration as the stylesheet holds it: match and use also depend on the document the
   node lives in (a node is a document number and a path); [view d g] is what the table of
   document d sees of it *)
Record gdecl := GDecl { gname : str; gmatch : nat -> node -> bool; guse : nat -> node -> uval }.

Definition view (d : nat) (g : gdecl) : decl := Decl (gname g) (gmatch g d) (guse g d).

(* Stylesheet::postConstruction: own declarations, then those of the imports in import order
   (each import already merged with its own imports) *)
Inductive sheet := Sheet (own : list gdecl) (imports : list sheet).

Fixpoint merged (s : sheet) : list gdecl :=
  match s with
  | Sheet own imps => own ++ (fix go (l : list sheet) : list gdecl :=
                               match l with [] => [] | i :: r => merged i ++ go r end) imps
  end.

(* XalanMap<K, V> seen as a finite map with operator[] (find-or-create) *)
Fixpoint find {A : Type} (k : str) (m : list (str * A)) : option A :=
  match m with
  | [] => None
  | (k', a) :: r => if str_eqb k k' then Some a else find k r
  end.

Fixpoint upd {A : Type} (k : str) (f : A -> A) (dflt : A) (m : list (str * A)) : list (str * A) :=
  match m with
  | [] => [(k, f dflt)]
  | (k', a) :: r => if str_eqb k k' then (k', f a) :: r else (k', a) :: upd k f dflt r
  end.

Definition vmap := list (str * list node).
Definition kmap := list (str * vmap).

(* ordered insertion by index; equal index = duplicate *)
Fixpoint ins (ix : node -> nat) (n : node) (l : list node) : list node :=
  match l with
  | [] => [n]
  | x :: r => if ix n <? ix x then n :: l
              else if ix n =? ix x then l
              else x :: ins ix n r
  end.

(* MutableNodeRefList::addNodeInDocOrder on a list of indexed nodes of one document *)
Definition addNodeInDocOrder (ix : node -> nat) (n : node) (l : list node) : list node :=
  match l with
  | [] => [n]
  | _ => if node_eqb (last l n) n then l else ins ix n l
  end.

(* addIfNotFound(theKeys[name][value], node) *)
Definition add_value (ix : node -> nat) (name v : str) (n : node) (m : kmap) : kmap :=
  upd name (upd v (addNodeInDocOrder ix n) []) [] m.

Definition processKeyDeclaration (ix : node -> nat) (m : kmap) (d : decl) (n : node) : kmap :=
  match duse d n with
  | UStr s => add_value ix (dname d) s n m
  | UNodes vs => fold_left (fun m' v => add_value ix (dname d) v n m') vs m
  end.

(* body of the loop over the declarations for one test node *)
Definition process_node (ix : node -> nat) (decls : list decl) (m : kmap) (n : node) : kmap :=
  fold_left (fun m' d => if dmatch d n then processKeyDeclaration ix m' d n else m') decls m.

Definition build (ix : node -> nat) (decls : list decl) (vs : list node) : kmap :=
  fold_left (process_node ix decls) vs [].

Inductive result := OutOfFuel | UnknownKey | Nodes (l : list node).

Definition declared (decls : list decl) (name : str) : bool :=
  existsb (fun d => str_eqb (dname d) name) decls.

(* KeyTable::getNodeSetByKey: 0 (error in the caller) only when no declaration has the name *)
Definition table_lookup (m : kmap) (decls : list decl) (name ref : str) : result :=
  match find name m with
  | Some vm => match find ref vm with Some l => Nodes l | None => Nodes [] end
  | None => if declared decls name then Nodes [] else UnknownKey
  end.

(* the constructor as coded: the table is filled during the walk *)
Definition table_of (t : tree) (decls : list decl) : option kmap :=
  walkf (process_node (idx t) decls) (size t) t [] [].

(* ------------------------------------------------------------------------------------------ *)
(* the execution context: m_keyTables, documents numbered *)

Definition world := list tree.
Definition empty_doc : tree := T KDoc 0 [].
Definition wdoc (W : world) (d : nat) : tree := nth d W empty_doc.

Definition cache := list (nat * kmap).

Fixpoint cfind (d : nat) (c : cache) : option kmap :=
  match c with
  | [] => None
  | (d', m) :: r => if Nat.eqb d d' then Some m else cfind d r
  end.

(* nodelist = nl when nodelist is empty, else nodelist.addNodesInDocOrder(nl) *)
Definition merge_nodes (ix : node -> nat) (acc nl : list node) : list node :=
  match acc with
  | [] => nl
  | _ => fold_left (fun a n => addNodeInDocOrder ix n a) nl acc
  end.

(* StylesheetRoot::getNodeSetByKey(context in document d, name, ref, nodelist) *)
Definition root_lookup (W : world) (G : list gdecl) (c : cache) (d : nat) (name ref : str)
           (acc : list node) : cache * result :=
  let decls := map (view d) G in
  match G with
  | [] => (c, UnknownKey)                          (* m_needToBuildKeysTable == false: nl == 0 *)
  | _ =>
    match cfind d c with
    | Some m => (c, match table_lookup m decls name ref with
                    | Nodes nl => Nodes (merge_nodes (idx (wdoc W d)) acc nl)
                    | r => r end)
    | None =>
      match table_of (wdoc W d) decls with
      | None => (c, OutOfFuel)
      | Some m => ((d, m) :: c, match table_lookup m decls name ref with
                                | Nodes nl => Nodes (merge_nodes (idx (wdoc W d)) acc nl)
                                | r => r end)
      end
    end
  end.

(* second argument of key(): a string (any non-node-set, converted), or a node-set given by
   the string-values of its nodes *)
Inductive karg := AStr (s : str) | ANodes (vs : list str).

Fixpoint refs_loop (W : world) (decls : list gdecl) (c : cache) (d : nat) (name : str)
         (vs : list str) (acc : list node) : cache * result :=
  match vs with
  | [] => (c, Nodes acc)
  | v :: r =>
      if skip_empty_refs && str_empty v                          (* if (0 != ref.length()), GenKey.v *)
      then refs_loop W decls c d name r acc
      else match root_lookup W decls c d name v acc with
           | (c', Nodes acc') => refs_loop W decls c' d name r acc'
           | other => other                                       (* the error aborts *)
           end
  end.

(* FunctionKey::execute *)
Definition function_key (W : world) (decls : list gdecl) (c : cache) (d : nat) (name : str)
           (arg : karg) : cache * result :=
  match arg with
  | AStr s => root_lookup W decls c d name s []
  | ANodes [] => (c, Nodes [])
  | ANodes [v] => root_lookup W decls c d name v []
  | ANodes vs => refs_loop W decls c d name vs []
  end.

Definition probe := (nat * str * karg)%type.

Fixpoint run_history (W : world) (decls : list gdecl) (c : cache) (ps : list probe) : list result :=
  match ps with
  | [] => []
  | (d, name, arg) :: r =>
      let (c', res) := function_key W decls c d name arg in
      res :: run_history W decls c' r
  end.

(* ------------------------------------------------------------------------------------------ *)
(* specification (XSLT 1.0 section 12.2) *)

Definition has_value (u : uval) (v : str) : bool :=
  match u with
  | UStr s => str_eqb s v
  | UNodes vs => existsb (str_eqb v) vs
  end.

(* node n has key (name, v): some declaration of that name matches n and v is among the
   values of its use expression at n *)
Definition key_pred (decls : list decl) (name v : str) (n : node) : bool :=
  existsb (fun d => str_eqb (dname d) name && dmatch d n && has_value (duse d n) v) decls.

Definition key_spec (decls : list decl) (t : tree) (name v : str) : list node :=
  filter (key_pred decls name v) (doc_nodes t).

Definition key_spec_set (decls : list decl) (t : tree) (name : str) (vs : list str) : list node :=
  filter (fun n => existsb (fun v => key_pred decls name v n) vs) (doc_nodes t).

Definition key_fn_spec (W : world) (G : list gdecl) (d : nat) (name : str) (arg : karg) : result :=
  match arg with
  | AStr s => Nodes (key_spec (map (view d) G) (wdoc W d) name s)
  | ANodes vs => Nodes (key_spec_set (map (view d) G) (wdoc W d) name vs)
  end.

Definition gdeclared (G : list gdecl) (name : str) : bool :=
  existsb (fun g => str_eqb (gname g) name) G.

(* guard of the node-set argument theorem: FunctionKey skips empty string-values when the
   node-set has more than one node (as long as GenKey.skip_empty_refs says the source does) *)
Definition nodeset_arg_ok (arg : karg) : bool :=
  match arg with
  | AStr _ => true
  | ANodes vs => (length vs <=? 1) || forallb (fun v => negb (skip_empty_refs && str_empty v)) vs
  end.

(* ------------------------------------------------------------------------------------------ *)
(* entry point of the correspondence driver: declarations given as tables *)

Definition tdecl := (str * list ((nat * node) * uval))%type.   (* name, [((doc, matching node), use value)] *)

Fixpoint tfind (d : nat) (n : node) (l : list ((nat * node) * uval)) : option uval :=
  match l with
  | [] => None
  | ((d', x), u) :: r => if Nat.eqb d d' && node_eqb n x then Some u else tfind d n r
  end.

Definition decl_of_table (t : tdecl) : gdecl :=
  GDecl (fst t)
        (fun d n => match tfind d n (snd t) with Some _ => true | None => false end)
        (fun d n => match tfind d n (snd t) with Some u => u | None => UNodes [] end).

Definition run_case (W : world) (s : sheet) (ps : list probe) : list result :=
  run_history W (merged s) [] ps.
