"""C01: structural facts of the two mechanisms modelled in coq/XsltEventsDefs.v and coq/XsltVarsDefs.v,
re-read from the current source on every run (coq/GenXslt.v). Each fact is what a line of the model
depends on; coq/XsltFactsModel.v proves that the facts are the ones the models were written for, so an
edit that changes one of them breaks the proof leg (and the correspondence runs decide whether inputs
fail). Deliberately lenient about formatting and renamings inside the functions; fails closed
(AnchorError) when a function cannot be found."""
import re
import glob
import os
import srcfacts


def body_of(src, header_rx, what):
    return srcfacts.function_body(src, header_rx, what)


def gen_xslt():
    eng = srcfacts.strip_comments(srcfacts.read("XSLT/XSLTEngineImpl.cpp"))
    facts = {}
    # ---- pending-start-tag machine ----
    b = body_of(eng, r"XSLTEngineImpl::startElement\s*\(\s*const\s+XalanDOMChar\s*\*\s*name\s*\)\s*\{", "XSLTEngineImpl::startElement(name)")
    facts["start_clears_pending_attrs"] = bool(re.search(r"\.clear\s*\(", b))
    i, j = b.find("flushPending"), b.find("setPendingElementName")
    facts["start_flushes_first"] = 0 <= i < j
    b = body_of(eng, r"XSLTEngineImpl::flushPending\s*\(\s*\)\s*\{", "XSLTEngineImpl::flushPending")
    facts["flush_clears_attrs_and_name"] = bool(re.search(r"thePendingAttributes\s*\.\s*clear\s*\(", b)) and \
        bool(re.search(r"thePendingElementName\s*\.\s*clear\s*\(", b))
    facts["flush_delivers_pending_attrs"] = bool(re.search(r"startElement\s*\(\s*thePendingElementName\.c_str\(\)\s*,\s*thePendingAttributes\s*\)", b))

    def flushes_unconditionally(header_rx, what):
        bb = body_of(eng, header_rx, what)
        k = re.search(r"\b(doFlushPending|flushPending)\s*\(\s*\)", bb)
        if not k:
            return False
        return "if" not in re.findall(r"\b\w+\b", bb[:k.start()])
    facts["chars_flush_unconditionally"] = flushes_unconditionally(
        r"XSLTEngineImpl::characters\s*\(\s*const\s+XalanDOMChar\s*\*\s*ch\s*,\s*size_type\s+start\s*,\s*size_type\s+length\s*\)\s*\{",
        "XSLTEngineImpl::characters(ch,start,length)") and flushes_unconditionally(
        r"XSLTEngineImpl::characters\s*\(\s*const\s+XObjectPtr\s*&\s*xobject\s*\)\s*\{", "XSLTEngineImpl::characters(xobject)") and \
        flushes_unconditionally(r"XSLTEngineImpl::characters\s*\(\s*const\s+XalanNode\s*&\s*node\s*\)\s*\{", "XSLTEngineImpl::characters(node)")
    facts["comment_flushes"] = flushes_unconditionally(r"XSLTEngineImpl::comment\s*\(\s*const\s+XalanDOMChar\s*\*\s*data\s*\)\s*\{", "XSLTEngineImpl::comment")
    facts["pi_flushes"] = flushes_unconditionally(r"XSLTEngineImpl::processingInstruction\s*\([^)]*\)\s*\{", "XSLTEngineImpl::processingInstruction")
    facts["end_flushes"] = flushes_unconditionally(r"XSLTEngineImpl::endElement\s*\(\s*const\s+XalanDOMChar\s*\*\s*name\s*\)\s*\{", "XSLTEngineImpl::endElement")
    m = srcfacts.need(r"case\s+XalanNode::ATTRIBUTE_NODE\s*:\s*(.*?)break\s*;", eng, "ATTRIBUTE_NODE case of cloneToResultTree")
    # the whole case is under the guard; what is added inside (incl. the prefix fix-up of C14/KN9) is not modelled here
    facts["clone_attr_guarded"] = bool(re.match(r"\s*if\s*\(\s*isElementPending\s*\(\s*\)\s*==\s*true\s*\)\s*\{", m.group(1))) and \
        not re.search(r"addResultAttribute", re.split(r"\belse\s*\{\s*const\s+ECGetCachedString\s+theGuard", m.group(1))[-1] if re.search(r"\belse\s*\{\s*const\s+ECGetCachedString\s+theGuard", m.group(1)) else "addResultAttribute")
    hpp = srcfacts.strip_comments(srcfacts.read("XSLT/XSLTEngineImpl.hpp"))
    b = body_of(hpp, r"\bisElementPending\s*\(\s*\)\s*const\s*\{", "XSLTEngineImpl::isElementPending")
    facts["pending_is_nonempty_name"] = bool(re.search(r"!\s*getPendingElementNameImpl\s*\(\s*\)\s*\.\s*empty\s*\(\s*\)", b))
    att = srcfacts.strip_comments(srcfacts.read("XSLT/ElemAttribute.cpp"))
    b = body_of(att, r"ElemAttribute::startElement\s*\([^)]*\)\s*const\s*\{", "ElemAttribute::startElement")
    # both ways to an attribute (namespace AVT present / absent) test isElementPending(); otherwise only a warning
    facts["attribute_guarded"] = len(re.findall(r"isElementPending\s*\(\s*\)\s*==\s*true", b)) >= 2 and \
        bool(re.search(r"else\s*\{\s*warn\s*\(\s*executionContext\s*,\s*XalanMessages::AttributesCannotBeAdded", b))
    al = srcfacts.strip_comments(srcfacts.read("PlatformSupport/AttributeListImpl.cpp"))
    b = body_of(al, r"AttributeListImpl::addAttribute\s*\([^)]*\)\s*\{", "AttributeListImpl::addAttribute")
    facts["add_attribute_replaces_same_name"] = bool(re.search(r"find_if\s*\(", b)) and bool(re.search(r"NameCompareFunctor\s*\(\s*name\s*\)", b))

    # ---- variables stack ----
    vs = srcfacts.strip_comments(srcfacts.read("XSLT/VariablesStack.cpp"))
    b = body_of(vs, r"VariablesStack::findEntry\s*\([^)]*\)\s*\{", "VariablesStack::findEntry")
    facts["find_entry_loops_stop_above_bottom"] = len(re.findall(r"for\s*\([^;]*;\s*i\s*>\s*0\s*;", b)) == 2
    facts["find_entry_local_from_current_frame_index"] = bool(re.search(r"nElems\s*=\s*getCurrentStackFrameIndex\s*\(\s*\)", b)) and \
        bool(re.search(r"i\s*=\s*nElems\s*-\s*1", b))
    facts["find_entry_global_needs_not_param"] = bool(re.search(
        r"fIsParam\s*==\s*false\s*&&\s*true\s*==\s*fSearchGlobalSpace\s*&&\s*m_globalStackFrameIndex\s*>\s*1", b))
    facts["find_entry_activates_param"] = bool(re.search(r"eParam\s*\)\s*\{\s*if\s*\(\s*fIsParam\s*==\s*true\s*\)\s*\{\s*if\s*\(\s*theEntry\.getName\(\)\s*->\s*equals\(qname\)\s*\)\s*\{\s*theEntry\.activate\(\)", b))
    b = body_of(vs, r"VariablesStack::push\s*\(\s*const\s+StackEntry\s*&\s*theEntry\s*\)\s*\{", "VariablesStack::push")
    facts["push_tracks_frame_index"] = bool(re.search(r"if\s*\(\s*m_currentStackFrameIndex\s*==\s*m_stack\.size\(\)\s*\)\s*\{\s*\+\+m_currentStackFrameIndex", b))
    b = body_of(vs, r"VariablesStack::PushParamFunctor::operator\(\)\s*\([^)]*\)\s*const\s*\{", "VariablesStack::PushParamFunctor::operator()")
    sq = re.sub(r"\s+", "", b)
    # every xsl:with-param goes on the stack as an (inactive) PARAM entry: third constructor argument true
    facts["with_params_pushed_as_param_entries"] = (
        "StackEntry(theEntry.m_qname,theEntry.m_value,true)" in sq and
        "StackEntry(theEntry.m_qname,theEntry.m_variable,true)" in sq and
        len(re.findall(r"StackEntry\(", sq)) == 2)
    hpp = srcfacts.strip_comments(srcfacts.read("XSLT/VariablesStack.hpp"))
    facts["stack_entry_is_param_defaults_to_false"] = len(re.findall(r"bool\s+isParam\s*=\s*false", hpp)) >= 2
    b = body_of(vs, r"VariablesStack::popElementFrame\s*\(\s*\)\s*\{", "VariablesStack::popElementFrame")
    facts["pop_frame_throws_on_context_marker"] = bool(re.search(r"eContextMarker\s*\)\s*\{[^}]*throw\s+InvalidStackContextException", b))
    # deactivation of params (VariablesStack::resetParams): never called in the tree with finding K-C01-1;
    # the repair calls it from popElementFrame when the popped frame belongs to a template instance
    facts["params_reset_when_template_frame_popped"] = bool(re.search(r"ELEMNAME_TEMPLATE", b)) and bool(re.search(r"\bresetParams\s*\(", b))
    callers = 0
    for p in sorted(glob.glob(os.path.join(srcfacts.SRC, "XSLT", "*.cpp")) + glob.glob(os.path.join(srcfacts.SRC, "XSLT", "*.hpp"))):
        txt = srcfacts.strip_comments(open(p, encoding="utf-8", errors="replace").read())
        if os.path.basename(p) in ("VariablesStack.cpp", "VariablesStack.hpp"):
            txt = re.sub(r"VariablesStack::resetParams\s*\(\s*\)\s*\{", " ", txt)
            txt = re.sub(r"void\s+resetParams\s*\(\s*\)\s*;", " ", txt)
            txt = txt.replace(b, " ")      # the call inside popElementFrame is the modelled variant
            callers += len(re.findall(r"\bresetParams\s*\(", txt))
        else:
            callers += len(re.findall(r"\b(resetParams|deactivate)\s*\(", txt))
    facts["params_deactivated_elsewhere"] = callers > 0
    te = srcfacts.strip_comments(srcfacts.read("XSLT/ElemTemplateElement.cpp"))
    b1 = body_of(te, r"ElemTemplateElement::beginExecuteChildren\s*\([^)]*\)\s*const\s*\{", "beginExecuteChildren")
    b2 = body_of(te, r"ElemTemplateElement::endExecuteChildren\s*\([^)]*\)\s*const\s*\{", "endExecuteChildren")
    cond = r"if\s*\(\s*hasParams\(\)\s*==\s*true\s*\|\|\s*hasVariables\(\)\s*==\s*true\s*\)\s*\{"
    facts["children_frame_iff_has_variables"] = bool(re.search(cond + r"[^}]*pushElementFrame\s*\(\s*this\s*\)", b1)) and \
        bool(re.search(cond + r"\s*executionContext\.popElementFrame\s*\(\s*\)", b2))
    # ---- the iterative loop (XsltLoopDefs.v) ----
    b = body_of(te, r"ElemTemplateElement::execute\s*\(\s*StylesheetExecutionContext\s*&\s*executionContext\s*\)\s*const\s*\{", "ElemTemplateElement::execute (iterative)")
    sq = re.sub(r"\s+", "", b)
    facts["execute_loop_as_modelled"] = all(x in sq for x in (
        "invoker=getParentNodeElem();", "while(currentElement!=0){nextElement=currentElement->startElement(executionContext);",
        "while(0==nextElement){currentElement->endElement(executionContext);",
        "if(currentElement->getInvoker(executionContext)==invoker){nextElement=0;break;}",
        "nextElement=localInvoker->getNextChildElemToExecute(executionContext,currentElement);",
        "if(0==nextElement){currentElement=currentElement->getInvoker(executionContext);}",
        "currentElement=nextElement;"))
    b = body_of(te, r"ElemTemplateElement::getInvoker\s*\([^)]*\)\s*const\s*\{", "ElemTemplateElement::getInvoker")
    b2 = body_of(te, r"ElemTemplateElement::getNextChildElemToExecute\s*\([^)]*\)\s*const\s*\{", "ElemTemplateElement::getNextChildElemToExecute")
    facts["default_invoker_is_parent_next_is_sibling"] = "getParentNodeElem()" in b and "getNextSiblingElem()" in b2
    fe = srcfacts.strip_comments(srcfacts.read("XSLT/ElemForEach.cpp"))
    b = body_of(fe, r"ElemForEach::getNextChildElemToExecute\s*\([^)]*\)\s*const\s*\{", "ElemForEach::getNextChildElemToExecute")
    facts["foreach_renews_frame_per_node"] = bool(re.search(r"endExecuteChildren\s*\(\s*executionContext\s*\)\s*;\s*return\s+beginExecuteChildren\s*\(\s*executionContext\s*\)", b))
    at = srcfacts.strip_comments(srcfacts.read("XSLT/ElemApplyTemplates.cpp"))
    b = body_of(at, r"ElemApplyTemplates::getNextChildElemToExecute\s*\([^)]*\)\s*const\s*\{", "ElemApplyTemplates::getNextChildElemToExecute")
    i, j = b.find("pushContextMarker"), b.find("endParams")
    b2 = body_of(at, r"ElemApplyTemplates::endElement\s*\([^)]*\)\s*const\s*\{", "ElemApplyTemplates::endElement")
    facts["apply_templates_marker_then_params"] = 0 <= i < j and "popContextMarker" in b2
    ct = srcfacts.strip_comments(srcfacts.read("XSLT/ElemCallTemplate.cpp"))
    b = body_of(ct, r"ElemCallTemplate::getNextChildElemToExecute\s*\([^)]*\)\s*const\s*\{", "ElemCallTemplate::getNextChildElemToExecute")
    i, j = b.find("pushContextMarker"), b.find("endParams")
    b2 = body_of(ct, r"ElemCallTemplate::endElement\s*\([^)]*\)\s*const\s*\{", "ElemCallTemplate::endElement")
    facts["call_template_marker_then_params"] = 0 <= i < j and "popContextMarker" in b2
    pa = srcfacts.strip_comments(srcfacts.read("XSLT/ElemParam.cpp"))
    b = body_of(pa, r"ElemParam::startElement\s*\([^)]*\)\s*const\s*\{", "ElemParam::startElement")
    facts["param_default_only_when_not_passed"] = bool(re.search(r"getParamVariable\s*\(\s*\*m_qname\s*\)", b)) and \
        bool(re.search(r"if\s*\(\s*obj\.null\(\)\s*==\s*true\s*\)\s*\{\s*return\s+ElemVariable::startElement", b))

    # ---- instruction-layer and context facts: which repairs of the C01 findings the source has ----
    # (they select model variants / event-script variants / open generator classes; they are not part of
    # facts_as_modelled)
    co = srcfacts.strip_comments(srcfacts.read("XSLT/ElemCopyOf.cpp"))
    b = body_of(co, r"ElemCopyOf::startElement\s*\([^)]*\)\s*const\s*\{", "ElemCopyOf::startElement")
    direct = re.search(r"executionContext\s*\.\s*characters\s*\(\s*value\s*\)", b)
    guarded_inline = re.search(r"(empty\s*\(\s*\)\s*==\s*false|stringLength\s*\([^)]*\)\s*!=\s*0)\s*\)\s*\{\s*executionContext\.characters\s*\(\s*value\s*\)", b)
    helper = re.search(r"stringLength\s*\([^)]*\)\s*!=\s*0\s*\)\s*\{\s*executionContext\.characters\s*\(\s*value\s*\)", co)
    facts["copy_of_skips_empty_string"] = bool(guarded_inline) or (not direct and bool(helper))
    vo = srcfacts.strip_comments(srcfacts.read("XSLT/ElemValueOf.cpp"))
    b = body_of(vo, r"ElemValueOf::startElement\s*\([^)]*\)\s*const\s*\{", "ElemValueOf::startElement")
    m = srcfacts.need(r"if\s*\(\s*m_selectPattern\s*==\s*0\s*\)\s*\{(.*?)\n    \}\s*else", b, "select-less branch of ElemValueOf::startElement")
    br = m.group(1)
    sends_node = re.search(r"executionContext\.characters\s*\(\s*\*sourceNode\s*\)", br)
    if sends_node:
        facts["value_of_dot_skips_empty_string"] = bool(re.search(r"empty\s*\(\s*\)", br[:sends_node.start()]))
    else:
        # streamed through the adapter, which must drop empty pieces
        facts["value_of_dot_skips_empty_string"] = bool(re.search(r"FormatterListenerAdapater\s+\w+\s*\(\s*executionContext\s*\)", br)) and \
            bool(re.search(r"if\s*\(\s*length\s*!=\s*0\s*\)\s*\{\s*m_executionContext\.characters", vo))
    sr = srcfacts.strip_comments(srcfacts.read("XSLT/StylesheetRoot.cpp"))
    b = body_of(sr, r"StylesheetRoot::process\s*\([^)]*\)\s*const\s*\{", "StylesheetRoot::process")
    i = b.find("rootRule->execute")
    facts["initial_template_has_root_node_list"] = i >= 0 and bool(re.search(r"(ContextNodeListPushAndPop|pushContextNodeList)", b[:i]))
    b = body_of(vs, r"VariablesStack::findXObject\s*\([^)]*\)\s*\{", "VariablesStack::findXObject")
    i = b.find("var->getValue")
    k = b.find("m_guardStack.push_back")
    facts["lazy_global_has_own_node_list"] = i >= 0 and bool(re.search(r"(ContextNodeListPushAndPop|pushContextNodeList)", b[max(k, 0):i]))
    facts["lazy_global_resets_copy_text_nodes_only"] = i >= 0 and bool(re.search(r"(SetAndRestoreCopyTextNodesOnly|pushCopyTextNodesOnly)", b[max(k, 0):i]))

    ase = srcfacts.strip_comments(srcfacts.read("XSLT/ElemAttributeSet.cpp"))
    b = body_of(ase, r"ElemAttributeSet::startElement\s*\([^)]*\)\s*const\s*\{", "ElemAttributeSet::startElement")
    facts["attribute_set_hides_locals_by_context_marker"] = "pushContextMarker" in b and "pushCurrentStackFrameIndex" not in b

    order = sorted(facts)
    text = "(* generated by translator/gen_xslt.py from src/xalanc/XSLT/{XSLTEngineImpl,ElemAttribute,VariablesStack,\n" \
           "   ElemTemplateElement,ElemForEach,ElemApplyTemplates,ElemCallTemplate,ElemParam}.cpp - do not edit *)\n"
    for k in order:
        text += "Definition src_%s : bool := %s.\n" % (k, "true" if facts[k] else "false")
    return text, facts


GENERATORS = {"GenXslt": gen_xslt}
