(* XpcParseDefs.v — C02 part "compiler": executable model of the recursive-descent XPath expression compiler
   XPathProcessorImpl::Expr ... Number (src/xalanc/XPath/XPathProcessorImpl.cpp) as the code is now, producing the
   op-map-shaped AST of XpAst.v.  Definitions only (parser, printer, canonical form, grammar).

   State of the C++ parser = the token queue + m_currentPosition; m_token is the token before the position.  Here the
   state is the list of tokens from m_token on (head = m_token, [] = the empty m_token at the end of the queue):
     tokenIs(XalanDOMChar c)   = first character of the head token is c            (tokc)
     tokenIs(string)           = the head token is that string                      (tok_is)
     lookahead(c, n)           = the n-th token after the head is exactly [c]       (look_c)
     getTokenRelative(0)       = the token after the head
     nextToken()               = tail; returns false when the tail is empty
   The op map is not modelled as an array: every function returns the tree its op-map segment encodes (the harness decodes
   the real array by its length fields, strictly, and the two are compared on every run):
     * Equality/Relational/Additive/MultiplicativeExpr(opCodePos) re-insert their op code at the SAME position for every
       further operator: the earlier operation becomes the left operand  ->  left-nested trees  (p_lrest);
     * OrExpr / AndExpr call themselves for the right operand                ->  right-nested trees (p_rlevel);
     * UnionExpr inserts one eOP_UNION for the whole chain                   ->  n-ary EUnion;
     * FilterExpr / PathExpr wrap a primary expression into eOP_LOCATIONPATH when '[' or '/' follows;
     * PredicateExpr: eOP_PREDICATE_WITH_POSITION iff position()/last() was compiled while this predicate was the
       innermost open one (m_positionPredicateStack)  =  uses_pos of the predicate's tree.
   Recursion: Expr() re-enters through '(' '[' and function arguments: that call is the section variable pe (the parser
   with less fuel); every loop of the code (operator chains, '|' chain, '-' chain, predicates, steps, arguments) is a loop
   with its own fuel lf.  XpcFuelModel.v proves fuel > number of tokens is always enough. *)
From Coq Require Import List NArith Bool Arith.
Import ListNotations.
Require Import XV.XpAst XV.GenXpc XV.XpcLexDefs.

Definition tok := str.

Definition tokc (ts : list tok) : N :=            (* m_tokenChar *)
  match ts with (c :: _) :: _ => c | _ => 0%N end.
Definition tok_is (ts : list tok) (s : str) : bool :=
  match ts with t :: _ => str_eqb t s | [] => str_eqb [] s end.
Definition look_c (ts : list tok) (c : N) (n : nat) : bool :=
  match nth_error ts n with Some [x] => N.eqb x c | _ => false end.
Definition look_s (ts : list tok) (s : str) (n : nat) : bool :=
  match nth_error ts n with Some t => str_eqb t s | None => str_eqb [] s end.
Definition cur_tok (ts : list tok) : tok := match ts with t :: _ => t | [] => [] end.
Definition isnil {A} (l : list A) : bool := match l with [] => true | _ => false end.

Fixpoint lookup (tbl : list (str * N)) (s : str) : option N :=
  match tbl with [] => None | (k, v) :: r => if str_eqb s k then Some v else lookup r s end.
Fixpoint mem_str (s : str) (l : list str) : bool :=
  match l with [] => false | x :: r => (str_eqb s x || mem_str s r)%bool end.

(* op code -> constructor *)
Definition axis_of_op (o : N) : option axis :=
  if N.eqb o gen_xop_FROM_ANCESTORS then Some AxAncestor
  else if N.eqb o gen_xop_FROM_ANCESTORS_OR_SELF then Some AxAncestorOrSelf
  else if N.eqb o gen_xop_FROM_ATTRIBUTES then Some AxAttribute
  else if N.eqb o gen_xop_FROM_CHILDREN then Some AxChild
  else if N.eqb o gen_xop_FROM_DESCENDANTS then Some AxDescendant
  else if N.eqb o gen_xop_FROM_DESCENDANTS_OR_SELF then Some AxDescendantOrSelf
  else if N.eqb o gen_xop_FROM_FOLLOWING then Some AxFollowing
  else if N.eqb o gen_xop_FROM_FOLLOWING_SIBLINGS then Some AxFollowingSibling
  else if N.eqb o gen_xop_FROM_PARENT then Some AxParent
  else if N.eqb o gen_xop_FROM_PRECEDING then Some AxPreceding
  else if N.eqb o gen_xop_FROM_PRECEDING_SIBLINGS then Some AxPrecedingSibling
  else if N.eqb o gen_xop_FROM_SELF then Some AxSelf
  else if N.eqb o gen_xop_FROM_NAMESPACE then Some AxNamespace
  else None.
Definition axis_of_name (s : str) : option axis :=        (* getAxisToken *)
  match lookup gen_xpc_axis_table s with Some o => axis_of_op o | None => None end.

Inductive ntype := NtComment | NtText | NtPi | NtNode.
Definition ntype_of_op (o : N) : option ntype :=
  if N.eqb o gen_xop_NODETYPE_COMMENT then Some NtComment
  else if N.eqb o gen_xop_NODETYPE_TEXT then Some NtText
  else if N.eqb o gen_xop_NODETYPE_PI then Some NtPi
  else if N.eqb o gen_xop_NODETYPE_NODE then Some NtNode
  else None.
Definition ntype_of_name (s : str) : option ntype :=       (* getNodeTypeToken *)
  match lookup gen_xpc_nodetype_table s with Some o => ntype_of_op o | None => None end.

(* isAxis / isNodeTest (used by Basis after a '/' to recognise "//") *)
Definition is_axis_tok (t : tok) : bool :=
  match t with
  | [] => false
  | _ => (str_eqb t [ch_at] || str_eqb t gen_xpc_kw_dot || str_eqb t gen_xpc_kw_dotdot
          || match axis_of_name t with Some _ => true | None => false end)%bool
  end.
Definition is_nodetest_tok (t : tok) : bool :=
  match t with
  | [] => false
  | c :: _ => (str_eqb t [ch_asterisk] || N.eqb c ch_lowline || is_letter c)%bool
  end.

(* isCurrentLiteral *)
Definition is_literal (t : tok) : bool :=
  match t with
  | c :: (_ :: _) as r => ((N.eqb c ch_quote && N.eqb (last r 0%N) ch_quote) || (N.eqb c ch_apos && N.eqb (last r 0%N) ch_apos))%bool
  | _ => false
  end.
Definition literal_body (t : tok) : str := removelast (tl t).

(* how FunctionCall() treats a name that is not prefixed *)
Inductive fkind := FkBad | FkNodeType | FkArity (lo hi : nat) | FkGeneric.
Fixpoint arity_of (tbl : list (N * nat * nat)) (o : N) : option (nat * nat) :=
  match tbl with [] => None | (k, lo, hi) :: r => if N.eqb o k then Some (lo, hi) else arity_of r o end.
Definition func_kind (name : str) : fkind :=
  match lookup gen_xpc_function_table name with
  | Some o =>
      match ntype_of_op o with
      | Some _ => FkNodeType
      | None => match arity_of gen_xpc_func_arity o with Some (lo, hi) => FkArity lo hi | None => FkGeneric end
      end
  | None => if mem_str name gen_xpc_installed then FkGeneric else FkBad     (* isValidFunction *)
  end.

(* the PREDICATE_WITH_POSITION flag: a position()/last() call compiled while this predicate is the innermost open one.
   FunctionPosition / FunctionLast are the only writers (both names are rows of s_functionTable, so the default branch of
   FunctionCall never sees them); nested predicates push their own entry. *)
Definition is_pos_name (s : str) : bool :=
  match lookup gen_xpc_function_table s with
  | Some o => (N.eqb o gen_xop_OP_FUNCTION_POSITION || N.eqb o gen_xop_OP_FUNCTION_LAST)%bool
  | None => false
  end.
Fixpoint uses_pos (e : expr) : bool :=
  match e with
  | EOr a b | EAnd a b | ENe a b | EEq a b | ELte a b | ELt a b | EGte a b | EGt a b
  | EPlus a b | EMinus a b | EMult a b | EDiv a b | EMod a b => (uses_pos a || uses_pos b)%bool
  | ENeg a | EGroup a => uses_pos a
  | EUnion l => existsb uses_pos l
  | ELiteral _ | EVar _ _ | ENumLit _ => false
  | EFunc name args => (is_pos_name name || existsb uses_pos args)%bool
  | EExtFunc _ _ args => existsb uses_pos args
  | EPath h _ _ => match h with Some x => uses_pos x | None => false end
  end.

(* ---- binary operators, generically ------------------------------------------------------------- *)
Inductive binop := BOr | BAnd | BNe | BEq | BLte | BLt | BGte | BGt | BPlus | BMinus | BMult | BDiv | BMod.
Definition mk (o : binop) (a b : expr) : expr :=
  match o with
  | BOr => EOr a b | BAnd => EAnd a b | BNe => ENe a b | BEq => EEq a b
  | BLte => ELte a b | BLt => ELt a b | BGte => EGte a b | BGt => EGt a b
  | BPlus => EPlus a b | BMinus => EMinus a b | BMult => EMult a b | BDiv => EDiv a b | BMod => EMod a b
  end.
(* levels: 0 = UnaryExpr and everything tighter, 1 Multiplicative, 2 Additive, 3 Relational, 4 Equality, 5 And, 6 Or *)
Definition op_level (o : binop) : nat :=
  match o with
  | BOr => 6 | BAnd => 5 | BNe | BEq => 4 | BLte | BLt | BGte | BGt => 3 | BPlus | BMinus => 2 | BMult | BDiv | BMod => 1
  end.
Definition right_nested (l : nat) : bool := Nat.leb 5 l.      (* OrExpr / AndExpr *)

(* the operator test of the level-l function; returns the operator and the queue after its token(s) *)
Definition match_op (l : nat) (ts : list tok) : option (binop * list tok) :=
  match l with
  | 6 => if tok_is ts gen_xpc_kw_or then Some (BOr, tl ts) else None
  | 5 => if tok_is ts gen_xpc_kw_and then Some (BAnd, tl ts) else None
  | 4 => if (N.eqb (tokc ts) ch_excl && look_c ts ch_equals 1)%bool then Some (BNe, tl (tl ts))
         else if N.eqb (tokc ts) ch_equals then Some (BEq, tl ts) else None
  | 3 => if N.eqb (tokc ts) ch_lt then
           (if N.eqb (tokc (tl ts)) ch_equals then Some (BLte, tl (tl ts)) else Some (BLt, tl ts))
         else if N.eqb (tokc ts) ch_gt then
           (if N.eqb (tokc (tl ts)) ch_equals then Some (BGte, tl (tl ts)) else Some (BGt, tl ts))
         else None
  | 2 => if N.eqb (tokc ts) ch_plus then Some (BPlus, tl ts)
         else if N.eqb (tokc ts) ch_hyphen then Some (BMinus, tl ts) else None
  | 1 => if N.eqb (tokc ts) ch_asterisk then Some (BMult, tl ts)
         else if tok_is ts gen_xpc_kw_div then Some (BDiv, tl ts)
         else if tok_is ts gen_xpc_kw_mod then Some (BMod, tl ts) else None
  | _ => None
  end.

Notation "'bind' x <- m ; f" :=
  (match m with Ok x => f | Err => Err | Fuel => Fuel end) (at level 200, x pattern, m at level 100, f at level 200).

(* LocationPath(): the tokens after a leading '/' that mean "no step follows" *)
Definition root_alone (ts : list tok) : bool :=
  let c := tokc ts in
  (N.eqb c ch_rbrack || N.eqb c ch_rparen || N.eqb c ch_bar || N.eqb c ch_comma || N.eqb c ch_equals
   || N.eqb c ch_excl || N.eqb c ch_lt || N.eqb c ch_gt || N.eqb c ch_plus || N.eqb c ch_hyphen)%bool.

Definition step_root : step := (AxRoot, TRoot, []).
Definition step_self : step := (AxSelf, TNode, []).
Definition step_parent : step := (AxParent, TNode, []).
Definition step_dos : step := (AxDescendantOrSelf, TNode, []).

Section Parse.
Variable fl : flags.                             (* which of the three repairs the source has *)
Variable ns : str -> option str.                 (* m_namespaces: prefix -> URI (filled by mapNSTokens) *)
Variable pe : nat -> list tok -> res (expr * list tok).     (* Expr() at nesting depth d, with less fuel *)
Variable lf : nat.                               (* fuel of the loops *)

(* consumeExpected(c) *)
Definition expect (c : N) (ts : list tok) : res (list tok) :=
  if N.eqb (tokc ts) c then Ok (tl ts) else Err.

(* Literal() *)
Definition p_literal (ts : list tok) : res (str * list tok) :=
  if is_literal (cur_tok ts) then Ok (literal_body (cur_tok ts), tl ts) else Err.

(* while (tokenIs('[')) Predicate(); *)
Fixpoint p_preds (m : nat) (d : nat) (ts : list tok) : res (list pred * list tok) :=
  match m with
  | 0 => Fuel
  | S m' =>
      if N.eqb (tokc ts) ch_lbrack then
        bind (e, ts1) <- pe d (tl ts);
        bind ts2 <- expect ch_rbrack ts1;
        bind (ps, ts3) <- p_preds m' d ts2;
        Ok ((uses_pos e, e) :: ps, ts3)
      else Ok ([], ts)
  end.

(* FunctionCallArguments(): after consumeExpected('(') *)
Fixpoint p_args (m : nat) (d : nat) (ts : list tok) : res (list expr * list tok) :=
  match m with
  | 0 => Fuel
  | S m' =>
      if (N.eqb (tokc ts) ch_rparen || isnil ts)%bool then Ok ([], ts)
      else if N.eqb (tokc ts) ch_comma then Err                       (* NoPrecedingArgument *)
      else
        bind (e, ts1) <- pe d ts;
        if N.eqb (tokc ts1) ch_rparen then
          bind (r, ts3) <- p_args m' d ts1; Ok (e :: r, ts3)
        else
          bind ts2 <- expect ch_comma ts1;
          if N.eqb (tokc ts2) ch_rparen then Err                        (* NoFollowingArgument *)
          else bind (r, ts3) <- p_args m' d ts2; Ok (e :: r, ts3)
  end.
Definition p_call_args (d : nat) (ts : list tok) : res (list expr * list tok) :=
  bind ts1 <- expect ch_lparen ts;
  bind (args, ts2) <- p_args lf d ts1;
  bind ts3 <- expect ch_rparen ts2;
  Ok (args, ts3).

(* NodeTest() *)
Definition p_nodetest (ts : list tok) : res (ntest * list tok) :=
  if look_c ts ch_lparen 1 then
    match ntype_of_name (cur_tok ts) with
    | None => Err                                                       (* UnknownNodeType *)
    | Some k =>
        bind ts1 <- expect ch_lparen (tl ts);
        match k with
        | NtPi =>
            if N.eqb (tokc ts1) ch_rparen then Ok (TPi None, tl ts1)
            else bind (s, ts2) <- p_literal ts1; bind ts3 <- expect ch_rparen ts2; Ok (TPi (Some s), ts3)
        | NtComment => bind ts2 <- expect ch_rparen ts1; Ok (TComment, ts2)
        | NtText => bind ts2 <- expect ch_rparen ts1; Ok (TText, ts2)
        | NtNode => bind ts2 <- expect ch_rparen ts1; Ok (TNode, ts2)
        end
    end
  else
    bind (q, ts1) <-
      (if look_c ts ch_colon 1 then
         bind q <- (if N.eqb (tokc ts) ch_asterisk then Ok NsAny
                    else match ns (cur_tok ts) with Some u => Ok (NsUri u) | None => Err end);
         bind ts1 <- expect ch_colon (tl ts);
         Ok (q, ts1)
       else Ok (NsEmpty, ts));
    if N.eqb (tokc ts1) ch_asterisk then Ok (TName q None, tl ts1)
    else if is_nodetest_tok (cur_tok ts1) then
      (if (fx_name fl && negb (valid_ncname (cur_tok ts1)))%bool then Err        (* NotValidNCName (repaired variant) *)
       else Ok (TName q (Some (cur_tok ts1)), tl ts1))
    else Err.                                                           (* ExpectedNodeTest *)

(* Basis(): None = the "//" pseudo step (no token consumed, no node test parsed, no predicates) *)
Definition p_basis (ts : list tok) : res (step * bool * list tok) :=
  if look_s ts gen_xpc_kw_axis_sep 1 then
    match axis_of_name (cur_tok ts) with
    | None => Err                                                       (* IllegalAxisName *)
    | Some a => bind (t, ts1) <- p_nodetest (tl (tl ts)); Ok ((a, t, []), true, ts1)
    end
  else if N.eqb (tokc ts) ch_at then
    bind (t, ts1) <- p_nodetest (tl ts); Ok ((AxAttribute, t, []), true, ts1)
  else if N.eqb (tokc ts) ch_solidus then
    let nt := cur_tok (tl ts) in
    if (is_axis_tok nt || is_nodetest_tok nt)%bool then Ok (step_dos, false, ts) else Err     (* ExpectedAxis *)
  else
    bind (t, ts1) <- p_nodetest ts; Ok ((AxChild, t, []), true, ts1).

(* Step() *)
Definition p_step (d : nat) (ts : list tok) : res (step * list tok) :=
  match ts with
  | [] => Err                                                           (* ExpectedNodeTest *)
  | t :: _ =>
      if str_eqb t gen_xpc_kw_dot then
        (if N.eqb (tokc (tl ts)) ch_lbrack then Err else Ok (step_self, tl ts))
      else if str_eqb t gen_xpc_kw_dotdot then
        (if N.eqb (tokc (tl ts)) ch_lbrack then Err else Ok (step_parent, tl ts))
      else if (N.eqb (tokc ts) ch_asterisk || N.eqb (tokc ts) ch_at || N.eqb (tokc ts) ch_solidus
               || N.eqb (tokc ts) ch_lowline || is_letter (tokc ts))%bool then
        bind (st, real, ts1) <- p_basis ts;
        if real then
          bind (ps, ts2) <- p_preds lf d ts1;
          match st with (a, t, _) => Ok ((a, t, ps), ts2) end
        else Ok (st, ts1)
      else Err                                                          (* UnexpectedTokenFound *)
  end.

(* RelativeLocationPath(): Step(); while (tokenIs('/')) { nextToken(); Step(); } *)
Fixpoint p_steps (m : nat) (d : nat) (ts : list tok) : res (list step * list tok) :=
  match m with
  | 0 => Fuel
  | S m' =>
      bind (s, ts1) <- p_step d ts;
      if N.eqb (tokc ts1) ch_solidus then
        bind (r, ts2) <- p_steps m' d (tl ts1); Ok (s :: r, ts2)
      else Ok ([s], ts1)
  end.

(* LocationPath() *)
Definition p_locpath (d : nat) (ts : list tok) : res (expr * list tok) :=
  let root := N.eqb (tokc ts) ch_solidus in
  let ts1 := if root then tl ts else ts in
  let pre := if root then [step_root] else [] in
  if (negb (isnil ts1) && (negb root || negb (root_alone ts1)))%bool then
    bind (ss, ts2) <- p_steps lf d ts1; Ok (EPath None [] (pre ++ ss), ts2)
  else Ok (EPath None [] pre, ts1).

(* QName() after the '$' *)
Definition p_qname (ts : list tok) : res (expr * list tok) :=
  if look_c ts ch_colon 1 then
    match ns (cur_tok ts) with
    | None => Err
    | Some u =>
        bind ts1 <- expect ch_colon (tl ts);
        if valid_ncname (cur_tok ts1) then Ok (EVar u (cur_tok ts1), tl ts1) else Err
    end
  else if valid_ncname (cur_tok ts) then Ok (EVar [] (cur_tok ts), tl ts) else Err.

(* FunctionCall() *)
Definition p_funcall (d : nat) (ts : list tok) : res (expr * list tok) :=
  if look_c ts ch_colon 1 then
    match ns (cur_tok ts) with
    | None => Err
    | Some u =>
        bind ts1 <- expect ch_colon (tl ts);
        if valid_ncname (cur_tok ts1) then
          bind (args, ts2) <- p_call_args d (tl ts1); Ok (EExtFunc u (cur_tok ts1) args, ts2)
        else Err
    end
  else
    let name := cur_tok ts in
    match func_kind name with
    | FkBad => Err                                                      (* CouldNotFindFunction *)
    | FkNodeType => p_locpath d ts
    | FkArity lo hi =>
        bind (args, ts1) <- p_call_args d (tl ts);
        if (Nat.leb lo (length args) && Nat.leb (length args) hi)%bool then Ok (EFunc name args, ts1) else Err
    | FkGeneric =>
        bind (args, ts1) <- p_call_args d (tl ts); Ok (EFunc name args, ts1)
    end.

(* which branch PrimaryExpr() takes *)
Inductive pkind := PkLiteral | PkVar | PkGroup | PkNumber | PkCall | PkPath.
Definition primary_kind (ts : list tok) : pkind :=
  let c := tokc ts in
  if (N.eqb c ch_apos || N.eqb c ch_quote)%bool then PkLiteral
  else if N.eqb c ch_dollar then PkVar
  else if N.eqb c ch_lparen then PkGroup
  else if ((N.eqb c ch_fullstop && match cur_tok ts with _ :: c1 :: _ => num_digit fl c1 | _ => false end) || num_digit fl c)%bool
       then PkNumber
  else if (look_c ts ch_lparen 1 || (look_c ts ch_colon 1 && look_c ts ch_lparen 3))%bool then PkCall
  else PkPath.

(* PrimaryExpr() *)
Definition p_primary (d : nat) (ts : list tok) : res (expr * list tok) :=
  match primary_kind ts with
  | PkLiteral => bind (s, ts1) <- p_literal ts; Ok (ELiteral s, ts1)
  | PkVar => p_qname (tl ts)
  | PkGroup => bind (e, ts1) <- pe d (tl ts); bind ts2 <- expect ch_rparen ts1; Ok (EGroup e, ts2)
  | PkNumber => Ok (ENumLit (cur_tok ts), tl ts)
  | PkCall => p_funcall d ts
  | PkPath => p_locpath d ts
  end.

(* FilterExpr() *)
Definition p_filter (d : nat) (ts : list tok) : res (expr * list tok) :=
  bind (p, ts1) <- p_primary d ts;
  if N.eqb (tokc ts1) ch_lbrack then
    bind (ps, ts2) <- p_preds lf d ts1;
    if N.eqb (tokc ts2) ch_solidus then
      bind (ss, ts3) <- p_steps lf d (tl ts2); Ok (EPath (Some p) ps ss, ts3)
    else Ok (EPath (Some p) ps [], ts2)
  else Ok (p, ts1).

(* PathExpr() *)
Definition p_path (d : nat) (ts : list tok) : res (expr * list tok) :=
  bind (f, ts1) <- p_filter d ts;
  if N.eqb (tokc ts1) ch_solidus then
    bind (ss, ts2) <- p_steps lf d (tl ts1); Ok (EPath (Some f) [] ss, ts2)
  else Ok (f, ts1).

(* UnionExpr(): the operands after the first *)
Fixpoint p_union_rest (m : nat) (d : nat) (ts : list tok) : res (list expr * list tok) :=
  match m with
  | 0 => Fuel
  | S m' =>
      if N.eqb (tokc ts) ch_bar then
        match tl ts with
        | [] => Err                                                     (* ExpectedToken *)
        | ts1 => bind (e, ts2) <- p_path d ts1; bind (r, ts3) <- p_union_rest m' d ts2; Ok (e :: r, ts3)
        end
      else Ok ([], ts)
  end.
Definition p_union (d : nat) (ts : list tok) : res (expr * list tok) :=
  bind (e, ts1) <- p_path d ts;
  bind (r, ts2) <- p_union_rest lf d ts1;
  match r with [] => Ok (e, ts2) | _ => Ok (EUnion (e :: r), ts2) end.

(* UnaryExpr(): every '-' costs one level of m_nestingDepth *)
Fixpoint p_unary (m : nat) (d : nat) (ts : list tok) : res (expr * list tok) :=
  match m with
  | 0 => Fuel
  | S m' =>
      if N.eqb (tokc ts) ch_hyphen then
        match tl ts with
        | [] => Err                                                     (* ExpectedToken *)
        | ts1 => if Nat.ltb gen_xpc_max_nesting (S d) then Err          (* ExpressionNestedTooDeeply *)
                 else bind (e, ts2) <- p_unary m' (S d) ts1; Ok (ENeg e, ts2)
        end
      else p_union d ts
  end.

(* Equality/Relational/Additive/MultiplicativeExpr(opCodePos): after the first operand, every further
   "operator operand" re-inserts the op code at the same position: what was compiled so far (acc) becomes the LEFT operand *)
Fixpoint p_lrest (sub : list tok -> res (expr * list tok)) (lvl : nat) (m : nat) (acc : expr) (ts : list tok)
  : res (expr * list tok) :=
  match m with
  | 0 => Fuel
  | S m' =>
      match match_op lvl ts with
      | None => Ok (acc, ts)
      | Some (o, ts1) =>
          match ts1 with
          | [] => Err                                                   (* ExpectedToken *)
          | _ => bind (b, ts2) <- sub ts1; p_lrest sub lvl m' (mk o acc b) ts2
          end
      end
  end.

(* OrExpr / AndExpr: the function calls ITSELF for the right operand *)
Fixpoint p_rlevel (sub : list tok -> res (expr * list tok)) (lvl : nat) (m : nat) (ts : list tok)
  : res (expr * list tok) :=
  match m with
  | 0 => Fuel
  | S m' =>
      bind (a, ts1) <- sub ts;
      match match_op lvl ts1 with
      | None => Ok (a, ts1)
      | Some (o, ts2) =>
          match ts2 with
          | [] => Err                                                   (* ExpectedToken *)
          | _ => bind (b, ts3) <- p_rlevel sub lvl m' ts2; Ok (mk o a b, ts3)
          end
      end
  end.

(* MultiplicativeExpr (1) ... OrExpr (6) *)
Fixpoint p_level (lvl : nat) (d : nat) (ts : list tok) : res (expr * list tok) :=
  match lvl with
  | 0 => p_unary lf d ts
  | S l' =>
      if right_nested lvl then p_rlevel (p_level l' d) lvl lf ts
      else bind (a, ts1) <- p_level l' d ts; p_lrest (p_level l' d) lvl lf a ts1
  end.

End Parse.

(* Expr(): ++m_nestingDepth > eMaximumNestingDepth is an error; OrExpr() *)
Fixpoint p_expr (fl : flags) (ns : str -> option str) (n : nat) (d : nat) (ts : list tok) : res (expr * list tok) :=
  match n with
  | 0 => Fuel
  | S n' => if Nat.ltb gen_xpc_max_nesting (S d) then Err
            else p_level fl ns (p_expr fl ns n') (S n') 6 (S d) ts
  end.

(* initXPath after tokenize(): nextToken(); Expr(); anything left is ExtraIllegalTokens *)
Definition parse (fl : flags) (ns : str -> option str) (ts : list tok) : res expr :=
  match p_expr fl ns (S (length ts)) 0 ts with
  | Ok (e, []) => Ok e
  | Ok (_, _ :: _) => Err
  | Err => Err
  | Fuel => Fuel
  end.

Definition compile (fl : flags) (ns : str -> option str) (s : str) : res expr :=
  match tokenize fl ns s with
  | Ok ts => parse fl ns ts
  | Err => Err
  | Fuel => Fuel
  end.

(* the compiler of THIS source tree: the variant the translator recognised *)
Definition compile_here (ns : str -> option str) (s : str) : res expr := compile flags_here ns s.
