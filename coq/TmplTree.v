(* TmplTree.v — C10: the import tree (part 3): findTemplate over the compiled tree is the search
   of the levels in decreasing import precedence; main theorems for the quiet path. *)
From Coq Require Import List Bool ZArith NArith Lia Sorting.Sorted.
Require Import XV.TmplDefs XV.TmplModel XV.TmplSelect XV.TmplNq.
Import ListNotations.

(* induction over the nested inductive [sheet] *)
Fixpoint sheet_ind' (P : sheet -> Prop)
         (H : forall items imps, Forall P imps -> P (Sheet items imps)) (s : sheet) : P s :=
  match s with
  | Sheet items imps =>
      H items imps ((fix go (l : list sheet) : Forall P l :=
                       match l with
                       | [] => Forall_nil P
                       | x :: r => Forall_cons x (sheet_ind' P H x) (go r)
                       end) imps)
  end.

Lemma compile_eq : forall items imps,
  compile (Sheet items imps) = CSheet (build_tables (flatten items)) (rev (map compile imps)).
Proof.
  intros. cbn [compile]. f_equal.
  match goal with |- ?f imps [] = _ =>
    assert (H : forall l acc, f l acc = rev (map compile l) ++ acc) end.
  { induction l as [|x r IH]; intro acc; [reflexivity|].
    cbn [map rev]. rewrite IH, <- app_assoc. reflexivity. }
  rewrite H. apply app_nil_r.
Qed.

Lemma postorder_eq : forall items imps,
  postorder (Sheet items imps) = flat_map postorder imps ++ [flatten items].
Proof.
  intros. reflexivity.
Qed.

Lemma rev_flat_map : forall {A B} (f : A -> list B) l,
  rev (flat_map f l) = flat_map (fun x => rev (f x)) (rev l).
Proof.
  induction l as [|x r IH]; [reflexivity|].
  cbn [flat_map rev]. rewrite rev_app_distr, IH, flat_map_app. cbn [flat_map]. rewrite app_nil_r. reflexivity.
Qed.

Lemma first_some_flat_map : forall {A B C} (f : B -> option C) (g : A -> list B) l,
  first_some f (flat_map g l) = first_some (fun x => first_some f (g x)) l.
Proof.
  induction l as [|x r IH]; [reflexivity|].
  cbn [flat_map first_some]. rewrite first_some_app, IH. reflexivity.
Qed.

Lemma first_some_map : forall {A B C} (f : B -> option C) (g : A -> B) l,
  first_some f (map g l) = first_some (fun x => f (g x)) l.
Proof.
  induction l as [|x r IH]; [reflexivity|]. cbn [map first_some]. rewrite IH. reflexivity.
Qed.

Lemma first_some_ext : forall {A B} (f g : A -> option B) l,
  Forall (fun x => f x = g x) l -> first_some f l = first_some g l.
Proof.
  induction 1 as [|x r Hx _ IH]; [reflexivity|]. cbn [first_some]. rewrite Hx, IH. reflexivity.
Qed.

Lemma forallb_concat : forall {A} (f : A -> bool) ls,
  forallb f (concat ls) = true -> forall l, In l ls -> forallb f l = true.
Proof.
  induction ls as [|x r IH]; intros H l Hl; [destruct Hl|].
  cbn [concat] in H. rewrite forallb_app in H. apply andb_true_iff in H. destruct H as [H1 H2].
  destruct Hl as [<-|Hl]; [exact H1 | apply IH; assumption].
Qed.

Lemma in_removelast : forall {A} (l : list A) x, In x (removelast l) -> In x l.
Proof.
  induction l as [|a r IH]; intros x H; [destruct H|].
  cbn [removelast] in H. destruct r as [|b r']; [destruct H|].
  destruct H as [<-|H]; [left; reflexivity | right; apply IH; exact H].
Qed.

Section Tree.
  Variable node : Type.
  Variable key_of : node -> nkey.
  Variable pmatch : N -> node -> bool.
  Variable pa : bool.

  Notation find_template := (find_template node key_of pmatch pa).
  Notation level_find := (level_find node key_of pmatch pa).
  Notation spec_choice := (spec_choice node pmatch).

  Lemma find_template_eq : forall q tb imps mode n only,
    find_template q (CSheet tb imps) mode n only =
    let in_imports := first_some (fun c => find_template q c mode n false) imps in
    if only then in_imports
    else match (if q then find_in_list node pmatch pa (locate tb (key_of n)) mode n
                else find_in_list_nq node pmatch pa (locate tb (key_of n)) mode n) with
         | Some t => Some t
         | None => in_imports
         end.
  Proof.
    intros. cbn [TmplDefs.find_template]. cbv zeta.
    match goal with |- context [?f imps] =>
      assert (H : forall l, f l = first_some (fun c => find_template q c mode n false) l) end.
    { induction l as [|x r IH]; [reflexivity|]. cbn [first_some]. rewrite <- IH. reflexivity. }
    rewrite H. reflexivity.
  Qed.

  Definition level_find_q (q : bool) (ts : list template) (mode : option N) (n : node) : option template :=
    if q then find_in_list node pmatch pa (locate (build_tables ts) (key_of n)) mode n
    else find_in_list_nq node pmatch pa (locate (build_tables ts) (key_of n)) mode n.

  (* the search of the compiled tree = first hit over the levels, highest precedence first *)
  Lemma find_template_levels_q : forall q mode n s,
    find_template q (compile s) mode n false =
      first_some (fun ts => level_find_q q ts mode n) (rev (postorder s)) /\
    find_template q (compile s) mode n true =
      first_some (fun ts => level_find_q q ts mode n) (rev (removelast (postorder s))).
  Proof.
    intros q mode n. induction s as [items imps IH] using sheet_ind'.
    rewrite compile_eq, postorder_eq, !find_template_eq. cbv zeta.
    rewrite removelast_last, rev_app_distr. cbn [rev app first_some].
    assert (Himp : first_some (fun c => find_template q c mode n false) (rev (map compile imps)) =
                   first_some (fun ts => level_find_q q ts mode n) (rev (flat_map postorder imps))).
    { rewrite <- map_rev, first_some_map, rev_flat_map, first_some_flat_map.
      apply first_some_ext. apply Forall_rev. rewrite Forall_forall in *.
      intros x Hx. apply (IH x Hx). }
    rewrite Himp. split; [|reflexivity].
    unfold level_find_q at 2. reflexivity.
  Qed.

  Lemma find_template_levels : forall mode n s,
    find_template true (compile s) mode n false =
      first_some (fun ts => level_find ts mode n) (rev (postorder s)) /\
    find_template true (compile s) mode n true =
      first_some (fun ts => level_find ts mode n) (rev (removelast (postorder s))).
  Proof. intros. exact (find_template_levels_q true mode n s). Qed.

  Lemma guards_levels : forall s n,
    pa = true \/ uniform_union_priorities s = true -> filed_where_matching node key_of pmatch s n = true ->
    levels_guard node key_of pmatch pa (postorder s) n.
  Proof.
    unfold uniform_union_priorities, filed_where_matching, all_templates, levels_guard.
    intros s n Hu Hf ts Hts. split.
    - destruct Hu as [Hu|Hu]; [left; exact Hu | right; exact (forallb_concat _ _ Hu ts Hts)].
    - exact (forallb_concat _ _ Hf ts Hts).
  Qed.

  (* main theorem, quiet path *)
  Lemma find_template_spec_lemma : forall s mode n,
    pa = true \/ uniform_union_priorities s = true -> filed_where_matching node key_of pmatch s n = true ->
    spec_choice (rules_of s) mode n (find_template true (compile s) mode n false).
  Proof.
    intros s mode n Hu Hf. rewrite (proj1 (find_template_levels mode n s)).
    unfold rules_of. apply levels_spec. apply guards_levels; assumption.
  Qed.

  (* apply-imports: only the rules imported into the stylesheet, and among them the maximum *)
  Lemma apply_imports_lemma : forall s mode n,
    pa = true \/ uniform_union_priorities s = true -> filed_where_matching node key_of pmatch s n = true ->
    spec_choice (imported_rules s) mode n (find_template true (compile s) mode n true).
  Proof.
    intros s mode n Hu Hf. rewrite (proj2 (find_template_levels mode n s)).
    unfold imported_rules. apply levels_spec.
    intros ts Hts. apply (guards_levels s n Hu Hf). apply in_removelast; exact Hts.
  Qed.

  (* conflict reporting never changes the choice *)
  Lemma quiet_eq_nonquiet_lemma : forall s mode n only,
    find_template false (compile s) mode n only = find_template true (compile s) mode n only.
  Proof.
    intros s mode n only.
    assert (Hl : Forall (fun ts => level_find_q false ts mode n = level_find_q true ts mode n) (postorder s)).
    { rewrite Forall_forall. intros ts Hts. unfold level_find_q.
      apply nq_eq_quiet_list. apply locate_sorted. }
    destruct only.
    - rewrite (proj2 (find_template_levels_q false mode n s)), (proj2 (find_template_levels_q true mode n s)).
      apply first_some_ext. apply Forall_rev. rewrite Forall_forall in *.
      intros ts Hts. apply Hl. apply in_removelast; exact Hts.
    - rewrite (proj1 (find_template_levels_q false mode n s)), (proj1 (find_template_levels_q true mode n s)).
      apply first_some_ext. apply Forall_rev. exact Hl.
  Qed.

  (* the stylesheet an apply-imports starts from: compilation commutes with descending the tree *)
  Lemma csubsheet_compile : forall p s,
    csubsheet (compile s) p = option_map compile (subsheet s p).
  Proof.
    induction p as [|i r IH]; intros s; [reflexivity|].
    destruct s as [items imps]. rewrite compile_eq. cbn [csubsheet subsheet imports_of].
    rewrite rev_involutive, nth_error_map.
    destruct (nth_error imps i); cbn; [apply IH | reflexivity].
  Qed.

End Tree.
