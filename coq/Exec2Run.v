(* Exec2Run.v — C11, part "helpers": the six entry points interpreted from the regenerated bodies
   of GenExec2.v alone (arms of the six switches with the helper bodies inlined; no hand-written
   helper model, no table of GenExec.v is consulted).  Definitions only. *)
From Coq Require Import ZArith NArith List Bool Arith.
Require Import XV.NumDefs XV.XpAst XV.DomDefs XV.XpDefs XV.ExecArms XV.GenExec XV.ExecDefs XV.Exec2Defs XV.GenExec2.
Import ListNotations.

(* one more level of recursion depth: every entry point runs the regenerated body of the node's op-code *)
Definition next2 (E : evs) : evs :=
  mkEvs (fun c e => guarded e (run2_g E c e (body_generic (opcode_of e))))
        (fun c e => guarded e (run2_b E c e (body_bool (opcode_of e))))
        (fun c e => guarded e (run2_n E c e (body_num (opcode_of e))))
        (fun c e buf => guarded e (run2_s E c e (body_str (opcode_of e)) buf))
        (fun c e acc => guarded e (run2_f E c e (body_chars (opcode_of e)) acc))
        (fun c e => guarded e (run2_l E c e (body_nodes (opcode_of e)))).

Fixpoint execs2 (fuel : nat) : evs :=
  match fuel with
  | O => out_of_fuel
  | S f => next2 (execs2 f)
  end.

(* the same step through the tables of GenExec.v and the hand-written helper model of ExecDefs.v *)
Definition next1 (E : evs) : evs :=
  mkEvs (fun c e => run_g E (arm_generic (opcode_of e)) c e)
        (fun c e => run_b E (arm_bool (opcode_of e)) c e)
        (fun c e => run_n E (arm_num (opcode_of e)) c e)
        (fun c e buf => run_s E (arm_str (opcode_of e)) c e buf)
        (fun c e acc => run_f E (arm_chars (opcode_of e)) c e acc)
        (fun c e => run_l E (arm_nodes (opcode_of e)) c e).

(* XPath::execute(...) overloads *)
Definition exec2_generic (c : ctx) (e : expr) : res value := ev_g (execs2 (fuel_for e)) c e.
Definition exec2_bool (c : ctx) (e : expr) : res bool := ev_b (execs2 (fuel_for e)) c e.
Definition exec2_num (c : ctx) (e : expr) : res dbl := ev_n (execs2 (fuel_for e)) c e.
Definition exec2_str (c : ctx) (e : expr) (buf : str) : res str := ev_s (execs2 (fuel_for e)) c e buf.
Definition exec2_chars (c : ctx) (e : expr) (acc : str) : res str := ev_f (execs2 (fuel_for e)) c e acc.
Definition exec2_nodelist (c : ctx) (e : expr) : res (list nat) :=
  do r <- ev_l (execs2 (fuel_for e)) c e; Ok (nl_nodes r).
