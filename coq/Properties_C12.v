(* C12 - node-sets are duplicate-free sets in one consistent document order.
   Theorems about the Gallina model (NodeListDefs.v) of DOMServices::isNodeAfter and of
   MutableNodeRefList (addNodeInDocOrder with its three search strategies, addNodesInDocOrder, Union). *)
From Coq Require Import List Arith Bool Lia.
Import ListNotations.
Require Import XV.GenNodelist XV.NodeListDefs XV.DocOrderModel XV.NodeListModel XV.NodeListFlagModel XV.NodeListMultiModel XV.NodeListProducerModel.

(* ---- 1. structural document order = pre-order index order, for every tree and every pair of nodes
        (the code asserts that neither node is the document node; the equality even holds when one is) *)
Theorem struct_order_eq_index_order : forall t n1 n2,
  valid t n1 = true -> valid t n2 = true -> (n1 <> [] \/ n2 <> []) ->
  isNodeAfter_struct t n1 n2 = (index t n2 <? index t n1).
Proof. exact struct_order_eq_index_order_lemma. Qed.
Print Assumptions struct_order_eq_index_order.

(* "identical whether it is derived from stored node indexes or from tree structure": DOMServices::isNodeAfter
   gives the same answer on an indexed and on a non-indexed representation of the same tree *)
Theorem order_representation_independent : forall t n1 n2,
  valid t n1 = true -> valid t n2 = true -> (n1 <> [] \/ n2 <> []) ->
  isNodeAfter [(t, true)] (0, n1) (0, n2) = isNodeAfter [(t, false)] (0, n1) (0, n2).
Proof.
  intros t n1 n2 H1 H2 Hne. unfold isNodeAfter, isIndexed, getIndex, isIndexed, windexed, wtree, key. simpl.
  rewrite struct_order_eq_index_order_lemma by assumption. reflexivity.
Qed.
Print Assumptions order_representation_independent.

(* the pre-order index is injective on the nodes of a tree and below the size of the tree *)
Theorem index_is_injective : forall t n1 n2,
  valid t n1 = true -> valid t n2 = true -> index t n1 = index t n2 -> n1 = n2.
Proof. exact index_injective. Qed.
Print Assumptions index_is_injective.

(* hence the structural order is a strict total order on the non-document nodes of any tree *)
Theorem struct_order_strict_total : forall t a b c,
  valid t a = true -> valid t b = true -> valid t c = true -> a <> [] -> b <> [] -> c <> [] ->
  isNodeAfter_struct t a a = false /\
  (isNodeAfter_struct t a b = true -> isNodeAfter_struct t b c = true -> isNodeAfter_struct t a c = true) /\
  (a <> b -> isNodeAfter_struct t a b = true \/ isNodeAfter_struct t b a = true) /\
  (isNodeAfter_struct t a b = true -> isNodeAfter_struct t b a = false).
Proof.
  intros t a b c Ha Hb Hc Na Nb Nc.
  rewrite !struct_order_eq_index_order_lemma by (auto).
  repeat split.
  - apply Nat.ltb_irrefl.
  - rewrite !Nat.ltb_lt. lia.
  - intro D. rewrite !Nat.ltb_lt.
    destruct (Nat.lt_trichotomy (index t a) (index t b)) as [L|[E|L]]; [right; exact L | | left; exact L].
    exfalso. apply D. eapply index_injective; eassumption.
  - rewrite Nat.ltb_lt. intro L. apply Nat.ltb_ge. lia.
Qed.
Print Assumptions struct_order_strict_total.

(* the order demanded by the property text: root first, an element before its attributes, those before
   its children, siblings left to right - read off the index function *)
Theorem document_order_shape : forall t p i j,
  valid t (SC j :: p) = true -> valid t (SA i :: p) = true ->
  index t p < index t (SA i :: p) /\ index t (SA i :: p) < index t (SC j :: p) /\
  (forall j', valid t (SC j' :: p) = true -> j < j' -> index t (SC j :: p) < index t (SC j' :: p)) /\
  (forall i', valid t (SA i' :: p) = true -> i < i' -> index t (SA i :: p) < index t (SA i' :: p)).
Proof.
  intros t p i j Hc Ha. unfold valid, index in *. simpl rev in *.
  assert (Hp : fvalid t (rev p) = true) by (eapply fvalid_app; eassumption).
  repeat split.
  - apply Nat.ltb_lt. rewrite <- (flex_findex _ _ t Hp Ha). apply flex_prefix_l.
  - apply Nat.ltb_lt. rewrite <- (flex_findex _ _ t Ha Hc). rewrite flex_app_same. reflexivity.
  - intros j' Hj' L. apply Nat.ltb_lt. rewrite <- (flex_findex _ _ t Hc Hj'). rewrite flex_app_same. simpl.
    replace (j =? j') with false by (symmetry; apply Nat.eqb_neq; lia). apply Nat.ltb_lt. exact L.
  - intros i' Hi' L. apply Nat.ltb_lt. rewrite <- (flex_findex _ _ t Ha Hi'). rewrite flex_app_same. simpl.
    replace (i =? i') with false by (symmetry; apply Nat.eqb_neq; lia). apply Nat.ltb_lt. exact L.
Qed.
Print Assumptions document_order_shape.

(* ---- 2. findInsertionPointBinarySearch on a strictly sorted non-empty range: terminates within the fuel,
        reports a duplicate exactly when the index is present, otherwise returns the unique split point *)
Theorem bsearch_correct : forall (get : nat -> nat) (n x : nat),
  (forall i j, i < j -> j < n -> get i < get j) -> 1 <= n ->
  exists ins ip, binarySearch get n x = Some (ins, ip) /\
    (if ins then ip <= n /\ (forall k, k < ip -> get k < x) /\ (forall k, ip <= k -> k < n -> x < get k)
     else exists k, k < n /\ get k = x).
Proof. exact binarySearch_spec. Qed.
Print Assumptions bsearch_correct.

(* ---- 3. ordered insertion.  Guard: the list and the node belong to one document d (indexed or not;
        document node allowed).  Whatever strategy runs (same-as-last fast path, append fast path, binary
        search, linear scan with the structural comparison) the result is the specification [sinsert]. *)
Theorem add_in_doc_order_refines_partial : forall W d l n,
  single_document W d l = true -> in_doc W d n = true -> sorted W l = true ->
  addNodeInDocOrder W l n = Some (sinsert W n l).
Proof.
  intros W d l n Hl Hn Hs. apply (add_refines W d); try assumption.
  apply Forall_forall. intros m Hm. unfold single_document in Hl. rewrite forallb_forall in Hl. apply Hl. exact Hm.
Qed.
Print Assumptions add_in_doc_order_refines_partial.

Theorem add_in_doc_order_inv_partial : forall W d l n,
  single_document W d l = true -> in_doc W d n = true -> sorted W l = true ->
  exists l', addNodeInDocOrder W l n = Some l' /\ sorted W l' = true /\ single_document W d l' = true /\
             (forall m, In m l' <-> m = n \/ In m l).
Proof.
  intros W d l n Hl Hn Hs. exists (sinsert W n l).
  assert (Hf : Forall (indoc W d) l).
  { apply Forall_forall. intros m Hm. unfold single_document in Hl. rewrite forallb_forall in Hl. apply Hl. exact Hm. }
  split; [apply (add_refines W d); assumption|].
  split; [apply (sinsert_sorted W d); assumption|].
  split.
  - unfold single_document. apply forallb_forall. intros m Hm.
    pose proof (sinsert_indoc W d n l Hn Hf) as H. rewrite Forall_forall in H. apply H. exact Hm.
  - apply (sinsert_in W d); assumption.
Qed.
Print Assumptions add_in_doc_order_inv_partial.

(* every insertion history over one document, from any sorted list: strictly sorted (hence duplicate-free),
   and exactly the inserted nodes *)
Theorem add_history_partial : forall W d ns l,
  single_document W d ns = true -> single_document W d l = true -> sorted W l = true ->
  exists r, fold_left (add_step W) ns (Some l) = Some r /\ r = sort_dedup W (l ++ ns) /\ sorted W r = true /\
            (forall m, In m r <-> In m l \/ In m ns).
Proof.
  intros W d ns l Hns Hl Hs.
  assert (Fns : Forall (indoc W d) ns).
  { apply Forall_forall. intros m Hm. unfold single_document in Hns. rewrite forallb_forall in Hns. apply Hns. exact Hm. }
  assert (Fl : Forall (indoc W d) l).
  { apply Forall_forall. intros m Hm. unfold single_document in Hl. rewrite forallb_forall in Hl. apply Hl. exact Hm. }
  exists (sfold W ns l). destruct (sfold_props W d ns l Fns Fl Hs) as (A & B & C).
  split; [apply (add_history W d); assumption|].
  split; [apply (sfold_sort_dedup W d); assumption|]. split; assumption.
Qed.
Print Assumptions add_history_partial.

(* strictly sorted by an injective key = duplicate-free *)
Theorem sorted_nodup : forall W l, sorted W l = true -> NoDup l.
Proof.
  intros W l. induction l as [|c r IH]; intro Hs; [constructor|].
  apply sorted_cons in Hs. destruct Hs as [Hf Hs]. constructor; [|apply IH; exact Hs].
  intro Hin. specialize (Hf c Hin). lia.
Qed.
Print Assumptions sorted_nodup.

(* ---- 3b. several documents.  The source has the scan loop that keeps the nodes of a document together
        (commit ea5de2f); the translator regenerates this fact and the theorems below are about that variant. *)
Theorem live_variant_keeps_documents_together : keeps_documents_together = true.
Proof. reflexivity. Qed.
Print Assumptions live_variant_keeps_documents_together.

Lemma all_wv : forall W l, forallb (wvalid W) l = true -> Forall (wv W) l.
Proof. intros W l H. apply Forall_forall. intros m Hm. rewrite forallb_forall in H. apply H. exact Hm. Qed.
Lemma wv_all : forall W l, Forall (wv W) l -> forallb (wvalid W) l = true.
Proof. intros W l H. apply forallb_forall. rewrite Forall_forall in H. exact H. Qed.

(* one insertion, nodes of any documents: whatever strategy runs, the result is the specification [minsert];
   the grouped-blocks invariant (no node twice, a document's nodes contiguous, ascending inside a block) is kept *)
Theorem add_in_doc_order_multi_document : forall W l n,
  forallb (wvalid W) l = true -> wvalid W n = true -> ginvb W l = true ->
  exists l', addNodeInDocOrder W l n = Some l' /\ l' = minsert W n l false /\ ginvb W l' = true /\
             forallb (wvalid W) l' = true /\ (forall m, In m l' <-> m = n \/ In m l).
Proof.
  intros W l n Hl Hn G. apply all_wv in Hl. apply ginvb_spec in G. exists (minsert W n l false).
  split; [unfold addNodeInDocOrder; change keeps_documents_together with true; apply add_multi_refines; assumption|].
  split; [reflexivity|].
  split; [apply ginvb_spec; apply minsert_ginv; try assumption; intros; discriminate|].
  split; [apply wv_all; apply minsert_wv; assumption|]. apply minsert_in; assumption.
Qed.
Print Assumptions add_in_doc_order_multi_document.

(* every insertion history over nodes of several documents: duplicate-free, never interleaved, strictly
   ascending inside each document's block, and exactly the inserted nodes *)
Theorem add_history_multi_document : forall W ns l,
  forallb (wvalid W) ns = true -> forallb (wvalid W) l = true -> ginvb W l = true ->
  exists r, fold_left (add_step W) ns (Some l) = Some r /\ ginvb W r = true /\ NoDup r /\
            groupedb (map fst r) = true /\
            (forall i j, i < j -> j < length r -> fst (nth i r dummy) = fst (nth j r dummy) ->
                         key W (nth i r dummy) < key W (nth j r dummy)) /\
            (forall m, In m r <-> In m l \/ In m ns).
Proof.
  intros W ns l Hns Hl G. apply all_wv in Hns. apply all_wv in Hl. apply ginvb_spec in G.
  destruct (fold_add_multi W ns l Hns Hl G) as (r & E & A & B & C). exists r.
  split; [exact E|]. split; [apply ginvb_spec; exact A|]. split; [apply (ginv_nodup W); exact A|].
  split; [apply (ginv_grouped W); exact A|]. split; [intros; apply ginv_block_sorted; assumption | exact C].
Qed.
Print Assumptions add_history_multi_document.

Definition operands_ok_multi (W : world) (ops : list nlist) : bool :=
  forallb (fun o => forallb (wvalid W) (items o) && honest_multi W o) ops.

Lemma operands_ok_multi_split : forall W ops, operands_ok_multi W ops = true ->
  Forall (fun o => Forall (wv W) (items o)) ops /\ Forall (fun o => honest_multi W o = true) ops.
Proof.
  intros W ops H. unfold operands_ok_multi in H. rewrite forallb_forall in H.
  split; apply Forall_forall; intros o Ho; specialize (H o Ho); apply andb_true_iff in H; destruct H as [H1 H2].
  - apply all_wv. exact H1.
  - exact H2.
Qed.

(* XPath::Union over operands of any documents (flags honest): duplicate-free, never interleaved, sorted
   inside each document, exactly the operands' nodes *)
Theorem union_multi_document : forall W ops, operands_ok_multi W ops = true ->
  exists r, union_code W ops = Some (NL r DocOrder) /\ ginvb W r = true /\ forallb (wvalid W) r = true /\
            NoDup r /\ groupedb (map fst r) = true /\
            (forall m, In m r <-> exists o, In o ops /\ In m (items o)).
Proof.
  intros W ops H. destruct (operands_ok_multi_split W ops H) as [Hv Hh].
  destruct (union_multi W ops Hv Hh) as (r & E & G & V & I). exists r.
  split; [exact E|]. split; [apply ginvb_spec; exact G|]. split; [apply wv_all; exact V|].
  split; [apply (ginv_nodup W); exact G|]. split; [apply (ginv_grouped W); exact G | exact I].
Qed.
Print Assumptions union_multi_document.

(* across documents union is commutative, associative and idempotent as a set (the order of the blocks
   is the order of first appearance, so the lists themselves may differ in block order) *)
Theorem union_set_laws_multi_document : forall W A B C, operands_ok_multi W [A; B; C] = true ->
  exists ab ba bc ab_c a_bc aa,
    union_code W [A; B] = Some ab /\ union_code W [B; A] = Some ba /\ union_code W [B; C] = Some bc /\
    union_code W [ab; C] = Some ab_c /\ union_code W [A; bc] = Some a_bc /\ union_code W [A; A] = Some aa /\
    (forall m, In m (items ab) <-> In m (items ba)) /\
    (forall m, In m (items ab_c) <-> In m (items a_bc)) /\
    (forall m, In m (items aa) <-> In m (items A)).
Proof.
  intros W A B C H.
  assert (HA : operands_ok_multi W [A] = true /\ operands_ok_multi W [B] = true /\ operands_ok_multi W [C] = true).
  { unfold operands_ok_multi in *. simpl in *. repeat rewrite andb_true_iff in *. tauto. }
  destruct HA as (HA & HB & HC).
  assert (ok2 : forall X Y, operands_ok_multi W [X] = true -> operands_ok_multi W [Y] = true -> operands_ok_multi W [X; Y] = true).
  { intros X Y HX HY. unfold operands_ok_multi in *. simpl in *. repeat rewrite andb_true_iff in *. tauto. }
  assert (U : forall ops, operands_ok_multi W ops = true ->
            exists r, union_code W ops = Some (NL r DocOrder) /\ operands_ok_multi W [NL r DocOrder] = true /\
                      (forall m, In m r <-> exists o, In o ops /\ In m (items o))).
  { intros ops Hok. destruct (union_multi_document W ops Hok) as (r & E & G & V & _ & _ & I).
    exists r. split; [exact E|]. split; [|exact I].
    unfold operands_ok_multi, honest_multi. simpl. rewrite V, G. reflexivity. }
  destruct (U [A; B] (ok2 A B HA HB)) as (ab & Eab & Oab & Iab).
  destruct (U [B; A] (ok2 B A HB HA)) as (ba & Eba & _ & Iba).
  destruct (U [B; C] (ok2 B C HB HC)) as (bc & Ebc & Obc & Ibc).
  destruct (U [NL ab DocOrder; C] (ok2 _ C Oab HC)) as (x & Ex & _ & Ix).
  destruct (U [A; NL bc DocOrder] (ok2 A _ HA Obc)) as (y & Ey & _ & Iy).
  destruct (U [A; A] (ok2 A A HA HA)) as (aa & Eaa & _ & Iaa).
  exists (NL ab DocOrder), (NL ba DocOrder), (NL bc DocOrder), (NL x DocOrder), (NL y DocOrder), (NL aa DocOrder).
  repeat (split; [assumption|]). simpl. split; [|split]; intro m.
  - rewrite Iab, Iba. simpl. split; intros (o & [<-|[<-|[]]] & Hm); eexists; (split; [|exact Hm]); simpl; tauto.
  - rewrite Ix, Iy. simpl. split.
    + intros (o & [<-|[<-|[]]] & Hm).
      * simpl in Hm. apply Iab in Hm. destruct Hm as (o & [<-|[<-|[]]] & Hm).
        -- exists A. tauto.
        -- exists (NL bc DocOrder). split; [tauto|]. simpl. apply Ibc. exists B. simpl. tauto.
      * exists (NL bc DocOrder). split; [tauto|]. simpl. apply Ibc. exists C. simpl. tauto.
    + intros (o & [<-|[<-|[]]] & Hm).
      * exists (NL ab DocOrder). split; [tauto|]. simpl. apply Iab. exists A. simpl. tauto.
      * simpl in Hm. apply Ibc in Hm. destruct Hm as (o & [<-|[<-|[]]] & Hm).
        -- exists (NL ab DocOrder). split; [tauto|]. simpl. apply Iab. exists B. simpl. tauto.
        -- exists C. tauto.
  - rewrite Iaa. simpl. split; [intros (o & [<-|[<-|[]]] & Hm); exact Hm | intro Hm; exists A; tauto].
Qed.
Print Assumptions union_set_laws_multi_document.

(* regression witnesses: the old loop (without the flag) interleaved documents and inserted a node twice on
   x(d0), y(d1), z(d0), x(d0) (the repaired defect F7, corpus/C12/f7.txt); the live code gives x, z, y *)
Definition W2 : world :=
  [ (Node 0 [Node 0 [Node 0 []; Node 0 []; Node 0 []; Node 0 []; Node 0 []; Node 0 []]], true);
    (Node 0 [Node 0 []], true) ].
Definition x0 : lnode := (0, [SC 2; SC 0]).
Definition y1 : lnode := (1, [SC 0]).
Definition z0 : lnode := (0, [SC 4; SC 0]).

Example f7_old_variant_regression :
  forallb (wvalid W2) [x0; y1; z0; x0] = true /\
  fold_left (add_step_v false W2) [x0; y1; z0; x0] (Some []) = Some [x0; y1; x0; z0] /\
  groupedb (map fst [x0; y1; x0; z0]) = false /\ nodupb [x0; y1; x0; z0] = false.
Proof. vm_compute. repeat split. Qed.

Example f7_live_code :
  fold_left (add_step W2) [x0; y1; z0; x0] (Some []) = Some [x0; z0; y1] /\ ginvb W2 [x0; z0; y1] = true /\
  operands_ok_multi W2 [NL [z0; x0] RevOrder; NL [y1] DocOrder; NL [x0; y1; z0] Unknown] = true /\
  union_code W2 [NL [y1] DocOrder; NL [z0; x0] RevOrder] = Some (NL [y1; x0; z0] DocOrder).
Proof. vm_compute. repeat split. Qed.

(* ---- 4. bulk merge and union.  Guard: one document, operands flagged honestly (the flag says document
        order / reverse document order only if that is true of the list). *)
Theorem add_nodes_in_doc_order_partial : forall W d dst src,
  single_document W d (items dst) = true -> single_document W d (items src) = true ->
  sorted W (items dst) = true -> honest W src = true ->
  addNodesInDocOrder W dst src = Some (NL (sort_dedup W (items dst ++ items src)) (ord dst)).
Proof.
  intros W d dst src Hd Hs. apply (addNodesInDocOrder_spec W d); unfold nl_indoc; apply Forall_forall; intros m Hm.
  - unfold single_document in Hd. rewrite forallb_forall in Hd. apply Hd. exact Hm.
  - unfold single_document in Hs. rewrite forallb_forall in Hs. apply Hs. exact Hm.
Qed.
Print Assumptions add_nodes_in_doc_order_partial.

Definition operands_ok (W : world) (d : nat) (ops : list nlist) : bool :=
  forallb (fun o => single_document W d (items o) && honest W o) ops.

Lemma operands_ok_split : forall W d ops, operands_ok W d ops = true ->
  Forall (nl_indoc W d) ops /\ Forall (fun x => honest W x = true) ops.
Proof.
  intros W d ops H. unfold operands_ok in H. rewrite forallb_forall in H. split; apply Forall_forall; intros o Ho;
    specialize (H o Ho); apply andb_true_iff in H; destruct H as [H1 H2].
  - unfold nl_indoc. apply Forall_forall. intros m Hm. unfold single_document in H1. rewrite forallb_forall in H1. apply H1. exact Hm.
  - exact H2.
Qed.

Theorem union_spec_partial : forall W d ops, operands_ok W d ops = true ->
  union_code W ops = Some (NL (sort_dedup W (concat (map items ops))) DocOrder).
Proof. intros W d ops H. destruct (operands_ok_split W d ops H). apply (union_spec W d); assumption. Qed.
Print Assumptions union_spec_partial.

Lemma operands_indoc : forall W d ops, operands_ok W d ops = true -> Forall (indoc W d) (concat (map items ops)).
Proof.
  intros W d ops H. destruct (operands_ok_split W d ops H) as [Hi _].
  apply Forall_forall. intros m Hm. apply in_concat in Hm. destruct Hm as (l & Hl & Hm).
  apply in_map_iff in Hl. destruct Hl as (y & <- & Hy). rewrite Forall_forall in Hi.
  specialize (Hi y Hy). unfold nl_indoc in Hi. rewrite Forall_forall in Hi. auto.
Qed.

(* the result of a union is sorted, duplicate-free, and contains exactly the operands' nodes *)
Theorem union_result_partial : forall W d ops, operands_ok W d ops = true ->
  exists r, union_code W ops = Some (NL r DocOrder) /\ sorted W r = true /\ NoDup r /\
            (forall m, In m r <-> exists o, In o ops /\ In m (items o)).
Proof.
  intros W d ops H. exists (sort_dedup W (concat (map items ops))).
  destruct (sort_dedup_props W d _ (operands_indoc W d ops H)) as (A & B & C).
  split; [apply (union_spec_partial W d); assumption|]. split; [assumption|].
  split; [eapply sorted_nodup; eassumption|].
  intro m. rewrite C, in_concat. split.
  - intros (l & Hl & Hm). apply in_map_iff in Hl. destruct Hl as (o & <- & Ho). exists o. split; assumption.
  - intros (o & Ho & Hm). exists (items o). split; [apply in_map; assumption | assumption].
Qed.
Print Assumptions union_result_partial.

(* union laws (commutative, associative, idempotent) for the code's Union *)
Theorem union_laws_partial : forall W d A B C,
  operands_ok W d [A; B; C] = true ->
  union_code W [A; B] = union_code W [B; A] /\
  (forall AB BC, union_code W [A; B] = Some AB -> union_code W [B; C] = Some BC ->
                 union_code W [AB; C] = union_code W [A; BC] /\ union_code W [AB; C] = union_code W [A; B; C]) /\
  union_code W [A; A] = union_code W [A] /\
  (forall AA, union_code W [A; A] = Some AA -> union_code W [AA; AA] = Some AA).
Proof.
  intros W d A B C H.
  assert (HA : operands_ok W d [A] = true /\ operands_ok W d [B] = true /\ operands_ok W d [C] = true).
  { unfold operands_ok in *. simpl in *. repeat rewrite andb_true_iff in *. tauto. }
  destruct HA as (HA & HB & HC).
  assert (ok2 : forall X Y, operands_ok W d [X] = true -> operands_ok W d [Y] = true -> operands_ok W d [X; Y] = true).
  { intros X Y HX HY. unfold operands_ok in *. simpl in *. repeat rewrite andb_true_iff in *. tauto. }
  assert (IA := operands_indoc W d [A] HA). assert (IB := operands_indoc W d [B] HB).
  assert (IC := operands_indoc W d [C] HC). simpl in IA, IB, IC. rewrite app_nil_r in IA, IB, IC.
  (* the result of a union is again an admissible operand *)
  assert (okU : forall ops r, operands_ok W d ops = true -> union_code W ops = Some r ->
                operands_ok W d [r] = true /\ items r = sort_dedup W (concat (map items ops))).
  { intros ops r Hok Hu. rewrite (union_spec_partial W d ops Hok) in Hu. inversion Hu; subst r. simpl.
    destruct (sort_dedup_props W d _ (operands_indoc W d ops Hok)) as (S1 & S2 & _).
    split; [|reflexivity]. unfold operands_ok. simpl. rewrite andb_true_r. apply andb_true_iff. split.
    - unfold single_document. apply forallb_forall. rewrite Forall_forall in S2. exact S2.
    - exact S1. }
  split; [|split; [|split]].
  - rewrite (union_spec_partial W d [A; B]), (union_spec_partial W d [B; A]) by (apply ok2; assumption).
    simpl. rewrite !app_nil_r. f_equal. f_equal.
    apply (sort_dedup_ext W d); try (apply Forall_app; split; assumption).
    intro m. rewrite !in_app_iff. tauto.
  - intros AB BC HAB HBC.
    destruct (okU [A; B] AB (ok2 A B HA HB) HAB) as (OAB & EAB).
    destruct (okU [B; C] BC (ok2 B C HB HC) HBC) as (OBC & EBC).
    simpl in EAB, EBC. rewrite app_nil_r in EAB, EBC.
    assert (IAB := operands_indoc W d [AB] OAB). assert (IBC := operands_indoc W d [BC] OBC).
    simpl in IAB, IBC. rewrite app_nil_r in IAB, IBC.
    destruct (sort_dedup_props W d (items A ++ items B) ltac:(apply Forall_app; split; assumption)) as (_ & _ & MAB).
    destruct (sort_dedup_props W d (items B ++ items C) ltac:(apply Forall_app; split; assumption)) as (_ & _ & MBC).
    rewrite (union_spec_partial W d [AB; C]) by (apply ok2; assumption).
    rewrite (union_spec_partial W d [A; BC]) by (apply ok2; assumption).
    rewrite (union_spec_partial W d [A; B; C]) by assumption.
    simpl. rewrite !app_nil_r. split; f_equal; f_equal.
    + apply (sort_dedup_ext W d); try (apply Forall_app; split; assumption).
      intro m. rewrite !in_app_iff, EAB, EBC, MAB, MBC, !in_app_iff. tauto.
    + apply (sort_dedup_ext W d); try (repeat (apply Forall_app; split); assumption).
      intro m. rewrite !in_app_iff, EAB, MAB, !in_app_iff. tauto.
  - rewrite (union_spec_partial W d [A; A]) by (apply ok2; assumption).
    rewrite (union_spec_partial W d [A]) by assumption. simpl. rewrite !app_nil_r. f_equal. f_equal.
    apply (sort_dedup_ext W d); try (apply Forall_app; split); try assumption.
    intro m. rewrite !in_app_iff. tauto.
  - intros AA HAA. destruct (okU [A; A] AA (ok2 A A HA HA) HAA) as (OAA & EAA).
    assert (IAA := operands_indoc W d [AA] OAA). simpl in IAA. rewrite app_nil_r in IAA.
    rewrite (union_spec_partial W d [AA; AA]) by (apply ok2; assumption). simpl. rewrite app_nil_r.
    pose proof HAA as HAA'. rewrite (union_spec_partial W d [A; A]) in HAA' by (apply ok2; assumption).
    inversion HAA'. subst AA. simpl in *. f_equal. f_equal.
    rewrite <- (sort_dedup_sorted W d (sort_dedup W (items A ++ items A ++ []))) at 3.
    + apply (sort_dedup_ext W d); try (apply Forall_app; split); try assumption.
      intro m. rewrite !in_app_iff. tauto.
    + assumption.
    + destruct (sort_dedup_props W d (items A ++ items A ++ [])) as (S1 & _ & _); [|exact S1].
      rewrite app_nil_r. apply Forall_app; split; assumption.
Qed.
Print Assumptions union_laws_partial.

(* ---- 5. the order flag: reverse() keeps an honest flag honest *)
Theorem reverse_keeps_flag_honest : forall W l, honest W l = true -> honest W (nl_reverse l) = true.
Proof.
  intros W [l o] H. unfold honest, nl_reverse in *. simpl in *. destruct o; simpl; try assumption.
  rewrite rev_involutive. assumption.
Qed.
Print Assumptions reverse_keeps_flag_honest.

(* ... and so does setNode(i, 0) + clearNulls() (the flag is dropped when the list becomes empty) *)
Theorem nullClear_keeps_flag_honest : forall W l ps, honest W l = true -> honest W (nl_nullClear l ps) = true.
Proof. exact nullClear_keeps_flag_honest_lemma. Qed.
Print Assumptions nullClear_keeps_flag_honest.

(* ---- 6. flag_trust_sound, partial: the producers of XPath.cpp for eight axes (child, attribute, parent, self,
        ancestor, ancestor-or-self, following-sibling, preceding-sibling), with any node test, deliver valid nodes
        and set eDocumentOrder / eReverseDocumentOrder only on lists that are in that order; the end of
        XPath::step turns a reverse-order list into a document-order one.  Guard = the list of modelled producers
        (findDescendants, findFollowing, findPreceeding, findNamespace are not modelled). *)
Theorem flag_trust_sound_partial : forall t test ctx, valid t ctx = true ->
  forall P, In P producers ->
    honest_produced t (P t test ctx) = true /\
    snd (step_finish (P t test ctx)) = DocOrder /\ honest_produced t (step_finish (P t test ctx)) = true.
Proof.
  intros t test ctx Hc P HP. pose proof (producers_honest t test ctx Hc P HP) as H. split; [exact H|].
  apply step_finish_doc_order; [exact H|]. unfold producers in HP. simpl in HP.
  destruct HP as [<-|[<-|[<-|[<-|[<-|[<-|[<-|[<-|[]]]]]]]]]; discriminate.
Qed.
Print Assumptions flag_trust_sound_partial.

(* ---- 7. document(): the producer is an insertion history (translator fact), so for any references - repeated,
        non-adjacent, with fragment identifiers, over any documents - the result has no node twice, keeps each
        document's nodes together, is sorted inside each document, holds exactly the resolved nodes, and its
        document-order flag is honest (so unions of document() results are covered by union_multi_document) *)
Theorem document_function_sound : forall W refs, forallb (wvalid W) refs = true ->
  exists r, functionDocument W refs = Some (NL r DocOrder) /\ honest_multi W (NL r DocOrder) = true /\
            forallb (wvalid W) r = true /\ NoDup r /\ groupedb (map fst r) = true /\ (forall m, In m r <-> In m refs).
Proof.
  intros W refs H. unfold functionDocument. change document_function_inserts_in_doc_order with true. cbv iota.
  destruct (add_history_multi_document W refs [] H eq_refl eq_refl) as (r & E & G & N & Gr & _ & I).
  assert (V : forallb (wvalid W) r = true).
  { apply forallb_forall. intros m Hm. apply I in Hm. destruct Hm as [[]|Hm]. rewrite forallb_forall in H. auto. }
  exists r. rewrite E. unfold honest_multi. simpl. repeat split; try assumption.
  - intro Hm. apply I in Hm. destruct Hm as [[]|Hm]. exact Hm.
  - intro Hm. apply I. right. exact Hm.
Qed.
Print Assumptions document_function_sound.

(* ---- non-vacuity: the hypotheses are satisfiable, on an indexed and on a non-indexed document *)
Definition T1 : tree := Node 0 [Node 2 [Node 0 []; Node 1 [Node 0 []]; Node 0 []]].
Definition Wi : world := [(T1, true)].
Definition Wn : world := [(T1, false)].
Definition e_a1 : lnode := (0, [SA 1; SC 0]).
Definition e_c0 : lnode := (0, [SC 0; SC 0]).
Definition e_ca : lnode := (0, [SA 0; SC 1; SC 0]).
Definition e_c2 : lnode := (0, [SC 2; SC 0]).
Definition e_doc : lnode := (0, []).

Example hypotheses_satisfiable_indexed :
  single_document Wi 0 [e_a1; e_ca; e_c2] = true /\ sorted Wi [e_a1; e_ca; e_c2] = true /\ in_doc Wi 0 e_c0 = true /\
  addNodeInDocOrder Wi [e_a1; e_ca; e_c2] e_c0 = Some [e_a1; e_c0; e_ca; e_c2] /\
  addNodeInDocOrder Wi [e_a1; e_ca; e_c2] e_doc = Some [e_doc; e_a1; e_ca; e_c2].
Proof. vm_compute. repeat split. Qed.

Example hypotheses_satisfiable_nonindexed :
  single_document Wn 0 [e_a1; e_ca; e_c2] = true /\ sorted Wn [e_a1; e_ca; e_c2] = true /\ in_doc Wn 0 e_c0 = true /\
  addNodeInDocOrder Wn [e_a1; e_ca; e_c2] e_c0 = Some [e_a1; e_c0; e_ca; e_c2] /\
  addNodeInDocOrder Wn [e_a1; e_ca; e_c2] e_doc = Some [e_doc; e_a1; e_ca; e_c2] /\
  isNodeAfter_struct T1 (snd e_ca) (snd e_c0) = true /\ isNodeAfter_struct T1 (snd e_a1) (snd e_c0) = false.
Proof. vm_compute. repeat split. Qed.

Example producers_example :
  findAncestorsOrSelf T1 (fun _ => true) (snd e_ca) = ([[SA 0; SC 1; SC 0]; [SC 1; SC 0]; [SC 0]; []], RevOrder) /\
  findPreceedingSiblings T1 (fun _ => true) (snd e_c2) = ([[SC 1; SC 0]; [SC 0; SC 0]], RevOrder) /\
  step_finish (findPreceedingSiblings T1 (fun _ => true) (snd e_c2)) = ([[SC 0; SC 0]; [SC 1; SC 0]], DocOrder) /\
  findChildren T1 (fun n => negb (rnode_eqb n [SC 1; SC 0])) [SC 0] = ([[SC 0; SC 0]; [SC 2; SC 0]], DocOrder).
Proof. vm_compute. repeat split. Qed.

Example document_function_example :
  functionDocument W2 [(0, []); y1; (0, []); x0; (1, []); z0] = Some (NL [(0, []); x0; z0; (1, []); y1] DocOrder).
Proof. vm_compute. reflexivity. Qed.

Example union_operands_satisfiable :
  operands_ok Wi 0 [NL [e_c2; e_a1] Unknown; NL [e_ca; e_c0] RevOrder; NL [e_a1; e_c2] DocOrder] = true /\
  union_code Wi [NL [e_c2; e_a1] Unknown; NL [e_ca; e_c0] RevOrder]
    = Some (NL [e_a1; e_c0; e_ca; e_c2] DocOrder).
Proof. vm_compute. repeat split. Qed.
