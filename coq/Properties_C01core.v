(* Properties_C01core.v - C01, the whole-interpreter piece: for the core instruction language of
   XsltCoreDefs.v (literal result elements with attribute value templates, text, value-of, if, choose,
   for-each with sort, apply-templates with mode / sort / with-params, call-template with with-params,
   variable / with-param holding a value or a result tree fragment, param with a select default, copy,
   copy-of, attribute with a literal name), the implementation-shaped interpreter - Xalan-C's iterative
   execution loop with its explicit stacks (element/invoker stack, nodes-to-transform / context-node-list /
   current-node stacks, mode stack, params-vector stack, the VariablesStack of XsltVarsDefs.v, the formatter
   stack over the pending-start-tag machine of XsltEventsDefs.v) - computes exactly the result tree of the
   denotational semantics, for ALL programs, source trees, nestings and depths. XPath evaluation, sorting,
   template selection and node copies are abstract (a record [mech]); [mech_ok] is all that is assumed of them.
   Nothing here but statements closed by [exact] and their assumptions. *)
From Coq Require Import List NArith Bool Arith.
Require Import XV.XsltEventsDefs XV.XsltVarsDefs XV.XsltVarsModel XV.XsltCoreDefs XV.XsltCoreModel XV.XsltCoreSim.
Require Import XV.GenXslt XV.XsltCoreExamples.
Import ListNotations.

(* ---- the refinement ---- *)

(* If the semantics defines the transformation (fuel f suffices and the stylesheet has no error), the machine
   started as StylesheetRoot::process starts it stops after some k loop steps - and stays stopped with any
   larger fuel - and the formatter of the main result tree has received exactly the tree of the items. *)
Theorem machine_refines_sem : forall m, mech_ok m -> forall f root items,
  SemMain m f root = Some items ->
  exists k s, (forall j, MachineMain m (k + j) root = Done s) /\ result_tree s = Some (result_of items).
Proof. exact machine_refines_sem_pkg. Qed.
Print Assumptions machine_refines_sem.

(* conversely: whenever the machine stops, what it built is the tree the semantics defines *)
Theorem machine_result_is_sem_result : forall m, mech_ok m -> forall f root items n s',
  SemMain m f root = Some items -> MachineMain m n root = Done s' -> result_tree s' = Some (result_of items).
Proof. exact machine_deterministic_pkg. Qed.
Print Assumptions machine_result_is_sem_result.

(* more fuel never changes a defined result (None = out of fuel or an error of the stylesheet) *)
Theorem sem_fuel_monotone : forall m f f' wp c i en r,
  f <= f' -> Sem m f wp c i en = Some r -> Sem m f' wp c i en = Some r.
Proof. exact sem_fuel_mono_pkg. Qed.
Print Assumptions sem_fuel_monotone.

Theorem sem_main_fuel_monotone : forall m f f' root items,
  SemMain m f root = Some items -> f <= f' -> SemMain m f' root = Some items.
Proof. exact sem_main_fuel_mono_pkg. Qed.
Print Assumptions sem_main_fuel_monotone.

(* ---- every combination and nesting: the simulation invariant ---- *)

(* ANY instruction, started in ANY machine state whose VariablesStack represents the bindings in scope (whatever
   lies on the element, node-list, mode, if and params stacks below), runs to the point where its invoker is
   asked for the next child having emitted exactly the events of its items, with every stack restored and only
   the variables it declares added on top of the frame (Sim = XsltCoreSim.SimI). *)
Theorem every_instruction_in_every_context : forall m, mech_ok m -> forall f, Sim m f.
Proof. exact sim_all_pkg. Qed.
Print Assumptions every_instruction_in_every_context.

(* the result of a sequence of siblings is the concatenation, in order *)
Theorem sibling_sequence_is_concatenation : forall m, mech_ok m -> forall f body wp n l md en items,
  sem_seq (Sem m f wp (cxof n l md)) body en = Some items ->
  forall p stk nodes cnl cur modes ifs pvs store o F R benv wpb,
    GoodR F R -> Fr true F benv wpb -> Res store benv en ->
  exists k store' V,
    Run_ m k CNext (mkM ((p, body, false) :: stk) nodes (l :: cnl) (n :: cur) (md :: modes) ifs pvs (VS F R) store o)
    = Run CNext (mkM ((p, [], false) :: stk) nodes (l :: cnl) (n :: cur) (md :: modes) ifs pvs (VS (V ++ F) R) store' (emit (ops_of items) o))
    /\ Forall is_varE V /\ (exists ext, store' = store ++ ext) /\ (has_decl body = false -> V = []).
Proof. exact seq_pkg. Qed.
Print Assumptions sibling_sequence_is_concatenation.

(* xsl:for-each = the concatenation over the selected nodes in order, with position and size set; the variables of
   one iteration are gone before the next (one element frame per iteration); the node-list stack ends exhausted *)
Theorem for_each_is_concatenation_over_nodes : forall m, mech_ok m -> forall f e srt body wp md en sl, NoDup sl ->
  forall rest n1 done items, sl = done ++ n1 :: rest ->
    each (fun n pos => sem_seq (Sem m f wp (mkC n pos (N.of_nat (length sl)) md)) body en) (n1 :: rest) (N.of_nat (S (length done))) = Some items ->
  forall stk nodes cnl cur modes ifs pvs store o F R benv wpb,
    GoodR F R -> Fr true F benv wpb -> Res store benv en ->
  exists k store' v1 nl,
    Run_ m k CNext (mkM ((IForEach e srt body, body, false) :: stk) (rest :: nodes) (sl :: cnl) (n1 :: cur) (md :: modes) ifs pvs (begin_children body (VS F R)) store o)
    = Run CNext (mkM ((IForEach e srt body, [], false) :: stk) ([] :: nodes) (sl :: cnl) (nl :: cur) (md :: modes) ifs pvs v1 store' (emit (ops_of items) o))
    /\ end_children body v1 = Some (VS F R) /\ (exists ext, store' = store ++ ext).
Proof. exact foreach_pkg. Qed.
Print Assumptions for_each_is_concatenation_over_nodes.

(* a called / applied template sees its params bound and none of the caller's locals: the instance runs against the
   frame Fp of the passed params only; the caller's frames R under the context marker are arbitrary and unchanged;
   afterwards the params are deactivated again (TF) for the instance of the next node *)
Theorem template_instance_sees_params_only : forall m, mech_ok m -> forall f pv n l md t items,
  SemTmpl m (Sem m f) pv (cxof n l md) t = Some items ->
  exists tmi, get_template (mc_program m) t = Some tmi /\
  forall stk nodes cnl cur modes ifs pvs store o Fp R wpb,
    GoodR Fp R -> TF true Fp wpb -> Res store wpb pv ->
  exists k store' Fp',
    Run_ m k (CStart tmi) (mkM stk nodes (l :: cnl) (n :: cur) (md :: modes) ifs pvs (VS Fp R) store o)
    = Run CNext (mkM stk nodes (l :: cnl) (n :: cur) (md :: modes) ifs pvs (VS Fp' R) store' (emit (ops_of items) o))
    /\ TF true Fp' wpb /\ GoodR Fp' R /\ Res store' wpb pv /\ (exists ext, store' = store ++ ext).
Proof. exact tmpl_pkg. Qed.
Print Assumptions template_instance_sees_params_only.

(* a variable's result tree fragment is the tree of the items of its body evaluated at binding time, built on a
   formatter of its own: the enclosing output target o is untouched *)
Theorem fragment_is_body_at_binding_time : forall m, mech_ok m -> forall f i body wp n l md en its, binder i ->
  sem_seq (Sem m f wp (cxof n l md)) body en = Some its ->
  forall stk nodes cnl cur modes ifs pvs store o F R benv wpb,
    GoodR F R -> Fr true F benv wpb -> Res store benv en ->
  exists k store' v1 e1,
    Run_ m k CNext (mkM ((i, body, false) :: stk) nodes (l :: cnl) (n :: cur) (md :: modes) ifs pvs (begin_children body (VS F R)) store (e_init :: o))
    = Run (CEnd i) (mkM stk nodes (l :: cnl) (n :: cur) (md :: modes) ifs pvs v1 store' (e1 :: o))
    /\ end_children body v1 = Some (VS F R) /\ pop_rtf (e1 :: o) = Some (spec_tree false its, o)
    /\ (exists ext, store' = store ++ ext).
Proof. exact rtf_pkg. Qed.
Print Assumptions fragment_is_body_at_binding_time.

(* ---- tie: the shapes this machine mirrors are the ones the source has (GenXslt.v is regenerated from /repo on
   every run by translator/gen_xslt.py; a change of any of them breaks this proof) ---- *)
Theorem core_machine_shapes_as_in_source :
  src_execute_loop_as_modelled = true /\
  src_default_invoker_is_parent_next_is_sibling = true /\
  src_children_frame_iff_has_variables = true /\
  src_foreach_renews_frame_per_node = true /\
  src_call_template_marker_then_params = true /\
  src_apply_templates_marker_then_params = true /\
  src_param_default_only_when_not_passed = true /\
  src_params_reset_when_template_frame_popped = true /\
  src_find_entry_activates_param = true /\
  src_initial_template_has_root_node_list = true /\
  src_value_of_dot_skips_empty_string = true /\
  src_copy_of_skips_empty_string = true /\
  src_attribute_guarded = true /\
  src_start_flushes_first = true.
Proof. exact (conj eq_refl (conj eq_refl (conj eq_refl (conj eq_refl (conj eq_refl (conj eq_refl (conj eq_refl
        (conj eq_refl (conj eq_refl (conj eq_refl (conj eq_refl (conj eq_refl (conj eq_refl eq_refl))))))))))))). Qed.
Print Assumptions core_machine_shapes_as_in_source.

(* ---- non-vacuity (XsltCoreExamples.v): a concrete instantiation satisfying mech_ok and a program nesting for-each in
   for-each, call-template with params (one holding a result tree fragment, one not declared by the callee, one
   defaulted), a fragment variable per iteration used through copy-of and value-of, choose, copy with an attribute,
   apply-templates with a mode and a with-param ---- *)
Example example_mechanisms_ok : mech_ok ex_mech.
Proof. exact ex_mech_ok. Qed.
Print Assumptions example_mechanisms_ok.

(* both sides computed on the example (the out-of-fuel case is visible too: fuel 5 is not enough) *)
Example example_both_sides_compute :
  option_map result_of (SemMain ex_mech 12 0%N) = Some ex_tree /\
  (match MachineMain ex_mech 400 0%N with Done s => result_tree s | _ => None end) = Some ex_tree /\
  SemMain ex_mech 5 0%N = None.
Proof. exact ex_both_sides. Qed.
Print Assumptions example_both_sides_compute.

(* the hypotheses of machine_refines_sem are satisfiable on it *)
Example example_theorem_applies :
  exists k s, (forall j, MachineMain ex_mech (k + j) 0%N = Done s) /\ result_tree s = Some ex_tree.
Proof. exact ex_theorem_applies. Qed.
Print Assumptions example_theorem_applies.
