// Correspondence driver of the part "codepoints" of C02: the length counter that string-length() uses
// (XPath/FormatterStringLengthCounter), fed a string-value in several characters() events.
//
//   <id>|cnt|<u16 token>;<u16 token>;...     one characters() event per token ("u:" = an event of length 0)
// Output: <id>|<n>   n = getCharacterCount() when the class has it (the repaired tree: characters, a surrogate
//                    pair split between two events is one), getCount() otherwise (UTF-16 code units)
// Unpaired surrogates at the borders of events cannot come from a parsed document; this driver reaches the
// carry between events directly.
#include "common.hpp"
#include <xalanc/XPath/FormatterStringLengthCounter.hpp>

using namespace xalanc;
using namespace verif;

template <class T>
static auto count_of(const T& c, int) -> decltype(c.getCharacterCount()) { return c.getCharacterCount(); }
template <class T>
static FormatterListener::size_type count_of(const T& c, long) { return c.getCount(); }

int main(int argc, char** argv)
{
    Init init;
    std::istream* in = &std::cin;
    std::ifstream f;
    if (argc > 1) { f.open(argv[1]); in = &f; }
    std::string line;
    while (std::getline(*in, line)) {
        if (line.empty() || line[0] == '#') continue;
        std::vector<std::string> fs;
        size_t i = 0;
        for (;;) {
            size_t j = line.find('|', i);
            fs.push_back(line.substr(i, j == std::string::npos ? std::string::npos : j - i));
            if (j == std::string::npos) break;
            i = j + 1;
        }
        if (fs.size() < 3 || fs[1] != "cnt") continue;
        FormatterStringLengthCounter counter;
        size_t k = 0;
        const std::string& a = fs[2];
        while (k <= a.size()) {
            size_t j = a.find(';', k);
            if (j == std::string::npos) j = a.size();
            const std::string t = a.substr(k, j - k);
            if (!t.empty()) {
                const XalanDOMString s = u16_of_token(t);
                counter.characters(s.c_str(), s.length());
            }
            k = j + 1;
        }
        std::cout << fs[0] << '|' << (unsigned long) count_of(counter, 0) << '\n';
    }
    return 0;
}
