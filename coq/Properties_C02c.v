(* C02, part "compiler": "operator precedence and left associativity ... Strings that are not XPath expressions are
   rejected with an error" — theorems about the Gallina model of XPathProcessorImpl's tokenizer and recursive-descent
   compiler (XpcLexDefs.v, XpcParseDefs.v: the C++ function by function, tables and limits from GenXpc.v, regenerated
   from /repo on every run).  Trees are the op-map-shaped XpAst.expr: parentheses are nodes (EGroup), so a tree is
   CANONICAL (XpcPrintDefs.canon) when every operand binds at least as tightly as its position requires without one.
   No axioms. *)
From Coq Require Import List NArith Bool Arith Lia.
Import ListNotations.
Require Import XV.XpAst XV.GenXpc XV.XpcLexDefs XV.XpcParseDefs XV.XpcPrintDefs XV.XpcPrintFacts
               XV.XpcFuelModel XV.XpcPrintModel XV.XpcExtraModel.

(* ---- totality -------------------------------------------------------------------------------------------- *)
(* the parser's fuel (number of tokens + 1) is never exhausted, whatever the token queue *)
Theorem parse_fuel_sufficient : forall fl ns ts, parse fl ns ts <> Fuel.
Proof. exact parse_fuel_sufficient_m. Qed.
Print Assumptions parse_fuel_sufficient.

(* tokenizer (one character per step, structural) + parser: every string is compiled or refused *)
Theorem compile_total : forall fl ns s, compile fl ns s <> Fuel.
Proof. exact compile_total_m. Qed.
Print Assumptions compile_total.

(* no function of the parser lengthens the queue *)
Theorem expr_never_lengthens_queue : forall fl ns n d ts e r, p_expr fl ns n d ts = Ok (e, r) -> length r <= length ts.
Proof. intros fl ns n d ts e r H. exact (proj1 (p_expr_both fl ns n d ts) e r H). Qed.
Print Assumptions expr_never_lengthens_queue.

(* ---- precedence and associativity: the round trip ---------------------------------------------------------- *)
(* in every variant fl of the three repairs (fixes/C02c): for EVERY canonical tree within the nesting limit, compiling its printed tokens gives the tree back: operands of
   = != < <= > >= + - * div mod nest to the LEFT, of or / and to the RIGHT (as the code compiles them), '|' is n-ary,
   unary minus binds tighter than every binary operator and looser than '|', predicates / steps / filter heads /
   function arguments are attached where the grammar puts them *)
Theorem parse_print : forall fl ns e, canon e = true -> S (idepth e) <= gen_xpc_max_nesting -> parse fl ns (pr e) = Ok e.
Proof. exact parse_print_m. Qed.
Print Assumptions parse_print.

(* the same inside a larger queue: Expr() stops exactly at the closing token *)
Theorem expr_print_stops_at_follow : forall fl ns e n d rest, canon e = true ->
  length (pr e ++ rest) < n -> S d + idepth e <= gen_xpc_max_nesting -> follow rest = true ->
  p_expr fl ns n d (pr e ++ rest) = Ok (e, rest).
Proof. intros fl ns e n d rest Hc. exact (p_expr_rt fl ns (S (expr_size e)) e (Nat.lt_succ_diag_r _) Hc n d rest). Qed.
Print Assumptions expr_print_stops_at_follow.

(* unambiguity: two different canonical trees never have the same tokens *)
Theorem print_injective : forall e1 e2, canon e1 = true -> canon e2 = true ->
  S (idepth e1) <= gen_xpc_max_nesting -> S (idepth e2) <= gen_xpc_max_nesting -> pr e1 = pr e2 -> e1 = e2.
Proof. exact print_injective_m. Qed.
Print Assumptions print_injective.

(* the hypotheses are satisfiable, and say what they should *)
Local Open Scope N_scope.
Definition num (c : N) : expr := ENumLit [c].
Definition nm (c : N) : expr := EPath None [] [(AxChild, TName NsEmpty (Some [c]), [])].
Definition nm_s (s : str) : expr := EPath None [] [(AxChild, TName NsEmpty (Some s), [])].
(* 1 - 2 - 3  is canonical as (1 - 2) - 3 ... *)
Example canon_left_nested : canon (EMinus (EMinus (num 49) (num 50)) (num 51)) = true.
Proof. vm_compute. reflexivity. Qed.
(* ... and NOT as 1 - (2 - 3): that tree needs an explicit group *)
Example not_canon_right_nested : canon (EMinus (num 49) (EMinus (num 50) (num 51))) = false.
Proof. vm_compute. reflexivity. Qed.
Example canon_with_group : canon (EMinus (num 49) (EGroup (EMinus (num 50) (num 51)))) = true.
Proof. vm_compute. reflexivity. Qed.
(* a * b + c : the product may be the left operand of the sum, the sum not an operand of the product *)
Example canon_precedence : canon (EPlus (EMult (nm 97) (nm 98)) (nm 99)) = true /\ canon (EMult (nm 97) (EPlus (nm 98) (nm 99))) = false.
Proof. vm_compute. split; reflexivity. Qed.
(* or / and nest to the right in this compiler *)
Example canon_or_right : canon (EOr (nm 97) (EOr (nm 98) (nm 99))) = true /\ canon (EOr (EOr (nm 97) (nm 98)) (nm 99)) = false.
Proof. vm_compute. split; reflexivity. Qed.
(* - a | b  is  -(a | b) *)
Example canon_neg_union : canon (ENeg (EUnion [nm 97; nm 98])) = true /\ canon (EUnion [ENeg (nm 97); nm 98]) = false.
Proof. vm_compute. split; reflexivity. Qed.
(* a filter expression with predicate and steps, a call with arguments, a positional predicate *)
Example canon_filter_path :
  canon (EPath (Some (EFunc [105; 100] [ELiteral [120]])) [(false, num 49)] [(AxDescendantOrSelf, TNode, []); (AxChild, TName NsEmpty (Some [99]), [(true, EEq (EFunc [112;111;115;105;116;105;111;110] []) (num 50))])]) = true.
Proof. vm_compute. reflexivity. Qed.
(* the tokens of "1 - 2 - 3" really compile to the left-nested tree (a test of the model, not a theorem) *)
Example compile_1_minus_2_minus_3 :
  compile_here (fun _ => None) [49; 32; 45; 32; 50; 32; 45; 32; 51] = Ok (EMinus (EMinus (num 49) (num 50)) (num 51)).
Proof. vm_compute. reflexivity. Qed.
(* "/ * 2" is the path /child::* followed by a stray token (3.7), not a product: hence ends_root in canon *)
Example root_star : compile_here (fun _ => None) [47; 32; 42; 32; 50] = Err /\ canon (EMult (EPath None [] [(AxRoot, TRoot, [])]) (num 50)) = false.
Proof. vm_compute. split; reflexivity. Qed.
(* the nesting limit is the one of the source *)
Example nesting_limit : gen_xpc_max_nesting = 1024%nat.
Proof. reflexivity. Qed.


(* ---- the generated tables are the Recommendation's ----------------------------------------------------------- *)
(* s_axisTable (GenXpc.gen_xpc_axis_table) maps the thirteen AxisNames of XPath 1.0 [6] to their axes and nothing else *)
Theorem axis_table_is_the_recommendations :
  map (fun p => axis_of_name (fst p)) [([97; 110; 99; 101; 115; 116; 111; 114], 0); ([97; 110; 99; 101; 115; 116; 111; 114; 45; 111; 114; 45; 115; 101; 108; 102], 0); ([97; 116; 116; 114; 105; 98; 117; 116; 101], 0); ([99; 104; 105; 108; 100], 0); ([100; 101; 115; 99; 101; 110; 100; 97; 110; 116], 0); ([100; 101; 115; 99; 101; 110; 100; 97; 110; 116; 45; 111; 114; 45; 115; 101; 108; 102], 0); ([102; 111; 108; 108; 111; 119; 105; 110; 103], 0); ([102; 111; 108; 108; 111; 119; 105; 110; 103; 45; 115; 105; 98; 108; 105; 110; 103], 0); ([112; 97; 114; 101; 110; 116], 0); ([112; 114; 101; 99; 101; 100; 105; 110; 103], 0); ([112; 114; 101; 99; 101; 100; 105; 110; 103; 45; 115; 105; 98; 108; 105; 110; 103], 0); ([115; 101; 108; 102], 0); ([110; 97; 109; 101; 115; 112; 97; 99; 101], 0)] =
  [Some AxAncestor; Some AxAncestorOrSelf; Some AxAttribute; Some AxChild; Some AxDescendant; Some AxDescendantOrSelf; Some AxFollowing; Some AxFollowingSibling; Some AxParent; Some AxPreceding; Some AxPrecedingSibling; Some AxSelf; Some AxNamespace] /\ length gen_xpc_axis_table = 13%nat.
Proof. vm_compute. split; reflexivity. Qed.
Print Assumptions axis_table_is_the_recommendations.
(* NodeType [38], the operator names and the abbreviations *)
Theorem keyword_tables_are_the_recommendations :
  map ntype_of_name [[99; 111; 109; 109; 101; 110; 116]; [116; 101; 120; 116]; [112; 114; 111; 99; 101; 115; 115; 105; 110; 103; 45; 105; 110; 115; 116; 114; 117; 99; 116; 105; 111; 110]; [110; 111; 100; 101]] = [Some NtComment; Some NtText; Some NtPi; Some NtNode] /\
  length gen_xpc_nodetype_table = 4%nat /\
  gen_xpc_kw_or = [111; 114] /\ gen_xpc_kw_and = [97; 110; 100] /\ gen_xpc_kw_div = [100; 105; 118] /\ gen_xpc_kw_mod = [109; 111; 100] /\
  gen_xpc_kw_dot = [46] /\ gen_xpc_kw_dotdot = [46; 46] /\ gen_xpc_kw_axis_sep = [58; 58].
Proof. vm_compute. repeat split; reflexivity. Qed.
Print Assumptions keyword_tables_are_the_recommendations.

(* ---- the three repairs of fixes/C02c: repaired variant, unrepaired variant, this tree --------------------------------- *)
(* Every definition of the model takes the variant fl (XpcLexDefs.flags); flags_here is what translator/gen_xpc.py
   recognised in the source of this run (the three gen_xpc_fix flags), flags_before = no repair, flags_fixed = all three. *)

(* (1) "Strings that are not XPath expressions are rejected": NodeTest() is the only producer of a name test; repaired,
   an unprefixed name that it accepts is an NCName (the local part of a prefixed one is checked by mapNSTokens) *)
Theorem name_test_is_ncname : forall fl ns ts q n r, fx_name fl = true ->
  p_nodetest fl ns ts = Ok (TName q (Some n), r) -> valid_ncname n = true.
Proof. intros fl ns ts q n r F H. exact (proj2 (nodetest_name_guard_m fl ns ts q n r H) F). Qed.
Print Assumptions name_test_is_ncname.
(* unrepaired, only the first character is tested (isNodeTest) ... *)
Theorem name_test_first_char_partial : forall fl ns ts q n r,
  p_nodetest fl ns ts = Ok (TName q (Some n), r) -> is_nodetest_tok n = true.
Proof. intros fl ns ts q n r H. exact (proj1 (nodetest_name_guard_m fl ns ts q n r H)). Qed.
Print Assumptions name_test_first_char_partial.
(* ... and a#b compiles as the name test 'a#b' *)
Theorem name_test_is_ncname_before_fix_witness :
  exists s n, compile flags_before (fun _ => None) s = Ok (EPath None [] [(AxChild, TName NsEmpty (Some n), [])]) /\ valid_ncname n = false.
Proof. exists [97; 35; 98], [97; 35; 98]. vm_compute. split; reflexivity. Qed.
Print Assumptions name_test_is_ncname_before_fix_witness.
Theorem name_test_is_ncname_after_fix_example : compile flags_fixed (fun _ => None) [97; 35; 98] = Err.
Proof. vm_compute. reflexivity. Qed.
Theorem name_test_is_ncname_this_tree :
  if fx_name flags_here
  then forall ns ts q n r, p_nodetest flags_here ns ts = Ok (TName q (Some n), r) -> valid_ncname n = true
  else exists s n, compile_here (fun _ => None) s = Ok (EPath None [] [(AxChild, TName NsEmpty (Some n), [])]) /\ valid_ncname n = false.
Proof.
  destruct (fx_name flags_here) eqn:E.
  - intros ns ts q n r. exact (name_test_is_ncname flags_here ns ts q n r E).
  - first [ vm_compute in E; discriminate E | exists [97; 35; 98], [97; 35; 98]; vm_compute; split; reflexivity ].
Qed.
Print Assumptions name_test_is_ncname_this_tree.

(* (2) repaired tokenizer: outside a name, a '.' that is not followed by a digit or another '.' is pushed as the token "."
   WHATEVER follows (an operator name, '-', a letter), and '..' as the token ".." *)
Theorem dot_before_operator_compiles : forall fl ns s prev acc, fx_dot fl = true ->
  match s with [] => True | c :: _ => num_digit fl c = false /\ c <> ch_fullstop end ->
  lex fl ns (ch_fullstop :: s) prev acc MIdle = lex fl ns s (ch_fullstop :: prev) ([ch_fullstop] :: acc) MIdle.
Proof. exact dot_token_m. Qed.
Print Assumptions dot_before_operator_compiles.
Theorem dotdot_is_a_token : forall fl ns s prev acc, fx_dot fl = true ->
  lex fl ns (ch_fullstop :: ch_fullstop :: s) prev acc MIdle =
  lex fl ns s (ch_fullstop :: ch_fullstop :: prev) ([ch_fullstop; ch_fullstop] :: acc) MIdle.
Proof. exact dotdot_token_m. Qed.
Print Assumptions dotdot_is_a_token.
(* ".div 2" = ". div 2", "..-1" = ".. - 1"; names and numbers keep their dots *)
Theorem dot_before_operator_after_fix_examples :
  compile flags_fixed (fun _ => None) [46; 100; 105; 118; 32; 50] = compile flags_fixed (fun _ => None) [46; 32; 100; 105; 118; 32; 50] /\
  compile flags_fixed (fun _ => None) [46; 100; 105; 118; 32; 50] = Ok (EDiv (EPath None [] [(AxSelf, TNode, [])]) (num 50)) /\
  compile flags_fixed (fun _ => None) [46; 46; 45; 49] = Ok (EMinus (EPath None [] [(AxParent, TNode, [])]) (num 49)) /\
  compile flags_fixed (fun _ => None) [97; 46; 45; 53] = Ok (nm_s [97; 46; 45; 53]) /\
  tokenize flags_fixed (fun _ => None) [46; 53; 32; 53; 46; 32; 97; 46; 98] = Ok [[46; 53]; [53; 46]; [97; 46; 98]].
Proof. vm_compute. repeat split; reflexivity. Qed.
Theorem dot_before_operator_before_fix_witness :
  compile flags_before (fun _ => None) [46; 100; 105; 118; 32; 50] = Err /\
  compile flags_before (fun _ => None) [46; 32; 100; 105; 118; 32; 50] = Ok (EDiv (EPath None [] [(AxSelf, TNode, [])]) (num 50)).
Proof. vm_compute. split; reflexivity. Qed.
Print Assumptions dot_before_operator_before_fix_witness.
Theorem dot_before_operator_this_tree :
  if fx_dot flags_here
  then compile_here (fun _ => None) [46; 100; 105; 118; 32; 50] = Ok (EDiv (EPath None [] [(AxSelf, TNode, [])]) (num 50))
  else compile_here (fun _ => None) [46; 100; 105; 118; 32; 50] = Err.
Proof. vm_compute. reflexivity. Qed.
Print Assumptions dot_before_operator_this_tree.

(* (3) repaired number test: PrimaryExpr() takes a token for a number only if it starts with '0'..'9' or '.' '0'..'9' *)
Theorem number_is_ascii_digits : forall fl ts, fx_digit fl = true -> primary_kind fl ts = PkNumber -> num_tok_ok (cur_tok ts) = true.
Proof. exact number_ascii_m. Qed.
Print Assumptions number_is_ascii_digits.
Theorem number_is_ascii_digits_after_fix_examples :
  compile flags_fixed (fun _ => None) [1633] = Err /\ compile flags_fixed (fun _ => None) [49; 1633] = Err /\
  compile flags_fixed (fun _ => None) [46; 1633] = Err /\ compile flags_fixed (fun _ => None) [97; 1633] = Ok (nm_s [97; 1633]).
Proof. vm_compute. repeat split; reflexivity. Qed.
Theorem number_is_ascii_digits_before_fix_witness : compile flags_before (fun _ => None) [1633] = Ok (ENumLit [1633]).
Proof. vm_compute. reflexivity. Qed.
Print Assumptions number_is_ascii_digits_before_fix_witness.
Theorem number_is_ascii_digits_this_tree :
  if fx_digit flags_here then compile_here (fun _ => None) [1633] = Err else compile_here (fun _ => None) [1633] = Ok (ENumLit [1633]).
Proof. vm_compute. reflexivity. Qed.
Print Assumptions number_is_ascii_digits_this_tree.
