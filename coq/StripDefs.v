(* C13 — model of whitespace stripping as coded in xalan-c (definitions only, no proofs).

   Sources modelled (file:function):
     XSLT/StylesheetHandler.cpp : processPreserveStripSpace (one tester per token, in order)
     XPath/XPath.cpp            : NodeTester::initialize (scores of '*', 'prefix:*', QName; GenStrip),
                                  testElement*2 (what a tester matches), testText / testNode
     XSLT/Stylesheet.cpp        : addWhitespaceElement, postConstruction (imports appended), addImport
     XSLT/StylesheetRoot.{hpp,cpp}: shouldStripSourceNode, internalShouldStripSourceNode
     DOMSupport/DOMServices.cpp : doGetNodeData family (string-value through the decision)
     XSLT/XSLTEngineImpl.cpp    : cloneToResultTree (copy through the decision)

   xml:space: a whitespace text node is additionally kept when the nearest ancestor-or-parent element
   that carries an xml:space attribute says "preserve" (XSLT 1.0 section 3.4).  Every tree function
   therefore threads a KEY down: the parent's name and the inherited xml:space state ([key],
   [child_key]); the removal so modelled is the Recommendation's [rec_remove]
   (StripTreeModel: xml_space_rule_lemma; Properties_C13: xml_space_rule).
   The code (fix K-C13-1, GenStrip.consults_xml_space = true) searches UPWARDS from the parent instead
   (StylesheetRoot.cpp: isXMLSpacePreserved): StripXsDefs.v models that search, StripXsModel.v proves both agree.
   Result tree fragment nodes are exempt from the decision (GenStrip.rtf_nodes_exempt) and CDATA section nodes of a
   wrapped DOM are text for it (GenStrip.cdata_is_text_for_strip); neither is modelled here.

   Names are numbers: a qname is (namespace id, local-name id), namespace id 0 = no namespace.
   Characters are code points (N). *)
From Coq Require Import String List NArith Bool.
Import ListNotations.
Require Import XV.GenStrip.
Open Scope list_scope.

Definition qname := (N * N)%type.

(* ------------------------------------------------------------------------------------------------ *)
(* declarations *)

Inductive nametest :=
| NtAny                      (* elements="*"          *)
| NtNs (uri : N)             (* elements="p:*"        *)
| NtQ (uri : N) (local : N). (* elements="p:l" or "l" (uri 0) *)

(* XalanSpaceNodeTester: a name test and eStrip (true) / ePreserve (false) *)
Record tester := { t_test : nametest; t_strip : bool }.

(* XalanSpaceNodeTester::getMatchScore = what NodeTester::initialize returned (GenStrip) *)
Definition score (t : tester) : N :=
  match t_test t with
  | NtAny => score_any
  | NtNs _ => score_nswild
  | NtQ u _ => if N.eqb u 0 then score_ncname else score_qname
  end.

(* theTester(element) != eMatchScoreNone: testElementTotallyWild2 / NamespaceOnly2 / QName2 / NCName2 *)
Definition matches (n : qname) (t : tester) : bool :=
  match t_test t with
  | NtAny => true
  | NtNs u => N.eqb (fst n) u
  | NtQ u l => N.eqb (fst n) u && N.eqb (snd n) l
  end.

(* a stylesheet module after xsl:include has been resolved (included text is parsed into the including
   Stylesheet object): its own testers in document order, and its imports in document order *)
Inductive sheet := Sheet (own : list tester) (imports : list sheet).

(* Stylesheet::addWhitespaceElement: linear search for the first existing tester whose score the new
   one reaches (insert_before_equal) resp. exceeds; insert before it *)
Fixpoint add_ws (t : tester) (l : list tester) : list tester :=
  match l with
  | [] => [t]
  | x :: r =>
      if (if insert_before_equal then N.leb (score x) (score t) else N.ltb (score x) (score t))
      then t :: l else x :: add_ws t r
  end.

(* the testers of one Stylesheet object once its top-level elements have been processed in order *)
Definition own_list (own : list tester) : list tester :=
  fold_left (fun l t => add_ws t l) own [].

(* m_imports after the addImport calls (insert at begin: the last import comes first) *)
Definition imports_vector {A} (l : list A) : list A := if import_at_front then rev l else l.

(* Stylesheet::postConstruction: imports are post-constructed, then their tester vectors are appended,
   in m_imports order, after this stylesheet's own *)
Fixpoint post_construction (s : sheet) : list tester :=
  match s with
  | Sheet own imps => own_list own ++ concat (imports_vector (map post_construction imps))
  end.

(* internalShouldStripSourceNode on a text node whose parent is an element named n: first matching
   tester decides; no tester matches: false (preserve) *)
Definition decide (testers : list tester) (n : qname) : bool :=
  match find (matches n) testers with
  | Some t => t_strip t
  | None => false
  end.

(* StylesheetRoot::shouldStripSourceNode: m_hasStripOrPreserveSpace && isWhitespace() && internal... *)
Definition should_strip (testers : list tester) (parent : qname) (is_ws : bool) : bool :=
  match testers with
  | [] => false
  | _ => is_ws && decide testers parent
  end.

Definition sheet_strip (s : sheet) (parent : qname) : bool :=
  should_strip (post_construction s) parent true.

(* ------------------------------------------------------------------------------------------------ *)
(* the XSLT 1.0 section 3.4 rule, stated without the code's data structure.
   [postorder s]: the stylesheet modules in ascending import precedence (section 2.6.2: post-order
   traversal of the import tree).  A tester d of module `own` is the applicable match for element n
   when no module of higher precedence has a match, every match in the same module has a priority
   (score) not above d's, and every later match in the module has a strictly lower one (of several
   matches with the same precedence and priority the last is used: the Recommendation's recovery). *)
Fixpoint postorder (s : sheet) : list (list tester) :=
  match s with
  | Sheet own imps => concat (map postorder imps) ++ [own]
  end.

Definition no_match (n : qname) (own : list tester) : Prop :=
  forall d, In d own -> matches n d = false.

Definition applicable_in (n : qname) (own : list tester) (d : tester) : Prop :=
  exists o1 o2, own = o1 ++ d :: o2 /\ matches n d = true /\
    (forall d', In d' o1 -> matches n d' = true -> (score d' <= score d)%N) /\
    (forall d', In d' o2 -> matches n d' = true -> (score d' < score d)%N).

Definition applicable (s : sheet) (n : qname) (d : tester) : Prop :=
  exists lower own higher, postorder s = lower ++ own :: higher /\
    Forall (no_match n) higher /\ applicable_in n own d.

Definition nothing_applies (s : sheet) (n : qname) : Prop :=
  Forall (no_match n) (postorder s).

(* the priorities of the Recommendation: QName (0) > NCName:* (-0.25) > * (-0.5) *)
Definition rec_priorities_ordered : Prop :=
  (score_any < score_nswild)%N /\ (score_nswild < score_qname)%N /\ score_ncname = score_qname.

(* ------------------------------------------------------------------------------------------------ *)
(* source trees *)

Definition str := list N.

Inductive node :=
| Elem (name : qname) (attrs : list (qname * str)) (kids : list node)
| Text (data : str)
| Comment (data : str)
| PI (target : N) (data : str).

Definition ws_char (c : N) : bool :=
  N.eqb c 32 || N.eqb c 9 || N.eqb c 10 || N.eqb c 13.

(* XalanText::isWhitespace(): every character is XML whitespace (XalanSourceTreeTextIWS) *)
Definition text_ws (d : str) : bool := forallb ws_char d.

(* a strip predicate: the decision for whitespace text children of an element with the given name.
   [fun _ => false] = a stylesheet without declarations *)
Definition pred := qname -> bool.
Definition no_strip : pred := fun _ => false.

(* xml:space (XSLT 1.0 section 3.4): xs = the inherited xml:space state (true = preserve) *)
Definition xml_ns : N := 1.          (* namespace id reserved for http://www.w3.org/XML/1998/namespace *)
Definition space_local : N := 1.     (* local-name id reserved for "space" inside xml_ns *)
Definition preserve_value : str := [112; 114; 101; 115; 101; 114; 118; 101]%N.   (* "preserve" *)
Definition default_value : str := [100; 101; 102; 97; 117; 108; 116]%N.          (* "default" *)

Definition str_eqb (a b : str) : bool :=
  (fix go a b := match a, b with [] , [] => true | x :: a', y :: b' => N.eqb x y && go a' b' | _, _ => false end) a b.

Definition xml_space_of (xs : bool) (attrs : list (qname * str)) : bool :=
  match find (fun a => N.eqb (fst (fst a)) xml_ns && N.eqb (snd (fst a)) space_local) attrs with
  | Some (_, v) => if str_eqb v preserve_value then true else if str_eqb v default_value then false else xs
  | None => xs
  end.

(* the key with which the children of an element are looked at: the element's (= their parent's) name,
   and: do the parent's children inherit xml:space="preserve" *)
Definition key := (qname * bool)%type.
Definition root_key : key := ((0, 0)%N, false).

(* the key with which an element named n with attributes a, itself looked at with key pk, looks at its
   children *)
Definition child_key (pk : key) (n : qname) (a : list (qname * str)) : key := (n, xml_space_of (snd pk) a).

(* the key with which node x, itself looked at with key pk, looks at its children *)
Definition kids_key (pk : key) (x : node) : key :=
  match x with
  | Elem n a _ => child_key pk n a
  | _ => pk
  end.

(* is child k of an element whose children are looked at with key pk ignored *)
Definition stripped (st : pred) (pk : key) (k : node) : bool :=
  match k with
  | Text d => text_ws d && st (fst pk) && negb (snd pk)
  | _ => false
  end.

Definition visible (st : pred) (pk : key) (k : node) : bool := negb (stripped st pk k).

(* physical removal of the stripped text nodes from x, itself looked at with key pk *)
Fixpoint remove_stripped (st : pred) (pk : key) (x : node) : node :=
  match x with
  | Elem n a ks =>
      let ck := child_key pk n a in
      Elem n a (filter (visible st ck) (map (remove_stripped st ck) ks))
  | _ => x
  end.

(* ------------------------------------------------------------------------------------------------ *)
(* observations, each parameterised by the strip predicate (consulted where the code consults it) and
   by the key pk with which the node itself is looked at *)

(* child::node() — NodeTester::testNode on every child *)
Definition children (st : pred) (pk : key) (x : node) : list node :=
  match x with
  | Elem n a ks => filter (visible st (child_key pk n a)) ks
  | _ => []
  end.

(* descendant-or-self::node() from a node x looked at with key pk, document order *)
Fixpoint desc_or_self (st : pred) (pk : key) (x : node) : list node :=
  if stripped st pk x then [] else
  x :: match x with
       | Elem n a ks => flat_map (desc_or_self st (child_key pk n a)) ks
       | _ => []
       end.

(* the same, every node with the key it is looked at with *)
Fixpoint desc_keyed (st : pred) (pk : key) (x : node) : list (key * node) :=
  if stripped st pk x then [] else
  (pk, x) :: match x with
             | Elem n a ks => flat_map (desc_keyed st (child_key pk n a)) ks
             | _ => []
             end.

Definition is_text (x : node) : bool := match x with Text _ => true | _ => false end.
Definition is_elem (x : node) : bool := match x with Elem _ _ _ => true | _ => false end.

(* DOMServices::doGetNodeData: the contribution of node x looked at with key pk to the string-value
   (elements: their children's; text: its data unless stripped; comments and PIs: nothing) *)
Fixpoint sv (st : pred) (pk : key) (x : node) : str :=
  match x with
  | Elem n a ks => flat_map (sv st (child_key pk n a)) ks
  | Text d => if text_ws d && st (fst pk) && negb (snd pk) then [] else d
  | _ => []
  end.

(* string-value of a node that is itself the context (element / text / comment / PI) *)
Definition string_value (st : pred) (pk : key) (x : node) : str :=
  match x with
  | Comment d => d
  | PI _ d => d
  | _ => sv st pk x
  end.

(* xsl:copy-of / cloneToResultTree: the events sent to the result *)
Inductive event :=
| EStart (name : qname) (attrs : list (qname * str))
| EEnd (name : qname)
| EChars (d : str)
| EComment (d : str)
| EPI (target : N) (d : str).

Fixpoint copy_events (st : pred) (pk : key) (x : node) : list event :=
  match x with
  | Elem n a ks => EStart n a :: flat_map (copy_events st (child_key pk n a)) ks ++ [EEnd n]
  | Text d => if text_ws d && st (fst pk) && negb (snd pk) then [] else [EChars d]
  | Comment d => [EComment d]
  | PI t d => [EPI t d]
  end.

(* ------------------------------------------------------------------------------------------------ *)
(* a context node with its siblings (enough for the child, descendant, self and sibling axes):
   the children of the parent are  c_before ++ c_self :: c_after  and c_pk is the key of the parent,
   i.e. the key c_self and its siblings are looked at with *)
Record ctx := { c_pk : key; c_before : list node; c_self : node; c_after : list node }.

Definition ctx_visible (st : pred) (c : ctx) : bool := visible st (c_pk c) (c_self c).

(* all ways of picking one element of l, as contexts looked at with key pk with `pre` before them *)
Fixpoint picks (pk : key) (pre : list node) (l : list node) (post : list node) : list ctx :=
  match l with
  | [] => []
  | k :: r => {| c_pk := pk; c_before := pre; c_self := k; c_after := r ++ post |}
              :: picks pk (pre ++ [k]) r post
  end.

Definition keep_visible (st : pred) (l : list ctx) : list ctx := filter (ctx_visible st) l.

Definition child_ctxs (st : pred) (c : ctx) : list ctx :=
  match c_self c with
  | Elem n a ks => keep_visible st (picks (child_key (c_pk c) n a) [] ks [])
  | _ => []
  end.

Definition following_sibling_ctxs (st : pred) (c : ctx) : list ctx :=
  keep_visible st (picks (c_pk c) (c_before c ++ [c_self c]) (c_after c) []).

(* in document order *)
Definition preceding_sibling_ctxs (st : pred) (c : ctx) : list ctx :=
  keep_visible st (picks (c_pk c) [] (c_before c) (c_self c :: c_after c)).

(* descendant contexts of a node x that is looked at with key pk, document order *)
Fixpoint desc_ctxs_of (st : pred) (pk : key) (x : node) : list ctx :=
  match x with
  | Elem n a ks =>
      (fix go (pre l : list node) : list ctx :=
         match l with
         | [] => []
         | k :: r =>
             (if visible st (child_key pk n a) k
              then {| c_pk := child_key pk n a; c_before := pre; c_self := k; c_after := r |}
                   :: desc_ctxs_of st (child_key pk n a) k
              else [])
             ++ go (pre ++ [k]) r
         end) [] ks
  | _ => []
  end.

Inductive axis := AxSelf | AxChild | AxDescendant | AxDescendantOrSelf | AxFollowingSibling | AxPrecedingSibling.

Definition axis_ctxs (st : pred) (a : axis) (c : ctx) : list ctx :=
  match a with
  | AxSelf => [c]
  | AxChild => child_ctxs st c
  | AxDescendant => desc_ctxs_of st (c_pk c) (c_self c)
  | AxDescendantOrSelf => c :: desc_ctxs_of st (c_pk c) (c_self c)
  | AxFollowingSibling => following_sibling_ctxs st c
  | AxPrecedingSibling => preceding_sibling_ctxs st c
  end.

Inductive ntest := TNode | TText | TComment | TPI | TAnyElem | TName (n : qname).

Definition test_node (t : ntest) (x : node) : bool :=
  match t, x with
  | TNode, _ => true
  | TText, Text _ => true
  | TComment, Comment _ => true
  | TPI, PI _ _ => true
  | TAnyElem, Elem _ _ _ => true
  | TName n, Elem m _ _ => N.eqb (fst n) (fst m) && N.eqb (snd n) (snd m)
  | _, _ => false
  end.

(* positional predicates: [position() = k] (k from 1, in axis order = document order here; reverse axes
   are listed in document order and PLastBut counts from the end), [last()], none *)
Inductive ppred := PAll | PPos (k : nat) | PLast | PFromEnd (k : nat).

Definition apply_pred {A} (p : ppred) (l : list A) : list A :=
  match p with
  | PAll => l
  | PPos k => match k with O => [] | S j => match nth_error l j with Some x => [x] | None => [] end end
  | PLast => match rev l with x :: _ => [x] | [] => [] end
  | PFromEnd k => match nth_error (rev l) k with Some x => [x] | None => [] end
  end.

Record step := { s_axis : axis; s_test : ntest; s_pred : ppred }.

Definition eval_step (st : pred) (s : step) (c : ctx) : list ctx :=
  apply_pred (s_pred s) (filter (fun c' => test_node (s_test s) (c_self c')) (axis_ctxs st (s_axis s) c)).

(* a path from one context node; the result lists of the context nodes of a step are concatenated
   (XPath's union in document order without duplicates is an operation on node identities that does not
   consult the strip decision and is not modelled) *)
Fixpoint eval_path (st : pred) (p : list step) (c : ctx) : list ctx :=
  match p with
  | [] => [c]
  | s :: r => flat_map (eval_path st r) (eval_step st s c)
  end.

(* the image of a context in the physically stripped tree *)
Definition strip_list (st : pred) (pk : key) (l : list node) : list node :=
  filter (visible st pk) (map (remove_stripped st pk) l).

Definition strip_ctx (st : pred) (c : ctx) : ctx :=
  {| c_pk := c_pk c; c_before := strip_list st (c_pk c) (c_before c);
     c_self := remove_stripped st (c_pk c) (c_self c); c_after := strip_list st (c_pk c) (c_after c) |}.

(* what a stylesheet can print about a selected context node *)
Record obs := { o_string : str; o_copy : list event; o_position_in_parent : nat; o_siblings : nat;
                o_child_count : nat; o_desc_count : nat; o_text_desc_count : nat }.

Definition observe (st : pred) (c : ctx) : obs :=
  {| o_string := string_value st (c_pk c) (c_self c);
     o_copy := copy_events st (c_pk c) (c_self c);
     o_position_in_parent := S (length (filter (visible st (c_pk c)) (c_before c)));
     o_siblings := length (filter (visible st (c_pk c)) (c_before c ++ c_self c :: c_after c));
     o_child_count := length (children st (c_pk c) (c_self c));
     o_desc_count := length (desc_or_self st (c_pk c) (c_self c));
     o_text_desc_count := length (filter is_text (desc_or_self st (c_pk c) (c_self c))) |}.

(* the whole observation language: evaluate a path from the document element, observe every result *)
Definition root_ctx (d : node) : ctx := {| c_pk := root_key; c_before := []; c_self := d; c_after := [] |}.

Definition run_obs (st : pred) (p : list step) (d : node) : list obs :=
  map (observe st) (eval_path st p (root_ctx d)).

(* ------------------------------------------------------------------------------------------------ *)
(* for the correspondence driver: the decision for every whitespace-only text node in document order
   (true = stripped), with the decision taken from a stylesheet *)
Fixpoint ws_decisions (st : pred) (pk : key) (x : node) : list bool :=
  match x with
  | Elem n a ks => flat_map (ws_decisions st (child_key pk n a)) ks
  | Text d => if text_ws d then [st (fst pk) && negb (snd pk)] else []
  | _ => []
  end.

Fixpoint child_counts (st : pred) (pk : key) (x : node) : list nat :=
  match x with
  | Elem n a ks =>
      let ck := child_key pk n a in
      length (filter (visible st ck) ks) :: flat_map (child_counts st ck) ks
  | _ => []
  end.

Record report := { r_decisions : list bool; r_string : str; r_nodes : nat; r_texts : nat; r_kids : list nat }.

Definition model_report (s : sheet) (d : node) : report :=
  let st := sheet_strip s in
  {| r_decisions := ws_decisions st root_key d;
     r_string := sv st root_key d;
     r_nodes := length (desc_or_self st root_key d);
     r_texts := length (filter is_text (desc_or_self st root_key d));
     r_kids := child_counts st root_key d |}.

(* ------------------------------------------------------------------------------------------------ *)
(* XSLT 1.0 section 3.4 including xml:space, stated on its own (without keys): a whitespace text node
   is kept when the nearest ancestor-or-self-of-parent xml:space attribute says preserve.
   xs = the inherited xml:space state (true = preserve).  [remove_stripped st (q, xs)] is this function
   (StripTreeModel.xml_space_rule_lemma). *)
Fixpoint rec_remove (st : pred) (xs : bool) (x : node) : node :=
  match x with
  | Elem n a ks =>
      let xs' := xml_space_of xs a in
      Elem n a (filter (fun k => xs' || visible st (n, false) k) (map (rec_remove st xs') ks))
  | _ => x
  end.

(* no element of the tree carries xml:space="preserve" *)
Fixpoint no_xml_space_preserve (x : node) : bool :=
  match x with
  | Elem _ a ks => negb (xml_space_of false a) && forallb no_xml_space_preserve ks
  | _ => true
  end.

(* ------------------------------------------------------------------------------------------------ *)
(* xsl:number level="any" (XSLT/ElemNumber.cpp: findPrecedingOrAncestorOrSelf, getPreviousNode;
   CountersTable::countNode without its cache): the backwards walk is over the PHYSICAL tree — previous
   sibling's deepest last descendant, else the parent — i.e. over the document-order predecessors, stripped
   text nodes included; the count and from patterns are tested on the nodes visited (a stripped text node
   matches no pattern, the node tests ask).  Two configurations of the source are modelled, selected by
   GenStrip: getPreviousNode tests `from` on every node visited (number_from_on_every_node = true, the tree
   after fix d323070) or only when it has moved to a parent (false, the pinned tree: K-C13-2);
   findPrecedingOrAncestorOrSelf tests `from` on the context node itself (number_from_on_self) or not.
   A node of the walk: depth in the tree, does it match from / count, is it a stripped text node.
   The list is the current node followed by its predecessors in reverse document order. *)
Record wnode := { w_depth : nat; w_from : bool; w_count : bool; w_stripped : bool }.

(* findPrecedingOrAncestorOrSelf after the context node: from, then count, on every node *)
Fixpoint number_target (l : list wnode) : option (list wnode) :=
  match l with
  | [] => None
  | x :: r => if w_from x then None else if w_count x then Some l else number_target r
  end.

Definition number_target_cfg (self_from : bool) (l : list wnode) : option (list wnode) :=
  match l with
  | [] => None
  | x :: r => if self_from && w_from x then None else if w_count x then Some l else number_target r
  end.

(* repeated getPreviousNode from a position of depth d whose predecessors are r: how many more nodes are counted *)
Fixpoint number_chain_cfg (every : bool) (d : nat) (r : list wnode) : nat :=
  match r with
  | [] => 0
  | y :: r' =>
      if (if every then w_from y else Nat.ltb (w_depth y) d && w_from y) then 0
      else if w_count y then S (number_chain_cfg every (w_depth y) r')
      else number_chain_cfg every (w_depth y) r'
  end.

Definition number_any_cfg (every self_from : bool) (l : list wnode) : nat :=
  match number_target_cfg self_from l with
  | Some (x :: r) => S (number_chain_cfg every (w_depth x) r)
  | _ => 0
  end.

(* the source as it is now *)
Definition number_any (l : list wnode) : nat := number_any_cfg number_from_on_every_node number_from_on_self l.
(* the pinned tree *)
Definition number_any_pinned (l : list wnode) : nat := number_any_cfg false true l.

(* the same walk in the physically stripped document *)
Definition walk_strip (l : list wnode) : list wnode := filter (fun x => negb (w_stripped x)) l.

(* stripped text nodes match no pattern *)
Definition walk_ok (l : list wnode) : Prop :=
  forall x, In x l -> w_stripped x = true -> w_from x = false /\ w_count x = false.

(* ------------------------------------------------------------------------------------------------ *)
(* the audited census (compare GenStrip: census_complete in Properties_C13).  Every entry was read:

   (a) node tests: only testText and testNode can return a score for a text node; both ask.
   (b) strip-unaware getNodeData calls in XPath/ and XSLT/:
       - XNodeSetBase::str (3): the context-free overloads str(), str(listener, fn), str(string&) of the public
         XObject interface; the engine evaluates every string conversion of a node-set with an execution
         context (the context-free str() calls in XPath/ and XSLT/ are on tokens and literals);
       - XObject.hpp string (3): the static helpers documented "deprecated", same remark;
       - TraceListenerDefault::processNodeList (1): diagnostic output when no execution context was given;
       - XResultTreeFrag::str (3): string-value of a result tree fragment — not source nodes; whitespace
         stripping does not apply to result tree fragments.
   (c) copy routines: cloneToResultTree / outputToResultTree (source nodes) pass overrideStrip = false,
       outputResultTreeFragment (result tree fragments) passes true; the built-in text rule passes true
       for nodes that were selected through a node test (which already asked). *)
Open Scope string_scope.
Definition audited_testers : list (string * bool * bool) :=
  [ ("testComment", false, false); ("testText", true, true); ("testPI", false, false);
    ("testPIName", false, false); ("testNode", true, true); ("testRoot", false, false);
    ("testAttributeNCName", false, false); ("testAttributeQName", false, false);
    ("testAttributeNamespaceOnly", false, false); ("testAttributeTotallyWild", false, false);
    ("testElementNCName", false, false); ("testElementQName", false, false);
    ("testElementNamespaceOnly", false, false); ("testElementTotallyWild", false, false);
    ("testNamespaceNCName", false, false); ("testNamespaceTotallyWild", false, false);
    ("testDefault", false, false) ].

Definition audited_getnodedata : list (string * string * bool * N) :=
  [ ("XPath/FunctionID.cpp", "FunctionID::FunctionIDXObjectTypeCallback::NodeSet", true, 1%N);
    ("XPath/FunctionNormalizeSpace.cpp", "FunctionNormalizeSpace::execute", true, 1%N);
    ("XPath/FunctionString.cpp", "FunctionString::execute", true, 1%N);
    ("XPath/XNodeSetBase.cpp", "XNodeSetBase::str", false, 3%N);
    ("XPath/XNodeSetBase.cpp", "XNodeSetBase::str", true, 3%N);
    ("XPath/XNodeSetBase.cpp", "XNodeSetBase::stringLength", true, 1%N);
    ("XPath/XObject.cpp", "getStringFromNode", true, 1%N);
    ("XPath/XObject.hpp", "string", false, 3%N);
    ("XPath/XObject.hpp", "string", true, 3%N);
    ("XPath/XPath.cpp", "XPath::functionStringLength", true, 1%N);
    ("XPath/XPath.cpp", "XPath::functionSum", true, 1%N);
    ("XSLT/ElemValueOf.cpp", "ElemValueOf::execute", true, 2%N);
    ("XSLT/ElemValueOf.cpp", "ElemValueOf::startElement", true, 2%N);
    ("XSLT/FunctionDocument.cpp", "FunctionDocument::doExecute", true, 1%N);
    ("XSLT/FunctionKey.cpp", "FunctionKey::execute", true, 1%N);
    ("XSLT/KeyTable.cpp", "KeyTable::processKeyDeclaration", true, 1%N);
    ("XSLT/NodeSorter.cpp", "getResult", true, 2%N);
    ("XSLT/TraceListenerDefault.cpp", "TraceListenerDefault::processNodeList", false, 1%N);
    ("XSLT/TraceListenerDefault.cpp", "TraceListenerDefault::processNodeList", true, 1%N);
    ("XSLT/XResultTreeFrag.cpp", "XResultTreeFrag::str", false, 3%N);
    ("XSLT/XResultTreeFrag.cpp", "XResultTreeFrag::stringLength", true, 1%N);
    ("XSLT/XSLTEngineImpl.cpp", "XSLTEngineImpl::characters", true, 2%N);
    ("XSLT/XSLTEngineImpl.cpp", "XSLTEngineImpl::charactersRaw", true, 1%N);
    ("XSLT/XSLTEngineImpl.cpp", "XSLTEngineImpl::fireCharacterGenerateEvent", true, 1%N) ].

(* the strip-unaware call sites that are allowed (none of them is reached with source nodes by a transformation) *)
Definition allowed_unaware : list (string * string) :=
  [ ("XPath/XNodeSetBase.cpp", "XNodeSetBase::str"); ("XPath/XObject.hpp", "string");
    ("XSLT/TraceListenerDefault.cpp", "TraceListenerDefault::processNodeList");
    ("XSLT/XResultTreeFrag.cpp", "XResultTreeFrag::str") ].

Definition audited_copy : list (string * string * string) :=
  [ ("XSLTEngineImpl::cloneToResultTree", "six", "false");
    ("XSLTEngineImpl::cloneToResultTree", "text", "overrideStrip");
    ("XSLTEngineImpl::cloneToResultTree", "text", "overrideStrip");
    ("XSLTEngineImpl::outputToResultTree", "six", "false");
    ("XSLTEngineImpl::outputResultTreeFragment", "six", "true") ].

Definition audited_builtin_rule : list (N * string) := [ (5%N, "true"); (5%N, "true") ].

Definition census_ok : bool :=
  forallb (fun e => match e with (_, accepts, consults) => implb accepts consults end) census_testers
  && forallb (fun e => match e with (f, fn, aware, _) =>
        aware || existsb (fun a => String.eqb (fst a) f && String.eqb (snd a) fn) allowed_unaware end) census_getnodedata.
