(* SafeDefs.v — C03 (no input crashes ...): the audited allow-list for the translator's census
   (coq/GenSafe.v, regenerated from /repo on every run) and the executable models of the
   enumerated mechanisms: digit loops of the integer conversions, the atof stack buffer, the
   int2alphaCount loop (model shared with C17: Num7FmtDefs.alpha_loop), the conflicts array of
   Stylesheet::findTemplate, the catch tables, the double -> integer cast guards.
   Definitions only. *)
From Coq Require Import List NArith ZArith String Bool.
Require Import XV.GenSafe XV.Num7FmtDefs.
Import ListNotations.
Local Open Scope string_scope.

(* ---------------------------------------------------------------------------------------------
   audit classes of a census entry *)
Inductive audit :=
| Proved (thm : string)            (* a theorem of Properties_C03.v / C04 / C18 bounds the writes *)
| BoundedCall (why : string)       (* the callee receives the capacity / the length is set just before *)
| HeapAbove (why : string)         (* stack array only below a coded threshold, heap otherwise *)
| ConstIndex (why : string)        (* table with bounded constant indices *)
| Sampled (why : string)           (* no theorem: sanitizer exploration only *)
| NotBuilt (why : string)
| NotDouble (why : string)         (* cast census over-approximation: operand is not floating *)
| SizeScaled (why : string)
| Guarded (thm : string)
| UnguardedK9 (why : string)       (* known finding K9: undefined behaviour for out-of-range values *)
| UnguardedKnew1 (why : string)
| UnguardedKnew2 (why : string).

(* The audited list.  Keys are the census strings of translator/gen_safe.py:
     arr|file|name|size expression|xCOUNT      call|file|callee|first argument|xCOUNT
     cast|file|target type|operand|enclosing statement|xCOUNT *)
Definition allow_list : list (string * audit) :=
  [
   ("arr|ICUBridge/ICUBridge.cpp|theBuffer|theStackBufferSize|x1",
      HeapAbove "ICU calls receive the capacity; larger results go to a vector");
   ("arr|ICUBridge/ICUBridgeCollationCompareFunctorImpl.cpp|theBuffer|ULOC_FULLNAME_CAPACITY|x1",
      HeapAbove "ICU calls receive the capacity; larger results go to a vector");
   ("arr|PlatformSupport/DOMStringHelper.cpp|theBuffer|MAX_FLOAT_CHARACTERS + 1|x2",
      Proved "buffer_bound_double");
   ("arr|PlatformSupport/DOMStringHelper.cpp|theBuffer|MAX_PRINTF_DIGITS + 1|x5",
      Proved "buffer_bound_integer (decimal, hexadecimal, pointer)");
   ("arr|PlatformSupport/DOMStringHelper.cpp|theResult|MAX_FLOAT_CHARACTERS + 1|x1",
      Proved "buffer_bound_double");
   ("arr|PlatformSupport/DoubleSupport.cpp|theBuffer|theBufferSize|x1",
      Proved "atof_buffer_guarded");
   ("arr|PlatformSupport/XalanMessageLoader.cpp|sBuffer|kMaxMessageLength + 1|x6",
      BoundedCall "load(..., sBuffer, kMaxMessageLength, ...): the callee receives the capacity");
   ("arr|XMLSupport/FormatterToHTML.hpp|m_string|eMaxLength + 1|x1",
      ConstIndex "member table filled by constructors / static initialisers, indexed by bounded enumerators or checked lengths");
   ("arr|XMLSupport/FormatterToXML.hpp|m_attrCharsMap|SPECIALSSIZE|x1",
      ConstIndex "member table filled by constructors / static initialisers, indexed by bounded enumerators or checked lengths");
   ("arr|XMLSupport/FormatterToXML.hpp|m_charsMap|SPECIALSSIZE|x1",
      ConstIndex "member table filled by constructors / static initialisers, indexed by bounded enumerators or checked lengths");
   ("arr|XMLSupport/XalanHTMLElementsProperties.hpp|m_attributes|eMaxAttributes + 1|x1",
      ConstIndex "member table filled by constructors / static initialisers, indexed by bounded enumerators or checked lengths");
   ("arr|XMLSupport/XalanHTMLElementsProperties.hpp|m_name|eMaxAttributeName + 1|x1",
      ConstIndex "member table filled by constructors / static initialisers, indexed by bounded enumerators or checked lengths");
   ("arr|XMLSupport/XalanHTMLElementsProperties.hpp|m_name|eMaxElementName + 1|x1",
      ConstIndex "member table filled by constructors / static initialisers, indexed by bounded enumerators or checked lengths");
   ("arr|XMLSupport/XalanOtherEncodingWriter.hpp|m_buffer|kBufferSize|x1",
      Proved "writer buffers: C04 writer_operations_guarded / writer_transparent (parametric in kBufferSize)");
   ("arr|XMLSupport/XalanUTF16Writer.hpp|m_buffer|kBufferSize|x1",
      Proved "writer buffers: C04 writer_operations_guarded / writer_transparent (parametric in kBufferSize)");
   ("arr|XMLSupport/XalanUTF8Writer.hpp|m_buffer|kBufferSize|x1",
      Proved "writer buffers: C04 writer_operations_guarded / writer_transparent (parametric in kBufferSize)");
   ("arr|XPath/XPathFunctionTable.hpp|m_functionTable|TableSize|x1",
      ConstIndex "member table filled by constructors / static initialisers, indexed by bounded enumerators or checked lengths");
   ("arr|XPathCAPI/XPathCAPI.cpp|theCharsCount|maxStackArraySize|x1",
      HeapAbove "theLength >= maxStackArraySize selects new[theLength + 1]; transcodeString receives theLength");
   ("arr|XPathCAPI/XPathCAPI.cpp|theChars|maxStackArraySize|x1",
      HeapAbove "theLength >= maxStackArraySize selects new[theLength + 1]; transcodeString receives theLength");
   ("arr|XSLT/DecimalToRoman.hpp|m_postLetter|eMaxLetter + 1|x1",
      ConstIndex "member table filled by constructors / static initialisers, indexed by bounded enumerators or checked lengths");
   ("arr|XSLT/DecimalToRoman.hpp|m_preLetter|eMaxLetter + 1|x1",
      ConstIndex "member table filled by constructors / static initialisers, indexed by bounded enumerators or checked lengths");
   ("arr|XSLT/ElemNumber.cpp|buf|100|x1",
      Sampled "ElemNumber::traditionalAlphaCount: reached only through a XalanNumberingResourceBundle for letter-value=traditional (Greek); sanitizer stream xsl:number lang=el");
   ("arr|XSLT/ElemNumber.cpp|buf|buflen + 1|x1",
      Proved "int2alpha_fits");
   ("arr|XSLT/ElemNumber.cpp|numberList|theStackArrayThreshold|x1",
      HeapAbove "lastIndex < theStackArrayThreshold selects the stack array, else a vector of lastIndex elements; getCountString writes lastIndex entries");
   ("arr|XSLT/Stylesheet.cpp|conflictsArray|100|x1",
      Proved "conflicts_bound");
   ("arr|XalanDOM/XalanDOMString.cpp|oneCharArray|2|x1",
      ConstIndex "one-character transcoding scratch arrays, fixed indices");
   ("arr|XalanDOM/XalanDOMString.cpp|theOneTranslatedWbChar|theOneTranslatedWbCharLen|x1",
      ConstIndex "one-character transcoding scratch arrays, fixed indices");
   ("arr|XalanEXSLT/XalanEXSLTDateTime.cpp|stringTime|MAX_DATE_TIME_LEN + 1|x1",
      BoundedCall "strftime(stringTime, MAX_DATE_TIME_LEN, ...); timeZone receives at most 7 characters from a two-digit hour offset in [-24, 24]");
   ("arr|XalanEXSLT/XalanEXSLTDateTime.cpp|timeZone|MAX_DATE_TIME_LEN+1|x1",
      BoundedCall "strftime(stringTime, MAX_DATE_TIME_LEN, ...); timeZone receives at most 7 characters from a two-digit hour offset in [-24, 24]");
   ("call|PlatformSupport/DOMStringHelper.cpp|sprintf|theBuffer|x3",
      Proved "buffer_bound_double / pointer_buffer_fits");
   ("call|PlatformSupport/XalanNLSMessageLoader.cpp|strcpy|saved_msg|x1",
      NotBuilt "NLS message loader is not compiled (in-memory loader is configured)");
   ("call|XalanDOM/XalanDOMString.cpp|memmove|&*begin()|x1",
      BoundedCall "XalanDOMString::erase: thePosition + theCount <= length checked by the caller contract (C20 string model)");
   ("call|XalanEXSLT/XalanEXSLTDateTime.cpp|sprintf|timeZone|x3",
      BoundedCall "formats %2.2d of an hour offset in [-24, 24]: at most 7 bytes into timeZone[1001]");
   ("call|XalanTransformer/XalanTransformer.cpp|strncpy|&*theMessage.begin()|x1",
      BoundedCall "theMessage.resize(theLength + 1) directly before strncpy(..., theLength)");
   ("cast|Include/XalanMap.hpp|size_type|1.6 * size()|const size_type theNewSize = size_type(1.6 * size())|x1",
      SizeScaled "container size (bounded by memory) times a constant factor <= 1.6");
   ("cast|Include/XalanMap.hpp|size_type|m_loadFactor * size()|if (size_type(m_loadFactor * size()) > m_buckets.size())|x1",
      SizeScaled "container size (bounded by memory) times a constant factor <= 1.6");
   ("cast|Include/XalanMap.hpp|size_type|m_loadFactor * theRhs.size()|XalanMap( const XalanMap& theRhs, MemoryManager& theMemoryManager) : m_memoryManager(&theMemoryManager), m_loadFactor(theRhs.m_loadFactor), m_minBuckets(theRhs.m_minBuckets), m_size(0), m_entries(theMemoryManager), m_freeEntries(theMemoryManager), m_buckets( size_type(m_loadFactor * theRhs.size()) + 1, BucketType(*m_memoryManager), theMemoryManager), m_eraseCount(0), m_eraseThreshold(theRhs.m_eras|x1",
      SizeScaled "container size (bounded by memory) times a constant factor <= 1.6");
   ("cast|Include/XalanVector.hpp|size_type|(m_size * 1.6) + 0.5|const size_type theNewSize = size_type((m_size * 1.6) + 0.5)|x1",
      SizeScaled "container size (bounded by memory) times a constant factor <= 1.6");
   ("cast|PlatformSupport/DOMStringHelper.cpp|XMLInt64|theValue|NumberToCharacters(static_cast<XMLInt64>(theValue), formatterListener, function)|x1",
      Guarded "cast_guarded_int64 (reached only when the guarded comparison in front of it held)");
   ("cast|PlatformSupport/DOMStringHelper.cpp|XMLInt64|theValue|NumberToDOMString(static_cast<XMLInt64>(theValue), theResult)|x1",
      Guarded "cast_guarded_int64 (reached only when the guarded comparison in front of it held)");
   ("cast|PlatformSupport/DOMStringHelper.cpp|XMLInt64|theValue|else if (theValue >= -9223372036854775808.0 && theValue < 9223372036854775808.0 && static_cast<XMLInt64>(theValue) == theValue)|x2",
      Guarded "cast_guarded_int64 (range test in the same condition; translator anchor)");
   ("cast|PlatformSupport/DOMStringHelper.cpp|XalanDOMChar|-(theValue % 10) + XalanUnicode::charDigit_0|*--theOutput = XalanDOMChar(-(theValue % 10) + XalanUnicode::charDigit_0)|x1",
      NotDouble "the operand has an integer type (census heuristic over-approximates)");
   ("cast|PlatformSupport/DOMStringHelper.cpp|XalanDOMChar|theValue % 10 + XalanUnicode::charDigit_0|*--theOutput = XalanDOMChar(theValue % 10 + XalanUnicode::charDigit_0)|x1",
      NotDouble "the operand has an integer type (census heuristic over-approximates)");
   ("cast|PlatformSupport/DOMStringHelper.hpp|XMLInt64|theValue|return NumberToDOMString( static_cast<XMLInt64>(theValue), theResult)|x2",
      NotDouble "the operand has an integer type (census heuristic over-approximates)");
   ("cast|PlatformSupport/DOMStringHelper.hpp|XMLInt64|theValue|return NumberToHexDOMString( static_cast<XMLInt64>(theValue), theResult)|x2",
      NotDouble "the operand has an integer type (census heuristic over-approximates)");
   ("cast|PlatformSupport/DOMStringHelper.hpp|XMLUInt64|theValue|return NumberToDOMString( static_cast<XMLUInt64>(theValue), theResult)|x2",
      NotDouble "the operand has an integer type (census heuristic over-approximates)");
   ("cast|PlatformSupport/DOMStringHelper.hpp|XMLUInt64|theValue|return NumberToHexDOMString( static_cast<XMLUInt64>(theValue), theResult)|x2",
      NotDouble "the operand has an integer type (census heuristic over-approximates)");
   ("cast|XPath/FunctionSubstring.cpp|XalanDOMString::size_type|theResult|return theResult >= theStringLength ? theStringLength : XalanDOMString::size_type(theResult)|x1",
      Guarded "cast_guarded_substring");
   ("cast|XPath/FunctionSubstring.cpp|size_type|theSubstringLength|return theSubstringLength > theMaxLength ? theMaxLength : size_type(theSubstringLength)|x1",
      Guarded "cast_guarded_substring");
   ("cast|XPath/XNumber.cpp|FormatterListener::size_type|theValue.length()|(formatterListener.*function)( theValue.c_str(), FormatterListener::size_type(theValue.length()))|x2",
      NotDouble "the operand has an integer type (census heuristic over-approximates)");
   ("cast|XPath/XNumber.cpp|FormatterListener::size_type|theValue.length()|assert(theValue.length() == FormatterListener::size_type(theValue.length()))|x2",
      NotDouble "the operand has an integer type (census heuristic over-approximates)");
   ("cast|XPath/XPath.cpp|NodeRefListBase::size_type|theIndex|XalanNode* const theNode = subQueryResults.item(NodeRefListBase::size_type(theIndex) - 1)|x1",
      Guarded "cast_guarded_predicate (else branch of the guarded condition)");
   ("cast|XPath/XPath.cpp|NodeRefListBase::size_type|theIndex|if (theIndex <= 0.0 || theIndex > double(theLength) || double(NodeRefListBase::size_type(theIndex)) != theIndex)|x1",
      Guarded "cast_guarded_predicate (0 < theIndex <= theLength compared as doubles first; translator anchor)");
   ("cast|XSLT/ElemNumber.cpp|CountType|DoubleSupport::round(theValue)|const CountType theNumber = CountType(DoubleSupport::round(theValue))|x1",
      Guarded "cast_guarded_count (value >= 0.5, finite and below double(max CountType); translator anchor)");
   ("cast|XalanEXSLT/XalanEXSLTMath.cpp|XalanDOMString::size_type|thePrecision|return executionContext.getXObjectFactory().createNumber( theValues[thePrecision < theSize ? XalanDOMString::size_type(thePrecision) : theSize - 1])|x1",
      Guarded "math_constant_index_in_table (0 < thePrecision < theSize; translator anchor)");
   ("cast|XalanEXSLT/XalanEXSLTString.cpp|XalanDOMString::size_type|theLength|XalanDOMString::size_type theRemainingLength = XalanDOMString::size_type(theLength)|x1",
      Guarded "cast_guarded_padding (1 <= theLength < npos tested before; translator anchor)");
   ("cast|XalanEXSLT/XalanEXSLTString.cpp|XalanDOMString::size_type|theLength|theResult.assign(XalanDOMString::size_type(theLength), thePaddingString[0])|x1",
      Guarded "cast_guarded_padding (1 <= theLength < npos tested before; translator anchor)")
  ].

Definition census_all : list string := census_arrays ++ census_calls ++ census_casts.

Definition audited (k : string) : bool := existsb (fun e => String.eqb k (fst e)) allow_list.

Definition census_ok : bool := forallb audited census_all.

(* ---------------------------------------------------------------------------------------------
   integer conversions (ScalarToDecimalString / UnsignedScalarToHexadecimalString):
       *theOutput = 0;  do { *--theOutput = digit(theValue % base); theValue /= base; } while (theValue != 0);
       (negative values: one more store for '-')
   digit_loop counts the stores below the terminator. *)
Fixpoint digit_loop (fuel : nat) (base v : N) : option nat :=
  match fuel with
  | O => None
  | S f => let v' := (v / base)%N in
           if (v' =? 0)%N then Some 1%nat
           else match digit_loop f base v' with Some n => Some (S n) | None => None end
  end.

(* characters stored in front of the terminator for a signed / unsigned 64-bit value *)
Definition scalar_dec_chars (v : Z) : option nat :=
  if (v <? 0)%Z then match digit_loop 64 10 (Z.to_N (- v)) with Some n => Some (S n) | None => None end
  else digit_loop 64 10 (Z.to_N v).

Definition scalar_hex_chars (v : N) : option nat := digit_loop 64 16 v.

(* ---------------------------------------------------------------------------------------------
   atof stack buffer: indices written by convertHelper for a string of length len *)
Definition atof_written (i len : N) : Prop := atof_loop_test i len = true \/ i = len.

(* ---------------------------------------------------------------------------------------------
   writers (XalanUTF8Writer / XalanUTF16Writer / XalanOtherEncodingWriter): a guarded store run
       if (m_bufferRemaining < k) flushBuffer();   n stores *m_bufferPosition++ = ...;   m_bufferRemaining -= d;
   on a buffer of [size] units with [r] units remaining (m_bufferPosition = m_buffer + (size - r)).
   flushBuffer() resets the position to m_buffer and the count to size (anchored by the translator).
   Result: None when a store would fall outside m_buffer[0 .. size) or the unsigned counter would wrap,
   else the new count. *)
Definition run_indices (size r n : N) : list N := map (fun j => size - r + N.of_nat j)%N (seq 0 (N.to_nat n)).

Definition guarded_run (size k n d r : N) : option N :=
  let r' := if (r <? k)%N then size else r in
  if forallb (fun i => (i <? size)%N) (run_indices size r' n) && (d <=? r')%N then Some (r' - d)%N else None.

Definition writer_size (cls : string) : N :=
  match find (fun e => String.eqb (fst e) cls) writer_buffers with Some e => snd e | None => 0%N end.

(* ---------------------------------------------------------------------------------------------
   XPathProcessorImpl::tokenize, scan for the closing quote:
       for(++i; test i nChars && (c = pat[i]) != quote; ++i);
   scan_reads lists the indices of pat that are read, starting at i (already incremented). *)
Fixpoint scan_reads (fuel : nat) (test : N -> N -> bool) (quote : N) (pat : N -> N) (i n : N) : list N :=
  match fuel with
  | O => []
  | S f => if test i n then i :: (if (pat i =? quote)%N then [] else scan_reads f test quote pat (i + 1) n) else []
  end.

(* ---------------------------------------------------------------------------------------------
   Stylesheet::findTemplate, conflict recording.  Patterns are numbered; prio gives the priority
   used for the comparison; none_prio is XPath::getMatchScoreValue(eMatchScoreNone). *)
Section Conflicts.
  Variable prio : N -> Z.
  Variable none_prio : Z.

  Record cstate := { best : option N; conf : list N }.

  Definition add_if_not_found (b : option N) (c : list N) : list N :=
    match b with
    | Some p => if existsb (N.eqb p) c then c else c ++ [p]
    | None => c ++ [0%N]      (* a null pointer would be stored like any other object *)
    end.

  Definition cstep (st : cstate) (p : N) : cstate :=
    let pb := match best st with Some b => prio b | None => none_prio end in
    if (prio p >? pb)%Z then {| best := Some p; conf := [] |}
    else if (prio p =? pb)%Z then {| best := Some p; conf := add_if_not_found (best st) (conf st) ++ [p] |}
    else st.

  Definition crun (visited : list N) : cstate := fold_left cstep visited {| best := None; conf := [] |}.
End Conflicts.

(* ---------------------------------------------------------------------------------------------
   catch tables *)
Definition transformer_functions : list string := ["doTransform"; "compileStylesheet"; "parseSource"].

(* the exception families the property treats as "reported errors" *)
Definition caught_classes : list string :=
  ["XSLException"; "SAXParseException"; "SAXException"; "XMLException"; "XalanDOMException"].

(* NOT caught by any clause (no catch (std::exception&) / catch (...) in XalanTransformer.cpp;
   xercesc::OutOfMemoryException is deliberately not derived from XMLException): they leave
   transform() as C++ exceptions.  Hypothesis of the property claim; probed by the harness. *)
Definition uncaught_classes : list string :=
  ["std::exception"; "std::bad_alloc"; "std::length_error"; "xercesc::OutOfMemoryException"; "..."].

Definition row_fn (r : string * string * Z * list string) : string := fst (fst (fst r)).
Definition row_exc (r : string * string * Z * list string) : string := snd (fst (fst r)).
Definition row_status (r : string * string * Z * list string) : Z := snd (fst r).
Definition row_sources (r : string * string * Z * list string) : list string := snd r.

Definition in_transformer (r : string * string * Z * list string) : bool :=
  existsb (String.eqb (row_fn r)) transformer_functions.

Definition row_ok (r : string * string * Z * list string) : bool :=
  negb (row_status r =? 0)%Z &&
  (if in_transformer r then match row_sources r with [] => false | _ => true end else true).

Definition has_clause (fn exc : string) : bool :=
  existsb (fun r => String.eqb (row_fn r) fn && String.eqb (row_exc r) exc && row_ok r) catch_table.

Definition clauses_of (fn : string) : list string :=
  map row_exc (filter (fun r => String.eqb (row_fn r) fn) catch_table).

Fixpoint index_of (s : string) (l : list string) : option nat :=
  match l with
  | [] => None
  | x :: t => if String.eqb s x then Some O else option_map S (index_of s t)
  end.

(* a handler for a derived class must precede the handler of its base (SAXParseException : SAXException) *)
Definition derived_first (fn : string) : bool :=
  match index_of "SAXParseException" (clauses_of fn), index_of "SAXException" (clauses_of fn) with
  | Some a, Some b => Nat.ltb a b
  | _, _ => false
  end.

(* ---------------------------------------------------------------------------------------------
   double -> integer casts.  A double that reaches a cast is modelled by its exact value when it
   is integral (Z); NaN and fractions are named where they matter.  The casts are defined
   (C++ [conv.fpint]) iff the truncated value is representable. *)
Definition in_uint64 (x : Z) : Prop := (0 <= x < 2 ^ 64)%Z.
Definition in_int64 (x : Z) : Prop := (- 2 ^ 63 <= x < 2 ^ 63)%Z.

(* FunctionSubstring::getStartIndex:  theResult >= theStringLength ? theStringLength : size_type(theResult),
   reached with theResult = arg - 1 and arg > 1 *)
Definition substring_start_casts (r len : Z) : bool := negb (r >=? len)%Z.
(* getSubstringLength:  theSubstringLength > theMaxLength ? theMaxLength : size_type(theSubstringLength),
   reached with theTotal > theXPathStartIndex, i.e. theSubstringLength > 0 *)
Definition substring_length_casts (l maxlen : Z) : bool := negb (l >? maxlen)%Z.

(* XPath::predicates, number-literal shortcut:
     theIndex <= 0.0 || theIndex > double(theLength) || double(size_type(theIndex)) != theIndex
   the cast is evaluated only when the first two tests are false *)
Definition predicate_casts (x len : Z) : bool := negb (x <=? 0)%Z && negb (x >? len)%Z.
(* ElemNumber::getCountString: value not NaN / infinite / < 0.5 / >= double(max CountType) = 2^64; x = round(value) *)
Definition count_casts (x : Z) : bool := (1 <=? x)%Z && (x <? 2 ^ 64)%Z.
(* NumberToDOMString / NumberToCharacters(double): finite, non-zero and inside [-2^63, 2^63) *)
Definition int64_casts (x : Z) : bool := negb (x =? 0)%Z && (- 2 ^ 63 <=? x)%Z && (x <? 2 ^ 63)%Z.
(* str:padding: !(theLength >= 1.0) || theLength >= double(npos) returns early; npos = 2^64 - 1, double(npos) = 2^64 *)
Definition padding_casts (l : Z) : bool := (1 <=? l)%Z && (l <? 2 ^ 64)%Z.
(* math:constant: thePrecision > 0 (tested by the caller); index = thePrecision < theSize ? size_type(thePrecision) : theSize - 1 *)
Definition math_constant_index (p size : Z) : Z := if (p <? size)%Z then p else (size - 1)%Z.
