(* ExecDefs.v — C11: executable model of the six evaluation entry points of XPath::executeMore
   (XPath.cpp 322-1372) as coded.  The dispatch of every entry point is the regenerated table of
   GenExec.v (one arm per op-code, extracted from the switch statements); the helper overloads the
   arms call are mirrored here by hand from XPath.cpp / XPath.hpp / XToken.cpp / XObject.hpp:

     Or / And evaluate their operands through the bool entry point (short-circuit);
     the comparisons evaluate both operands through the generic entry point;
     plus .. neg go through getNumericOperand: a number literal operand is read from the
       number-literal table of the expression, anything else through the double entry point;
     Union (6 overloads) builds the union through the node-list entry point of each operand and then
       converts the list (XObject::boolean / number / string of a node list);
     literal / numberlit (5 overloads) answer from the compiled token: XToken::boolean (string token:
       non-empty; number token: non-zero, not NaN), XToken::num, XToken::str (number token: the
       canonical string stored by XPathProcessorImpl::Number());
     group (6 overloads) recurses through the same entry point; its node-list overload merges a
       returned object into the caller's list in document order;
     locationPath (6 overloads) runs the steps and converts the list; a filter-expression head is
       evaluated through the node-list entry point (findNodeSet);
     functionCount / functionName(1) / functionLocalName(1) / functionSum use the node-list entry
       point for their argument, functionBoolean / functionNot the bool one, functionNumber(1) /
       Floor / Ceiling / Round the double one, functionStringLength(1) the character-event one.

   The string entry point APPENDS to the caller's buffer and the character-event entry point
   delivers events to the caller's listener: both take what was there before as an argument.
   Definitions only. *)
From Coq Require Import ZArith NArith List Bool Arith SpecFloat.
Require Import XV.GenNum XV.NumDefs XV.XpAst XV.DomDefs XV.XpDefs XV.ExecArms XV.GenExec.
Import ListNotations.

(** * compiled tokens (XToken.cpp; XPathProcessorImpl::Literal / Number) *)
Record token := mkToken { tk_str : str; tk_num : dbl; tk_is_string : bool }.

(* Literal(): pushArgumentOnOpCodeMap(string) -> XToken(string, toDouble(string)) *)
Definition str_token (s : str) : token := mkToken s (string_to_number s) true.
(* Number(): num = toDouble(token text); XToken(num, NumberToDOMString(num)) *)
Definition num_token (t : str) : token :=
  let x := string_to_number t in mkToken (number_to_string x) x false.
(* Number() also pushes num onto the number-literal table read by getNumericOperand *)
Definition numlit_table_value (t : str) : dbl := string_to_number t.

(** * the static conversions of XObject.hpp *)
Definition xo_boolean_num (x : dbl) : bool := negb (d_is_nan x) && negb (d_is_zero x).
Definition xo_boolean_str (s : str) : bool := match s with [] => false | _ => true end.
Definition xo_boolean_nodes (l : list nat) : bool := match l with [] => false | _ => true end.
Definition xo_number_bool (b : bool) : dbl := if b then d_one else d_zero.
Definition xo_number_str (s : str) : dbl := string_to_number s.
Definition xo_number_nodes (c : ctx) (l : list nat) : dbl :=
  match l with [] => xo_number_str [] | n :: _ => xo_number_str (node_string c n) end.
Definition xo_string_bool (b : bool) : str := if b then s_true else s_false.
Definition xo_string_num (x : dbl) : str := number_to_string x.
Definition xo_string_nodes (c : ctx) (l : list nat) : str :=
  match l with [] => [] | n :: _ => node_string c n end.

Definition tk_boolean (t : token) : bool :=
  if tk_is_string t then xo_boolean_str (tk_str t) else xo_boolean_num (tk_num t).

(* what C++ does when a double is assigned to a bool without XObject::boolean: x != 0 (NaN is true) *)
Definition implicit_bool_of_double (x : dbl) : bool := negb (d_is_zero x).

(** * which op-code the compiler emits for an expression (XPathProcessorImpl::FunctionCall) *)
Definition s_position : str := [112;111;115;105;116;105;111;110]%N.
Definition s_last : str := [108;97;115;116]%N.
Definition s_count : str := [99;111;117;110;116]%N.
Definition s_not : str := [110;111;116]%N.
Definition s_true_fn : str := [116;114;117;101]%N.
Definition s_false_fn : str := [102;97;108;115;101]%N.
Definition s_boolean : str := [98;111;111;108;101;97;110]%N.
Definition s_name : str := [110;97;109;101]%N.
Definition s_local_name : str := [108;111;99;97;108;45;110;97;109;101]%N.
Definition s_number : str := [110;117;109;98;101;114]%N.
Definition s_floor : str := [102;108;111;111;114]%N.
Definition s_ceiling : str := [99;101;105;108;105;110;103]%N.
Definition s_round : str := [114;111;117;110;100]%N.
Definition s_sum : str := [115;117;109]%N.
Definition s_string_length : str := [115;116;114;105;110;103;45;108;101;110;103;116;104]%N.

Definition by_arity (args : list expr) (op0 op1 : opcode) : opcode :=
  match args with [] => op0 | _ => op1 end.

Definition fn_opcode (name : str) (args : list expr) : opcode :=
  if fn_is name s_position then OP_FUNCTION_POSITION
  else if fn_is name s_last then OP_FUNCTION_LAST
  else if fn_is name s_count then OP_FUNCTION_COUNT
  else if fn_is name s_not then OP_FUNCTION_NOT
  else if fn_is name s_true_fn then OP_FUNCTION_TRUE
  else if fn_is name s_false_fn then OP_FUNCTION_FALSE
  else if fn_is name s_boolean then OP_FUNCTION_BOOLEAN
  else if fn_is name s_name then by_arity args OP_FUNCTION_NAME_0 OP_FUNCTION_NAME_1
  else if fn_is name s_local_name then by_arity args OP_FUNCTION_LOCALNAME_0 OP_FUNCTION_LOCALNAME_1
  else if fn_is name s_number then by_arity args OP_FUNCTION_NUMBER_0 OP_FUNCTION_NUMBER_1
  else if fn_is name s_floor then OP_FUNCTION_FLOOR
  else if fn_is name s_ceiling then OP_FUNCTION_CEILING
  else if fn_is name s_round then OP_FUNCTION_ROUND
  else if fn_is name s_sum then OP_FUNCTION_SUM
  else if fn_is name s_string_length then by_arity args OP_FUNCTION_STRINGLENGTH_0 OP_FUNCTION_STRINGLENGTH_1
  else OP_FUNCTION.

(* the same decision read off the regenerated compiler table (GenExec.compiler_fn_table:
   XPathProcessorImpl::s_functionTable, the cases of FunctionCall() and the replaceOpCode calls of the
   Function*() parsers); ExecModel.fn_opcode_follows_compiler proves the two equal *)
Definition compiler_fn_opcode (name : str) (args : list expr) : opcode :=
  match find (fun row => str_eqb name (fst (fst row))) compiler_fn_table with
  | Some (_, op0, alt) => match args, alt with _ :: _, Some op1 => op1 | _, _ => op0 end
  | None => OP_FUNCTION
  end.

Definition opcode_of (e : expr) : opcode :=
  match e with
  | EOr _ _ => OP_OR | EAnd _ _ => OP_AND
  | ENe _ _ => OP_NOTEQUALS | EEq _ _ => OP_EQUALS
  | ELte _ _ => OP_LTE | ELt _ _ => OP_LT | EGte _ _ => OP_GTE | EGt _ _ => OP_GT
  | EPlus _ _ => OP_PLUS | EMinus _ _ => OP_MINUS
  | EMult _ _ => OP_MULT | EDiv _ _ => OP_DIV | EMod _ _ => OP_MOD
  | ENeg _ => OP_NEG
  | EUnion _ => OP_UNION
  | ELiteral _ => OP_LITERAL
  | EVar _ _ => OP_VARIABLE
  | EGroup _ => OP_GROUP
  | ENumLit _ => OP_NUMBERLIT
  | EFunc name args => fn_opcode name args
  | EExtFunc _ _ _ => OP_EXTFUNCTION
  | EPath _ _ _ => OP_LOCATIONPATH
  end.

(** * results of the node-list entry point: a returned object, or the caller's list filled *)
Inductive nlres := NlObj (l : list nat) | NlList (l : list nat).
Definition nl_nodes (r : nlres) : list nat := match r with NlObj l | NlList l => l end.
(* group / findNodeSet: a returned object is merged into the (empty) list in document order *)
Definition nl_merged (r : nlres) : list nat :=
  match r with NlObj l => merge_doc_order [] l | NlList l => l end.

(** * the six entry points at one recursion depth *)
Record evs := mkEvs {
  ev_g : ctx -> expr -> res value;               (* generic: XObjectPtr *)
  ev_b : ctx -> expr -> res bool;                (* bool& *)
  ev_n : ctx -> expr -> res dbl;                 (* double& *)
  ev_s : ctx -> expr -> str -> res str;          (* XalanDOMString&: buffer before -> buffer after *)
  ev_f : ctx -> expr -> str -> res str;          (* FormatterListener: characters received before -> after *)
  ev_l : ctx -> expr -> res nlres                (* MutableNodeRefList& *)
}.

Section Run.
  Variable E : evs.       (* the entry points used for sub-expressions *)

  (* XPath::getNumericOperand *)
  Definition numeric_operand (c : ctx) (x : expr) : res dbl :=
    match x with
    | ENumLit t => Ok (numlit_table_value t)
    | _ => ev_n E c x
    end.

  (* XPath::Union(.., MutableNodeRefList&) *)
  Definition union_nodes (c : ctx) (l : list expr) : res (list nat) :=
    fold_left (fun acc x => do q <- acc; do r <- ev_l E c x; Ok (merge_doc_order q (nl_nodes r))) l (Ok []).

  (* XPath::locationPath(.., MutableNodeRefList&) -> step(): predicates are evaluated through the
     generic entry point (XPath::predicate), a filter-expression head through the node-list one *)
  Definition path_nodes (c : ctx) (e : expr) : res (list nat) :=
    match e with
    | EPath None _ steps => steps_from (ev_g E) c (S (length steps)) [cx_node c] false steps
    | EPath (Some h) hps steps =>
        match h with
        | EVar _ _ | EFunc _ _ | EExtFunc _ _ _ | EGroup _ =>
            do r <- ev_l E c h;
            do l1 <- apply_preds (ev_g E) c (nl_merged r) hps;
            steps_from (ev_g E) c (S (length steps)) l1 false steps
        | _ => Err EUnknownAxis
        end
    | _ => Err EType
    end.

  Definition arg1 {A} (e : expr) (k : expr -> res A) : res A :=
    match e with EFunc _ [a] => k a | EFunc _ _ => Err EArgs | _ => Err EType end.
  Definition arg0 {A} (e : expr) (k : res A) : res A :=
    match e with EFunc _ [] => k | EFunc _ _ => Err EArgs | _ => Err EType end.

  Definition cmp2 (c : ctx) (op : cmpop) (a b : expr) : res bool :=
    do x <- ev_g E c a; do y <- ev_g E c b; Ok (compare c op x y).

  (* helpers returning bool *)
  Definition h_bool (h : helper) (c : ctx) (e : expr) : res bool :=
    match h with
    | HOr => match e with EOr a b => do x <- ev_b E c a; if x then Ok x else ev_b E c b | _ => Err EType end
    | HAnd => match e with EAnd a b => do x <- ev_b E c a; if x then ev_b E c b else Ok x | _ => Err EType end
    | HNotEquals => match e with ENe a b => cmp2 c CNe a b | _ => Err EType end
    | HEquals => match e with EEq a b => cmp2 c CEq a b | _ => Err EType end
    | HLte => match e with ELte a b => cmp2 c CLe a b | _ => Err EType end
    | HLt => match e with ELt a b => cmp2 c CLt a b | _ => Err EType end
    | HGte => match e with EGte a b => cmp2 c CGe a b | _ => Err EType end
    | HGt => match e with EGt a b => cmp2 c CGt a b | _ => Err EType end
    | HFnBoolean => arg1 e (fun a => ev_b E c a)
    | HFnNot => arg1 e (fun a => do x <- ev_b E c a; Ok (negb x))
    | _ => Err EType
    end.

  (* functionNumber(context, opPos, ..): executeMore(double&) on the argument.  For a number literal
     that is numberlit(opPos) = the token's number; being a leaf it is answered without fuel (as
     XpDefs.ev_num does), everything else recurses through the double entry point *)
  Definition number_arg (c : ctx) (a : expr) : res dbl :=
    match a with
    | ENumLit t => Ok (tk_num (num_token t))
    | _ => ev_n E c a
    end.

  Definition arith (c : ctx) (op : dbl -> dbl -> dbl) (a b : expr) : res dbl :=
    do x <- numeric_operand c a; do y <- numeric_operand c b; Ok (op x y).

  (* helpers returning double *)
  Definition h_num (h : helper) (c : ctx) (e : expr) : res dbl :=
    match h with
    | HPlus => match e with EPlus a b => arith c d_add a b | _ => Err EType end
    | HMinus => match e with EMinus a b => arith c d_sub a b | _ => Err EType end
    | HMult => match e with EMult a b => arith c d_mul a b | _ => Err EType end
    | HDiv => match e with EDiv a b => arith c d_div a b | _ => Err EType end
    | HMod => match e with EMod a b => arith c d_mod a b | _ => Err EType end
    | HNeg => match e with
              | ENeg a => do x <- numeric_operand c a; Ok (if d_is_nan x then d_nan else d_neg x)
              | _ => Err EType end
    | HNumberLit => match e with ENumLit t => Ok (tk_num (num_token t)) | _ => Err EType end
    | HFnPosition => arg0 e (Ok (d_of_nat (position_of c)))
    | HFnLast => arg0 e (Ok (d_of_nat (length (cx_list c))))
    | HFnCount => arg1 e (fun a => do r <- ev_l E c a; Ok (d_of_nat (length (nl_nodes r))))
    | HFnFloor => arg1 e (fun a => do x <- number_arg c a; Ok (d_floor x))
    | HFnCeiling => arg1 e (fun a => do x <- number_arg c a; Ok (d_ceiling x))
    | HFnRound => arg1 e (fun a => do x <- number_arg c a; Ok (d_round x))
    | HFnNumber0 => arg0 e (Ok (xo_number_str (node_string c (cx_node c))))
    | HFnNumber1 => arg1 e (fun a => number_arg c a)
    | HFnStringLength0 => arg0 e (Ok (d_of_nat (length (node_string c (cx_node c)))))
    | HFnStringLength1 => arg1 e (fun a => do s <- ev_f E c a []; Ok (d_of_nat (length s)))
    | HFnSum => arg1 e (fun a => do r <- ev_l E c a; Ok (sum_nodes c (nl_nodes r)))
    | _ => Err EType
    end.

  Definition first_or_empty (c : ctx) (k : ctx -> nat -> str) (l : list nat) : str :=
    match l with [] => [] | n :: _ => k c n end.

  (* helpers returning const XalanDOMString& *)
  Definition h_strref (h : helper) (c : ctx) (e : expr) : res str :=
    match h with
    | HFnName0 => arg0 e (Ok (name_of c (cx_node c)))
    | HFnName1 => arg1 e (fun a => do r <- ev_l E c a; Ok (first_or_empty c name_of (nl_nodes r)))
    | HFnLocalName0 => arg0 e (Ok (local_name_of c (cx_node c)))
    | HFnLocalName1 => arg1 e (fun a => do r <- ev_l E c a; Ok (first_or_empty c local_name_of (nl_nodes r)))
    | _ => Err EType
    end.

  (* helpers returning XObjectPtr *)
  Definition h_obj (h : helper) (c : ctx) (e : expr) : res value :=
    match h with
    | HUnion => match e with EUnion l => do r <- union_nodes c l; Ok (VNodes r) | _ => Err EType end
    | HLiteral => match e with ELiteral s => Ok (VStr (tk_str (str_token s))) | _ => Err EType end
    | HVariable => match e with
                   | EVar ns local =>
                       match lookup_var (cx_vars c) ns local with Some v => Ok v | None => Err EUnknownVariable end
                   | _ => Err EType end
    | HGroup => match e with EGroup x => ev_g E c x | _ => Err EType end
    | HNumberLit => match e with ENumLit t => Ok (VNum (tk_num (num_token t))) | _ => Err EType end
    | HRunExtFunction => match e with EExtFunc _ _ _ => Err EUnknownFunction | _ => Err EType end
    | HRunFunction => match e with EFunc name args => call_function (ev_g E) c name args | _ => Err EType end
    | HLocationPath => do r <- path_nodes c e; Ok (VNodes r)
    | _ => Err EType
    end.

  (* overloads writing a bool *)
  Definition h_out_b (h : helper) (c : ctx) (e : expr) : res bool :=
    match h with
    | HUnion => match e with EUnion l => do r <- union_nodes c l; Ok (xo_boolean_nodes r) | _ => Err EType end
    | HLiteral => match e with ELiteral s => Ok (tk_boolean (str_token s)) | _ => Err EType end
    | HGroup => match e with EGroup x => ev_b E c x | _ => Err EType end
    | HNumberLit => match e with ENumLit t => Ok (tk_boolean (num_token t)) | _ => Err EType end
    | HLocationPath => do r <- path_nodes c e; Ok (xo_boolean_nodes r)
    | _ => Err EType
    end.

  (* overloads writing a double *)
  Definition h_out_n (h : helper) (c : ctx) (e : expr) : res dbl :=
    match h with
    | HUnion => match e with EUnion l => do r <- union_nodes c l; Ok (xo_number_nodes c r) | _ => Err EType end
    | HLiteral => match e with ELiteral s => Ok (tk_num (str_token s)) | _ => Err EType end
    | HGroup => match e with EGroup x => ev_n E c x | _ => Err EType end
    | HLocationPath => do r <- path_nodes c e; Ok (xo_number_nodes c r)
    | _ => Err EType
    end.

  (* overloads appending to a XalanDOMString *)
  Definition h_out_s (h : helper) (c : ctx) (e : expr) (buf : str) : res str :=
    match h with
    | HUnion => match e with EUnion l => do r <- union_nodes c l; Ok (buf ++ xo_string_nodes c r) | _ => Err EType end
    | HLiteral => match e with ELiteral s => Ok (buf ++ tk_str (str_token s)) | _ => Err EType end
    | HGroup => match e with EGroup x => ev_s E c x buf | _ => Err EType end
    | HNumberLit => match e with ENumLit t => Ok (buf ++ tk_str (num_token t)) | _ => Err EType end
    | HLocationPath => do r <- path_nodes c e; Ok (buf ++ xo_string_nodes c r)
    | _ => Err EType
    end.

  (* overloads sending character events *)
  Definition h_out_f (h : helper) (c : ctx) (e : expr) (acc : str) : res str :=
    match h with
    | HPlus | HMinus | HMult | HDiv | HMod | HNeg => do x <- h_num h c e; Ok (acc ++ xo_string_num x)
    | HUnion => match e with EUnion l => do r <- union_nodes c l; Ok (acc ++ xo_string_nodes c r) | _ => Err EType end
    | HLiteral => match e with ELiteral s => Ok (acc ++ tk_str (str_token s)) | _ => Err EType end
    | HGroup => match e with EGroup x => ev_f E c x acc | _ => Err EType end
    | HNumberLit => match e with ENumLit t => Ok (acc ++ tk_str (num_token t)) | _ => Err EType end
    | HLocationPath => do r <- path_nodes c e; Ok (acc ++ xo_string_nodes c r)
    | _ => Err EType
    end.

  (* overloads filling a MutableNodeRefList *)
  Definition h_out_l (h : helper) (c : ctx) (e : expr) : res (list nat) :=
    match h with
    | HUnion => match e with EUnion l => union_nodes c l | _ => Err EType end
    | HGroup => match e with EGroup x => do r <- ev_l E c x; Ok (nl_merged r) | _ => Err EType end
    | HLocationPath => path_nodes c e
    | _ => Err EType
    end.

  (** ** one arm of each switch.  (A bool literal in the place of the helper call is true() /
      false(): XPathProcessorImpl::FunctionTrue / FunctionFalse reject a call with arguments at compile
      time, so such an expression has no op map; the model answers EArgs for it, like
      XpDefs.call_function.)  Combinations that do not occur in a well-typed program (no such
      overload, conversion applied to the wrong type) are errors of the model: a table that
      contains one makes the theorems of ExecModel.v fail. *)
  Definition run_g (a : arm) (c : ctx) (e : expr) : res value :=
    match a with
    | AConst b CvCreateBoolean => arg0 e (Ok (VBool b))
    | ACall h SgBool CvCreateBoolean => do x <- h_bool h c e; Ok (VBool x)
    | ACall h SgNum CvCreateNumber => do x <- h_num h c e; Ok (VNum x)
    | ACall h SgStrRef CvCreateStringReference => do x <- h_strref h c e; Ok (VStr x)
    | ACall h SgObj CvDirect => h_obj h c e
    | _ => Err EType
    end.

  Definition run_b (a : arm) (c : ctx) (e : expr) : res bool :=
    match a with
    | AConst b CvDirect => arg0 e (Ok b)
    | ACall h SgBool CvDirect => h_bool h c e
    | ACall h SgNum CvBoolean => do x <- h_num h c e; Ok (xo_boolean_num x)
    | ACall h SgNum CvDirect => do x <- h_num h c e; Ok (implicit_bool_of_double x)
    | ACall h SgStrRef CvBoolean => do x <- h_strref h c e; Ok (xo_boolean_str x)
    | ACall h SgObj CvMemberBoolean => do v <- h_obj h c e; Ok (to_boolean v)
    | ACall h SgOut CvDirect => h_out_b h c e
    | _ => Err EType
    end.

  Definition run_n (a : arm) (c : ctx) (e : expr) : res dbl :=
    match a with
    | AConst b CvNumber => arg0 e (Ok (xo_number_bool b))
    | ACall h SgBool CvNumber => do x <- h_bool h c e; Ok (xo_number_bool x)
    | ACall h SgNum CvDirect => h_num h c e
    | ACall h SgStrRef CvNumber => do x <- h_strref h c e; Ok (xo_number_str x)
    | ACall h SgObj CvMemberNum => do v <- h_obj h c e; Ok (to_number c v)
    | ACall h SgOut CvDirect => h_out_n h c e
    | _ => Err EType
    end.

  Definition run_s (a : arm) (c : ctx) (e : expr) (buf : str) : res str :=
    match a with
    | AConst b CvString => arg0 e (Ok (buf ++ xo_string_bool b))
    | ACall h SgBool CvString => do x <- h_bool h c e; Ok (buf ++ xo_string_bool x)
    | ACall h SgNum CvString => do x <- h_num h c e; Ok (buf ++ xo_string_num x)
    | ACall h SgStrRef CvAppend => do x <- h_strref h c e; Ok (buf ++ x)
    | ACall h SgObj CvMemberStr => do v <- h_obj h c e; Ok (buf ++ to_string c v)
    | ACall h SgOut CvDirect => h_out_s h c e buf
    | _ => Err EType
    end.

  Definition run_f (a : arm) (c : ctx) (e : expr) (acc : str) : res str :=
    match a with
    | AConst b CvString => arg0 e (Ok (acc ++ xo_string_bool b))
    | ACall h SgBool CvString => do x <- h_bool h c e; Ok (acc ++ xo_string_bool x)
    | ACall h SgNum CvString => do x <- h_num h c e; Ok (acc ++ xo_string_num x)
    | ACall h SgStrRef CvStringToChars | ACall h SgStrRef CvString => do x <- h_strref h c e; Ok (acc ++ x)
    | ACall h SgObj CvMemberStr => do v <- h_obj h c e; Ok (acc ++ to_string c v)
    | ACall h SgOut CvDirect => h_out_f h c e acc
    | _ => Err EType
    end.

  (* after the switch: a returned object that is not a node-set is an error (with the check
     removed the callers' ->nodeset() raises instead) *)
  Definition run_l (a : arm) (c : ctx) (e : expr) : res nlres :=
    match a with
    | ACall h SgObj CvKeep =>
        do v <- h_obj h c e; match v with VNodes l => Ok (NlObj l) | _ => Err EType end
    | ACall h SgOut CvDirect => do l <- h_out_l h c e; Ok (NlList l)
    | _ => Err EType          (* notNodeSetError, unknownOpCodeError; eOP_XPATH is not an expression node *)
    end.
End Run.

(** * the interpreter: every entry point dispatches through its regenerated table *)
Definition out_of_fuel : evs :=
  mkEvs (fun _ _ => Err EFuel) (fun _ _ => Err EFuel) (fun _ _ => Err EFuel)
        (fun _ _ _ => Err EFuel) (fun _ _ _ => Err EFuel) (fun _ _ => Err EFuel).

Fixpoint execs (fuel : nat) : evs :=
  match fuel with
  | O => out_of_fuel
  | S f =>
      let E := execs f in
      mkEvs (fun c e => run_g E (arm_generic (opcode_of e)) c e)
            (fun c e => run_b E (arm_bool (opcode_of e)) c e)
            (fun c e => run_n E (arm_num (opcode_of e)) c e)
            (fun c e buf => run_s E (arm_str (opcode_of e)) c e buf)
            (fun c e acc => run_f E (arm_chars (opcode_of e)) c e acc)
            (fun c e => run_l E (arm_nodes (opcode_of e)) c e)
  end.

(* XPath::execute(...) overloads; fuel as for XpDefs.eval_top *)
Definition fuel_for (e : expr) : nat := S (expr_size e).
Definition exec_generic (c : ctx) (e : expr) : res value := ev_g (execs (fuel_for e)) c e.
Definition exec_bool (c : ctx) (e : expr) : res bool := ev_b (execs (fuel_for e)) c e.
Definition exec_num (c : ctx) (e : expr) : res dbl := ev_n (execs (fuel_for e)) c e.
Definition exec_str (c : ctx) (e : expr) (buf : str) : res str := ev_s (execs (fuel_for e)) c e buf.
Definition exec_chars (c : ctx) (e : expr) (acc : str) : res str := ev_f (execs (fuel_for e)) c e acc.
Definition exec_nodelist (c : ctx) (e : expr) : res (list nat) :=
  do r <- ev_l (execs (fuel_for e)) c e; Ok (nl_nodes r).

(** * what the Recommendation prescribes, per op-code (used by the table theorems) *)
Inductive kind := KBool | KNum | KStr | KNodes | KAny.

(* result type of a helper: from the C++ return type for the typed ones; for the XObjectPtr ones
   what the operator is (XPath 1.0 section 3) *)
Definition helper_kind (h : helper) : kind :=
  match h with
  | HOr | HAnd | HNotEquals | HEquals | HLte | HLt | HGte | HGt | HFnNot | HFnBoolean => KBool
  | HPlus | HMinus | HMult | HDiv | HMod | HNeg | HNumberLit
  | HFnPosition | HFnLast | HFnCount | HFnFloor | HFnCeiling | HFnRound | HFnNumber0 | HFnNumber1
  | HFnStringLength0 | HFnStringLength1 | HFnSum => KNum
  | HLiteral | HFnName0 | HFnName1 | HFnLocalName0 | HFnLocalName1 => KStr
  | HUnion | HLocationPath => KNodes
  | HVariable | HGroup | HRunExtFunction | HRunFunction => KAny
  end.

Inductive entry := EnBool | EnNum | EnStr | EnChars | EnNodes.

(* helpers for which the model has an overload writing to the result parameter of the entry point *)
Definition modelled_out (en : entry) (h : helper) : bool :=
  match en, h with
  | EnBool, (HUnion | HLiteral | HGroup | HNumberLit | HLocationPath) => true
  | EnNum, (HUnion | HLiteral | HGroup | HLocationPath) => true
  | EnStr, (HUnion | HLiteral | HGroup | HNumberLit | HLocationPath) => true
  | EnChars, (HPlus | HMinus | HMult | HDiv | HMod | HNeg | HUnion | HLiteral | HGroup | HNumberLit | HLocationPath) => true
  | EnNodes, (HUnion | HGroup | HLocationPath) => true
  | _, _ => false
  end.

(* the conversion the Recommendation prescribes from a helper delivering [s] to the entry point *)
Definition prescribed_conv (en : entry) (s : sg) : list conv :=
  match en, s with
  | EnBool, SgBool => [CvDirect] | EnBool, (SgNum | SgStrRef) => [CvBoolean] | EnBool, SgObj => [CvMemberBoolean]
  | EnNum, SgNum => [CvDirect] | EnNum, (SgBool | SgStrRef) => [CvNumber] | EnNum, SgObj => [CvMemberNum]
  | EnStr, (SgBool | SgNum) => [CvString] | EnStr, SgStrRef => [CvAppend] | EnStr, SgObj => [CvMemberStr]
  | EnChars, (SgBool | SgNum) => [CvString] | EnChars, SgStrRef => [CvStringToChars; CvString]
  | EnChars, SgObj => [CvMemberStr]
  | EnNodes, SgObj => [CvKeep]
  | _, _ => []
  end.

(* the factory call that wraps a typed helper result into an object in the generic switch *)
Definition generic_wrap (s : sg) : option conv :=
  match s with
  | SgBool => Some CvCreateBoolean | SgNum => Some CvCreateNumber
  | SgStrRef => Some CvCreateStringReference | SgObj => Some CvDirect | SgOut => None
  end.

Definition generic_arm_ok (g : arm) : bool :=
  match g with
  | ADefault => true
  | AConst _ cv => conv_beq cv CvCreateBoolean
  | ACall h s cv =>
      match generic_wrap s with Some w => conv_beq cv w | None => false end &&
      match s, helper_kind h with
      | SgBool, KBool | SgNum, KNum | SgStrRef, KStr | SgObj, _ => true
      | _, _ => false
      end
  | _ => false
  end.

(* the arm [s] of a specialised switch is the prescribed conversion of the generic arm [g] *)
Definition spec_arm_ok (en : entry) (g s : arm) : bool :=
  match g with
  | ADefault =>
      (* no generic case: an error in the specialised switch too (eOP_XPATH only heads the op map) *)
      match s with ADefault => true | ANotNodeSet | ARecurse => match en with EnNodes => true | _ => false end | _ => false end
  | AConst b _ =>
      match en with
      | EnNodes => arm_eqb s ANotNodeSet
      | _ => existsb (fun cv => arm_eqb s (AConst b cv)) (prescribed_conv en SgBool)
      end
  | ACall h sg0 _ =>
      match en, helper_kind h with
      | EnNodes, (KBool | KNum | KStr) =>
          arm_eqb s ANotNodeSet || arm_eqb s (ACall h SgObj CvKeep) && sg_beq sg0 SgObj
      | _, _ =>
          existsb (fun cv => arm_eqb s (ACall h sg0 cv)) (prescribed_conv en sg0)
          || (arm_eqb s (ACall h SgOut CvDirect) && modelled_out en h)
          (* the double switch may also call the double-returning overload of an XObjectPtr helper *)
          || (match en, helper_kind h with EnNum, KNum => arm_eqb s (ACall h SgNum CvDirect) | _, _ => false end)
      end
  | _ => false
  end.

Definition arm_of (en : entry) : opcode -> arm :=
  match en with
  | EnBool => arm_bool | EnNum => arm_num | EnStr => arm_str | EnChars => arm_chars | EnNodes => arm_nodes
  end.
