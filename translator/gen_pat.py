"""C09: structural facts of the pattern matcher and the pattern compiler that coq/PatDefs.v mirrors
(regenerated from /repo on every run into coq/GenPat.v; Properties_C09.v compares them with the
model's own table, so a new MATCH_* case, a dropped node-type guard or a lost positional flag breaks
the proof leg).  Only structure is extracted (case labels, presence of guards): a harmless rewrite of
statements inside a case does not change the output."""
import re
import srcfacts as sf


def _case_bodies(body):
    """split the switch(stepType) of stepPattern into (labels, text) groups"""
    m = sf.need(r"switch\s*\(\s*stepType\s*\)\s*\{", body, "stepPattern: switch(stepType)")
    i = m.end() - 1
    depth = 0
    end = None
    for j in range(i, len(body)):
        if body[j] == "{":
            depth += 1
        elif body[j] == "}":
            depth -= 1
            if depth == 0:
                end = j
                break
    if end is None:
        raise sf.AnchorError("stepPattern: unbalanced switch")
    sw = body[i + 1:end]
    parts = re.split(r"(case\s+XPathExpression::(\w+)\s*:|default\s*:)", sw)
    groups, labels = [], []
    k = 1
    while k < len(parts):
        lab = parts[k + 1] if parts[k].startswith("case") else "default"
        text = parts[k + 2]
        labels.append(lab)
        if text.strip():
            groups.append((labels, text))
            labels = []
        k += 3
    return groups


def gen_pat():
    x = sf.strip_comments(sf.read("XPath/XPath.cpp"))
    p = sf.strip_comments(sf.read("XPath/XPathProcessorImpl.cpp"))
    sp = sf.function_body(x, r"XPath::stepPattern\s*\([^)]*\)\s*const\s*\{", "XPath::stepPattern")
    groups = _case_bodies(sp)
    order = [l for labs, _ in groups for l in labs if l != "default"]

    def group_of(label):
        for labs, text in groups:
            if label in labs:
                return labs, text
        raise sf.AnchorError("stepPattern: no case " + label)
    facts = {}
    # the recursion prologue
    pro = sp[:sp.index("switch")]
    facts["recursion_first"] = bool(re.search(r"if\s*\(\s*XPathExpression::eENDOP\s*!=\s*nextStepType\s*\)\s*\{\s*context\s*=\s*stepPattern\s*\(", pro))
    facts["parent_unless_function_call"] = bool(re.search(
        r"if\s*\(\s*nextStepType\s*!=\s*XPathExpression::eMATCH_ANY_ANCESTOR_WITH_FUNCTION_CALL\s*\)\s*\{\s*context\s*=\s*DOMServices::getParentOfNode\s*\(\s*\*context\s*\)\s*;\s*\}", pro))
    facts["exhausted_parent_is_no_match"] = bool(re.search(
        r"if\s*\(\s*0\s*==\s*context\s*\)\s*\{\s*scoreHolder\s*=\s*eMatchScoreNone\s*;\s*return\s+0\s*;\s*\}\s*\}\s*assert", pro))
    # immediate ancestor
    _, imm = group_of("eMATCH_IMMEDIATE_ANCESTOR")
    m = re.search(r"if\s*\(([^{]*?)\)\s*\{", imm)
    cond = m.group(1) if m else ""
    facts["imm_excluded_types"] = sorted(re.findall(r"nodeType\s*!=\s*XalanNode::(\w+)", cond))
    # attribute
    _, att = group_of("eMATCH_ATTRIBUTE")
    facts["attr_requires_attribute_node"] = bool(re.search(r"if\s*\(\s*context->getNodeType\s*\(\s*\)\s*==\s*XalanNode::ATTRIBUTE_NODE\s*\)", att))
    facts["attr_tester_axis"] = sf.need(r"NodeTester\s*\([^;]*?XPathExpression::(e\w+)\s*\)\s*\(", att, "MATCH_ATTRIBUTE NodeTester axis").group(1)
    # any ancestor
    labs, anyc = group_of("eMATCH_ANY_ANCESTOR")
    facts["any_cases_shared"] = sorted(labs)
    facts["any_start_excludes_attribute"] = bool(re.search(r"if\s*\(\s*nodeType\s*!=\s*XalanNode::ATTRIBUTE_NODE\s*\)", anyc))
    # the root exclusion of the child-axis any-ancestor step:  <types> && stepType == <op> ? eMatchScoreNone : tester
    # (<types> is one 'nodeType == T' or a parenthesised '||' of them; anything else in the condition fails closed)
    mx = re.search(r"score\s*=\s*([^;?]*?)&&\s*stepType\s*==\s*XPathExpression::(e\w+)\s*\?\s*eMatchScoreNone\s*:", anyc)
    facts["any_document_excluded_for"] = [mx.group(2)] if mx else []
    facts["any_excluded_root_types"] = sorted(re.findall(r"nodeType\s*==\s*XalanNode::(\w+)", mx.group(1))) if mx else []
    if mx and re.sub(r"nodeType\s*==\s*XalanNode::\w+|\|\||[()\s]", "", mx.group(1)) != "":
        raise sf.AnchorError("stepPattern: the root exclusion of eMATCH_ANY_ANCESTOR is not a disjunction of node types: " + mx.group(1))
    facts["any_loop_predicates_inside"] = bool(re.search(r"for\s*\(\s*;\s*;\s*\).*doStepPredicate.*getParentOfNode", anyc, re.S)) and \
        bool(re.search(r"fDoPredicates\s*=\s*false", anyc))
    # root
    _, root = group_of("eFROM_ROOT")
    # FROM_ROOT only accepts the root itself (no look at the neighbouring step, no walk towards the root)
    facts["root_is_exact"] = ("prevStepType" not in root) and ("getParentOfNode" not in root) and \
        bool(re.search(r"DOCUMENT_NODE", root))
    # the node types eFROM_ROOT accepts as a root (a document, the root of a result tree fragment)
    facts["root_accepted_types"] = sorted(re.findall(r"nodeType\s*==\s*XalanNode::(\w+)", root))
    # an any-ancestor step whose left neighbour is exact re-enters stepPattern on the steps to its left
    # (from firstPos, stopping at this step) for every ancestor it would accept
    m = re.search(r"fCheckLeft\s*=\s*([^;]*);", anyc[anyc.index("if (startOpPos != firstPos)"):] if "if (startOpPos != firstPos)" in anyc else "")
    facts["left_check_skipped_after"] = sorted(set(re.findall(r"leftStepType\s*!=\s*XPathExpression::(e\w+)", m.group(1)))) if m else []
    facts["any_checks_left"] = bool(re.search(
        r"fCheckLeft\s*==\s*true\s*\)\s*\{.*?getParentOfNode\s*\(\s*\*context\s*\).*?stepPattern\s*\(\s*executionContext\s*,\s*theParent\s*,\s*firstPos\s*,\s*theLeftScore\s*,\s*firstPos\s*,\s*startOpPos\s*\)", anyc, re.S))
    facts["stop_ends_pattern"] = bool(re.search(r"endStep\s*==\s*stopPos\s*\?", pro))
    # function head
    _, fn = group_of("eOP_FUNCTION")
    facts["function_ancestor_loop"] = bool(re.search(
        r"if\s*\(\s*nextStepType\s*==\s*XPathExpression::eMATCH_ANY_ANCESTOR_WITH_FUNCTION_CALL\s*\)\s*\{.*?while\s*\(\s*context\s*!=\s*0\s*&&\s*fFound\s*==\s*false\s*\)", fn, re.S))
    # handleFoundIndex
    hf = sf.function_body(x, r"XPath::handleFoundIndex\s*\([^)]*\)\s*const\s*\{", "XPath::handleFoundIndex")
    facts["found_index_reruns_step_from_parent"] = bool(re.search(r"step\s*\(\s*executionContext\s*,\s*parentContext\s*,\s*startOpPos", hf))
    # doStepPredicate
    dp = sf.function_body(x, r"XPath::doStepPredicate\s*\([^)]*\)\s*const\s*\{", "XPath::doStepPredicate")
    # (presence only: how the calls inside the loop are ordered or written is left to the correspondence)
    facts["flagged_goes_to_found_index"] = ("eOP_PREDICATE_WITH_POSITION" in dp) and len(re.findall(r"\bhandleFoundIndex\s*\(", dp)) >= 2
    facts["number_goes_to_found_index"] = ("eTypeNumber" in dp) and len(re.findall(r"\bhandleFoundIndex\s*\(", dp)) >= 2
    # NodeTester: name tests on the attribute axis
    nt = sf.function_body(x, r"XPath::NodeTester::NodeTester\s*\(\s*const\s+XPath\s*&[^)]*\)\s*:[^{]*\{", "NodeTester constructor")
    m = sf.need(r"case\s+XPathExpression::eNODENAME\s*:(.*?)case\s+|case\s+XPathExpression::eNODENAME\s*:(.*)$", nt, "NodeTester eNODENAME case")
    nn = m.group(1) or m.group(2)
    m2 = sf.need(r"if\s*\(([^{]*?)\)\s*\{\s*if\s*\(\s*isTotallyWild", nn, "NodeTester attribute-axis condition")
    facts["name_test_attribute_axes"] = sorted(set(re.findall(r"stepType\s*==\s*XPathExpression::(e\w+)", m2.group(1))))
    # the compiler
    ab = sf.function_body(p, r"XPathProcessorImpl::AbbreviatedNodeTestStep\s*\(\s*\)\s*\{", "AbbreviatedNodeTestStep")
    facts["any_rewrite"] = bool(re.search(
        r"if\s*\(\s*matchTypePos\s*>\s*-1\s*&&\s*tokenIs\s*\(\s*XalanUnicode::charSolidus\s*\)\s*==\s*true\s*&&\s*lookahead\s*\(\s*XalanUnicode::charSolidus\s*,\s*1\s*\)\s*==\s*true\s*\)\s*\{[^}]*setOpCodeMapValue\s*\(\s*matchTypePos\s*,\s*XPathExpression::eMATCH_ANY_ANCESTOR\s*\)", ab))
    facts["step_ops"] = sorted(set(re.findall(r"axisType\s*=\s*XPathExpression::(eMATCH_\w+)", ab)))
    lp = sf.function_body(p, r"XPathProcessorImpl::LocationPathPattern\s*\(\s*\)\s*\{", "LocationPathPattern")
    facts["head_ops"] = re.findall(r"appendOpCode\s*\(\s*XPathExpression::(e(?:MATCH|FROM|NODETYPE)_\w+)", lp)
    for fnname in ("FunctionPosition", "FunctionLast"):
        b = sf.function_body(p, r"XPathProcessorImpl::%s\s*\(\s*\)\s*\{" % fnname, fnname)
        facts[fnname + "_sets_flag"] = bool(re.search(r"if\s*\(\s*m_positionPredicateStack\.empty\s*\(\s*\)\s*==\s*false\s*\)\s*\{\s*m_positionPredicateStack\.back\s*\(\s*\)\s*=\s*true\s*;", b))
    pe = sf.function_body(p, r"XPathProcessorImpl::PredicateExpr\s*\(\s*\)\s*\{", "PredicateExpr")
    facts["flag_becomes_opcode"] = bool(re.search(r"m_positionPredicateStack\.back\s*\(\s*\)\s*==\s*true\s*\)\s*\{\s*m_expression->replaceOpCode\s*\(\s*opPos\s*,\s*XPathExpression::eOP_PREDICATE\s*,\s*XPathExpression::eOP_PREDICATE_WITH_POSITION", pe))

    def cs(xs):
        return "[" + "; ".join('"%s"' % s for s in xs) + "]"

    def cb(b):
        return "true" if b else "false"
    out = sf.HEADER
    out += "From Coq Require Import List String.\nImport ListNotations.\nOpen Scope string_scope.\n\n"
    out += "(* case labels of the switch in XPath::stepPattern, in source order *)\n"
    out += "Definition step_pattern_cases : list string := %s.\n" % cs(order)
    for k in ("imm_excluded_types", "any_cases_shared", "any_document_excluded_for", "any_excluded_root_types",
              "root_accepted_types", "left_check_skipped_after",
              "name_test_attribute_axes", "step_ops", "head_ops"):
        out += "Definition %s : list string := %s.\n" % (k, cs(facts[k]))
    out += "Definition attr_tester_axis : string := \"%s\".\n" % facts["attr_tester_axis"]
    bools = [k for k, v in facts.items() if isinstance(v, bool)]
    for k in bools:
        out += "Definition %s : bool := %s.\n" % (k, cb(facts[k]))
    out += "Definition all_structure_flags : list bool := [%s].\n" % "; ".join(bools)
    facts["step_pattern_cases"] = order
    return out, facts


GENERATORS = {"GenPat": gen_pat}
