(* C13 — further observations built from the observation language of StripDefs.v (definitions only):
   xsl:key tables (XSLT/KeyTable.cpp: every node of the document matching `match`, indexed by the
   string-values of `use`), xsl:number level="single" with a node-test count pattern, sort keys. *)
From Coq Require Import String List NArith Bool.
Require Import XV.StripDefs.
Open Scope list_scope.
Import ListNotations.

Definition ctx_string (st : pred) (c : ctx) : str := string_value st (c_pk c) (c_self c).

Definition all_matching (st : pred) (m : ntest) (d : node) : list ctx :=
  eval_path st [ {| s_axis := AxDescendantOrSelf; s_test := m; s_pred := PAll |} ] (root_ctx d).

(* key('k', v) for <xsl:key name="k" match="m" use="."/> *)
Definition key_dot (st : pred) (m : ntest) (v : str) (d : node) : list ctx :=
  filter (fun c => str_eqb (ctx_string st c) v) (all_matching st m d).

(* the values of use="text()": the string-values of the visible text children *)
Definition text_children_values (st : pred) (c : ctx) : list str :=
  map (ctx_string st) (eval_step st {| s_axis := AxChild; s_test := TText; s_pred := PAll |} c).

(* key('k', v) for <xsl:key name="k" match="m" use="text()"/> *)
Definition key_text (st : pred) (m : ntest) (v : str) (d : node) : list ctx :=
  filter (fun c => existsb (fun s => str_eqb s v) (text_children_values st c)) (all_matching st m d).

(* <xsl:number level="single" count="t"/> on a node that itself matches t (ElemNumber::getPreviousNode,
   single/multiple branch: previous siblings matching the count pattern) *)
Definition number_single (st : pred) (t : ntest) (c : ctx) : option nat :=
  if test_node t (c_self c)
  then Some (S (length (eval_step st {| s_axis := AxPrecedingSibling; s_test := t; s_pred := PAll |} c)))
  else None.

(* the keys xsl:sort select="." computes for a selected node list *)
Definition sort_keys (st : pred) (l : list ctx) : list str := map (ctx_string st) l.
