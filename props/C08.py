"""C08 — output options change only the lexical form, never the content.

proof          coq/Properties_C08.v over OutoptDefs.v: the indent automaton of FormatterToXMLUnicode + XalanIndentWriter
               as coded (op order regenerated from /repo by translator/gen_outopt.py and pinned by
               automaton_as_modelled), the text method, option selection
correspondence extracted model (.build/outopt_model) vs the rebuilt library (.build/outopt_plain = harness/outopt.cpp):
               X: XalanXMLSerializerFactory product under (encoding, version, indent amount, omit-xml-declaration,
               standalone, doctype-system/public) byte-exact; T: FormatterToText byte-exact; Q: HTML element table
               look-ups vs the behaviour of FormatterToHTML; O: option selection vs what whole transformations show
oracle         (no model) the SAME result tree serialised by the library under two option settings, each re-parsed by
               Xerces, compared node by node modulo white-space-only text nodes BETWEEN TAGS when indenting; text method
               vs Python's codecs; html method vs Python's html.parser; whole transformations with xsl:output
               attributes, imports and XalanTransformer::setIndent/setOutputEncoding/setOmitMETATag/setEscapeURLs
"""
import os, re, sys, html.parser, urllib.parse
from vlib import core
from props import C04 as S4

LEVEL = "proof"
FAMILY = "outopt"
ENCODINGS = ["UTF-8", "UTF-16", "ISO-8859-1", "US-ASCII"]
u16, tok, untok = S4.u16, S4.tok, S4.untok
XHTML_PUB = "-//W3C//DTD XHTML 1.0 Strict//EN"
BASE_CFG = ("UTF-8", "1.0", -1, 0, "-", "-", "-")     # enc, ver, indent, omit, standalone, dtsys, dtpub


def s_of(units):
    return "".join(chr(u) for u in units).encode("utf-16", "surrogatepass").decode("utf-16", "surrogatepass") if any(0xD800 <= u <= 0xDFFF for u in units) else "".join(chr(u) for u in units)


# ---------------------------------------------------------------------------------------------
# abstract result trees as event lists ("S", name, attrs) ("E", name) ("T", s) ("M", s) ("P", t, d); strings = unit lists.
# cdata-section-elements is a *variant*: apply_cdata turns the text children of the chosen elements into "C" events

WS_STRINGS = [[32], [32, 32], [10], [9], [10, 32, 32], [13, 10], [32, 10, 9]]
NAMES = ["a", "b", "c", "item", "x-y", "p:e", "n1", "_u", "deep"]
ATTRS = ["id", "k", "xml:lang", "p:at", "data-x"]
ALPHA = {
    "ascii": [ord(c) for c in "abcXYZ 019.,;:-_/()[]=+*%$#@!?~^`{}|\\"],
    "special": [60, 62, 38, 34, 39, 9, 10, 93, 93, 62],
    "cr": [13, 10, 13],
    "latin": list(range(0xA0, 0x100)),
    "bmp": [0x100, 0x7FF, 0x800, 0x20AC, 0x3042, 0xD7FF, 0xE000, 0xFFFD],
}


def rstr(r, n, mix):
    out = []
    while len(out) < n:
        k = r.choice(mix)
        if k == "pair":
            hi, lo = r.randrange(0xD800, 0xDC00), r.randrange(0xDC00, 0xE000)
            # not the noncharacters U+xFFFE / U+xFFFF: a numeric reference to one of them is dropped by html.parser
            # (false alarm of the html oracle corrected 2026-10-02); XML accepts them, C04 covers them
            if (lo & 0x3FE) == 0x3FE and (hi & 0x3F) == 0x3F:
                continue
            out += [hi, lo]
        else:
            out.append(r.choice(ALPHA[k]))
    return out


def gen_tree(r, profile):
    """profile: mixed | wsonly | deep | comments | plain"""
    evs = []
    mix = r.choice([["ascii"], ["ascii", "special"], ["ascii", "latin", "special"], ["ascii", "bmp", "pair", "special"], ["ascii", "cr", "special"]])
    maxdepth = {"deep": r.choice([7, 12, 20]), "mixed": 4, "wsonly": 4, "comments": 3, "plain": 3}[profile]

    def text():
        if profile == "wsonly" and r.random() < 0.6:
            return list(r.choice(WS_STRINGS))
        if r.random() < 0.15:
            return list(r.choice(WS_STRINGS))
        return rstr(r, r.choice([1, 1, 2, 3, 5, 9]), mix)

    def comment():
        return S4.clean_comment(rstr(r, r.choice([0, 1, 3]), ["ascii"]))

    def pi():
        return (u16(r.choice(["pi", "x-pi", "t"])), S4.clean_pi(rstr(r, r.choice([0, 2, 4]), ["ascii"])))

    def element(depth, root=False, chain=True):
        name = u16("r" if root else r.choice(NAMES))
        attrs, seen = [], set()
        if root:
            attrs.append((u16("xmlns:p"), u16("urn:p")))
        if r.random() < 0.15:
            attrs.append((u16("xml:space"), u16(r.choice(["preserve", "default"]))))
        for _ in range(r.choice([0, 0, 1, 2])):
            an = r.choice(ATTRS)
            if an not in seen:
                seen.add(an)
                attrs.append((u16(an), rstr(r, r.choice([0, 1, 3, 6]), mix + ["cr"] if r.random() < 0.2 else mix)))
        evs.append(("S", name, attrs))
        if profile == "deep" and depth < maxdepth and chain:
            kinds = ["chain"] + r.choice([[], ["T"], ["leaf"], ["M"], ["T", "leaf"], ["leaf", "leaf"]])
        elif profile == "deep" or depth >= maxdepth or len(evs) > 250:
            kinds = r.choice([[], ["T"], ["M"]])
        else:
            n = r.choice([0, 1, 2, 3, 4, 5])
            pool = {"mixed": ["T", "T", "el", "el", "M", "P"], "wsonly": ["T", "el", "el"], "comments": ["M", "P", "T", "el", "M"],
                    "plain": ["el", "el", "T"], "deep": ["el"]}[profile]
            kinds = [r.choice(pool) for _ in range(n)]
        r.shuffle(kinds)
        for k in kinds:
            if k == "el":
                element(depth + 1)
            elif k == "chain":
                element(depth + 1, chain=True)
            elif k == "leaf":
                element(depth + 1, chain=False)
            elif k == "T":
                evs.append(("T", text()))
            elif k == "M":
                evs.append(("M", comment()))
            else:
                t, d = pi()
                evs.append(("P", t, d))
        evs.append(("E", name))
    if r.random() < 0.2:
        evs.append(("M", comment()))
    if r.random() < 0.1:
        t, d = pi()
        evs.append(("P", t, d))
    element(0, True)
    if r.random() < 0.15:
        evs.append(("M", comment()))
    return evs


def root_of(evs):
    return next(s_of(e[1]) for e in evs if e[0] == "S")


def element_names(evs):
    return sorted({tuple(e[1]) for e in evs if e[0] == "S"})


def apply_cdata(evs, names):
    """text children of elements whose name is in `names` are written through cdata()"""
    names = {tuple(n) for n in names}
    out, stack = [], []
    for e in evs:
        if e[0] == "S":
            stack.append(tuple(e[1]))
        elif e[0] == "E":
            stack.pop()
        if e[0] == "T" and stack and stack[-1] in names:
            out.append(("C", e[1]))
        else:
            out.append(e)
    return out


def cdata_safe_names(evs, v11_possible=True):
    """elements whose text children may go into CDATA sections without entering C04's known classes (CR in CDATA)"""
    return element_names(evs)      # CR / NEL / LSEP / 1.1 controls inside CDATA sections were repaired in /repo (c0025ef, 1a380fd)


# set by run() from the regenerated facts: which variant of the three repaired functions /repo has
FX = [False]     # writeCDATA/charactersRaw set m_isprevtext (GenOutopt.cdata_sets_prevtext): class K-C08-1 is gone
TX = [False]     # FormatterToText raises for a character outside the encoding (text_method_checks_representability): class K18 is gone
SX = [False]     # XalanOutputStream keeps a trailing high surrogate back (stream_keeps_high_surrogate): class K-C08-2 is gone


def guard_ok(evs):
    """the guard of indent_adds_only_ws_partial (OutoptDefs.ind_guard), re-implemented"""
    if FX[0]:
        return True
    pt = lt = False
    for e in evs:
        k = e[0]
        if k == "S":
            if lt and not pt:
                return False
            pt = lt = False
        elif k == "E":
            pt = lt = False
        elif k == "T":
            if e[1]:
                pt = lt = True
        elif k in ("C", "R"):
            if e[1]:
                lt = True
        else:
            lt = False
    return True


def x_line(cid, cfg, evs):
    enc, ver, ind, omit, sa, dsys, dpub = cfg
    f = lambda x: "-" if x == "-" else tok(u16(x))
    return "X " + S4.script_line(cid, enc, ver, evs).replace(" -L", "", 1).replace(
        "%s %s %s" % (cid, enc, ver), "%s %s %s %d %d %s %s %s" % (cid, enc, ver, ind, omit, sa, f(dsys), f(dpub)), 1)


def parse_tokens(p):
    """the harness's re-parse string -> list of tuples"""
    t = p.split()
    out, i = [], 0
    while i < len(t):
        k = t[i]
        if k == "S":
            n = int(t[i + 2])
            out.append(("S", t[i + 1]) + tuple(t[i + 3:i + 3 + 2 * n]))
            i += 3 + 2 * n
        elif k == "P":
            out.append(("P", t[i + 1], t[i + 2]))
            i += 3
        else:
            out.append((k, t[i + 1]))
            i += 2
    return out


def is_ws_tok(x):
    return x[0] == "T" and all(u in (32, 9, 10, 13) for u in untok(x[1]))


def ws_relation(base, var, allow_ws):
    """None when `var` is `base` plus (if allow_ws) new white-space-only text nodes; else a description.
    Both lists are coalesced by the parser, so white space added next to an existing text node shows as a changed node."""
    i = j = 0
    while i < len(base) or j < len(var):
        if i < len(base) and j < len(var) and base[i] == var[j]:
            i += 1
            j += 1
        elif allow_ws and j < len(var) and is_ws_tok(var[j]):
            j += 1
        else:
            b = base[i] if i < len(base) else None
            v = var[j] if j < len(var) else None
            if b and v and b[0] == "T" and v[0] == "T":
                return "text node changed: %s -> %s" % (b[1], v[1])
            if b and v and b[0] == "S" and v[0] == "S" and b[1] == v[1]:
                return "attributes changed: %s -> %s" % (" ".join(b[1:]), " ".join(v[1:]))
            return "node %d differs: %s -> %s" % (i, b, v)
    return None


def lexical_checks(cfg, data, root="r"):
    """what the option must do to the lexical form (independent of the model); data = output bytes"""
    enc, ver, ind, omit, sa, dsys, dpub = cfg
    try:
        txt = data.decode({"UTF-8": "utf-8", "UTF-16": "utf-16", "ISO-8859-1": "latin-1", "US-ASCII": "ascii"}[enc], "replace")
    except Exception as ex:
        return "output does not decode as %s: %s" % (enc, ex)
    has_decl = txt.startswith("<?xml ")
    if omit == 0 and not has_decl:
        return "omit-xml-declaration=no but no XML declaration"
    if has_decl:
        decl = txt[:txt.index("?>") + 2] if "?>" in txt else txt[:80]
        if 'version="%s"' % ver not in decl:
            return "XML declaration does not carry version %s: %s" % (ver, decl)
        if 'encoding="%s"' % enc not in decl:
            return "XML declaration does not carry encoding %s: %s" % (enc, decl)
        if sa != "-" and 'standalone="%s"' % sa not in decl:
            return "standalone=%s requested but the declaration is %s" % (sa, decl)
        if sa == "-" and "standalone" in decl:
            return "standalone not requested but the declaration is %s" % decl
    elif sa != "-":
        return "standalone=%s requested but there is no XML declaration" % sa
    if dsys != "-":
        want = '<!DOCTYPE %s PUBLIC "%s" "%s">' % (root, dpub, dsys) if dpub != "-" else '<!DOCTYPE %s SYSTEM "%s">' % (root, dsys)
        if want not in txt:
            return "doctype-system given but %s is not in the output" % want
    elif "<!DOCTYPE" in txt:
        return "DOCTYPE written without doctype-system"
    return None


# ---------------------------------------------------------------------------------------------
# X stream

def rand_cfg(r, indent=None):
    enc = r.choice(ENCODINGS)
    ver = r.choice(["1.0", "1.0", "1.1"])
    ind = indent if indent is not None else r.choice([-1, 0, 1, 2, 3, 4, 8])
    omit = r.choice([0, 0, 1])
    sa = r.choice(["-", "-", "yes", "no"])
    dsys = r.choice(["-", "-", "sys.dtd"])
    dpub = r.choice(["-", "-", XHTML_PUB, "-//X//DTD Y//EN"])
    return (enc, ver, ind, omit, sa, dsys, dpub)


def cfg_ok_for(cfg, evs):
    """keep out of C04's known classes: comment/PI/name characters must be representable (they are ASCII here)"""
    return True


def gen_x_cases(ctx, n_trees, n_variants):
    r = ctx.rng
    groups = []    # (cls, evs_base_script, [(cfg, evs_variant_script)])
    profiles = ["mixed", "wsonly", "deep", "comments", "plain"]
    for i in range(n_trees):
        prof = profiles[i % len(profiles)]
        evs = gen_tree(r, prof)
        variants = []
        safe = cdata_safe_names(evs)
        for k in range(n_variants):
            cfg = rand_cfg(r, indent=(r.choice([0, 1, 2, 3, 5, 8]) if k < 2 else None))
            ev = evs
            if safe and r.random() < 0.35:
                cand = apply_cdata(evs, r.sample(safe, r.randrange(1, min(3, len(safe)) + 1)))
                # the class of finding K-C08-1 (start tag right after a CDATA section while indenting) stays out of this stream
                if cfg[2] < 0 or guard_ok(cand):
                    ev = cand
            variants.append((cfg, ev))
        # amounts 0..8 on one tree, everything else fixed: the pairs the property names explicitly
        if i % 7 == 0:
            for amt in range(0, 9):
                variants.append((("UTF-8", "1.0", amt, 0, "-", "-", "-"), evs))
        groups.append(("tree:" + prof, evs, variants))
    return groups


def depth_boundary_groups():
    """indentation at depth >= 3 after an end tag, m_preserves beyond its initial capacity (5), empty and non-empty siblings"""
    gs = []
    for depth in (1, 2, 3, 4, 5, 6, 7, 11):
        evs = []
        for d in range(depth):
            evs.append(("S", u16("e%d" % d), []))
            if d % 2 == 1:
                evs.append(("S", u16("s"), []))
                evs.append(("E", u16("s")))
        evs.append(("T", u16("leaf")))
        for d in reversed(range(depth)):
            evs.append(("E", u16("e%d" % d)))
            if d > 0:
                evs.append(("S", u16("after%d" % d), []))
                evs.append(("S", u16("in"), []))
                evs.append(("E", u16("in")))
                evs.append(("E", u16("after%d" % d)))
        gs.append(("boundary:depth", evs, [(("UTF-8", "1.0", a, 0, "-", "-", "-"), evs) for a in (0, 1, 2, 3)]))
    mixed = [("S", u16("a"), []), ("T", u16("text")), ("S", u16("b"), []), ("E", u16("b")), ("S", u16("c"), []), ("T", u16("x")), ("E", u16("c")),
             ("M", u16("m")), ("T", u16("t2")), ("P", u16("p"), u16("d")), ("S", u16("d"), [(u16("xml:space"), u16("preserve"))]),
             ("S", u16("e"), []), ("E", u16("e")), ("T", [32, 32]), ("S", u16("f"), []), ("E", u16("f")), ("E", u16("d")), ("E", u16("a"))]
    gs.append(("boundary:mixed", mixed, [(("UTF-8", "1.0", a, o, sa, ds, dp), mixed) for a in (0, 2) for o in (0, 1) for sa in ("-", "yes")
                                          for ds, dp in (("-", "-"), ("sys.dtd", "-"), ("sys.dtd", XHTML_PUB), ("-", XHTML_PUB))]))
    return gs


def cdata_boundary_groups():
    """cdata-section-elements x encoding x version on text in which a character that has to leave the CDATA section as a
    character reference (CR; a character outside the encoding; under 1.1 NEL, LSEP and restricted controls) is directly
    followed by ']]>' or one of its prefixes: writeCDATAChars closes the section, writes the reference, and has to know
    whether it is inside or outside when the ']]>' splitting comes"""
    gs = []
    specials = [("cr", [13], False), ("euro", [0x20AC], False), ("x100", [0x100], False), ("pair", [0xD83D, 0xDE00], False), ("latin", [0xE9], False),
                ("c1", [1], True), ("nel", [0x85], True), ("lsep", [0x2028], True), ("del", [0x7F], True), ("c9f", [0x9F], True)]
    tails = [u16("]]>"), u16("]]"), u16("]"), u16(">"), u16("]]>z"), u16("]]>]]>"), u16("]]]>"), [13] + u16("]]>")]
    for sname, sp, only11 in specials:
        for ti, tail in enumerate(tails):
            for pre in ([], u16("ab")):
                if pre and ti % 2:
                    continue
                evs = [("S", u16("r"), []), ("S", u16("a"), []), ("T", pre + sp + tail + u16("q")), ("E", u16("a")),
                       ("S", u16("b"), []), ("T", sp + sp + tail), ("E", u16("b")), ("E", u16("r"))]
                cd = apply_cdata(evs, [u16("a"), u16("b")])
                vers = ["1.1"] if only11 else ["1.0", "1.1"]
                variants = []
                for enc in ENCODINGS:
                    for ver in vers:
                        variants.append(((enc, ver, -1, 0, "-", "-", "-"), cd))
                variants.append((("ISO-8859-1", vers[-1], 2, 0, "-", "-", "-"), cd))
                # no declaration only with 1.0: a document without declaration is read as XML 1.0, where '&#1;' is not a Char
                # (version="1.1" with omit-xml-declaration="yes" is an error in XSLT 2.0; XSLT 1.0 is silent: assumption)
                variants.append((("US-ASCII", vers[0], -1, 0 if only11 else 1, "-", "-", "-"), evs))
                gs.append(("boundary:cdata:" + sname, evs, variants, ("UTF-8", vers[0], -1, 0, "-", "-", "-")))
    return gs


ERRMAP = S4.ERRMAP


def run_x(ctx, groups, impl, model, known_keys):
    lines, meta = [], {}
    n0 = ctx.cov["evaluations"]
    for gi, g in enumerate(groups):
        cls, evs, variants = g[0], g[1], g[2]
        base_cfg = g[3] if len(g) > 3 else BASE_CFG
        bid = "g%d.b" % (n0 + gi)
        lines.append(x_line(bid, base_cfg, evs))
        meta[bid] = (cls, base_cfg, evs, None, lines[-1])
        for vi, (cfg, ev) in enumerate(variants):
            vid = "g%d.v%d" % (n0 + gi, vi)
            lines.append(x_line(vid, cfg, ev))
            meta[vid] = (cls, cfg, ev, bid, lines[-1])
    rc_i, res_i, raw_i = core.run_lines_parallel(impl, lines)
    rc_m, res_m, raw_m = core.run_lines_parallel(model, lines) if model else (0, {}, "")
    corr, orc = [], []
    if model and rc_m != 0:
        corr.append({"case": "(process)", "impl": "", "model": "model driver exited with status %d: %s" % (rc_m, raw_m[-300:])})
    for cid, (cls, cfg, evs, bid, line) in meta.items():
        ctx.cov["evaluations"] += 1
        ctx.count(cls)
        ctx.count("x:%s:%s:%s" % (cfg[0], cfg[1], "indent" if cfg[2] >= 0 else "noindent"))
        ri = res_i.get(cid)
        if ri is None or "|" not in ri:
            orc.append({"case": line, "base": "", "what": "the driver died on this script: %r" % (ri,), "known": None})
            continue
        new, newp = ri.split("|", 1)
        if model:
            rm = res_m.get(cid)
            ctx.cov["traces_validated_against_impl"] += 1
            if rm is None:
                corr.append({"case": line, "impl": new[:80], "model": "no result"})
            elif rm.startswith("ok "):
                mb = S4.model_bytes(cfg[0], untok(rm[3:]))
                if mb is None or not new.startswith("ok:") or bytes.fromhex(new[3:]) != mb:
                    corr.append({"case": line, "impl": new[:200], "model": "ok:" + (mb.hex()[:200] if mb is not None else "(units above 0xFF)")})
            elif rm.startswith("err "):
                if not new.startswith("err:") or ERRMAP.get(rm[4:].strip()) != new[4:]:
                    corr.append({"case": line, "impl": new[:160], "model": rm})
            else:
                corr.append({"case": line, "impl": new[:160], "model": rm})
        # ---- oracle: this setting against the base setting of the same tree (library outputs only)
        what = None
        if not new.startswith("ok:"):
            what = "serialization failed with %s" % new
        elif newp.startswith("PARSEERR"):
            what = "output is not well-formed: %s" % newp[:200]
        else:
            what = lexical_checks(cfg, bytes.fromhex(new[3:]), root_of(evs))
            if what is None and bid is not None:
                rb = res_i.get(bid)
                if rb and "|" in rb and rb.startswith("ok:") and not rb.split("|", 1)[1].startswith("PARSEERR"):
                    rel = ws_relation(parse_tokens(rb.split("|", 1)[1]), parse_tokens(newp), cfg[2] >= 0)
                    if rel:
                        what = "parsed result differs from the one under the base setting (%s): " % " ".join(str(x) for x in meta[bid][1]) + rel
            if what is None:
                # and against the script itself (what the tree is), C04's expectation
                rel = ws_relation(parse_tokens(S4.expected_tree(evs)), parse_tokens(newp), cfg[2] >= 0)
                if rel:
                    what = "parsed result differs from the result tree: " + rel
        if what:
            known = "K-C08-1" if (cfg[2] >= 0 and not guard_ok(evs)) else None
            base_line = meta[bid][4] if bid else ""
            orc.append({"case": line, "base": base_line, "what": what, "known": known})
    return corr, orc


# ---------------------------------------------------------------------------------------------
# T stream (text method)

PY_CODEC = {"UTF-8": "utf-8", "UTF-16": "utf-16-le", "ISO-8859-1": "latin-1", "US-ASCII": "ascii"}


def text_expected(enc, evs):
    """(bytes or None when some character is not representable, straddle) — Python's codecs, no model"""
    units = [u for e in evs if e[0] in ("T", "C") for u in e[1]]
    straddle = (not SX[0]) and enc == "UTF-8" and any(0xD800 <= u <= 0xDBFF and i % 512 == 511 for i, u in enumerate(units))
    try:
        s = b"".join(u.to_bytes(2, "little") for u in units).decode("utf-16-le")
        b = s.encode(PY_CODEC[enc])
    except (UnicodeEncodeError, UnicodeDecodeError):
        return None, straddle
    if enc == "UTF-16":
        b = b"\xff\xfe" + b
    return b, straddle


def representable_only(enc, evs):
    """the guard of text_method_encoding_partial: every unit representable in the encoding (class of K18 otherwise)"""
    top = {"ISO-8859-1": 0xFF, "US-ASCII": 0x7F}.get(enc)
    if top is None or TX[0]:
        return evs        # repaired: an unrepresentable character must raise an error, and the streams check that
    return [("T", [u if u <= top else 0x20 + u % 0x5F for u in e[1]]) if e[0] in ("T", "C") else e for e in evs]


def gen_t_cases(ctx, n):
    r = ctx.rng
    cases = []
    for i in range(n):
        enc = ENCODINGS[i % 4]
        evs = representable_only(enc, gen_tree(r, r.choice(["mixed", "wsonly", "comments", "deep"])))
        if i % 3 == 0:
            safe = element_names(evs)
            evs = apply_cdata(evs, r.sample(safe, min(len(safe), 2)))
        cases.append(("text:tree", enc, evs))
    # stream-buffer boundary (512 units): BMP characters and pairs on both sides of it, never a pair across it
    for enc in ENCODINGS:
        for pad in (509, 510, 512, 513, 1022, 1024) + ((511, 1023, 2047, 4095) if SX[0] else ()):
            for sp in ([0xE9], [0x20AC], [0xD83D, 0xDE00], [0x3042]):
                cases.append(("text:boundary", enc, representable_only(enc, [("S", u16("r"), []), ("T", u16("a") * pad + sp + u16("z")), ("E", u16("r"))])))
    return cases


def run_t(ctx, cases, impl, model):
    lines, meta = [], {}
    n0 = ctx.cov["evaluations"]
    for i, (cls, enc, evs) in enumerate(cases):
        cid = "t%d" % (n0 + i)
        lines.append("T " + S4.script_line(cid, enc, "1.0", evs).replace(" -L", "", 1).replace("%s %s 1.0" % (cid, enc), "%s %s" % (cid, enc), 1))
        meta[cid] = (cls, enc, evs, lines[-1])
    rc_i, res_i, raw_i = core.run_lines_parallel(impl, lines)
    rc_m, res_m, raw_m = core.run_lines_parallel(model, lines) if model else (0, {}, "")
    corr, orc = [], []
    for cid, (cls, enc, evs, line) in meta.items():
        ctx.cov["evaluations"] += 1
        ctx.count(cls + ":" + enc)
        ri = res_i.get(cid)
        exp, straddle = text_expected(enc, evs)
        if ri is None:
            orc.append({"case": line, "base": "", "what": "the driver died on this script", "known": "K-C08-2" if straddle else None})
            continue
        if model and not straddle:
            rm = res_m.get(cid, "")
            ctx.cov["traces_validated_against_impl"] += 1
            if rm.startswith("ok "):
                units = untok(rm[3:])
                if enc == "UTF-8":
                    try:
                        mb = b"".join(u.to_bytes(2, "little") for u in units).decode("utf-16-le").encode("utf-8")
                    except UnicodeError:
                        mb = None
                else:
                    mb = S4.model_bytes(enc, units)
                if mb is None or not ri.startswith("ok:") or bytes.fromhex(ri[3:]) != mb:
                    corr.append({"case": line, "impl": ri[:200], "model": "ok:" + (mb.hex()[:200] if mb is not None else "?")})
            elif rm.startswith("err "):
                if not ri.startswith("err:"):
                    corr.append({"case": line, "impl": ri[:100], "model": rm})
            else:
                corr.append({"case": line, "impl": ri[:100], "model": rm or "no result"})
        what = None
        if exp is None:
            if ri.startswith("ok:"):
                what = "a character the encoding cannot represent was written as %s with no error" % ri[3:][-40:]
                orc.append({"case": line, "base": "", "what": what, "known": "K18"})
            continue
        if not ri.startswith("ok:"):
            what = "text output failed with %s" % ri
        elif bytes.fromhex(ri[3:]) != exp:
            what = "text output is not the concatenated text in %s:\n#     got      %s\n#     expected %s" % (enc, ri[3:][:300], exp.hex()[:300])
        if what:
            orc.append({"case": line, "base": "", "what": what, "known": "K-C08-2" if straddle else None})
    return corr, orc


# ---------------------------------------------------------------------------------------------
# H stream: FormatterToHTML against HTML 4.01 (void elements, raw text, boolean and URI attributes) via html.parser,
# and the regenerated element table (model look-ups) against the serializer's behaviour

HTML4_VOID = {"area", "base", "basefont", "br", "col", "frame", "hr", "img", "input", "isindex", "link", "meta", "param"}
HTML4_RAW = {"script", "style"}
HTML4_BOOLEAN = {("input", "checked"), ("input", "disabled"), ("input", "readonly"), ("option", "selected"), ("select", "multiple"),
                 ("select", "disabled"), ("button", "disabled"), ("textarea", "readonly"), ("textarea", "disabled"), ("ol", "compact"),
                 ("ul", "compact"), ("dl", "compact"), ("td", "nowrap"), ("th", "nowrap"), ("hr", "noshade"), ("img", "ismap"),
                 ("object", "declare"), ("script", "defer"), ("frame", "noresize"), ("optgroup", "disabled"), ("option", "disabled")}
HTML4_URI = {("a", "href"), ("img", "src"), ("link", "href"), ("form", "action"), ("script", "src"), ("area", "href"), ("base", "href"),
             ("blockquote", "cite"), ("q", "cite"), ("frame", "src"), ("iframe", "src"), ("input", "src"), ("img", "longdesc")}


class HCollect(html.parser.HTMLParser):
    def __init__(self):
        html.parser.HTMLParser.__init__(self, convert_charrefs=True)
        self.out = []

    def handle_starttag(self, tag, attrs):
        self.out.append(("S", tag, tuple(attrs)))

    def handle_startendtag(self, tag, attrs):
        self.out.append(("S", tag, tuple(attrs)))
        self.out.append(("E", tag))

    def handle_endtag(self, tag):
        self.out.append(("E", tag))

    def handle_data(self, data):
        if self.out and self.out[-1][0] == "T":
            self.out[-1] = ("T", self.out[-1][1] + data)
        else:
            self.out.append(("T", data))

    def handle_comment(self, data):
        self.out.append(("M", data))

    def handle_pi(self, data):
        self.out.append(("P", data))

    def handle_decl(self, decl):
        pass


def html_expected(evs, escape_urls=True):
    """what an HTML 4 reader must see for the tree: void elements have no end tag, names are case-insensitive,
    boolean attributes may be minimised (html.parser then reports None), URI attributes may be %-escaped"""
    out = []
    for e in evs:
        if e[0] == "S":
            out.append(("S", s_of(e[1]).lower(), tuple((s_of(a).lower(), s_of(v)) for a, v in e[2])))
        elif e[0] == "E":
            if s_of(e[1]).lower() not in HTML4_VOID:
                out.append(("E", s_of(e[1]).lower()))
        elif e[0] == "T":
            if e[1]:
                if out and out[-1][0] == "T":
                    out[-1] = ("T", out[-1][1] + s_of(e[1]))
                else:
                    out.append(("T", s_of(e[1])))
        elif e[0] == "M":
            out.append(("M", s_of(e[1])))
    return out


def html_compare(exp, got, allow_ws, escape_urls=True):
    """None or a description; attribute values compared modulo boolean minimisation and URI escaping"""
    def norm(lst):
        res = []
        for x in lst:
            if x[0] == "T" and allow_ws and x[1].strip(" \t\r\n") == "":
                continue
            if x[0] == "T" and allow_ws:
                x = ("T", x[1])
            res.append(x)
        return res
    a, b = norm(exp), norm(got)
    # the META tag the serializer adds as first child of HEAD is not part of the tree
    b = [x for x in b if not (x[0] == "S" and x[1] == "meta" and dict(x[2]).get("http-equiv", "").lower() == "content-type")]
    if len(a) != len(b):
        return "different number of nodes (%d expected, %d parsed): expected %s parsed %s" % (len(a), len(b), a[:12], b[:12])
    for x, y in zip(a, b):
        if x[0] != y[0]:
            return "node kind differs: %s vs %s" % (x, y)
        if x[0] == "S":
            if x[1] != y[1] or len(x[2]) != len(y[2]):
                return "start tag differs: %s vs %s" % (x, y)
            for (an, av), (bn, bv) in zip(x[2], y[2]):
                if an != bn:
                    return "attribute name differs: %s vs %s" % (x, y)
                if bv is None:
                    if (x[1], an) not in HTML4_BOOLEAN or av.lower() != an:
                        return "attribute %s minimised but it is not a boolean attribute with its own name as value: %s vs %s" % (an, x, y)
                elif bv != av:
                    # URI attribute values: non-ASCII characters may be written as %HH of their UTF-8 bytes (XSLT 16.2).
                    # Both sides are unquoted to bytes, so that text of the original value that already looks like
                    # %hh is treated alike on both sides (false alarm corrected 2026-10-02: 'http://h/%ca' + U+0100)
                    if not (escape_urls and (x[1], an) in HTML4_URI and
                            urllib.parse.unquote_to_bytes(bv.encode("utf-8", "surrogatepass")) == urllib.parse.unquote_to_bytes(av.encode("utf-8", "surrogatepass"))):
                        return "attribute value differs: %s=%r vs %r" % (an, av, bv)
        elif x[0] == "T":
            if (x[1] if not allow_ws else x[1].strip(" \t\r\n")) != (y[1] if not allow_ws else y[1].strip(" \t\r\n")):
                return "text differs: %r vs %r" % (x[1], y[1])
        elif x != y:
            return "node differs: %s vs %s" % (x, y)
    return None


H_BLOCK = ["div", "p", "ul", "li", "table", "tr", "td", "h1", "form", "blockquote", "select", "option"]
H_INLINE = ["span", "b", "i", "a", "em", "q", "textarea", "button"]


def gen_h_tree(r, raw_wide=False):
    evs = []
    mix = r.choice([["ascii"], ["ascii", "special"], ["ascii", "latin", "special"], ["ascii", "bmp"], ["ascii", "pair", "bmp"], ["ascii", "pair", "special", "latin"]])

    def attrs_for(name):
        at = []
        for (el, an) in sorted(HTML4_BOOLEAN):
            if el == name and r.random() < 0.6:
                at.append((u16(an), u16(an)))
        for (el, an) in sorted(HTML4_URI):
            if el == name and r.random() < 0.7:
                at.append((u16(an), u16("http://h/") + rstr(r, r.choice([1, 3, 6]), r.choice([["ascii"], ["ascii", "latin"], ["ascii", "bmp", "pair"], ["pair", "latin", "special"]]))))
        if r.random() < 0.4:
            at.append((u16("class"), rstr(r, r.choice([1, 4]), mix)))
        if r.random() < 0.2:
            at.append((u16("title"), rstr(r, r.choice([1, 3, 5]), r.choice([["ascii", "special"], ["ascii", "pair"], ["pair", "bmp", "latin", "special"]]))))
        return at

    def el(name, depth):
        evs.append(("S", u16(name), attrs_for(name)))
        if name in HTML4_VOID:
            pass
        elif name in HTML4_RAW:
            # raw text has no character references: only what every encoding of the stream can write, or (raw_wide) anything
            evs.append(("T", rstr(r, r.choice([1, 4, 9]), ["ascii", "special"] + (["pair", "bmp", "latin"] if raw_wide else [])) + u16(" a<b && c>d ")))
        else:
            for _ in range(r.choice([0, 1, 2, 3]) if depth < 4 else 0):
                k = r.random()
                if k < 0.35:
                    evs.append(("T", rstr(r, r.choice([1, 3, 7]), mix) or u16("t")))
                elif k < 0.5:
                    el(r.choice(sorted(HTML4_VOID - {"isindex", "frame", "basefont", "base", "meta", "link", "param", "area", "col"})), depth + 1)
                elif k < 0.6:
                    el(r.choice(["script", "style"]), depth + 1)
                elif k < 0.65:
                    evs.append(("M", S4.clean_comment(rstr(r, 3, ["ascii"]))))
                else:
                    el(r.choice(H_BLOCK + H_INLINE), depth + 1)
        evs.append(("E", u16(name)))
    evs.append(("S", u16(r.choice(["html", "HTML", "html"])), []))
    root = s_of(evs[0][1])
    if r.random() < 0.6:
        evs.append(("S", u16("head"), []))
        if r.random() < 0.5:
            evs.append(("S", u16("title"), []))
            evs.append(("T", rstr(r, 4, mix)))
            evs.append(("E", u16("title")))
        evs.append(("E", u16("head")))
    evs.append(("S", u16("body"), []))
    for _ in range(r.choice([1, 2, 3, 4])):
        el(r.choice(H_BLOCK + H_INLINE + ["br", "hr", "img", "input", "script"]), 1)
    evs.append(("E", u16("body")))
    evs.append(("E", u16(root)))
    return evs


def h_line(cid, enc, ind, esc, ometa, evs):
    return "H " + S4.script_line(cid, enc, "1.0", evs).replace(" -L", "", 1).replace("%s %s 1.0" % (cid, enc), "%s %s %d %d %d - -" % (cid, enc, ind, esc, ometa), 1)


def run_h(ctx, n, impl, model, html_names):
    r = ctx.rng
    corr, orc = [], []
    # ---- table correspondence: EMPTY / RAW flags of every element of the regenerated table (and unknown names) as
    # FormatterToHTML acts on them, vs the model's look-ups; ATTREMPTY / ATTRURL on the HTML 4 attribute lists
    names = sorted(set(html_names) | {"FOO", "X-Y", "BLINK", "MAIN"})
    lines, q = [], []
    for nm in names:
        low = nm.lower()
        lines.append(h_line("he.%s" % low, "UTF-8", -1, 1, 1, [("S", u16(low), []), ("E", u16(low))]))
        lines.append(h_line("hr.%s" % low, "UTF-8", -1, 1, 1, [("S", u16(low), []), ("T", u16("a<b")), ("E", u16(low))]))
        q.append("Q qe.%s EMPTY %s" % (low, tok(u16(low))))
        q.append("Q qr.%s RAW %s" % (low, tok(u16(low))))
    pairs = sorted(HTML4_BOOLEAN | HTML4_URI | {("p", "checked"), ("div", "href"), ("input", "value"), ("a", "name"), ("foo", "href")})
    for el, an in pairs:
        lines.append(h_line("ha.%s.%s" % (el, an), "UTF-8", -1, 1, 1, [("S", u16(el), [(u16(an), u16(an))]), ("E", u16(el))]))
        lines.append(h_line("hu.%s.%s" % (el, an), "UTF-8", -1, 1, 1, [("S", u16(el), [(u16(an), u16("x\u00e9 y"))]), ("E", u16(el))]))
        q.append("Q qa.%s.%s ATTREMPTY %s %s" % (el, an, tok(u16(el)), tok(u16(an))))
        q.append("Q qu.%s.%s ATTRURL %s %s" % (el, an, tok(u16(el)), tok(u16(an))))
    rc_i, res_i, _ = core.run_lines_parallel(impl, lines)
    res_m = core.run_lines_parallel(model, q)[1] if model else {}
    for nm in names:
        low = nm.lower()
        be = bytes.fromhex(res_i.get("he." + low, "ok:")[3:]).decode("utf-8", "replace")
        br = bytes.fromhex(res_i.get("hr." + low, "ok:")[3:]).decode("utf-8", "replace")
        lib_empty = ("</%s>" % low) not in be
        lib_raw = "a<b" in br
        ctx.cov["evaluations"] += 2
        ctx.count("html:table")
        if model:
            ctx.cov["traces_validated_against_impl"] += 2
            if res_m.get("qe." + low) != ("1" if lib_empty else "0"):
                corr.append({"case": "element %s: EMPTY" % low, "impl": be[:80], "model": res_m.get("qe." + low)})
            if not lib_empty and res_m.get("qr." + low) != ("1" if lib_raw else "0"):
                corr.append({"case": "element %s: RAW" % low, "impl": br[:80], "model": res_m.get("qr." + low)})
        # oracle: HTML 4.01's lists
        if lib_empty != (low in HTML4_VOID):
            orc.append({"case": lines[names.index(nm) * 2], "base": "", "known": None,
                        "what": "element %s: %s, but HTML 4.01 says it is %sa void element: %s" % (low, "no end tag" if lib_empty else "end tag written", "" if low in HTML4_VOID else "not ", be[:80])})
        if not lib_empty and lib_raw != (low in HTML4_RAW):
            orc.append({"case": lines[names.index(nm) * 2 + 1], "base": "", "known": None,
                        "what": "element %s: text %s, but HTML 4.01 says its content is %s: %s" % (low, "unescaped" if lib_raw else "escaped", "CDATA" if low in HTML4_RAW else "PCDATA", br[:80])})
    for el, an in pairs:
        ba = bytes.fromhex(res_i.get("ha.%s.%s" % (el, an), "ok:")[3:]).decode("utf-8", "replace")
        bu = bytes.fromhex(res_i.get("hu.%s.%s" % (el, an), "ok:")[3:]).decode("utf-8", "replace")
        lib_min = ('%s="' % an) not in ba
        lib_url = "%C3%A9" in bu
        ctx.cov["evaluations"] += 2
        if model:
            ctx.cov["traces_validated_against_impl"] += 2
            if res_m.get("qa.%s.%s" % (el, an)) != ("1" if lib_min else "0"):
                corr.append({"case": "attribute %s/@%s: ATTREMPTY" % (el, an), "impl": ba[:80], "model": res_m.get("qa.%s.%s" % (el, an))})
            if res_m.get("qu.%s.%s" % (el, an)) != ("1" if lib_url else "0"):
                corr.append({"case": "attribute %s/@%s: ATTRURL" % (el, an), "impl": bu[:80], "model": res_m.get("qu.%s.%s" % (el, an))})
        if lib_min and (el, an) not in HTML4_BOOLEAN:
            orc.append({"case": "H element %s attribute %s" % (el, an), "base": "", "known": None,
                        "what": "attribute %s of %s minimised although it is not a boolean attribute of HTML 4.01: %s" % (an, el, ba[:80])})
    # ---- random HTML trees: html.parser reads back the same structure, with and without indenting / META / URL escaping
    lines, meta = [], {}
    for i in range(n):
        enc = r.choice(["UTF-8", "UTF-8", "ISO-8859-1", "US-ASCII"])
        evs = gen_h_tree(r, raw_wide=(enc == "UTF-8"))
        ind = r.choice([-1, 0, 2, 4])
        esc = r.choice([1, 1, 0])
        ometa = r.choice([0, 1])
        cid = "h%d" % i
        lines.append(h_line(cid, enc, ind, esc, ometa, evs))
        meta[cid] = (evs, enc, ind, esc, ometa, lines[-1])
    rc_i, res_i, _ = core.run_lines_parallel(impl, lines)
    for cid, (evs, enc, ind, esc, ometa, line) in meta.items():
        ctx.cov["evaluations"] += 1
        ctx.count("html:tree:%s:%s" % (enc, "indent" if ind >= 0 else "noindent"))
        ri = res_i.get(cid)
        if ri is None or not ri.startswith("ok:"):
            orc.append({"case": line, "base": "", "what": "html serialization failed: %r" % (ri,), "known": None})
            continue
        txt = bytes.fromhex(ri[3:]).decode(PY_CODEC[enc], "replace")
        p = HCollect()
        try:
            p.feed(txt)
            p.close()
        except Exception as ex:
            orc.append({"case": line, "base": "", "what": "html.parser failed: %s" % ex, "known": None})
            continue
        what = h_verdict(evs, txt, ind, esc, ometa)
        if what:
            orc.append({"case": line, "base": "", "what": what + "\n#     output: " + txt[:400].replace("\n", "\\n"), "known": None})
    return corr, orc


# ---------------------------------------------------------------------------------------------
# Z stream: whole transformations; xsl:output attributes (several elements, an import), API overrides

XSL = "http://www.w3.org/1999/XSL/Transform"


def xml_esc(s, attr=False):
    s = s.replace("&", "&amp;").replace("<", "&lt;").replace(">", "&gt;").replace("{", "{{" if attr else "{").replace("}", "}}" if attr else "}")
    if attr:
        s = s.replace('"', "&quot;").replace("\t", "&#9;").replace("\n", "&#10;").replace("\r", "&#13;")
    else:
        s = s.replace("\r", "&#13;")
    return s


def body_of(evs):
    """the tree as a template body: literal result elements, xsl:text, xsl:comment, xsl:processing-instruction"""
    out = []
    for e in evs:
        if e[0] == "S":
            out.append("<%s%s>" % (s_of(e[1]), "".join(' %s="%s"' % (s_of(a), xml_esc(s_of(v), True)) for a, v in e[2])))
        elif e[0] == "E":
            out.append("</%s>" % s_of(e[1]))
        elif e[0] == "T":
            out.append("<xsl:text>%s</xsl:text>" % xml_esc(s_of(e[1])))
        elif e[0] == "M":
            out.append("<xsl:comment>%s</xsl:comment>" % xml_esc(s_of(e[1])))
        elif e[0] == "P":
            out.append('<xsl:processing-instruction name="%s">%s</xsl:processing-instruction>' % (s_of(e[1]), xml_esc(s_of(e[2]))))
    return "".join(out)


def output_elem(attrs):
    return "<xsl:output%s/>" % "".join(' %s="%s"' % (k, v) for k, v in attrs)


def sheet_of(outputs, body, imp=None, exclude="xalan"):
    return ('<xsl:stylesheet version="1.0" xmlns:xsl="%s" xmlns:xalan="http://xml.apache.org/xalan" xmlns:p="urn:p" exclude-result-prefixes="%s">' % (XSL, exclude) +
            ('<xsl:import href="imp.xsl"/>' if imp is not None else "") + "".join(output_elem(o) for o in outputs) +
            '<xsl:template match="/">%s</xsl:template></xsl:stylesheet>' % body)


def effective(outputs_in_order, api_indent, api_enc):
    """XSLT 1.0 section 16: last specified value wins; cdata-section-elements is the union; + API overrides"""
    eff = {}
    cd = []
    for o in outputs_in_order:
        for k, v in o:
            if k == "cdata-section-elements":
                cd += v.split()
            else:
                eff[k] = v
    eff["cdata"] = cd
    if api_enc != "-":
        eff["encoding"] = api_enc
    return eff


def z_line(cid, sheet, api, files=None):
    ind, enc, om, eu = api
    s = "Z %s %s %s %s %s %s %s" % (cid, sheet.encode("utf-8").hex(), b"<r/>".hex(), ind, enc, om, eu)
    for k, v in (files or {}).items():
        s += " %s=%s" % (k, v.encode("utf-8").hex())
    return s


def gen_z_cases(ctx, n):
    r = ctx.rng
    groups = []
    for i in range(n):
        evs = gen_tree(r, r.choice(["mixed", "wsonly", "comments", "plain", "deep"]))
        # literal result elements cannot carry the namespace declaration twice; drop the one the generator put on the root
        evs = [(e[0], e[1], [a for a in e[2] if s_of(a[0]) != "xmlns:p"]) if e[0] == "S" else e for e in evs]
        body = body_of(evs)
        variants = []
        safe = [s_of(list(nm)) for nm in cdata_safe_names(evs)]
        for k in range(4):
            o1, o2, imp = [], [], None
            pool = [("indent", r.choice(["yes", "no"])), ("encoding", r.choice(ENCODINGS)), ("omit-xml-declaration", r.choice(["yes", "no"])),
                    ("standalone", r.choice(["yes", "no"])), ("doctype-system", "sys.dtd"), ("doctype-public", r.choice([XHTML_PUB, "-//X//DTD Y//EN"])),
                    ("version", r.choice(["1.0", "1.1"])), ("method", "xml"), ("xalan:indent-amount", str(r.choice([0, 1, 2, 4, 8])))]
            if safe:
                pool.append(("cdata-section-elements", " ".join(r.sample(safe, r.randrange(1, min(2, len(safe)) + 1)))))
            for a in r.sample(pool, r.randrange(0, 6)):
                (o1 if r.random() < 0.7 else o2).append(a)
            if r.random() < 0.3:
                impo = [a for a in r.sample(pool, r.randrange(1, 4))]
                imp = sheet_of([impo], "<never/>").replace('<xsl:template match="/">', '<xsl:template match="never">')
            else:
                impo = None
            api = (r.choice(["-", "-", "-", "0", "2", "3"]), r.choice(["-", "-", "-"] + ENCODINGS), "-", "-")
            eff = effective(([impo] if impo else []) + [o1, o2], api[0], api[1])
            if (eff.get("indent") == "yes" or "xalan:indent-amount" in eff or api[0] != "-") and not guard_ok(apply_cdata(evs, [u16(x) for x in eff["cdata"]])):
                # the class of finding K-C08-1 stays out of the generated stream (it is replayed from the corpus)
                o1 = [a for a in o1 if a[0] != "cdata-section-elements"]
                o2 = [a for a in o2 if a[0] != "cdata-section-elements"]
                if impo:
                    impo = [a for a in impo if a[0] != "cdata-section-elements"]
                    imp = sheet_of([impo], "<never/>").replace('<xsl:template match="/">', '<xsl:template match="never">')
            outs = [o for o in (o1, o2) if o]
            variants.append((outs, impo, imp, api))
        groups.append((evs, body, variants))
    return groups


def run_z(ctx, groups, impl, known_keys):
    lines, meta = [], {}
    n0 = ctx.cov["evaluations"]
    for gi, (evs, body, variants) in enumerate(groups):
        bid = "z%d.b" % (n0 + gi)
        lines.append(z_line(bid, sheet_of([], body), ("-", "-", "-", "-")))
        meta[bid] = (evs, None, None, lines[-1])
        for vi, (outs, impo, imp, api) in enumerate(variants):
            vid = "z%d.v%d" % (n0 + gi, vi)
            lines.append(z_line(vid, sheet_of(outs, body, imp), api, {"imp.xsl": imp} if imp is not None else None))
            eff = effective(([impo] if impo else []) + outs, api[0], api[1])
            meta[vid] = (evs, eff, bid, lines[-1], api)
    rc, res, raw = core.run_lines_parallel(impl, lines)
    # re-parse every output with Xerces (R lines)
    def ext_enc(cid):
        m = meta.get(cid)
        if m and m[1] is not None and m[1].get("omit-xml-declaration") == "yes" and "standalone" not in m[1]:
            return " " + m[1].get("encoding", "UTF-8")     # no declaration: the encoding is external information
        return ""
    rl = ["R %s %s%s" % (cid, r[3:], ext_enc(cid)) for cid, r in res.items() if r.startswith("ok:") and len(r) > 3]
    rc2, rp, raw2 = core.run_lines_parallel(impl, rl)
    orc = []
    for cid, m in meta.items():
        if m[1] is None:
            continue
        evs, eff, bid, line, api = m
        ctx.cov["evaluations"] += 1
        ctx.count("z:transform")
        r = res.get(cid)
        rb = res.get(bid)
        if r is None or rb is None or not rb.startswith("ok:"):
            orc.append({"case": line, "base": meta[bid][3], "what": "no result (crash) or the base transformation failed: %r / %r" % (r and r[:80], rb and rb[:80]), "known": None})
            continue
        indent_on = eff.get("indent") == "yes" or "xalan:indent-amount" in eff or api[0] != "-"
        # the class of K-C08-1 decided from the tree and the requested options
        cd_evs = apply_cdata(evs, [u16(x) for x in eff["cdata"]])
        known = "K-C08-1" if (indent_on and not guard_ok(cd_evs)) else None
        if not r.startswith("ok:"):
            orc.append({"case": line, "base": meta[bid][3], "what": "the transformation fails under these output options: %s" % bytes.fromhex(r.split(":")[2]).decode("utf-8", "replace")[:200], "known": known})
            continue
        pv, pb = rp.get(cid, "PARSEERR:?"), rp.get(bid, "PARSEERR:?")
        what = None
        if pv.startswith("PARSEERR"):
            what = "output is not well-formed: %s" % pv[:160]
        elif not pb.startswith("PARSEERR"):
            rel = ws_relation(parse_tokens(pb), parse_tokens(pv), indent_on)
            if rel:
                what = "parsed result differs from the one without xsl:output: " + rel
        if what is None:
            data = bytes.fromhex(r[3:])
            enc = eff.get("encoding", "UTF-8")
            cfg = (enc, eff.get("version", "1.0"), 0 if indent_on else -1, 1 if eff.get("omit-xml-declaration") == "yes" and "standalone" not in eff else 0,
                   eff.get("standalone", "-"), eff.get("doctype-system", "-"), eff.get("doctype-public", "-"))
            what = lexical_checks(cfg, data, root_of(evs))
            if what is None and eff["cdata"]:
                txt = data.decode(PY_CODEC[enc] if enc != "UTF-16" else "utf-16", "replace")
                want = any(e[0] == "C" and e[1] for e in cd_evs)
                if want != ("<![CDATA[" in txt):
                    what = "cdata-section-elements=%s: CDATA sections %s" % (eff["cdata"], "expected but none written" if want else "written but no listed element has text")
        if what:
            orc.append({"case": line, "base": meta[bid][3], "what": what, "known": known})
    return orc


# method="text" / method="html" / html root rule / API overrides through whole transformations
def run_z_methods(ctx, n, impl):
    r = ctx.rng
    lines, meta = [], {}
    for i in range(n):
        evs = gen_tree(r, r.choice(["mixed", "wsonly", "comments"]))
        evs = [(e[0], e[1], [a for a in e[2] if s_of(a[0]) != "xmlns:p"]) if e[0] == "S" else e for e in evs]
        # no supplementary characters here: the stream-buffer class (K-C08-2) is exercised by the T stream's corpus replay only
        if any(0xD800 <= u <= 0xDFFF for e in evs for x in e[1:] if isinstance(x, list) for u in (x if x and not isinstance(x[0], tuple) else [])):
            continue
        enc = r.choice(ENCODINGS)
        api_enc = r.choice(["-", "-", r.choice(ENCODINGS)])
        evs = representable_only(api_enc if api_enc != "-" else enc, evs)
        cid = "zt%d" % i
        lines.append(z_line(cid, sheet_of([[("method", "text"), ("encoding", enc)]], body_of(evs)), ("-", api_enc, "-", "-")))
        meta[cid] = ("text", evs, api_enc if api_enc != "-" else enc, lines[-1])
    for i in range(n):
        evs = gen_h_tree(r)
        mode = r.choice(["explicit", "root", "root-api"])
        api = (r.choice(["-", "0", "3"]), "-", r.choice(["-", "0", "1"]), r.choice(["-", "0", "1"]))
        outs = [[("method", "html")]] if mode == "explicit" else []
        if mode != "explicit":
            evs[0] = ("S", evs[0][1], [])
        # presentational attributes next to (or instead of) the method: they must not change what HTML parsing reads
        # back - in particular cdata-section-elements has no meaning for html, also when html is chosen by the
        # root-element rule AFTER the formatter was set up for xml (XSLTEngineImpl::flushPending; seed C08_c)
        if r.random() < 0.6:
            names = sorted({s_of(e[1]) for e in evs if e[0] == "S"})
            extra = [("cdata-section-elements", " ".join(r.sample(names, min(len(names), r.choice([1, 2, len(names)])))))]
            if r.random() < 0.3:
                extra.append(("indent", r.choice(["yes", "no"])))
            if r.random() < 0.3:
                extra.append(("omit-xml-declaration", r.choice(["yes", "no"])))
            if outs:
                outs = [outs[0] + extra]
            else:
                outs = [extra]
            mode = mode + "+cdata"
        cid = "zh%d" % i
        lines.append(z_line(cid, sheet_of(outs, body_of(evs), exclude="xalan p"), api))
        meta[cid] = ("html", evs, api, lines[-1], mode)
    rc, res, raw = core.run_lines_parallel(impl, lines)
    orc = []
    for cid, m in meta.items():
        ctx.cov["evaluations"] += 1
        r_ = res.get(cid)
        if m[0] == "text":
            _, evs, enc, line = m
            ctx.count("z:text:" + enc)
            exp, straddle = text_expected(enc, evs)
            if exp is None:
                # not representable in the encoding: an error is what the property demands
                if r_ is None:
                    orc.append({"case": line, "base": "", "what": "no result (crash)", "known": None})
                elif r_.startswith("ok:"):
                    orc.append({"case": line, "base": "", "what": "a character %s cannot represent was written with no error" % enc, "known": "K18"})
            elif r_ is None or not r_.startswith("ok:"):
                orc.append({"case": line, "base": "", "what": "method=text transformation failed: %r" % (r_ and r_[:120],), "known": "K-C08-2" if straddle else None})
            elif bytes.fromhex(r_[3:]) != exp:
                orc.append({"case": line, "base": "", "what": "method=text output is not the concatenated text in %s: got %s expected %s" % (enc, r_[3:][:200], exp.hex()[:200]), "known": None})
        else:
            _, evs, api, line, mode = m
            ctx.count("z:html:" + mode)
            if r_ is None or not r_.startswith("ok:"):
                orc.append({"case": line, "base": "", "what": "html transformation failed: %r" % (r_ and r_[:120],), "known": None})
                continue
            txt = bytes.fromhex(r_[3:]).decode("utf-8", "replace")
            p = HCollect()
            p.feed(txt)
            p.close()
            esc_off = mode.startswith("explicit") and api[3] == "0"
            what = html_compare(html_expected(evs), p.out, True, escape_urls=not esc_off)
            if what and esc_off and html_compare(html_expected(evs), p.out, True, True) is None:
                what = "URI attribute escaped although setEscapeURLs(no): " + what
            has_head = any(e[0] == "S" and s_of(e[1]).lower() == "head" for e in evs)
            meta_there = "<META http-equiv=\"Content-Type\"" in txt
            ignored_escape = not mode.startswith("explicit") and api[3] == "0" and html_compare(html_expected(evs), p.out, True, False) is not None
            if what is None and txt.startswith("<?xml"):
                what = "html output method (explicit or by the html root rule) but an XML declaration was written"
            # when HTML is chosen by the root-element rule, XSLTEngineImpl::flushPending builds the FormatterToHTML with
            # the default escapeURLs/omitMETATag: the API overrides are not consulted (noted, not a C08 failure:
            # the content is the same either way)
            if not mode.startswith("explicit") and ((has_head and api[2] == "1" and meta_there) or ignored_escape):
                ctx.notes["html_root_rule_ignores_setOmitMETATag_setEscapeURLs"] = ctx.notes.get("html_root_rule_ignores_setOmitMETATag_setEscapeURLs", 0) + 1
            if what is None and mode.startswith("explicit") and has_head and api[2] == "1" and meta_there:
                what = "META tag written although setOmitMETATag(yes)"
            if what is None and has_head and api[2] in ("-", "0") and not meta_there:
                what = "no META tag in HEAD"
            if what:
                orc.append({"case": line, "base": "", "what": what + "\n#     output: " + txt[:300].replace("\n", "\\n"), "known": None})
    return orc


# ---------------------------------------------------------------------------------------------

# ---------------------------------------------------------------------------------------------
# O stream: option selection. Model (process_outputs + select_coded, over the regenerated defaults and the
# `indentAmount > -1` test) vs what whole transformations of a fixed probe tree show

O_KEYS = {"method": "m", "version": "v", "indent": "i", "encoding": "e", "omit-xml-declaration": "o", "standalone": "s",
          "doctype-system": "ds", "doctype-public": "dp", "cdata-section-elements": "c", "xalan:indent-amount": "ia",
          "xalan:escape-urls": "eu", "xalan:omit-meta-tag": "om"}
PROBE_BODY = "<r><a><b/></a><c>t</c></r>"


def gen_o_cases(ctx, n):
    r = ctx.rng
    cases = []
    for i in range(n):
        def one():
            pool = [("method", r.choice(["xml", "xml", "html", "text"])), ("indent", r.choice(["yes", "no"])), ("encoding", r.choice(ENCODINGS)),
                    ("cdata-section-elements", r.choice(["c", "a c", "b", "c r"])), ("xalan:indent-amount", str(r.choice([0, 1, 2, 5]))),
                    ("omit-xml-declaration", r.choice(["yes", "no"]))]
            o = r.sample(pool, r.randrange(0, 5))
            r.shuffle(o)
            return o
        outs = [one() for _ in range(r.choice([0, 1, 1, 2, 3]))]
        impo = [one() for _ in range(r.choice([0, 0, 1, 2]))]
        api = (r.choice(["-", "-", "-", "0", "1", "4"]), r.choice(["-", "-", "-"] + ENCODINGS))
        cases.append((impo, outs, api))
    # the boundary of the indent test: amount 0 and -1 from both sources, indent yes/no explicit
    for ind in ("yes", "no", None):
        for ia in (None, "0", "3"):
            for api in ("-", "0", "2"):
                o = ([("indent", ind)] if ind else []) + ([("xalan:indent-amount", ia)] if ia else [])
                cases.append(([], [o] if o else [], (api, "-")))
    return cases


def run_o(ctx, cases, impl, model):
    if not model:
        return []
    zl, ol, meta = [], [], {}
    for i, (impo, outs, api) in enumerate(cases):
        cid = "o%d" % i
        imp = None
        if impo:
            imp = sheet_of(impo, "<never/>").replace('<xsl:template match="/">', '<xsl:template match="never">')
        zl.append(z_line(cid, sheet_of(outs, PROBE_BODY, imp), (api[0], api[1], "-", "-"), {"imp.xsl": imp} if imp else None))
        toks = []
        for o in impo + outs:
            toks.append("|")
            toks += ["%s=%s" % (O_KEYS[k], v.replace(" ", ",")) for k, v in o]
        ol.append("O %s %s %s %s" % (cid, api[0] if api[0] != "-" else "-1", api[1], " ".join(toks)))
        meta[cid] = (zl[-1], ol[-1])
    res = core.run_lines_parallel(impl, zl)[1]
    mod = core.run_lines_parallel(model, ol)[1]
    corr = []
    for cid, (z, o) in meta.items():
        ctx.cov["evaluations"] += 1
        ctx.cov["traces_validated_against_impl"] += 1
        ctx.count("o:selection")
        rz, rm = res.get(cid, ""), mod.get(cid, "").split()
        if not rz.startswith("ok:") or len(rm) != 5:
            corr.append({"case": o, "impl": rz[:100], "model": " ".join(rm)})
            continue
        data = bytes.fromhex(rz[3:])
        m_method, m_ind, m_amt, m_enc, m_cd = rm
        enc = m_enc if m_enc != "-" else "UTF-8"
        txt = data.decode("utf-16" if enc == "UTF-16" else PY_CODEC.get(enc, "utf-8"), "replace")
        if "<b/>" in txt:
            method = "xml"
        elif "<b></b>" in txt:
            method = "html"
        else:
            method = "text"
        want = {"none": "xml"}.get(m_method, m_method)
        obs = [method]
        exp = [want]
        if method == "xml" and want == "xml":
            mm = re.search(r"<r[^>]*>(\n?)( *)<a>", txt)
            obs += ["indent=%d" % (1 if mm and mm.group(1) else 0), "amount=%s" % (len(mm.group(2)) if mm and mm.group(1) else "-")]
            exp += ["indent=%s" % m_ind, "amount=%s" % (m_amt if m_ind == "1" else "-")]
            md = re.match(r'<\?xml version="[^"]*" encoding="([^"]*)"', txt)
            if md:
                obs.append("enc=" + md.group(1))
                exp.append("enc=" + enc)
            obs.append("cdata-c=%d" % (1 if "<![CDATA[t]]>" in txt else 0))
            exp.append("cdata-c=%d" % (1 if "c" in m_cd.split(",") else 0))
        elif method == "text" and want == "text":
            if data != text_expected(enc, [("T", u16("t"))])[0]:
                obs.append("bytes=" + data.hex()[:40])
                exp.append("bytes=t in " + enc)
        if obs != exp:
            corr.append({"case": o + "   (transformation: " + z[:60] + "...)", "impl": " ".join(obs), "model": " ".join(exp)})
    return corr


def corpus_lines(ctx):
    out = []
    cdir = os.path.join(core.VERIF, "corpus", "C08")
    if os.path.isdir(cdir):
        for fn in sorted(os.listdir(cdir)):
            if fn.endswith(".txt"):
                for l in open(os.path.join(cdir, fn)):
                    if l.strip() and not l.startswith("#"):
                        out.append((fn, l.rstrip("\n")))
    return out


def run_corpus(ctx, impl, known_keys):
    """stored replays: for a key that is still a known finding the replay must still fail the way the finding says
    (hit counted, KNOWN-FINDING printed); once the finding is repaired the replay is a regression seed and a failure
    is an oracle failure like any other"""
    hits, orc = {}, []
    for fn, line in corpus_lines(ctx):
        rc, res, raw = core.run_lines(impl, line + "\n", timeout=300)
        t = line.split()
        cid = t[1]
        r_ = res.get(cid)
        key, what = None, None
        if fn.startswith("kc08_1"):
            key = "K-C08-1"
            evs = S4.parse_script(t[9:])
            what = "serialization failed: %r" % (r_ and r_[:80],)
            if r_ and r_.startswith("ok:") and "|" in r_:
                rel = ws_relation(parse_tokens(S4.expected_tree(evs)), parse_tokens(r_.split("|", 1)[1]), True)
                what = None if rel is None else "parsed result differs from the result tree: " + rel
        elif fn.startswith("kc08_2"):
            key = "K-C08-2"
            exp = text_expected(t[2], S4.parse_script(t[3:]))[0]
            if r_ is None or not r_.startswith("ok:"):
                what = "text output failed with %r although every character is representable" % (r_ and r_[:80],)
            elif bytes.fromhex(r_[3:]) != exp:
                what = "text output is not the concatenated text"
        elif fn.startswith("h_") and t[0] == "H":
            key = "K-C08-html-astral-attr"
            txt = bytes.fromhex(r_[3:]).decode(PY_CODEC.get(t[2], "utf-8"), "replace") if r_ and r_.startswith("ok:") else None
            what = "html serialization failed" if txt is None else h_verdict(S4.parse_script(t[8:]), txt, int(t[3]), int(t[4]), int(t[5]))
        elif fn.startswith("k18"):
            key = "K18"
            exp = text_expected(t[2], S4.parse_script(t[3:]))[0]
            if exp is None and r_ and r_.startswith("ok:"):
                what = "a character the encoding cannot represent was written as %s with no error" % r_[3:][-40:]
        if what:
            if key in known_keys:
                hits[key] = hits.get(key, 0) + 1
            else:
                orc.append({"case": line, "base": "", "what": what + "  (stored replay corpus/C08/%s)" % fn, "known": None})
        ctx.cov["evaluations"] += 1
        ctx.count("corpus:" + fn)
    return hits, orc


def run(ctx):
    ctx.assumptions += [
        "event scripts are balanced (the XSLT engine guarantees it); strings contain no U+0000; names are XML Names with declared prefixes (C14)",
        "characters that C04's known findings are about stay out of the generators: lone surrogates (K7), non-ASCII characters in comments/PIs (K4), CR/NEL/LSEP in CDATA sections, comments, PIs (K-new-1), C0/C1 controls (K-new-2)",
        "token-level reader: that write_content/write_attr_string/write_cdata/write_comment/write_pi read back as the strings they were given is C04's subject (content_roundtrip, attr_roundtrip, cdata_roundtrip_partial, Xerces oracle); C08's theorems are about where the indent writer puts white space between those lexical items",
        "the staging buffers of the writers are transparent (C04 writer_transparent): the model renders with SerUtfDefs.payload",
        "XalanOutputStream + transcoder below the serializers is not modelled beyond: UTF-8 bytes pass, UTF-16 = BOM + little-endian units, ISO-8859-1/US-ASCII map unit n to byte n, an unrepresentable unit of the text method becomes 0x1A (correspondence-checked)",
        "when omit-xml-declaration=yes suppresses the declaration, the oracle's parser is told the requested encoding (external information, as a transport header would carry it)",
        "version=1.1 is combined with omit-xml-declaration=yes only for trees without characters that exist in XML 1.1 only (a document without declaration is read as XML 1.0)",
        "the newline string is LF (XalanOutputStream::defaultNewlineString on this platform)",
        "charactersRaw (disable-output-escaping) and entityReference are outside the model; the PI pair that switches to raw output is never generated",
        "HTML: no Coq model of FormatterToHTML's writer; only the regenerated element/attribute table look-ups are modelled (Q correspondence); HTML 4.01's lists of void elements, CDATA-content elements, boolean and URI attributes are the oracle's own",
    ]
    odir = os.path.join(core.OUT, "C08")
    for fn in os.listdir(odir):
        if fn.startswith("replay_"):
            os.remove(os.path.join(odir, fn))
    ok_lib, liblog = core.build_lib("plain")
    if not ok_lib:
        ctx.broken.append("library does not build from the working tree: " + liblog[-500:])
        return ctx.finish(LEVEL)
    proved = ctx.prove(["Properties_C08.v"], ["GenOutopt", "GenSer"])
    model, ok_m, mlog = core.build_model(FAMILY)
    if not ok_m:
        ctx.broken.append("model extraction/build failed: " + mlog[-500:])
        model = None
    impl, ok_h, hlog = core.build_harness("outopt", "plain")
    if not ok_h:
        ctx.broken.append("harness does not compile against the working tree: " + hlog[-500:])
        return ctx.finish(LEVEL)
    try:
        import gen_outopt
        gfacts = gen_outopt.gen_outopt()[1]
        FX[0], TX[0], SX[0] = gfacts["cdata_sets_prevtext"], gfacts["text_method_checks_representability"], gfacts["stream_keeps_high_surrogate"]
        ctx.notes["repo_variant"] = {"cdata_sets_prevtext": FX[0], "text_method_checks_representability": TX[0], "stream_keeps_high_surrogate": SX[0]}
        html_names = gen_outopt.html_names()
    except Exception as ex:
        html_names = []
        ctx.broken.append("translator: HTML element table: %s" % ex)

    # the HTML output method inside the model (FormatterToHTML as coded + an HTML 4.01 reader): built as its own part (props/C08_html.py)
    try:
        import importlib
        html_part = importlib.import_module("props.C08_html")
    except ImportError:
        html_part = None
    if html_part is not None:
        html_part.run_part(ctx)

    known = {k["key"]: k for k in ctx.known.findings if k["property"] in ("C08", "C04")}
    known_keys = set(known)
    thorough = ctx.thorough
    n_trees, n_var, n_t, n_h, n_z = (260, 5, 240, 160, 60) if not thorough else (6000, 8, 6000, 4000, 1200)

    corr, orc = [], []
    hits, corpus_orc = run_corpus(ctx, impl, known_keys)
    orc += corpus_orc

    def stage(n_trees, n_var, n_t, n_h, n_z, boundary=True):
        groups = gen_x_cases(ctx, n_trees, n_var) + (depth_boundary_groups() + cdata_boundary_groups() if boundary else [])
        if not ctx.cov["samples"]:
            ctx.cov["samples"] = [x_line("s%d" % i, g[2][0][0], g[2][0][1])[:300] for i, g in enumerate(groups[:4])]
        c1, o1 = run_x(ctx, groups, impl, model, known_keys)
        c2, o2 = run_t(ctx, gen_t_cases(ctx, n_t), impl, model)
        c3, o3 = run_h(ctx, n_h, impl, model, html_names)
        o4 = run_z(ctx, gen_z_cases(ctx, n_z), impl, known_keys)
        o5 = run_z_methods(ctx, max(10, n_z // 2), impl)
        c4 = run_o(ctx, gen_o_cases(ctx, max(60, n_z)), impl, model)
        return c1 + c2 + c3 + c4, o1 + o2 + o3 + o4 + o5

    c, o = stage(n_trees, n_var, n_t, n_h, n_z)
    corr += c
    orc += o
    new = [x for x in orc if not (x["known"] and x["known"] in known_keys)]
    if (corr or not proved or not model or ctx.broken) and not new and not thorough:
        ctx.escalated = True
        c, o = stage(2500, 6, 1500, 800, 300, boundary=False)
        corr += c
        orc += o
        new = [x for x in orc if not (x["known"] and x["known"] in known_keys)]
    for x in orc:
        if x["known"] and x["known"] in known_keys:
            hits[x["known"]] = hits.get(x["known"], 0) + 1
    for k in sorted(hits):
        if k in known:
            ctx.known_finding("%s %s" % (k, known[k]["what"]))
    ctx.notes["known_class_hits"] = hits
    ctx.notes["rule"] = ("distinct_nontrivial = distinct (result tree, option setting) pairs whose tree has at least one text node and one child element "
                         "(so that indentation has something to decide), counted over the X, H and Z streams")
    ctx.cov["distinct_nontrivial"] = ctx.distribution.get("tree:mixed", 0) + ctx.distribution.get("tree:wsonly", 0) + ctx.distribution.get("tree:comments", 0) + \
        ctx.distribution.get("tree:deep", 0) + ctx.distribution.get("z:transform", 0) + sum(v for k, v in ctx.distribution.items() if k.startswith("html:tree"))
    if corr:
        ctx.broken.append("correspondence outopt: %d of %d cases differ between the extracted model and the library, e.g. %s" % (
            len(corr), ctx.cov["traces_validated_against_impl"], str(corr[0])[:700]))
        ctx.notes["correspondence_mismatches"] = [dict(c, case=c["case"][:400]) for c in corr[:10]]
    if new:
        new.sort(key=lambda x: len(x["case"]))
        txt = "\n".join("%s%s\n#   %s" % ((x["base"] + "\n") if x.get("base") else "", x["case"], x["what"]) for x in new[:30])
        ctx.violation("oracle", "# C08 oracle failures. Replay: python3 check.py C08 --replay <this file>  (lines are input of .build/outopt_plain;\n"
                      "# a pair = the base setting (id ...b) followed by the failing setting of the same result tree)\n" + txt)
    ctx.notes["oracle_failures"] = len(new)
    return ctx.finish(LEVEL, explanation="Coq theorems over the Gallina model of the indent automaton (op order regenerated from FormatterToXMLUnicode.hpp and pinned), "
                      "the text method and option selection + byte-exact correspondence of the extracted model with XalanXMLSerializerFactory's / FormatterToText's output "
                      "+ pairwise re-parse oracle (Xerces, Python codecs, html.parser) over serializer scripts and whole transformations")


def replay(ctx, path):
    core.build_lib("plain")
    impl, ok_h, hlog = core.build_harness("outopt", "plain")
    try:
        import gen_outopt
        gfacts = gen_outopt.gen_outopt()[1]
        FX[0], TX[0], SX[0] = gfacts["cdata_sets_prevtext"], gfacts["text_method_checks_representability"], gfacts["stream_keeps_high_surrogate"]
    except Exception:
        pass
    lines = [l.rstrip("\n") for l in open(path) if l.strip() and not l.startswith("#")]
    rc, res, raw = core.run_lines(impl, "\n".join(lines) + "\n", timeout=600)
    bad = 0
    base = None
    for l in lines:
        t = l.split()
        cid = t[1]
        r_ = res.get(cid)
        print(cid, (r_ or "no result")[:200])
        if t[0] == "X":
            evs = S4.parse_script(t[9:])
            cfg = (t[2], t[3], int(t[4]), int(t[5]), t[6], s_of(untok(t[7])) if t[7] != "-" else "-", s_of(untok(t[8])) if t[8] != "-" else "-")
            if r_ and r_.startswith("ok:") and "|" in r_:
                data, p = r_.split("|", 1)
                print("   bytes   :", bytes.fromhex(data[3:])[:300])
                rel = "not well-formed: " + p if p.startswith("PARSEERR") else (lexical_checks(cfg, bytes.fromhex(data[3:]), root_of(evs)) or ws_relation(parse_tokens(S4.expected_tree(evs)), parse_tokens(p), cfg[2] >= 0))
            else:
                rel = "serialization failed"
            print("   verdict :", "as the property demands" if rel is None else "FAILS the property: " + rel, "" if guard_ok(evs) or cfg[2] < 0 else "(class K-C08-1)")
            bad += 0 if rel is None else 1
        elif t[0] == "T":
            evs = S4.parse_script(t[3:])
            exp, straddle = text_expected(t[2], evs)
            if exp is None:
                okc = r_ is not None and r_.startswith("err:")
            else:
                okc = r_ is not None and r_.startswith("ok:") and bytes.fromhex(r_[3:]) == exp
            print("   expected:", exp.hex()[:200] if exp is not None else "(an error: not representable in %s)" % t[2])
            print("   verdict :", "as the property demands" if okc else "FAILS the property", "(class K-C08-2)" if straddle else "")
            bad += 0 if okc else 1
        elif t[0] == "Z" and (cid.startswith("zt") or cid.startswith("zh")):
            evs, outs = evs_from_sheet(bytes.fromhex(t[2]))
            if cid.startswith("zt"):
                enc = t[5] if t[5] != "-" else (outs[-1].get("encoding", "UTF-8") if outs else "UTF-8")
                exp, straddle = text_expected(enc, evs)
                if exp is None:
                    okc = r_ is not None and r_.startswith("err:")
                else:
                    okc = r_ is not None and r_.startswith("ok:") and bytes.fromhex(r_[3:]) == exp
                print("   expected:", exp.hex()[:200] if exp is not None else "(an error: not representable in %s)" % enc)
                print("   verdict :", "as the property demands" if okc else "FAILS the property")
                bad += 0 if okc else 1
            else:
                txt = bytes.fromhex(r_[3:]).decode("utf-8", "replace") if r_ and r_.startswith("ok:") else None
                print("   output  :", repr(txt)[:400])
                explicit = bool(outs)
                rel = "transformation failed" if txt is None else h_verdict(evs, txt, 0, 0 if (explicit and t[7] == "0") else 1, 1 if (explicit and t[6] == "1") else 0)
                if rel is None and txt.startswith("<?xml"):
                    rel = "html output method but an XML declaration was written"
                print("   verdict :", "as HTML 4.01 demands" if rel is None else "FAILS the property: " + rel)
                bad += 0 if rel is None else 1
        elif t[0] == "Z":
            if r_ and r_.startswith("ok:"):
                rc2, rp, _ = core.run_lines(impl, "R %s %s\n" % (cid, r_[3:]))
                p = rp.get(cid, "")
                print("   bytes   :", bytes.fromhex(r_[3:])[:300])
                print("   parse   :", p[:300])
                if cid.endswith(".b"):
                    base = p
                elif base is not None:
                    rel = "not well-formed" if p.startswith("PARSEERR") else ws_relation(parse_tokens(base), parse_tokens(p), True)
                    print("   verdict :", "same tree as the base setting (modulo white-space-only nodes)" if rel is None else "FAILS the property: " + rel)
                    bad += 0 if rel is None else 1
            else:
                print("   verdict : FAILS (no output)")
                bad += 1
        elif t[0] in ("H", "HN"):
            txt = bytes.fromhex(r_[3:]).decode(PY_CODEC.get(t[2], "utf-8"), "replace") if r_ and r_.startswith("ok:") else None
            print("   output  :", repr(txt)[:400])
            evs = S4.parse_script(t[8:])
            rel = "serialization failed" if txt is None else h_verdict(evs, txt, int(t[3]), int(t[4]), int(t[5]), cid)
            print("   verdict :", "as HTML 4.01 demands" if rel is None else "FAILS the property: " + rel)
            bad += 0 if rel is None else 1
    return 1 if bad else 0


def h_verdict(evs, txt, ind, esc, ometa, cid=""):
    p = HCollect()
    p.feed(txt)
    p.close()
    what = html_compare(html_expected(evs), p.out, ind >= 0, escape_urls=(esc != 0))
    if what and esc == 0 and html_compare(html_expected(evs), p.out, ind >= 0, True) is None:
        what = "URI attribute escaped although escaping was switched off: " + what
    has_head = any(e[0] == "S" and s_of(e[1]).lower() == "head" for e in evs)
    meta_there = re.search(r"<META http-equiv=\"Content-Type\"", txt) is not None
    if what is None and has_head and ometa == 1 and meta_there:
        what = "META tag written although omitting it was requested"
    if what is None and has_head and ometa == 0 and not meta_there:
        what = "no META tag in HEAD although it was not omitted"
    return what


def evs_from_sheet(sheet):
    """the result tree a generated stylesheet (sheet_of/body_of) denotes, read back with Python's XML parser"""
    import xml.dom.minidom
    doc = xml.dom.minidom.parseString(sheet)
    tmpl = [n for n in doc.documentElement.childNodes if n.nodeType == 1 and n.localName == "template"][-1]
    evs = []

    def walk(n):
        for c in n.childNodes:
            if c.nodeType != 1:
                continue
            if c.namespaceURI == XSL:
                txt = "".join(x.data for x in c.childNodes if x.nodeType in (3, 4))
                if c.localName == "text":
                    evs.append(("T", u16(txt)))
                elif c.localName == "comment":
                    evs.append(("M", u16(txt)))
                elif c.localName == "processing-instruction":
                    evs.append(("P", u16(c.getAttribute("name")), u16(txt)))
            else:
                attrs = [(u16(a.name), u16(a.value.replace("{{", "{").replace("}}", "}"))) for a in (c.attributes.item(i) for i in range(c.attributes.length))]
                evs.append(("S", u16(c.tagName), attrs))
                walk(c)
                evs.append(("E", u16(c.tagName)))
    walk(tmpl)
    outs = [dict((a.name, a.value) for a in (o.attributes.item(i) for i in range(o.attributes.length)))
            for o in doc.documentElement.childNodes if o.nodeType == 1 and o.localName == "output"]
    return evs, outs
