# KN10 (apply to <doc/>)
<xsl:stylesheet version="1.0" xmlns:xsl="http://www.w3.org/1999/XSL/Transform"><xsl:attribute-set name="s"><xsl:attribute name="p:z" namespace="u6">u5</xsl:attribute></xsl:attribute-set><xsl:template match="/"><o xmlns:p="u4"><e p:a="u7" xsl:use-attribute-sets="s"></e></o></xsl:template></xsl:stylesheet>
