(* model side of the instruction-level guard correspondence (C04 part xslt).
   One case per line:  <id> c|p <u16 token>      output:  <id> <u16 token of the fixed data>  *)
let () =
  iter_lines stdin (fun line ->
    match split_ws line with
    | [id; kind; t] ->
        let s = u16_of_token t in
        let r = if kind = "c" then fix_comment s else fix_pi s in
        print_string (id ^ " " ^ token_of_u16 r ^ "\n")
    | _ -> ())
