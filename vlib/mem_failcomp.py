"""C19 balance oracle, class "compilation that FAILS half-way": one rich stylesheet using every construct that owns
separately allocated objects (xsl:sort under for-each and apply-templates, xsl:key, xsl:decimal-format, attribute
sets, xsl:number, AVTs, literal result elements with namespaces, extension namespaces, top-level params / variables
with bodies, xsl:output / strip-space / preserve-space / cdata-section-elements lists, namespace-alias, imports and
includes), and an ordinary (non-allocation) error placed SYSTEMATICALLY after the k-th top-level child or after the
k-th instruction of the main template - or inside the imported / included module.  Every variant goes through
XalanTransformer::compileStylesheet() and through the one-shot transform() (harness/mem_sweep.cpp `compile` /
`transform`, mode count): the API must report an error, and after ~XalanTransformer nothing may be outstanding in
the transformer's manager, no foreign free, no double free.  No allocation is refused here."""
import os
from concurrent.futures import ThreadPoolExecutor

from . import core
from . import mem_sweep

HEAD = ('<?xml version="1.0"?>\n<xsl:stylesheet version="1.0" xmlns:xsl="http://www.w3.org/1999/XSL/Transform"\n'
        '    xmlns:a="urn:verif:a" xmlns:b="urn:verif:b" xmlns:ext="urn:verif:ext" xmlns:ext2="urn:verif:ext2"\n'
        '    xmlns:alias="urn:verif:alias" extension-element-prefixes="ext ext2" exclude-result-prefixes="a">\n')
TAIL = '</xsl:stylesheet>\n'

# top-level children, in document order (imports first, as XSLT requires)
TOP = [
    '<xsl:import href="%(imp)s"/>',
    '<xsl:include href="%(inc)s"/>',
    '<xsl:output method="xml" indent="no" cdata-section-elements="c1 a:c2 c3" doctype-public="-//V//P" doctype-system="v.dtd"/>',
    '<xsl:strip-space elements="orders order a:*"/>',
    '<xsl:preserve-space elements="item pre"/>',
    '<xsl:namespace-alias stylesheet-prefix="alias" result-prefix="b"/>',
    '<xsl:key name="k1" match="item" use="@sku"/>',
    '<xsl:key name="k2" match="order" use="concat(@cust, \'-\', @id)"/>',
    '<xsl:decimal-format name="eu" decimal-separator="," grouping-separator="." NaN="n/a"/>',
    '<xsl:decimal-format decimal-separator="." grouping-separator=","/>',
    '<xsl:attribute-set name="s1"><xsl:attribute name="x1">1</xsl:attribute><xsl:attribute name="x2"><xsl:value-of select="count(//item)"/></xsl:attribute></xsl:attribute-set>',
    '<xsl:attribute-set name="s2" use-attribute-sets="s1"><xsl:attribute name="y">{2}</xsl:attribute></xsl:attribute-set>',
    '<xsl:param name="p1" select="\'dflt\'"/>',
    '<xsl:param name="p2"><frag><leaf n="1"/><xsl:value-of select="$p1"/></frag></xsl:param>',
    '<xsl:variable name="v1" select="//order[@total &gt; 10]"/>',
    '<xsl:variable name="v2"><rows><xsl:for-each select="//item"><xsl:sort select="@sku"/><r s="{@sku}"/></xsl:for-each></rows></xsl:variable>',
    '<xsl:template name="named"><xsl:param name="arg" select="0"/><n v="{$arg + 1}"><xsl:number value="$arg" format="i"/></n></xsl:template>',
    '<xsl:template match="item" mode="m" priority="2"><i sku="{@sku}" q="{@qty}-{position()}"><xsl:number level="any" count="item" format="1."/></i></xsl:template>',
    '<xsl:template match="order"><o xsl:use-attribute-sets="s2"><xsl:apply-templates select="item" mode="m"><xsl:sort select="@qty" data-type="number" order="descending"/><xsl:sort select="@sku"/></xsl:apply-templates></o></xsl:template>',
    '%(main)s',
    '<xsl:template match="text()" mode="m"/>',
    '<xsl:template match="a:x | b:y"><alias:lit b:att="{name()}"><xsl:copy-of select="."/></alias:lit></xsl:template>',
]

# instructions of the main template, in order
MAIN = [
    '<xsl:variable name="loc" select="key(\'k1\', \'a\')"/>',
    '<xsl:for-each select="orders/order"><xsl:sort select="@total" data-type="number"/><xsl:sort select="@id" order="descending"/><t id="{@id}"/></xsl:for-each>',
    '<a:lit xmlns:c="urn:verif:c" c:att="{$p1}" plain="{count($loc)}-{format-number(1234.5, \'#.##0,0\', \'eu\')}"><b:in/></a:lit>',
    '<xsl:apply-templates select="orders/order"><xsl:sort select="@cust"/><xsl:with-param name="w" select="1"/></xsl:apply-templates>',
    '<xsl:call-template name="named"><xsl:with-param name="arg" select="41"/></xsl:call-template>',
    '<xsl:number value="7" format="A"/>',
    '<xsl:element name="{concat(\'e\', 1)}" namespace="urn:verif:{\'dyn\'}" use-attribute-sets="s1"><xsl:attribute name="{\'at\'}">v</xsl:attribute></xsl:element>',
    '<xsl:choose><xsl:when test="$v1"><w1/></xsl:when><xsl:when test="$v2"><w2/></xsl:when><xsl:otherwise><ow/></xsl:otherwise></xsl:choose>',
    '<xsl:copy-of select="$p2"/>',
    '<xsl:variable name="rtf"><q><xsl:for-each select="//item"><xsl:sort select="@qty"/><xsl:copy/></xsl:for-each></q></xsl:variable>',
    '<ext:unknown-extension-element a="{1}"><xsl:fallback><fb/></xsl:fallback></ext:unknown-extension-element>',
    '<xsl:message><m><xsl:value-of select="$p1"/></m></xsl:message>',
    '<xsl:comment>c<xsl:value-of select="1"/></xsl:comment><xsl:processing-instruction name="pi">d</xsl:processing-instruction>',
    '<xsl:text disable-output-escaping="yes">&lt;raw&gt;</xsl:text>',
]

# ordinary errors (name, top-level form or None, instruction form or None)
ERRORS = [
    ("if-without-test", '<xsl:template name="err1"><xsl:if><x/></xsl:if></xsl:template>', '<xsl:if><x/></xsl:if>'),
    ("bad-xpath", '<xsl:variable name="err2" select="1 + "/>', '<xsl:value-of select="orders/[1]"/>'),
    ("missing-template", '<xsl:template name="err3"><xsl:call-template name="no-such-template"/></xsl:template>', '<xsl:call-template name="no-such-template"/>'),
    ("unknown-xsl-element", '<xsl:no-such-element/>', '<xsl:no-such-instruction/>'),
    ("ill-formed", '<open-but-never-closed>', '<open-but-never-closed>'),
    ("bad-attribute", '<xsl:key name="k3" match="item"/>', '<xsl:sort select="1"/>'),
]

MODULE_OK = ('<?xml version="1.0"?>\n<xsl:stylesheet version="1.0" xmlns:xsl="http://www.w3.org/1999/XSL/Transform">\n'
             '<xsl:key name="mk" match="order" use="@id"/>\n'
             '<xsl:template match="item"><mi><xsl:for-each select="@*"><xsl:sort select="name()"/><at n="{name()}"/></xsl:for-each></mi></xsl:template>\n'
             '%s</xsl:stylesheet>\n')


def main_template(instrs):
    return '<xsl:template match="/"><out>' + "".join(instrs) + '</out></xsl:template>'


def stylesheet(top, main, imp, inc):
    d = {"imp": imp, "inc": inc, "main": main_template(main)}
    return HEAD + "\n".join(t % d if ("%(" in t) else t for t in top) + "\n" + TAIL


def variants(thorough):
    """[(name, {filename: text}, main filename, expect_fail)] - the error position is enumerated, not sampled;
    quick: one error kind per position (rotating), thorough: every kind at every position"""
    out = []
    ok_mod = MODULE_OK % ""
    out.append(("ok", {"main.xsl": stylesheet(TOP, MAIN, "imp.xsl", "inc.xsl"), "imp.xsl": ok_mod, "inc.xsl": ok_mod.replace('"mk"', '"mk2"').replace('match="item"', 'match="item" mode="inc"')}, "main.xsl", False))
    inc_ok = out[0][1]["inc.xsl"]

    def kinds(pos):
        return range(len(ERRORS)) if thorough else [pos % len(ERRORS), (pos + 3) % len(ERRORS)]
    for k in range(2, len(TOP) + 1):                 # after the k-th top-level child (imports must stay first)
        for e in kinds(k):
            name, top_err, _ = ERRORS[e]
            top = TOP[:k] + [top_err] + TOP[k:]
            out.append(("top%02d-%s" % (k, name), {"main.xsl": stylesheet(top, MAIN, "imp.xsl", "inc.xsl"), "imp.xsl": ok_mod, "inc.xsl": inc_ok}, "main.xsl", True))
    for k in range(0, len(MAIN) + 1):                # after the k-th instruction of the main template
        for e in kinds(k):
            name, _, ins_err = ERRORS[e]
            main = MAIN[:k] + [ins_err] + MAIN[k:]
            out.append(("ins%02d-%s" % (k, name), {"main.xsl": stylesheet(TOP, main, "imp.xsl", "inc.xsl"), "imp.xsl": ok_mod, "inc.xsl": inc_ok}, "main.xsl", True))
    for which in ("imp", "inc"):                     # the error is in the imported / included module
        for e in kinds(0 if which == "imp" else 1) if not thorough else range(len(ERRORS)):
            name, top_err, _ = ERRORS[e]
            files = {"main.xsl": stylesheet(TOP, MAIN, "imp.xsl", "inc.xsl"), "imp.xsl": ok_mod, "inc.xsl": inc_ok}
            bad = MODULE_OK % (top_err + "\n")
            files[which + ".xsl"] = bad if which == "imp" else bad.replace('"mk"', '"mk2"').replace('match="item"', 'match="item" mode="inc"')
            out.append(("%s-%s" % (which, name), files, "main.xsl", True))
    # a missing module
    files = {"main.xsl": stylesheet(TOP, MAIN, "imp.xsl", "no-such-module.xsl"), "imp.xsl": ok_mod}
    out.append(("inc-missing", files, "main.xsl", True))
    return out


def write_variant(root, v):
    name, files, main, _ = v
    d = os.path.join(root, name)
    os.makedirs(d, exist_ok=True)
    for f, text in files.items():
        p = os.path.join(d, f)
        if not os.path.exists(p) or open(p).read() != text:
            with open(p, "w") as g:
                g.write(text)
    return os.path.join(d, main)


def replay_line(scenario, name):
    return "failcomp %s %s" % (scenario, name)


def judge(c, expect_fail):
    bad = []
    if c.get("N") is None:
        return ["counting run failed: " + c.get("error", "?")[-200:]]
    bal = (c.get("outstanding"), c.get("foreign"), c.get("double"))
    if bal != (0, 0, 0):
        bad.append("not balanced after a compilation that %s: outstanding=%s foreign=%s double=%s after ~XalanTransformer %s" % (
            ("failed" if expect_fail else "succeeded",) + bal + (c.get("badfree") or "",)))
    if (c.get("status") != 0) != expect_fail:
        bad.append("unexpected API status %s (%s)" % (c.get("status"), "an error was expected" if expect_fail else "success was expected"))
    return bad


def check(ctx, known, exe=None):
    """Returns new failures [dict(case, what)]."""
    new = []
    if exe is None:
        exe, ok, log = core.build_harness("mem_sweep", "plain")
        if not ok:
            ctx.broken.append("oracle: harness/mem_sweep.cpp does not compile against the working tree: " + log[-300:])
            return new
    root = os.path.join(core.OUT, "C19", "failcomp")
    vs = variants(ctx.thorough)
    xml = mem_sweep._p("s1.xml")
    jobs = []
    for v in vs:
        path = write_variant(root, v)
        for scenario in ("compile", "transform"):
            jobs.append((scenario, v[0], path, v[3]))
    with ThreadPoolExecutor(max_workers=core.NPROC) as ex:
        results = list(ex.map(lambda j: mem_sweep.count(exe, j[0], j[2], xml), jobs))
    for (scenario, name, path, expect_fail), c in zip(jobs, results):
        if c.get("N") is None and (c.get("rc") == 127 or "shared libraries" in c.get("error", "")):
            core.build_lib("plain")
            c = mem_sweep.count(exe, scenario, path, xml)
        ctx.cov["evaluations"] += 1
        ctx.count("failcomp:%s:%s" % (scenario, name.split("-", 1)[0][:3]))
        for b in judge(c, expect_fail):
            new.append({"case": replay_line(scenario, name), "what": b})
    ctx.notes["failcomp_variants"] = len(vs)
    return new


def replay(lines, exe=None):
    if exe is None:
        core.build_lib("plain")
        exe, ok, log = core.build_harness("mem_sweep", "plain")
    root = os.path.join(core.OUT, "C19", "failcomp")
    vs = {v[0]: v for v in variants(True)}
    rc = 0
    for ln in lines:
        t = ln.split("#")[0].split()
        if len(t) < 3 or t[0] != "failcomp" or t[2] not in vs:
            continue
        v = vs[t[2]]
        path = write_variant(root, v)
        c = mem_sweep.count(exe, t[1], path, mem_sweep._p("s1.xml"))
        print("%s %s (%s): N=%s outstanding=%s foreign=%s double=%s status=%s" % (t[1], t[2], path, c.get("N"), c.get("outstanding"), c.get("foreign"), c.get("double"), c.get("status")))
        for b in judge(c, v[3]):
            print("#   FAILS: " + b)
            rc = 1
    return rc
